"""
C03 finding 1: MultipleShooting/SingleShooting freeze grid='bspline' signals over each control interval.

Input class: an ODE right-hand side or an ocp.integral integrand that depends on a
grid='bspline' parameter/variable of order>=1, transcribed with a shooting method
(any intg: rk, expl_euler, cvodes, collocation, ...).

What the property demands: the declared model is  x' = s(t) - 0.5 x,  I = int s(t) x dt  with s(t) the
B-spline  sum_i C_i B_i,d(t)  on the control-grid knots (this is what rockit itself returns for
ocp.sample(s, ...), and what DirectCollocation integrates: it evaluates the signals at every collocation time).
The state transition / integral must converge to the exact flow of THAT ode as M grows (order 4 for rk,
tolerance for cvodes).

What rockit does: sampling_method.get_p_sys(stage,k) passes the value of the signal at control node k
(signals[s].sampled[k]) as a constant parameter of the integrator for the whole interval [t_k,t_k+1], for all M
sub-steps.  The error therefore does not depend on M at all (O(1/N) zero-order-hold error), silently.

No NLP solve is needed: SingleShooting propagates the guess of x(t0); the spline is a parameter.
"""
import sys, io, contextlib
import numpy as np
import casadi as ca
from scipy.integrate import solve_ivp
from scipy.interpolate import BSpline
from rockit import Ocp, SingleShooting, MultipleShooting

N, d, t0, T = 3, 2, 0.0, 2.0
C = np.array([0.0, 1.0, -1.0, 2.0, 0.5])           # N+d coefficients

def rockit_flow(M, intg, opts=None):
    ocp = Ocp(t0=t0, T=T)
    x = ocp.state()
    s = ocp.parameter(grid='bspline', order=d)
    ocp.set_der(x, s - 0.5*x)
    I = ocp.integral(s*x)
    ocp.add_objective(I)
    ocp.set_value(s, C.reshape(1, -1))
    ocp.set_initial(x, 1.0)                          # x(t0)=1 is the only decision variable
    ocp.method(SingleShooting(N=N, M=M, intg=intg, intg_options=opts))
    ocp.solver('ipopt')
    ts, xs = ocp.sample(x, grid='control')
    _, ss = ocp.sample(s, grid='control')
    with contextlib.redirect_stdout(io.StringIO()):
        return (np.array(ocp.initial_value(ts)).reshape(-1), np.array(ocp.initial_value(xs)).reshape(-1),
                np.array(ocp.initial_value(ss)).reshape(-1), float(ocp.initial_value(ocp.value(I))))

# independent model: clamped B-spline on the control grid, exact flow with a tight ODE solver
knots = np.concatenate([[t0]*d, np.linspace(t0, t0+T, N+1), [t0+T]*d])
spl = BSpline(knots, C, d)
tgrid = np.linspace(t0, t0+T, N+1)
ref = solve_ivp(lambda t, y: [spl(t)-0.5*y[0], spl(t)*y[0]], (t0, t0+T), [1.0, 0.0], rtol=1e-12, atol=1e-13, t_eval=tgrid)
x_ref, I_ref = ref.y[0], ref.y[1, -1]
# the flow one gets when the signal is frozen at its node value on every control interval (diagnosis)
y = np.array([1.0, 0.0]); x_zoh = [1.0]
for k in range(N):
    sk = float(spl(tgrid[k]))
    y = solve_ivp(lambda t, y: [sk-0.5*y[0], sk*y[0]], (tgrid[k], tgrid[k+1]), y, rtol=1e-12, atol=1e-13).y[:, -1]
    x_zoh.append(y[0])
x_zoh, I_zoh = np.array(x_zoh), y[1]

bad = False
for intg, opts, tol in [('rk', None, 1e-4), ('cvodes', {'abstol': 1e-10, 'reltol': 1e-10}, 1e-6)]:
    for M in [1, 2, 4, 8, 64]:
        ts, xs, ss, Iv = rockit_flow(M, intg, opts)
        assert np.allclose(ts, tgrid)
        # rockit's own read-back of the signal is the continuous spline (so that is the declared model)
        assert np.abs(ss - spl(tgrid)).max() < 1e-12
        ex, eI = np.abs(xs-x_ref).max(), abs(Iv-I_ref)
        print("%-7s M=%-3d  |x-x_exact|=%.3e  |I-I_exact|=%.3e   (vs frozen-signal flow: %.1e, %.1e)" %
              (intg, M, ex, eI, np.abs(xs-x_zoh).max(), abs(Iv-I_zoh)))
        if M == 64 and (ex > tol or eI > tol):
            bad = True
if bad:
    print("VIOLATION: shooting methods integrate a frozen (node-value) copy of grid='bspline' signals: "
          "state transition and ocp.integral do not converge to the declared ODE as M grows (error independent of M)")
    sys.exit(1)
print("OK")
