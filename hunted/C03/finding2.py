"""
C03 finding 2: ocp.integral(expr, grid='control', refine=r) silently ignores refine under
MultipleShooting / SingleShooting / DirectCollocation.

Input class: ocp.integral(expr, grid='control', refine=r) with r>1, any SamplingMethod other than SplineMethod.

What is declared: a left Riemann sum of expr over the control grid refined r times (every control interval
split in r equal parts).  That is the meaning rockit itself gives to the argument: SplineMethod evaluates
  sum_j (t_{j+1}-t_j) * expr(t_j)   over the N*r+1 refined sample times
(spline_method.grid_control honours refine; same fill_placeholders_integral_control code path), and
sample(expr, grid='integrator', refine=r) is the dense output every other method offers.  With growing r the
value converges to the exact integral (first order).

What rockit does: sampling_method.fill_placeholders_integral_control forwards refine to
stage._sample(expr, grid='control', refine=refine) -> Stage._grid_control(..., refine=1), which accepts the
argument and never reads it: the value is the r=1 sum whatever r is (no error, no warning).

Demonstration without NLP solve: x' = 1, x(0)=0 (RK4 and its dense output are exact), integrand x^2 on [0,2], N=4.
"""
import sys, io, contextlib
import numpy as np
from rockit import Ocp, SingleShooting, MultipleShooting, DirectCollocation

N, T = 4, 2.0
def build(method):
    ocp = Ocp(t0=0, T=T)
    x = ocp.state()
    ocp.set_der(x, 1)
    ocp.set_initial(x, ocp.t)         # the exact trajectory, so that MS/DC values below are at a feasible point
    ocp.method(method)
    ocp.solver('ipopt')
    return ocp, x

def left_sum(r):
    ts = np.linspace(0, T, N*r+1)
    return float(np.sum(np.diff(ts)*ts[:-1]**2))

bad = []
for name, mk in [('SingleShooting', lambda: SingleShooting(N=N, M=1)),
                 ('MultipleShooting', lambda: MultipleShooting(N=N, M=2)),
                 ('DirectCollocation', lambda: DirectCollocation(N=N))]:
    ocp, x = build(mk())
    vals = {}
    for r in [1, 5, 50]:
        I = ocp.integral(x**2, grid='control', refine=r)
        with contextlib.redirect_stdout(io.StringIO()):
            vals[r] = float(ocp.initial_value(ocp.value(I)))
    print("%-18s refine=1: %.6f  refine=5: %.6f  refine=50: %.6f | declared left sums: %.6f %.6f %.6f | exact integral %.6f"
          % (name, vals[1], vals[5], vals[50], left_sum(1), left_sum(5), left_sum(50), T**3/3))
    assert abs(vals[1]-left_sum(1)) < 1e-9
    for r in [5, 50]:
        if abs(vals[r]-left_sum(r)) > 1e-6:
            bad.append((name, r, vals[r], left_sum(r)))
if bad:
    print("VIOLATION: integral(expr, grid='control', refine=r) ignores refine under shooting/collocation "
          "(e.g. %s refine=%d gives %.4f, declared refined sum %.4f; SplineMethod honours it)" % bad[0])
    sys.exit(1)
print("OK")
