"""
C02 finding 2: a per-interval variable (grid='control') that is registered through the list form of
register_variable is transcribed as ONE global variable: the collocation equations of every interval are
evaluated with the same decision variable instead of "the interval's" variable.

Input class: stage.register_variable([v1, v2, ...], grid='control' [, include_last=True] [, order=..]) (the list
form that register_state/register_control/register_algebraic also offer).  The same holds for
register_parameter([..], grid='control').

What the property demands: the ODE right-hand side at the collocation times of interval k is evaluated with
interval k's value of a grid='control' variable; the N values are independent unknowns.  So for der(x) = a,
x(0)=0, T=3, N=3 the piecewise-linear trajectory with slopes a = (1, 2, 3) (x at the grid: 0, 1, 3, 6) satisfies
every collocation / continuity equation of an independent implementation and must be representable and feasible.

What rockit does: Stage.register_variable, when handed a list, recurses with
    self.register_variable(e, scale=scale, domain=domain)
and drops grid / order / include_last, so the symbols end up in stage.variables[''] (global).  Nothing is raised.
ocp.sample(a, grid='control-') returns N copies of the same Opti variable, and the collocation residuals of
all intervals depend on that single unknown: the trajectory above cannot be represented; it is infeasible for
every value of that unknown.  Registering the same symbol without the list (reference below) is correct.
"""
import sys
import numpy as np
import casadi as ca
from rockit import Ocp, DirectCollocation

N, deg, T = 3, 2, 3.0


def build(as_list):
    ocp = Ocp(T=T)
    x = ocp.state()
    a = ca.MX.sym('a')
    if as_list:
        ocp.register_variable([a], grid='control')
    else:
        ocp.register_variable(a, grid='control')
    ocp.set_der(x, a)
    ocp.subject_to(ocp.at_t0(x) == 0)
    ocp.method(DirectCollocation(N=N, M=1, degree=deg))
    ocp.solver('ipopt')
    ocp._transcribed
    return ocp, x, a


def min_violation(ocp, x, a):
    """Smallest achievable constraint violation when the states follow the independent collocation solution
    for slopes (1,2,3): states are pinned, the unknowns behind `a` are left to a least-squares fit."""
    opti = ocp._method.opti
    tau = ca.collocation_points(deg, 'radau')
    slopes = np.array([1.0, 2.0, 3.0])
    xgrid = np.concatenate([[0], np.cumsum(slopes * T / N)])
    xroots = np.concatenate([xgrid[k] + slopes[k] * T / N * np.array(tau) for k in range(N)])
    _, Xc = ocp.sample(x, grid='control')
    _, Xr = ocp.sample(x, grid='integrator_roots')
    _, A = ocp.sample(a, grid='control-')
    asyms = ca.symvar(A)
    # g is affine in all unknowns here: solve for opti.x with the states pinned to the reference trajectory
    res = ca.vertcat(opti.g - opti.lbg, ca.vec(Xc) - xgrid, ca.vec(Xr) - xroots)
    f = ca.Function('f', [opti.x], [res, ca.jacobian(res, opti.x)])
    r0, J = f(np.zeros(opti.x.numel()))
    sol = np.linalg.lstsq(np.array(J), -np.array(r0).flatten(), rcond=None)[0]
    r = np.array(f(sol)[0]).flatten()
    return len(asyms), np.max(np.abs(r))


ref = min_violation(*build(False))
lst = min_violation(*build(True))
print("reference (single symbol): %d unknowns behind a, best violation of the (1,2,3)-slope trajectory %.2e" % ref)
print("list form               : %d unknowns behind a, best violation of the (1,2,3)-slope trajectory %.2e" % lst)
assert ref[0] == N and ref[1] < 1e-9, "reference behaviour changed"
if lst[0] != N or lst[1] > 1e-9:
    print("VIOLATION: register_variable([a], grid='control') is transcribed as one global variable; the collocation "
          "equations of all %d intervals share it, so an independently computed trajectory with per-interval values is infeasible" % N)
    sys.exit(1)
print("no violation")
