"""
C02 finding 1: DirectCollocation feeds a grid='bspline' PARAMETER and the stage VARIABLES to the wrong
slots of the ODE right-hand side.

Input class: any OCP transcribed with DirectCollocation whose dynamics use a parameter declared with
grid='bspline' while the stage also owns at least one variable (a plain ocp.variable(), a per-interval
variable, a grid='bspline' variable, or simply a free horizon T=FreeTime(..), which is a hidden variable).

What the property demands: at every collocation time t_kij the derivative of the collocation polynomial equals
the declared right-hand side f(x, u, p_bspline(t_kij), v, t_kij).  Here der(x) = 3*pb - x + 10*v.  The expected
residuals below are computed with numpy/scipy only (own Lagrange differentiation matrix, scipy BSpline for the
parameter signal); the state/variable values are read back through ocp.sample / ocp.value.

What rockit does: DirectCollocation.add_constraints builds the parameter vector of the system function as
    vertcat(get_p_sys(include_signals=False), <all sampled signals>)
i.e. [P, P_control, P_control+, V, V_control, V_control+, signals...], while Stage._ode expects
vertcat(stage.p, stage.v) = [P, P_control, P_control+, P_bspline, V, V_control, V_control+, V_bspline].
The vector has the right length, so nothing is raised: the variable's value lands in the bspline parameter's
slot and vice versa (the ODE that is transcribed is der(x) = 3*v - x + 10*pb).
"""
import sys
import numpy as np
import casadi as ca
from casadi import collocation_points
from scipy.interpolate import BSpline
from rockit import Ocp, DirectCollocation, FreeTime


def lagrange_mats(tau):
    d = len(tau)
    nodes = np.array([0.0] + list(tau))
    C = np.zeros((d + 1, d))
    D = np.zeros(d + 1)
    for j in range(d + 1):
        p = np.poly1d([1.0])
        for r in range(d + 1):
            if r != j:
                p *= np.poly1d([1.0, -nodes[r]]) / (nodes[j] - nodes[r])
        D[j] = p(1.0)
        dp = np.polyder(p)
        for r in range(d):
            C[j, r] = dp(nodes[r + 1])
    return C, D


def evaluate(opti, exprs, xval):
    pval = opti.value(opti.p, opti.initial())
    known = set(hash(e) for e in ca.symvar(ca.veccat(opti.x, opti.p)))
    extra = [e for e in ca.symvar(ca.veccat(*exprs)) if hash(e) not in known]
    ev = ca.veccat(*extra) if extra else ca.MX(0, 1)
    f = ca.Function('f', [opti.x, opti.p, ev], exprs)
    return [np.array(r) for r in f(xval, pval, np.zeros(ev.numel()))]


def run(variant):
    N, M, deg, order = 3, 2, 2, 2
    t0 = 0.0
    if variant == 'free horizon':
        ocp = Ocp(t0=t0, T=FreeTime(2.0))
    else:
        ocp = Ocp(t0=t0, T=2.0)
    x = ocp.state()
    pb = ocp.parameter(grid='bspline', order=order)
    if variant == 'plain variable':
        v = ocp.variable()
        ocp.set_der(x, 3 * pb - x + 10 * v)
    else:
        v = None
        ocp.set_der(x, 3 * pb - x)          # T is not even used in the dynamics
    ocp.method(DirectCollocation(N=N, M=M, degree=deg, scheme='radau'))
    coef = np.array([1.0, -2.0, 0.5, 3.0, 1.5])     # N+order coefficients
    ocp.set_value(pb, ca.DM(coef).T)
    ocp.solver('ipopt')
    ocp._transcribed
    opti = ocp._method.opti

    rng = np.random.RandomState(1)
    xv = rng.rand(opti.x.numel()) + 0.5
    tc, _ = ocp.sample(x, grid='control')
    _, Xi = ocp.sample(x, grid='integrator')
    _, Xr = ocp.sample(x, grid='integrator_roots')
    outs = [opti.g, opti.lbg, opti.ubg, tc, Xi, Xr, ocp.value(ocp.T)]
    if v is not None:
        outs.append(ocp.value(v))
    vals = evaluate(opti, outs, xv)
    g, lbg, ubg, tcv, Xi, Xr, T = [a.flatten() for a in vals[:7]]
    T = T.item()
    vval = vals[7].item() if v is not None else 0.0

    # independent residuals
    tau = collocation_points(deg, 'radau')
    C, D = lagrange_mats(tau)
    xi = np.linspace(0, 1, N + 1)
    knots = np.concatenate([[0.0] * order, xi, [1.0] * order])
    spl = BSpline(knots, coef, order)
    exp = []
    for k in range(N):
        for i in range(M):
            a = k * M + i
            h = (tcv[k + 1] - tcv[k]) / M
            ts = tcv[k] + i * h
            P = np.concatenate([[Xi[a]], Xr[a * deg:(a + 1) * deg]])
            for j in range(deg):
                t = ts + h * tau[j]
                pbv = float(spl((t - t0) / T))
                exp.append(P @ C[:, j] / h - (3 * pbv - Xr[a * deg + j] + 10 * vval))
            exp.append(P @ D - Xi[a + 1])
    exp = np.array(exp)
    eq = lbg == ubg
    res = (g - lbg)[eq]
    assert len(res) == len(exp), (len(res), len(exp))
    err = np.max(np.abs(res - exp))
    print("[%s] max |rockit residual - independent residual| = %.3e" % (variant, err))
    if err > 1e-8:
        kbad = int(np.argmax(np.abs(res - exp)))
        print("    e.g. row %d: rockit %.6f, expected %.6f" % (kbad, res[kbad], exp[kbad]))
    return err


bad = [v for v in ['plain variable', 'free horizon'] if run(v) > 1e-8]
if bad:
    print("VIOLATION: DirectCollocation collocation equations evaluate the ODE with a grid='bspline' parameter and the "
          "stage variables swapped (%s)" % ", ".join(bad))
    sys.exit(1)
print("no violation")
