# C19 finding 3
# DirectCollocation with M>1: a guess for the states sampled on the integrator grid
#   XI = ocp.sample(x, grid='integrator')[1]      (nx x (N*M+1), a valid symbolic argument: X[k] and the intermediate
#                                                  integrator states of every control interval)
# switches OFF the implicit initialisation of the collocation helper states in DirectCollocation.to_function:
#   add_xc = depends_on(all_args, states) and not depends_on(all_args, self.Xc_vars)
# self.Xc_vars holds the collocation-point states AND the intermediate integrator states (x0 for i>0), so listing the
# integrator-grid samples makes the second test fail; the collocation-point states are then left at their current
# values (zero) while all integrator-grid states get the user's numbers.
#
# Pipeline counterpart: the only way to assign a guess per integrator interval with set_initial is an expression of time,
# here the piecewise-constant signal  ocp.set_initial(x, MX(V)[:, j(t)])  with j(t) the index of the integrator interval
# (the same device tests/test_misc.py::test_to_function_init uses to compare the "z" argument with set_initial).
# DirectCollocation.set_initial evaluates it on the integrator grid and at the collocation times, so every collocation
# point of integrator interval j starts from V[:,j] - the same convention the library applies to control-grid guesses
# (Xc_vars0 = repmat(x_k), numeric set_initial: kron(value, ones(1, M*degree))).
# scheme='legendre' keeps all collocation times strictly inside their interval, so j(t) is unambiguous.
#
# Evidence: ipopt max_iter=0 returns the start point. Expected root values are written down by hand (np.repeat).
import sys
import numpy as np
import casadi as ca
from rockit import Ocp, DirectCollocation

N, M, degree = 3, 2, 2
opts0 = {"ipopt.print_level": 0, "print_time": False, "ipopt.sb": "yes", "ipopt.max_iter": 0}

def build():
    ocp = Ocp(T=3.0)
    x = ocp.state(2)
    u = ocp.control()
    ocp.set_der(x, ca.vertcat(x[1], u - x[0]))
    ocp.subject_to(ocp.at_t0(x) == ca.vertcat(1, 0))
    ocp.add_objective(ocp.integral(u**2 + ca.sumsqr(x)))
    ocp.method(DirectCollocation(N=N, M=M, degree=degree, scheme='legendre'))
    ocp.solver('ipopt', opts0)
    return ocp, x, u

np.random.seed(0)
V = np.round(np.random.rand(2, N*M+1), 3) + 1.0      # one column per integrator grid point

# expected start point: integrator-grid states = V, all collocation points of integrator interval j = V[:,j]
roots_expected = np.repeat(V[:, :N*M], degree, axis=1)

# (A) pipeline with the equivalent piecewise-constant guess
ocp, x, u = build()
tg = np.linspace(0, 3.0, N*M+1)                      # integrator grid of the fixed horizon (uniform)
j = sum([ocp.t > tg[k]-1e-9 for k in range(1, N*M+1)])
ocp.set_initial(x, ca.MX(V)[:, j])
try:
    sol = ocp.solve()
except Exception:
    sol = ocp.non_converged_solution
A_intg = np.array(sol.sample(x, grid='integrator')[1]).T
A_roots = np.array(sol.sample(x, grid='integrator_roots')[1]).T
assert np.allclose(A_intg, V) and np.allclose(A_roots, roots_expected), "pipeline deviates from the hand computation"

# (B) to_function with the integrator-grid samples as argument
ocp, x, u = build()
XI = ocp.sample(x, grid='integrator')[1]
f = ocp.to_function('f', [XI], [XI, ocp.sample(x, grid='integrator_roots')[1]])
B_intg, B_roots = [np.array(e) for e in f(V)]

# control: the control-grid argument does initialise the helper states (piecewise constant per control interval)
ocp, x, u = build()
XC = ocp.sample(x, grid='control')[1]
g = ocp.to_function('g', [XC], [ocp.sample(x, grid='integrator_roots')[1]])
C_roots = np.array(g(V[:, ::M]))
assert np.allclose(C_roots, np.repeat(V[:, ::M][:, :N], M*degree, axis=1))

print("integrator-grid states  : pipeline == to_function == V :", np.allclose(B_intg, V))
print("collocation-point states, expected (= pipeline):\n", roots_expected)
print("collocation-point states, to_function:\n", B_roots)
if np.allclose(B_intg, V) and not np.allclose(B_roots, roots_expected):
    print("VIOLATION: DirectCollocation.to_function with states listed on the integrator grid (M>1) leaves the collocation-point helper states at their current value (0) instead of initialising them from the guess like set_initial does")
    sys.exit(1)
print("no violation")
