# C19 finding 2 (same family as finding 1, different victims: the user's own declared guesses)
# Declared initial guesses that are expressions of time / of other guesses are not re-evaluated by to_function
# when the quantity they depend on is passed as an argument; the set_initial / solve pipeline re-evaluates them.
#
#   ocp = Ocp(T=FreeTime(1)); ocp.set_initial(x, ocp.t)           # guess: x(t) = t
#   w = ocp.variable();       ocp.set_initial(y, w*ocp.t/ocp.T)   # guess of y follows the guess of w
#
# Pipeline: ocp.set_initial(ocp.T, 3); ocp.set_initial(w, 2); ocp.solve()
#   Stage.set_initial re-applies every declared guess (before or after a first transcription: "Guesses are
#   expressions of time and of other guesses ... re-evaluate all of them"), so the solver starts from
#   x_k = t_k = k*3/N and y_k = 2*k/N.
# to_function('f',[ocp.value(ocp.T), ocp.value(w)], ...)(3, 2): T and w get 3 and 2, but x and y keep the numbers
#   evaluated when the function was created (T=1, w=0.5): x_k = k*1/N, y_k = 0.5*k/N.
# The property demands that the function returns what the pipeline returns for the same assignments.
# ("arguments not listed keep their current values": the declared guess of x is the expression ocp.t, and that is
#  what the pipeline keeps; to_function keeps a stale numeric evaluation of it instead.)
#
# Evidence without relying on convergence: ipopt with max_iter=0 returns the point the solver starts from.
# Expected values are computed by hand (numpy) and coincide with the pipeline, checked before and after a first
# transcription.
import sys
import numpy as np
from rockit import Ocp, FreeTime, MultipleShooting, DirectCollocation

N = 4
opts0 = {"ipopt.print_level": 0, "print_time": False, "ipopt.sb": "yes", "ipopt.max_iter": 0}

def build(method):
    ocp = Ocp(T=FreeTime(1.0))
    x = ocp.state()
    y = ocp.state()
    u = ocp.control()
    w = ocp.variable()
    ocp.set_der(x, u)
    ocp.set_der(y, w*u)
    ocp.subject_to(ocp.at_t0(x) == 0)
    ocp.subject_to(ocp.at_t0(y) == 0)
    ocp.subject_to(ocp.at_tf(x) == 1)
    ocp.subject_to(-1 <= (u <= 1))
    ocp.subject_to(0.1 <= (w <= 5))
    ocp.add_objective(ocp.T + (ocp.at_tf(y)-2)**2)
    ocp.set_initial(w, 0.5)
    ocp.set_initial(x, ocp.t)            # declared guess x(t) = t
    ocp.set_initial(y, w*ocp.t/ocp.T)    # declared guess y(t) = w*t/T
    ocp.solver('ipopt', opts0)
    ocp.method(method)
    return ocp, x, y, u, w

def run_pipeline(method, transcribe_first):
    ocp, x, y, u, w = build(method)
    if transcribe_first:
        ocp.sample(x, grid='control')    # forces a transcription with the declared guesses (T=1, w=0.5)
    ocp.set_initial(ocp.T, 3.0)
    ocp.set_initial(w, 2.0)
    try:
        sol = ocp.solve()
    except Exception:
        sol = ocp.non_converged_solution
    return [np.array(sol.sample(e, grid='control')[1]).squeeze() for e in (x, y)] + [float(sol.value(ocp.T)), float(sol.value(w))]

def run_function(method):
    ocp, x, y, u, w = build(method)
    f = ocp.to_function('f', [ocp.value(ocp.T), ocp.value(w)],
                        [ocp.sample(x, grid='control')[1], ocp.sample(y, grid='control')[1], ocp.value(ocp.T), ocp.value(w)])
    r = f(3.0, 2.0)
    return [np.array(r[0]).squeeze(), np.array(r[1]).squeeze(), float(r[2]), float(r[3])]

bad = []
for mname, m in [("MultipleShooting", lambda: MultipleShooting(N=N)), ("DirectCollocation", lambda: DirectCollocation(N=N, degree=2))]:
    x_expected = np.linspace(0, 3.0, N+1)              # x_k = t_k with T=3
    y_expected = 2.0*np.linspace(0, 1.0, N+1)          # y_k = w*t_k/T with w=2
    for first in [False, True]:
        P = run_pipeline(m(), first)
        assert np.allclose(P[0], x_expected) and np.allclose(P[1], y_expected) and P[2] == 3.0 and P[3] == 2.0, "pipeline deviates from the hand computation"
    F = run_function(m())
    print(mname)
    print("  expected (= pipeline) start: x", x_expected, " y", y_expected, " T 3 w 2")
    print("  to_function start          : x", F[0], " y", F[1], " T", F[2], "w", F[3])
    assert F[2] == 3.0 and F[3] == 2.0
    if not (np.allclose(F[0], x_expected) and np.allclose(F[1], y_expected)):
        bad.append(mname)

if bad:
    print("VIOLATION: to_function does not re-evaluate declared guesses that depend on the listed T / variable guesses (x=t, y=w*t/T stay at the values for the old T and w); set_initial+solve does (%s)" % ", ".join(bad))
    sys.exit(1)
print("no violation")
