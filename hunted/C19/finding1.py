# C19 finding 1
# to_function(args=[guess of a free horizon T]) does not initialise the helper time variables of a
# localized / free time grid (UniformGrid(localize_T=True), UniformGrid(localize_t0=True), FreeGrid(),
# GeometricGrid(.., localize_T=True)), whereas the set_initial / solve pipeline does.
#
# Pipeline: ocp.set_initial(ocp.T, 3.0); ocp.solve()  -> SamplingMethod.apply_initial evaluates the time grid at
#   the guess of T and uses it as guess for the local variables T_local[k] / t0_local[k]:
#   the solver starts from the control grid  k*3/N  (consistent with T=3).
# to_function('f',[ocp.value(ocp.T)],...)(3.0): only the decision variable T gets 3.0, the local interval
#   variables keep the numbers computed from the guess that was current when the function was created (T=1):
#   the solver starts from a control grid that ends at 1.0 (FreeGrid, localize_t0) or 1.5 (localize_T) while T=3,
#   a start point that even violates the linear coupling constraints between T and the local variables.
# These helper variables have no public handle, so the user cannot list them as arguments (same situation as the
# collocation helper states, which DirectCollocation.to_function does initialise implicitly).
#
# Evidence without relying on convergence: ipopt with max_iter=0 returns the point the solver starts from
# (no simple bounds are present: Opti passes all constraints through g). Expected start grid: t_k = k*T_guess/N
# (normalized uniform grid scaled by the guess of T; this is also what the pipeline produces).
# As a consequence the results "after solving" differ as well whenever the start point matters (iteration-limited
# solves, non-unique optima): shown at the end for FreeGrid (informative, not used for the verdict).
import sys
import numpy as np
import casadi as ca
from rockit import Ocp, FreeTime, MultipleShooting, DirectCollocation, UniformGrid, FreeGrid

N = 4
T_DECLARED = 1.0   # guess carried by the FreeTime declaration when the function is created
T_GUESS = 3.0      # value passed as argument / assigned with set_initial

def build(grid, method_cls, opts, **kw):
    ocp = Ocp(T=FreeTime(T_DECLARED))
    x = ocp.state()
    u = ocp.control()
    ocp.set_der(x, u)
    ocp.subject_to(ocp.at_t0(x) == 0)
    ocp.subject_to(ocp.at_tf(x) == 1)
    ocp.subject_to(-1 <= (u <= 1))
    ocp.add_objective(ocp.T)
    ocp.solver('ipopt', opts)
    ocp.method(method_cls(N=N, grid=grid, **kw))
    return ocp, x, u

def pipeline(grid, method_cls, opts, **kw):
    ocp, x, u = build(grid, method_cls, opts, **kw)
    ocp.set_initial(ocp.T, T_GUESS)
    try:
        sol = ocp.solve()
    except Exception:
        sol = ocp.non_converged_solution
    return np.array(sol.sample(x, grid='control')[0]).squeeze(), float(sol.value(ocp.T))

def function(grid, method_cls, opts, **kw):
    ocp, x, u = build(grid, method_cls, opts, **kw)
    f = ocp.to_function('f', [ocp.value(ocp.T)], [ocp.sample(x, grid='control')[0], ocp.value(ocp.T)])
    t, T = f(T_GUESS)
    return np.array(t).squeeze(), float(T)

opts0 = {"ipopt.print_level": 0, "print_time": False, "ipopt.sb": "yes", "ipopt.max_iter": 0}
bad = []
for gname, g in [("UniformGrid()", lambda: UniformGrid()),   # control: no local variables, must agree
                 ("UniformGrid(localize_T=True)", lambda: UniformGrid(localize_T=True)),
                 ("UniformGrid(localize_t0=True)", lambda: UniformGrid(localize_t0=True)),
                 ("FreeGrid()", lambda: FreeGrid())]:
    for mc, kw in [(MultipleShooting, {}), (DirectCollocation, {"degree": 2})]:
        expected = np.linspace(0, T_GUESS, N+1)          # independent: uniform grid scaled by the guess of T
        tp, Tp = pipeline(g(), mc, opts0, **kw)
        tf, Tf = function(g(), mc, opts0, **kw)
        ok_pipeline = np.allclose(tp, expected, atol=1e-9) and abs(Tp-T_GUESS) < 1e-9
        ok_function = np.allclose(tf, expected, atol=1e-9) and abs(Tf-T_GUESS) < 1e-9
        print("%-30s %-18s start grid pipeline %s (T=%g) | to_function %s (T=%g)" % (gname, mc.__name__, tp, Tp, tf, Tf))
        assert ok_pipeline, "pipeline does not start from the expected grid"
        if not ok_function:
            bad.append((gname, mc.__name__, tf))

# Informative: converged results differ too when the optimum is not unique (FreeGrid: interval lengths are free)
optsC = {"ipopt.print_level": 0, "print_time": False, "ipopt.sb": "yes", "ipopt.max_iter": 300}
tp, Tp = pipeline(FreeGrid(), MultipleShooting, optsC)
tf, Tf = function(FreeGrid(), MultipleShooting, optsC)
print("converged FreeGrid MultipleShooting: pipeline grid %s T=%g | to_function grid %s T=%g" % (tp, Tp, tf, Tf))

if bad:
    for b in bad:
        print("  wrong start grid with %s / %s: %s (expected %s)" % (b[0], b[1], b[2], np.linspace(0, T_GUESS, N+1)))
    print("VIOLATION: to_function with a guess for the free horizon T leaves the local time-grid variables (T_local/t0_local) at their old guess; set_initial(T)+solve re-initialises them (%d configurations)" % len(bad))
    sys.exit(1)
print("no violation")
