"""
C14 finding 3: scale= of a B-spline variable (ocp.variable(grid='bspline', order=d, scale=s)) is
silently ignored by every sampling method.

The property demands "solver variables are the physical ones divided by their scale": the B-spline
coefficients that parametrise the signal must be s * (solver variables).  Independent expectation:
B-spline basis functions form a partition of unity, so for every time t
      sum_j d b(t) / d w_j  =  s        (w_j: solver variables behind the coefficients)
rockit creates the coefficient matrix with opti.variable(p.size1(), N+d) WITHOUT scale
(SamplingMethod.add_variables_V), so the sum is 1: the declared nominal value is dropped, whereas the
same scale on an ordinary variable / a grid='control' variable is honoured (control experiment).
"""
import sys, io, contextlib
import numpy as np
import casadi as ca
import rockit
from rockit import Ocp, MultipleShooting, SingleShooting, DirectCollocation

S = 7.0
violations = []
for name, mk in [('MultipleShooting', lambda: MultipleShooting(N=4, intg='rk')),
                 ('SingleShooting', lambda: SingleShooting(N=4, intg='rk')),
                 ('DirectCollocation', lambda: DirectCollocation(N=4, degree=2))]:
    ocp = Ocp(T=2)
    x = ocp.state()
    b = ocp.variable(grid='bspline', order=2, scale=S)
    c = ocp.variable(grid='control', scale=S)   # control experiment
    g = ocp.variable(scale=S)                   # control experiment
    ocp.set_der(x, b + c + g)
    ocp.add_objective(ocp.integral(x ** 2 + b ** 2))
    ocp.solver('ipopt')
    ocp.method(mk())
    with contextlib.redirect_stdout(io.StringIO()):
        bs = ocp.sample(b, grid='control')[1]
        cs = ocp.sample(c, grid='control-')[1]
        gs = ocp.value(g)
    opti = ocp._method.opti
    w = opti.x
    rowsum = lambda e: np.array(ca.evalf(ca.sum2(ca.jacobian(ca.vec(e), w)))).reshape(-1)
    rb, rc, rg = rowsum(bs), rowsum(cs), rowsum(gs)
    print("%-18s sum_j d b(t_k)/d w_j = %s   (demanded: %g);  grid='control' variable: %s;  plain variable: %s" % (name, np.round(rb, 6), S, np.round(rc, 6), np.round(rg, 6)))
    assert np.allclose(rc, S) and np.allclose(rg, S), "control experiment failed"
    if not np.allclose(rb, S):
        violations.append("%s: bspline coefficients are %g*solver variables instead of %g*" % (name, rb[0], S))

if violations:
    print("VIOLATION: scale= of grid='bspline' variables is ignored: " + "; ".join(violations))
    sys.exit(1)
print("no violation")
