"""
C14 finding 5: scale= of constraints declared on a master Ocp that has sub-stages but no transcription
method of its own (the usual multi-stage set-up: stitching constraints, constraints on shared
variables) is silently ignored.

    ocp = Ocp(); s1 = ocp.stage(...); s2 = ocp.stage(...)
    ocp.subject_to(s1.at_tf(x) == s2.at_t0(x), scale=DM([7, 11]))
    ocp.subject_to(g**2 <= 5, scale=17)

Property: every constraint residual and its bounds are divided by its scale, i.e. the rows must be
(x1(tf)-x2(t0))/[7,11] == 0 and g^2/17 <= 5/17.  DirectMethod.transcribe (the method of such a master) does
    for c, m, _ in stage._constraints["point"]: self.opti.subject_to(self.eval_top(stage, c), meta = m)
and drops the constraint's args: the rows are x1(tf)-x2(t0) == 0 and g^2 <= 5.
Control experiment: the same kind of constraint declared on a sub-stage (or on an Ocp with a method) is scaled.
"""
import sys, io, contextlib, warnings
warnings.filterwarnings('ignore')
import numpy as np
import casadi as ca
from casadi import DM, vertcat
import rockit
from rockit import Ocp, MultipleShooting

ocp = Ocp()
g = ocp.variable()
stages = []
for i in range(2):
    s = ocp.stage(t0=0, T=1)
    x = s.state(2)
    u = s.control()
    s.set_der(x, vertcat(x[1], u))
    s.add_objective(s.integral(u ** 2))
    s.method(MultipleShooting(N=2, intg='rk'))
    stages.append((s, x, u))
(s1, x1, u1), (s2, x2, u2) = stages
s1.subject_to(s1.at_t0(x1) == 0.5, scale=DM([2, 4]))                         # control experiment (sub-stage)
ocp.subject_to(s1.at_tf(x1) == s2.at_t0(x2), scale=DM([7, 11]))              # stitching, on the master
ocp.subject_to(g ** 2 <= 5, scale=17)                                        # shared variable, on the master
ocp.add_objective(g ** 2)
ocp.solver('ipopt')
with contextlib.redirect_stdout(io.StringIO()):
    X1 = s1.sample(x1, grid='control')[1]; X2 = s2.sample(x2, grid='control')[1]
    xf1 = X1[:, -1]; x02 = X2[:, 0]; x01 = X1[:, 0]; gv = ocp.value(g)
opti = ocp._method.opti
F = ca.Function('F', [opti.x], [opti.g, opti.lbg, opti.ubg, xf1, x02, gv, x01])
w = np.random.RandomState(3).uniform(0.5, 1.5, opti.nx)
G, LB, UB, xf1, x02, gv, x01 = [np.array(e).reshape(-1) for e in F(w)]
rows = list(zip(np.round(G, 9), np.round(LB, 9), np.round(UB, 9)))


def has_row(gval, lb, ub):
    return any(abs(a - gval) < 1e-8 and (a_lb == lb or abs(a_lb - lb) < 1e-8) and abs(a_ub - ub) < 1e-8 for a, a_lb, a_ub in rows)


violations = []
# control experiment: sub-stage point constraint, Opti canonical form  x/scale == 0.5/scale
for j, sc in enumerate([2.0, 4.0]):
    assert has_row(x01[j] / sc, 0.5 / sc, 0.5 / sc), "control experiment failed"
print("sub-stage constraint  at_t0(x1)==0.5, scale=[2,4]   : rows x/2==0.25, x/4==0.125 present (scaled)")
# stitching constraint
for j, sc in enumerate([7.0, 11.0]):
    r = xf1[j] - x02[j]
    scaled, plain = has_row(r / sc, 0, 0), has_row(r, 0, 0)
    print("master stitching row %d, scale=%g: demanded residual %.6f -> present: %s ; unscaled residual %.6f present: %s" % (j, sc, r / sc, scaled, r, plain))
    if not scaled:
        violations.append("stitching row %d not divided by %g" % (j, sc))
scaled, plain = has_row(gv[0] ** 2 / 17, -np.inf, 5 / 17), has_row(gv[0] ** 2, -np.inf, 5)
print("master row g^2<=5, scale=17: demanded g^2/17<=%.4f present: %s ; g^2<=5 present: %s" % (5 / 17, scaled, plain))
if not scaled:
    violations.append("g^2<=5 not divided by 17")

if violations:
    print("VIOLATION: constraint scale= on a method-less master Ocp is ignored: " + "; ".join(violations))
    sys.exit(1)
print("no violation")
