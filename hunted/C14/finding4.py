"""
C14 finding 4: SplineMethod silently ignores every scale= except the one of point constraints:
  (a) scale= of states/controls: the spline coefficients are created with opti.variable(len(chains), N+d)
      without scale (SplineMethod.add_variables),
  (b) scale= of path constraints on grid='control' (SplineMethod.add_constraints_noninf) and
  (c) scale= of path constraints on grid='inf'     (SplineMethod.add_constraints_inf):
      both loops use only (lb, canon, ub) of the constraint and never read args["scale"].

Property: solver variables = physical/scale; every constraint residual and its bounds are divided by
its scale.

Independent expectations
  (a) p is a state that is the head of an integrator chain p'=v, v'=a: SplineMethod represents p(t) as a
      B-spline whose coefficients are the decision variables.  By partition of unity of the basis
          sum_j d p(t_k)/d w_j = scale_p (=10)     for every grid time t_k.
  (b),(c) with unscaled states, transcribing the same OCP with constraint scale 1 and scale 5 at the same
      decision vector must give rows g5 = g1/5, ubg5 = ubg1/5, lbg5 = lbg1/5.
"""
import sys, io, contextlib, warnings
warnings.filterwarnings('ignore')
sys.path.insert(0, '/verif/pydeps')   # networkx (pure python copy), needed by SplineMethod
import numpy as np
import casadi as ca
from casadi import DM
import rockit
from rockit import Ocp, SplineMethod

violations = []


def build(scale_p, scale_c, grid):
    ocp = Ocp(T=2)
    p = ocp.state(scale=scale_p)
    v = ocp.state()
    a = ocp.control()
    ocp.set_der(p, v)
    ocp.set_der(v, a)
    if grid == 'control':
        ocp.subject_to(-3 <= (a <= 4), scale=scale_c)
    else:
        ocp.subject_to(-3 <= (p <= 4), grid='inf', scale=scale_c)
    ocp.subject_to(ocp.at_t0(p) == 1, scale=3)
    ocp.add_objective(ocp.at_tf(p) ** 2)
    ocp.solver('ipopt')
    ocp.method(SplineMethod(N=4))
    with contextlib.redirect_stdout(io.StringIO()):
        ps = ocp.sample(p, grid='control')[1]
    opti = ocp._method.opti
    return ocp, opti, ps


# (a) state scale
ocp, opti, ps = build(10.0, 1, 'control')
rowsum = np.array(ca.Function('J', [opti.x], [ca.sum2(ca.jacobian(ca.vec(ps), opti.x))])(np.zeros(opti.nx))).reshape(-1)
print("(a) state p declared with scale=10: sum_j d p(t_k)/d w_j =", np.round(rowsum, 6), "(demanded: 10)")
if not np.allclose(rowsum, 10.0):
    violations.append("state scale ignored (spline coefficients are %g*solver variables, not 10*)" % rowsum[0])

# (b), (c) path constraint scale
rng = np.random.RandomState(0)
for grid in ['control', 'inf']:
    _, o1, _ = build(1, 1, grid)
    _, o5, _ = build(1, 5.0, grid)
    F1 = ca.Function('F', [o1.x], [o1.g, o1.lbg, o1.ubg])
    F5 = ca.Function('F', [o5.x], [o5.g, o5.lbg, o5.ubg])
    w = rng.uniform(-1, 1, o1.nx)
    g1, lb1, ub1 = [np.array(e).reshape(-1) for e in F1(w)]
    g5, lb5, ub5 = [np.array(e).reshape(-1) for e in F5(w)]
    sel = lb1 != ub1          # the double inequality rows (the point constraint is an equality)
    ok = np.allclose(g5[sel], g1[sel] / 5) and np.allclose(ub5[sel], ub1[sel] / 5) and np.allclose(lb5[sel], lb1[sel] / 5)
    same = np.allclose(g5[sel], g1[sel]) and np.allclose(ub5[sel], ub1[sel]) and np.allclose(lb5[sel], lb1[sel])
    eq_ok = np.allclose(g5[~sel], g1[~sel])   # point constraint (scale 3 in both)
    print("(%s) path constraint grid=%-8s scale=5: bounds [%s, %s] (demanded [-0.6, 0.8]) -> %s" % ('b' if grid == 'control' else 'c', grid, np.unique(lb5[sel]), np.unique(ub5[sel]), "scaled" if ok else ("scale IGNORED" if same else "other mismatch")))
    if not ok:
        violations.append("path constraint scale ignored on grid='%s'" % grid)

# control experiment: point constraints are scaled by SplineMethod
_, o, _ = build(1, 1, 'control')
g, lb, ub = [np.array(e).reshape(-1) for e in ca.Function('F', [o.x], [o.g, o.lbg, o.ubg])(np.zeros(o.nx))]
print("    point constraint at_t0(p)==1 with scale=3: lbg =", lb[lb == ub], "(1/3: honoured)")

if violations:
    print("VIOLATION: SplineMethod ignores scale=: " + "; ".join(violations))
    sys.exit(1)
print("no violation")
