"""
C14 finding 2: scale= of a path constraint with grid='inf' is silently ignored.

   ocp.subject_to(x <= 4, grid='inf', scale=5)

The property demands that the residual and the bounds of every constraint are divided by its
scale: the NLP rows of this constraint must read  b_i(w)/5 <= 4/5  where b_i are the Bernstein
coefficients of the state polynomial on each integrator interval.  rockit produces
b_i(w) <= 4, exactly as if scale had not been given (SamplingMethod.add_inf_constraints does not
receive the constraint's args and calls opti.subject_to without scale; the callers in
MultipleShooting/SingleShooting/DirectCollocation.add_constraints drop args: `for c, meta, _ in ...["inf"]`).
The same constraint on grid='control' is scaled correctly (shown as a control experiment).

Independent expectation (MultipleShooting, intg='rk', dynamics der(x)=u): on interval k the RK4
polynomial is exactly x_k + u_k*t, whose degree-4 Bernstein coefficients on [0,dt] are
x_k + (i/4)*dt*u_k, i=0..4.  So the inequality rows must be (x_k+(i/4)*dt*u_k)/5 <= 0.8.
"""
import sys, io, contextlib
import numpy as np
import casadi as ca
from casadi import DM
import rockit
from rockit import Ocp, MultipleShooting, SingleShooting, DirectCollocation

N, T, SC, UB = 3, 2.0, 5.0, 4.0


def build(method, grid, scale):
    ocp = Ocp(T=T)
    x = ocp.state()
    u = ocp.control()
    ocp.set_der(x, u)
    ocp.subject_to(x <= UB, grid=grid, scale=scale)
    ocp.add_objective(ocp.integral(u ** 2))
    ocp.solver('ipopt')
    ocp.method(method)
    with contextlib.redirect_stdout(io.StringIO()):
        xs = ocp.sample(x, grid='control')[1]
        us = ocp.sample(u, grid='control-')[1]
    opti = ocp._method.opti
    F = ca.Function('F', [opti.x], [opti.g, opti.lbg, opti.ubg, xs, us])
    return opti, F


def ineq_rows(F, w):
    g, lb, ub, xs, us = [np.array(e).reshape(-1) for e in F(w)]
    sel = np.isinf(lb)  # the only inequality of the problem is the path constraint
    return g[sel], ub[sel], xs, us


violations = []
rng = np.random.RandomState(1)

# --- (a) independent formula, MultipleShooting rk --------------------------------------------
opti, F = build(MultipleShooting(N=N, intg='rk'), 'inf', SC)
w = rng.uniform(-1, 1, opti.nx)
g, ub, xs, us = ineq_rows(F, w)
dt = T / N
expected = np.array([(xs[k] + i / 4.0 * dt * us[k]) / SC for k in range(N) for i in range(5)])
print("MultipleShooting grid='inf' scale=5")
print("  expected rows  g:", np.round(expected, 4), " ub:", UB / SC)
print("  rockit   rows  g:", np.round(g, 4), " ub:", np.unique(ub))
if g.size != expected.size:
    print("  (unexpected number of rows)")
elif np.allclose(np.sort(g), np.sort(expected)) and np.allclose(ub, UB / SC):
    print("  scaled as demanded")
else:
    if np.allclose(np.sort(g), np.sort(expected * SC)) and np.allclose(ub, UB):
        violations.append("MultipleShooting: grid='inf' rows are b_i <= 4 instead of b_i/5 <= 0.8 (scale ignored)")
    else:
        violations.append("MultipleShooting: grid='inf' rows differ from b_i/5 <= 0.8")

# --- (b) all sampling methods: rows with scale=5 must be rows with scale=1 divided by 5 -------
for name, mk in [('MultipleShooting', lambda: MultipleShooting(N=N, M=2, intg='rk')),
                 ('SingleShooting', lambda: SingleShooting(N=N, intg='rk')),
                 ('DirectCollocation', lambda: DirectCollocation(N=N, degree=4))]:
    for grid in ['control', 'inf']:
        o1, F1 = build(mk(), grid, 1)
        o5, F5 = build(mk(), grid, SC)
        w = rng.uniform(-1, 1, o1.nx)   # no variable is scaled: same decision vector
        g1, ub1, _, _ = ineq_rows(F1, w)
        g5, ub5, _, _ = ineq_rows(F5, w)
        ok = g1.shape == g5.shape and np.allclose(g5, g1 / SC) and np.allclose(ub5, ub1 / SC)
        same = g1.shape == g5.shape and np.allclose(g5, g1) and np.allclose(ub5, ub1)
        print("%-18s grid=%-8s ub(scale=1)=%s ub(scale=5)=%s  -> %s" % (name, grid, np.unique(ub1), np.unique(ub5), "scaled" if ok else ("scale IGNORED" if same else "other mismatch")))
        if not ok and grid == 'inf':
            violations.append("%s: grid='inf' constraint rows identical with and without scale=5" % name)
        if not ok and grid == 'control':
            violations.append("%s: grid='control' constraint not scaled either" % name)

if violations:
    print("VIOLATION: scale= of grid='inf' path constraints is ignored: " + "; ".join(violations))
    sys.exit(1)
print("no violation")
