"""
C14 finding 1: scale= on an integer-valued control / variable changes the feasible set.

A control or variable declared with domain='integer' must take values in Z (physical units).
The scaling property says that scale= only changes the solver variable (physical/scale), never
the set of admissible physical values.  rockit marks the *scaled* solver variable as integer
(OptiWrapper.variable: Opti.set_domain(v, 'integer'); return scale*v), so the physical quantity
is restricted to the lattice scale*Z instead of Z:
   scale=10  -> u in {...,-10,0,10,...}   (u=3 is no longer admissible)
   scale=0.5 -> u in {...,0,0.5,1,...}    (u=2.5 becomes admissible)

Evidence 1 (no solve): the solver symbol behind the physical control is flagged integer and
  d(physical)/d(solver symbol) = scale != 1.
Evidence 2 (if bonmin is available): min (u-3)^2 + (n-7)^2 over integer u, n has the unique
  solution u=3, n=7 whatever the scale; rockit returns u=0, n=10 for scale=10, and for scale=0.5
  min (u-2.5)^2 returns the non-integer u=2.5.
"""
import sys, io, contextlib
import numpy as np
import casadi as ca
import rockit
from rockit import Ocp, MultipleShooting

violations = []


def build(scale, target_u, target_n):
    ocp = Ocp(T=1)
    x = ocp.state()
    u = ocp.control(domain='integer', scale=scale)
    n = ocp.variable(domain='integer', scale=scale)
    nc = ocp.variable(grid='control', domain='integer', scale=scale)
    ocp.set_der(x, u)
    ocp.subject_to(ocp.at_t0(x) == 0)
    ocp.add_objective(ocp.integral((u - target_u) ** 2) + (n - target_n) ** 2 + ocp.sum((nc - target_n) ** 2))
    ocp.method(MultipleShooting(N=2, intg='rk'))
    return ocp, x, u, n, nc


# ---------------- Evidence 1: structure of the transcription -----------------
for scale in [10, 0.5]:
    ocp, x, u, n, nc = build(scale, 3, 7)
    ocp.solver('ipopt')
    with contextlib.redirect_stdout(io.StringIO()):
        us = ocp.sample(u, grid='control-')[1]
        ns = ocp.value(n)
        ncs = ocp.sample(nc, grid='control-')[1]
    opti = ocp._method.opti
    adv = opti.advanced
    for name, phys in [('control u', us[0]), ('variable n', ns), ("variable(grid='control') nc", ncs[0])]:
        syms = ca.symvar(phys)
        assert len(syms) == 1
        s = syms[0]
        is_int = adv.get_meta(s).domain == ca.OPTI_DOMAIN_INTEGER if hasattr(ca, 'OPTI_DOMAIN_INTEGER') else adv.get_meta(s).domain == 1
        step = float(ca.evalf(ca.jacobian(phys, s)))
        print("scale=%g: %s = %g * (solver symbol %s), solver symbol integer: %s  -> admissible physical values: %g*Z" % (scale, name, step, s.name(), is_int, step))
        # property: admissible physical values must be Z, i.e. the integer lattice must have step 1
        if is_int and abs(step - 1) > 1e-12:
            violations.append("scale=%g on integer %s restricts it to %g*Z instead of Z" % (scale, name, step))

# ---------------- Evidence 2: actual MINLP solve ------------------------------
if ca.has_nlpsol('bonmin'):
    opts = {'bonmin.print_level': 0, 'print_time': False, 'bonmin.bb_log_level': 0, 'bonmin.nlp_log_level': 0}
    for scale, tu, tn, exp_u, exp_n in [(1, 3, 7, 3, 7), (10, 3, 7, 3, 7), (0.5, 2.5, 7, None, 7)]:
        ocp, x, u, n, nc = build(scale, tu, tn)
        ocp.solver('bonmin', opts)
        try:
            sol = ocp.solve()
        except Exception as e:
            print("bonmin solve failed:", str(e)[:100]); continue
        usol = sol.sample(u, grid='control-')[1]
        nsol = sol.value(n)
        print("scale=%g: minimise (u-%g)^2+(n-%g)^2 over integers -> u=%s n=%g" % (scale, tu, tn, usol, nsol))
        if not np.allclose(usol, np.round(usol)):
            violations.append("scale=%g: integer control takes the non-integer value %s" % (scale, usol))
        if exp_u is not None and not np.allclose(usol, exp_u):
            violations.append("scale=%g: integer optimum u=%g expected, got %s" % (scale, exp_u, usol))
        if abs(nsol - exp_n) > 1e-6:
            violations.append("scale=%g: integer optimum n=%g expected, got %g" % (scale, exp_n, nsol))
else:
    print("(bonmin not available: skipping the MINLP demonstration)")

if violations:
    print("VIOLATION: scale= on domain='integer' controls/variables changes their admissible set (scale*Z instead of Z): " + "; ".join(violations[:3]))
    sys.exit(1)
print("no violation")
