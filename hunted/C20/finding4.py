"""
C20 finding 4: SplineMethod cannot represent per-interval variables (ocp.variable(grid='control'),
also include_last=True) -- it never creates decision variables for them -- but an OCP that uses
one in its objective is accepted; the variable is silently replaced by 0.

    v = ocp.variable(grid='control');  ocp.add_objective(ocp.sum((v-1)**2))

The property demands that a model feature the chosen method cannot represent raises (as the
same variable does when it occurs in a path constraint: "Unknown: MX symbol 'v1'").  If the
feature were supported, there would be N extra decision variables and the term would vanish at
v_k = 1.  rockit (SplineMethod.add_variables calls add_variables_V only, never
add_variables_V_control; SamplingMethod.eval_at_control then substitutes v by the empty
veccat() of self.V_control) produces no variable at all and the constant N*(0-1)**2 in the
objective.

Evidence without a solve: number of NLP decision variables and the NLP objective evaluated at
random decision vectors, compared with the same OCP without v.  The independent expectation for
the objective difference is min_v sum_k (v_k-1)^2 = 0 if supported; anything else means the
declaration was mis-transcribed; the property wants an exception.
"""
import sys
for _d in ('/verif/pydeps', '/verif/pydeps'): sys.path.insert(0, _d)   # networkx (SplineMethod)
import numpy as np
from rockit import Ocp, SplineMethod, MultipleShooting
from casadi import Function

N = 4
def build(method, with_v, include_last=False):
    ocp = Ocp(T=1)
    x = ocp.state(); u = ocp.control()
    ocp.set_der(x, u)
    ocp.subject_to(ocp.at_t0(x) == 0)
    ocp.subject_to(-1 <= (u <= 1))
    ocp.add_objective(ocp.at_tf((x-1)**2))
    v = None
    if with_v:
        v = ocp.variable(grid='control', include_last=include_last)
        ocp.add_objective(ocp.sum((v-1)**2, include_last=include_last))
    ocp.method(method)
    ocp.solver('ipopt', {'ipopt.print_level': 0, 'print_time': False, 'ipopt.sb': 'yes'})
    return ocp, v

def nlp(ocp):
    ocp.jacobian()                      # public call that triggers the transcription
    opti = ocp._method.opti
    return opti.nx, Function('f', [opti.x, opti.p], [opti.f])

violations = []
rng = np.random.default_rng(0)
for include_last in [False, True]:
    ref, _ = build(SplineMethod(N=N), False)
    nx_ref, f_ref = nlp(ref)
    name = "SplineMethod, variable(grid='control', include_last=%s)" % include_last
    try:
        ocp, v = build(SplineMethod(N=N), True, include_last)
        nx, f = nlp(ocp)
        sol = ocp.solve()
    except Exception as e:
        print("ok (refused): %s -> %s" % (name, str(e).strip().splitlines()[0][:100]))
        continue
    n_terms = N+1 if include_last else N
    diffs = []
    for i in range(3):
        w = rng.normal(size=nx_ref)
        diffs.append(float(f(w, [])) - float(f_ref(w, [])))
    print("%s: accepted and solved (%s); decision variables %d (without v: %d); objective - objective_without_v at 3 random points: %s"
          % (name, sol.stats['return_status'], nx, nx_ref, np.round(diffs, 12)))
    if nx == nx_ref and np.allclose(diffs, n_terms*1.0):
        violations.append(name)

# control experiment: MultipleShooting represents the variable (N extra decision variables)
ref, _ = build(MultipleShooting(N=N), False); ocp, v = build(MultipleShooting(N=N), True)
print("(control) MultipleShooting: decision variables %d vs %d without v" % (nlp(ocp)[0], nlp(ref)[0]))

if violations:
    print("VIOLATION: SplineMethod accepts a per-interval variable in the objective, creates no decision variable and evaluates it as 0 (constant %d*(0-1)^2 in the objective)" % N)
    sys.exit(1)
print("no violation")
