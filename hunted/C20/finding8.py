"""
C20 finding 8 (minor): a guess on a horizon that is not a decision variable but an expression of a
parameter is silently accepted.

    p = ocp.parameter(); ocp.set_value(p, 1)
    ocp.set_T(2*p)                    # parametric horizon
    ocp.set_initial(ocp.T, 3)         # guess on a purely parametric quantity

The property demands that a guess on a parameter raises.  rockit agrees when the horizon is the
parameter itself (ocp.set_T(p): "You cannot set an initial value for a parameter") and when it is a
number (Ocp(T=1): "inconsistent numerical values"), but for T = 2*p the Opti error "You cannot set an
initial value for a parameter" is swallowed by the except-clause of SamplingMethod.set_initial /
DirectCollocation.set_initial (`not target.is_valid_input() and "initial value for a parameter" in
str(e)`, meant for single-shooting states that depend on parameters).  Same for ocp.t0.
"""
import sys
for _d in ('/verif/pydeps', '/verif/pydeps'): sys.path.insert(0, _d)   # networkx (SplineMethod)
from rockit import Ocp, MultipleShooting, SingleShooting, DirectCollocation, SplineMethod

opts = {'ipopt.print_level': 0, 'print_time': False, 'ipopt.sb': 'yes'}
def build(method, horizon, which='T'):
    ocp = Ocp(T=1)
    x = ocp.state(); u = ocp.control()
    ocp.set_der(x, u)
    ocp.subject_to(ocp.at_t0(x) == 0)
    ocp.subject_to(-1 <= (u <= 1))
    ocp.add_objective(ocp.at_tf((x-1)**2))
    p = ocp.parameter(); ocp.set_value(p, 1)
    if which == 'T':
        ocp.set_T(horizon(p)); ocp.set_initial(ocp.T, 3)
    else:
        ocp.set_t0(horizon(p)); ocp.set_initial(ocp.t0, 3)
    ocp.method(method)
    ocp.solver('ipopt', opts)
    return ocp

violations = []
for which in ['T', 't0']:
    for M in [MultipleShooting(N=3), SingleShooting(N=3), DirectCollocation(N=3), SplineMethod(N=3)]:
        name = "set_%s(2*p); set_initial(ocp.%s, 3) with %s" % (which, which, type(M).__name__)
        try:
            sol = build(M, lambda p: 2*p, which).solve()
        except Exception as e:
            print("ok (refused): %s -> %s" % (name, str(e).strip().splitlines()[0][:100])); continue
        print("ACCEPTED: %s (%s)" % (name, sol.stats['return_status']))
        violations.append(name)
# control: horizon equal to the parameter itself
try:
    build(MultipleShooting(N=3), lambda p: p).solve(); print("(control) T=p accepted")
except Exception as e:
    print("(control) set_T(p); set_initial(ocp.T, 3) is refused: %s" % str(e).strip().splitlines()[-1][:100])
if violations:
    print("VIOLATION: guess on a purely parametric horizon (T or t0 = 2*p) is silently accepted: %d cases" % len(violations))
    sys.exit(1)
print("no violation")
