"""
C20 finding 3: ocp.set_next accepts an update rule for something that is not a state -- a symbol
that does not belong to the OCP at all, a control, a parameter, ocp.t -- stores it, and never uses
it.  The OCP is transcribed and solved as if the declaration had not been made.

The property demands that a specification that "uses ... a symbol that does not belong to the
OCP" (and, more generally, an update rule for a non-state) raises for every method.  The
continuous-time twin does so: ocp.set_der(<non-state>, ...) raises "You used set_der on a
non-state".  Stage.set_next has no such check (stage.py, set_next: the callback only does
self._state_next[state] = next).

Independent expectation: the same declaration made with set_der on the continuous-time version of
the OCP raises; a declaration that mentions an unknown symbol cannot be well-posed.
"""
import sys
from rockit import Ocp, MultipleShooting, SingleShooting
from casadi import MX

opts = {'ipopt.print_level': 0, 'print_time': False, 'ipopt.sb': 'yes'}
foreign = MX.sym('foreign')

def build(method, discrete):
    ocp = Ocp(T=4)
    x = ocp.state(); u = ocp.control(); p = ocp.parameter()
    ocp.set_value(p, 1)
    if discrete: ocp.set_next(x, x+p*u)
    else:        ocp.set_der(x, p*u)
    ocp.subject_to(ocp.at_t0(x) == 0)
    ocp.subject_to(-1 <= (u <= 1))
    ocp.add_objective(ocp.at_tf((x-1)**2))
    ocp.method(method)
    ocp.solver('ipopt', opts)
    return ocp, dict(foreign=foreign, control=u, parameter=p, time=ocp.t)

violations = []
for kind in ['foreign', 'control', 'parameter', 'time']:
    # control experiment: set_der refuses
    ocp, syms = build(MultipleShooting(N=4), discrete=False)
    try:
        ocp.set_der(syms[kind], 0.5*syms[kind]); ocp.solve()
        print("(control) set_der(%s) accepted" % kind)
    except Exception as e:
        print("(control) set_der(%s, ...) is refused: %s" % (kind, str(e).strip().splitlines()[0][:80]))
    for M in [MultipleShooting(N=4), SingleShooting(N=4)]:
        name = "set_next(<%s symbol>, ...) with %s" % (kind, type(M).__name__)
        try:
            ocp, syms = build(M, discrete=True)
            ocp.set_next(syms[kind], 0.5*syms[kind])
            sol = ocp.solve()
        except Exception as e:
            print("ok (refused): %s -> %s" % (name, str(e).strip().splitlines()[0][:100]))
            continue
        print("ACCEPTED: %s : NLP solved, return_status=%s" % (name, sol.stats['return_status']))
        violations.append(name)

if violations:
    print("VIOLATION: set_next on a non-state / unknown symbol is silently accepted and ignored (%d cases, e.g. %s)" % (len(violations), violations[0]))
    sys.exit(1)
print("no violation")
