"""
C20 finding 1: a two-sided constant constraint that is FALSE is silently dropped.

    ocp.subject_to(0 <= (ocp.T <= 0.5))      with a fixed horizon T=1
    ocp.subject_to(-1 <= (MX(3) <= 2))

The property demands: "a constant constraint that is false ... raises an exception at
declaration or at the latest at transcribe/solve time, for every method; no NLP is handed to
the solver".  1 <= 0.5 is false, 3 <= 2 is false, so both declarations must be refused (the
one-sided forms `ocp.T <= 0.5` and `MX(3) <= 2` ARE refused).

What happens instead: once the middle operand is a number, CasADi folds `lb <= (c <= ub)` as
boolean arithmetic: (c <= ub) -> 0, then lb <= 0 -> 1 whenever lb <= 0.  rockit's constant
checks (OptiWrapper.subject_to: evalf(expr)==1 -> return; OptiWrapper.transcribe_placeholders:
is_constant() and is_one() -> continue) then take the constraint for a trivially TRUE one and
drop it.  The solve succeeds.

The same happens to a two-sided path constraint at a grid node whose time is a folded constant
(the final node t_N = t0+T):  ocp.subject_to(-1 <= (ocp.t <= 0.9))  on [0, 1] is false at t=1.

Independent expectation: plain python arithmetic on the numbers the user wrote.
"""
import sys
for _d in ('/verif/pydeps', '/verif/pydeps'): sys.path.insert(0, _d)   # networkx (SplineMethod)
from rockit import Ocp, MultipleShooting, SingleShooting, DirectCollocation, SplineMethod
from casadi import MX

opts = {'ipopt.print_level': 0, 'print_time': False, 'ipopt.sb': 'yes'}

def build(method, constraint):
    ocp = Ocp(T=1)
    x = ocp.state(); u = ocp.control()
    ocp.set_der(x, u)
    ocp.subject_to(ocp.at_t0(x) == 0)
    ocp.subject_to(-1 <= (u <= 1))
    ocp.add_objective(ocp.integral((x-1)**2))
    ocp.method(method)
    ocp.solver('ipopt', opts)
    ocp.subject_to(constraint(ocp))
    return ocp

T_fixed = 1.0
cases = [
    # (description, constraint builder, truth value computed independently)
    ("0 <= (ocp.T <= 0.5), T=1",     lambda ocp: 0 <= (ocp.T <= 0.5),          (0 <= T_fixed) and (T_fixed <= 0.5)),
    ("-inf <= (ocp.tf <= 0.5), tf=1", lambda ocp: -float('inf') <= (ocp.tf <= 0.5), T_fixed <= 0.5),
    ("-1 <= (MX(3) <= 2)",           lambda ocp: -1 <= (MX(3) <= 2),           (-1 <= 3) and (3 <= 2)),
    ("5 >= (ocp.T >= 3), T=1",       lambda ocp: 5 >= (ocp.T >= 3),            (5 >= T_fixed) and (T_fixed >= 3)),
    # path constraint on the control grid t_k = k/4: false (only) at the final node t_N = T = 1, which is a folded constant
    ("-1 <= (ocp.t <= 0.9) on the grid", lambda ocp: -1 <= (ocp.t <= 0.9),     all((-1 <= k/4) and (k/4 <= 0.9) for k in range(5))),
]
violations = []
for desc, constr, truth in cases:
    assert truth is False  # each of these constant constraints is false
    for M in [MultipleShooting(N=4), SingleShooting(N=4), DirectCollocation(N=4), SplineMethod(N=4)]:
        if isinstance(M, SplineMethod) and 'grid' in desc: continue   # SplineMethod: see finding6
        name = "%s with %s" % (desc, type(M).__name__)
        try:
            ocp = build(M, constr)
            sol = ocp.solve()
        except Exception as e:
            print("ok (refused): %s -> %s" % (name, str(e).strip().splitlines()[0][:90]))
            continue
        stats = sol.stats if isinstance(sol.stats, dict) else sol.stats()
        print("ACCEPTED: %s : solver ran, return_status=%s" % (name, stats.get('return_status')))
        violations.append(name)

# control: the one-sided version of the same false statement is refused
for desc, constr in [("ocp.T <= 0.5", lambda ocp: ocp.T <= 0.5), ("MX(3) <= 2", lambda ocp: MX(3) <= 2), ("ocp.t <= 0.9", lambda ocp: ocp.t <= 0.9)]:
    try:
        build(MultipleShooting(N=4), constr).solve()
        print("(control) one-sided %s accepted as well" % desc)
    except Exception as e:
        print("(control) one-sided %s is refused: %s" % (desc, str(e).strip().splitlines()[0][:80]))

if violations:
    print("VIOLATION: %d false two-sided constant constraints (e.g. 0<=(ocp.T<=0.5) with T=1) were folded to 'true', dropped, and the NLP was solved" % len(violations))
    sys.exit(1)
print("no violation")
