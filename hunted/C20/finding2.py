"""
C20 finding 2: a discrete-time system (ocp.set_next) with algebraic variables / equations is
transcribed with the algebraic part silently thrown away.

    x+ = x + u  (set_next),   z = ocp.algebraic(),   ocp.add_alg(z - 2*x),   ocp.subject_to(z <= 1)

A difference equation is an explicit scheme: it cannot represent algebraic equations.  The
property lists "algebraic equations with an explicit scheme" among the model features that must
be refused (and intg='rk'/'expl_euler' do refuse them with an assertion).  With set_next
Stage._diffeq() builds the step function from the update rules only: stage._alg and stage.z are
never looked at, the function returns an empty zf, so every z in a constraint is substituted by
a 0x1 matrix and the constraint itself becomes empty.

Evidence (no solve needed): the NLP has exactly the rows of the same OCP without any algebraic
declaration, and (with a solve) the returned trajectory violates z = 2x <= 1, i.e. x <= 0.5.
"""
import sys
import numpy as np
from rockit import Ocp, MultipleShooting, SingleShooting

opts = {'ipopt.print_level': 0, 'print_time': False, 'ipopt.sb': 'yes'}

def build(method, with_alg):
    ocp = Ocp(T=4)
    x = ocp.state(); u = ocp.control()
    ocp.set_next(x, x+u)
    ocp.subject_to(ocp.at_t0(x) == 0)
    ocp.subject_to(-1 <= (u <= 1))
    ocp.add_objective(ocp.sum((x-1)**2, include_last=True))
    if with_alg:
        z = ocp.algebraic()
        ocp.add_alg(z - 2*x)      # z = 2 x
        ocp.subject_to(z <= 1)    # hence x <= 0.5 on the control grid
    ocp.method(method)
    ocp.solver('ipopt', opts)
    return ocp, x

violations = []
for mk in [lambda: MultipleShooting(N=4), lambda: SingleShooting(N=4), lambda: MultipleShooting(N=4, intg='expl_euler')]:
    name = type(mk()).__name__ + "(intg=%s)" % mk().intg
    ref, _ = build(mk(), False)
    ng_ref = ref.jacobian().size1()         # number of NLP constraint rows without the DAE part
    try:
        ocp, x = build(mk(), True)
        ng = ocp.jacobian().size1()         # triggers the transcription
        sol = ocp.solve()
    except Exception as e:
        print("ok (refused): %s -> %s" % (name, str(e).strip().splitlines()[0][:100]))
        continue
    xs = sol.sample(x, grid='control')[1]
    print("%s: accepted; NLP rows with algebraic part: %d, without: %d; x on the grid: %s" % (name, ng, ng_ref, np.round(xs, 3)))
    # z = 2x <= 1 demands x <= 0.5 at every grid point (5 extra rows at least were declared)
    if ng == ng_ref and np.max(xs) > 0.5 + 1e-6:
        violations.append(name)

if violations:
    print("VIOLATION: set_next system with algebraic equation z=2x and constraint z<=1 accepted, algebraic part dropped (max x = 1 > 0.5) for " + ", ".join(violations))
    sys.exit(1)
print("no violation")
