"""
C20 finding 7 (minor): a stage WITHOUT a transcription method silently ignores dynamic declarations
other than ordinary states and controls: a quadrature state without derivative, a quadrature
state with derivative, algebraic variables + algebraic equations, per-interval variables and
per-interval parameters without value.  The static NLP in the remaining variables is handed to
the solver.

The property demands that a state without derivative, a parameter without value, and a stage with
dynamics but without a method raise.  DirectMethod.transcribe only tests stage.nx>0 or stage.nu>0
("You forgot to declare a method") and only creates/validates stage.variables[''] and
stage.parameters['']; qstates, algebraics, stage._alg, variables['control'], parameters['control']
are never looked at (Stage._ode, which reports missing derivatives, is never called).
"""
import sys
from rockit import Ocp

opts = {'ipopt.print_level': 0, 'print_time': False, 'ipopt.sb': 'yes'}
def build(fault):
    ocp = Ocp()
    v = ocp.variable()
    ocp.add_objective((v-1)**2)
    ocp.subject_to(v >= 0)
    fault(ocp)
    ocp.solver('ipopt', opts)        # no ocp.method(...)
    return ocp
def alg(ocp):
    z = ocp.algebraic(); ocp.add_alg(z-1)
def quad(ocp):
    q = ocp.state(quad=True); ocp.set_der(q, 1)
faults = {
  "quadrature state without set_der":          lambda ocp: ocp.state(quad=True),
  "quadrature state with set_der (dynamics)":  quad,
  "algebraic variable + add_alg":              alg,
  "parameter(grid='control') without value":   lambda ocp: ocp.parameter(grid='control'),
  "variable(grid='control')":                  lambda ocp: ocp.variable(grid='control'),
}
violations = []
for name, fault in faults.items():
    try:
        sol = build(fault).solve()
    except Exception as e:
        print("ok (refused): %s -> %s" % (name, str(e).strip().splitlines()[0][:100])); continue
    print("ACCEPTED without a method: %s (%s)" % (name, sol.stats['return_status']))
    violations.append(name)
# control: an ordinary state is refused
try:
    build(lambda ocp: ocp.state()).solve()
except Exception as e:
    print("(control) ordinary state without method is refused: %s" % str(e)[:60])
if violations:
    print("VIOLATION: method-less stage silently ignores: " + "; ".join(violations))
    sys.exit(1)
print("no violation")
