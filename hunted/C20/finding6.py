"""
C20 finding 6 (NLP handed to the solver; the only "error" is the solver reporting infeasibility):
a path constraint that is a FALSE CONSTANT at some grid points is transcribed into NLP rows that
do not depend on any decision variable and violate their bounds, and that NLP is passed to the
solver:

  (a) SplineMethod, any form:              ocp.subject_to(ocp.t <= 0.5)
  (b) every method, two-sided form:        ocp.subject_to(-1 <= (ocp.t <= 0.5))
      fixed horizon [0, 1], N=4: t_k = k/4, so the constraint is false at t = 0.75 and t = 1.

The property demands that a constant constraint that is false raises at declaration or
transcription "for every method; no NLP is handed to the solver".  The one-sided form with
MultipleShooting/SingleShooting/DirectCollocation does raise ("You have a constraint that is never
statisfied").
 (a) SplineMethod.add_constraints_noninf samples all grid points through a mapped Function and
     passes vec(lb) <= (vec(results) <= vec(ub)) to Opti: the output of a Function call on numbers is
     not an MX constant, so OptiWrapper.subject_to's is_constant() check does not fire.
 (b) the time grid entries are un-folded MX expressions ([0,1,2,3]*0.25)[k]; lb <= (t_k <= ub) is then
     not is_constant() either, and Opti accepts a double inequality whose middle part is parametric
     (it only rejects parametric one-sided constraints).

Evidence without a solve: rows of the transcribed NLP whose Jacobian row is structurally empty and
whose (constant) value lies outside [lbg, ubg].  Independent expectation: t_k <= 0.5 is false for
k = 3, 4, so exactly 2 such rows if the constraint is transcribed at all; the property wants an
exception instead.
"""
import sys
for _d in ('/verif/pydeps', '/verif/pydeps'): sys.path.insert(0, _d)   # networkx (SplineMethod)
import numpy as np
from rockit import Ocp, SplineMethod, MultipleShooting, SingleShooting, DirectCollocation
from casadi import Function, jacobian

def build(method, constr):
    ocp = Ocp(T=1)
    x = ocp.state(); u = ocp.control()
    ocp.set_der(x, u)
    ocp.subject_to(ocp.at_t0(x) == 0)
    ocp.subject_to(-1 <= (u <= 1))
    ocp.add_objective(ocp.at_tf((x-1)**2))
    ocp.subject_to(constr(ocp))
    ocp.method(method)
    ocp.solver('ipopt', {'ipopt.print_level': 0, 'print_time': False, 'ipopt.sb': 'yes'})
    return ocp

one_sided = lambda ocp: ocp.t <= 0.5
two_sided = lambda ocp: -1 <= (ocp.t <= 0.5)
expected_false_nodes = [k for k in range(5) if not (k/4 <= 0.5)]   # [3, 4]

# control: the shooting method refuses the one-sided form
try:
    build(MultipleShooting(N=4), one_sided).jacobian()
    print("(control) MultipleShooting transcribed the one-sided OCP")
except Exception as e:
    print("(control) MultipleShooting, one-sided form, refuses: %s" % str(e)[:70])

violations = []
for M, constr, label in [(SplineMethod(N=4), one_sided, "t<=0.5"), (SplineMethod(N=4), two_sided, "-1<=(t<=0.5)"),
                         (MultipleShooting(N=4), two_sided, "-1<=(t<=0.5)"), (SingleShooting(N=4), two_sided, "-1<=(t<=0.5)"),
                         (DirectCollocation(N=4), two_sided, "-1<=(t<=0.5)")]:
    name = "%s with %s" % (label, type(M).__name__)
    ocp = build(M, constr)
    try:
        ocp.jacobian()          # transcription
    except Exception as e:
        print("ok (refused at transcription): %s -> %s" % (name, str(e)[:80])); continue
    opti = ocp._method.opti
    g = Function('g', [opti.x, opti.p], [opti.g, opti.lbg, opti.ubg])
    w = np.random.default_rng(1).normal(size=opti.nx)
    gv, lb, ub = [np.array(e).reshape(-1) for e in g(w, [])]
    rows_with_nz = set(np.array(jacobian(opti.g, opti.x).sparsity().row()).tolist())
    const_rows = [i for i in range(opti.ng) if i not in rows_with_nz]
    bad = [i for i in const_rows if gv[i] < lb[i]-1e-12 or gv[i] > ub[i]+1e-12]
    print("%s: transcription succeeded; constant NLP rows outside their bounds (row, lbg, g, ubg): %s"
          % (name, [(i, float(lb[i]), float(gv[i]), float(ub[i])) for i in bad]))
    solver_ran = False
    try:
        ocp.solve(); solver_ran = True
    except Exception as e:
        solver_ran = 'Solver failed' in str(e)
        if solver_ran:
            print("    solve() raised only after running the solver: return_status=%s" % opti.debug.stats()['return_status'])
        else:
            print("    solve() refused: %s" % str(e)[:100])
    # (with the shooting/collocation methods the row of the final node t=1 is missing: there t_N is a folded
    #  constant and the false two-sided constraint is dropped as 'true', see finding1)
    if 1 <= len(bad) <= len(expected_false_nodes) and solver_ran:
        violations.append(name)

if violations:
    print("VIOLATION: an NLP with constant, violated rows (t_k<=0.5 at t=0.75, 1) is handed to the solver instead of refusing the constant-false constraint: " + "; ".join(violations))
    sys.exit(1)
print("no violation")
