"""
C20 finding 5: an unknown grid name in ocp.parameter(grid=...) / ocp.variable(grid=...) is
accepted, and a parameter declared that way does not need a value.

    p = ocp.parameter(grid='contrl')     # typo for 'control', no ocp.set_value(p, ...)
    v = ocp.variable(grid='foo')
    w = ocp.variable(include_last=True)  # grid '' + include_last -> internal key '+', never read

The property demands that "an unknown grid name" and "a parameter without a value" raise for
every method (subject_to/sample/integral/sum do check their grid argument).  Stage.
register_parameter/register_variable file the symbol under self.parameters[grid] /
self.variables[grid] for ANY string; only the keys '', 'control', 'control+', 'bspline' are ever
read, so the symbol gets no Opti parameter/variable and DirectMethod/SamplingMethod.set_parameter
never asks for its value.  The declaration is dropped and the NLP is solved.  (When the symbol
is also used in an expression, the failure is loud but late and misleading: "Unknown: MX symbol
'p1' ... declared outside of Opti".)
"""
import sys
for _d in ('/verif/pydeps', '/verif/pydeps'): sys.path.insert(0, _d)   # networkx (SplineMethod)
from rockit import Ocp, MultipleShooting, SingleShooting, DirectCollocation, SplineMethod

opts = {'ipopt.print_level': 0, 'print_time': False, 'ipopt.sb': 'yes'}
def build(method, fault):
    ocp = Ocp(T=1)
    x = ocp.state(); u = ocp.control()
    ocp.set_der(x, u)
    ocp.subject_to(ocp.at_t0(x) == 0)
    ocp.subject_to(-1 <= (u <= 1))
    ocp.add_objective(ocp.at_tf((x-1)**2))
    fault(ocp)
    ocp.method(method)
    ocp.solver('ipopt', opts)
    return ocp

faults = {
  "parameter(grid='contrl') without a value": lambda ocp: ocp.parameter(grid='contrl'),
  "variable(grid='foo')":                     lambda ocp: ocp.variable(grid='foo'),
  "variable(include_last=True) on grid ''":   lambda ocp: ocp.variable(include_last=True),
  "parameter(grid='bspline', include_last=True) without a value": lambda ocp: ocp.parameter(grid='bspline', order=1, include_last=True),
}
violations = []
for fname, fault in faults.items():
    for M in [MultipleShooting(N=3), SingleShooting(N=3), DirectCollocation(N=3), SplineMethod(N=3)]:
        name = "%s with %s" % (fname, type(M).__name__)
        try:
            sol = build(M, fault).solve()
        except Exception as e:
            print("ok (refused): %s -> %s" % (name, str(e).strip().splitlines()[0][:100]))
            continue
        print("ACCEPTED: %s (%s)" % (name, sol.stats['return_status']))
        violations.append(name)
# control experiments: the well-formed parameter needs a value, other API entries check the grid name
try:
    build(MultipleShooting(N=3), lambda ocp: ocp.parameter(grid='control')).solve()
except Exception as e:
    print("(control) parameter(grid='control') without a value is refused: %s" % str(e)[:60])
try:
    build(MultipleShooting(N=3), lambda ocp: ocp.add_objective(ocp.integral(ocp.x, grid='contrl'))).solve()
except Exception as e:
    print("(control) integral(grid='contrl') is refused: %s" % str(e)[:60])

if violations:
    print("VIOLATION: unknown grid names of parameters/variables (and their missing values) are silently accepted: %d cases" % len(violations))
    sys.exit(1)
print("no violation")
