"""
By-catch (NOT the C01 property; sampling read-back): ocp.sample(expr, grid='integrator', refine=r)
feeds B-spline signals to the wrong slots.

Stage._grid_intg_fine builds  expr_f(t, x, xq, z, u, vertcat(stage.p, stage.v), t0, T)  but assembles the
parameter vector as  get_p_sys(include_signals=False)  followed by ALL sampled signals in the order of
method.signals (variables first, then parameters).  stage.p however ends with the bspline parameters and
stage.v with the bspline variables, so as soon as a bspline parameter is combined with any variable
(global, per-interval, free T, or a bspline variable) the values are permuted.  (The same layout bug was
fixed in get_p_sys for the dynamics, but not here.)  Only the very last sample (t_f) uses get_p_sys(-1)
and is right.
"""
import sys
import numpy as np, casadi as ca
from rockit import Ocp, MultipleShooting

ocp = Ocp(t0=0, T=3)
x = ocp.state(); u = ocp.control()
s = ocp.parameter(grid='bspline', order=1)
v = ocp.variable()
ocp.set_der(x, u + v)
ocp.add_objective(ocp.at_tf(x) + v**2)
ocp.method(MultipleShooting(N=3, M=1, intg='rk'))
ocp.set_value(s, [0, 1, 2, 3])                     # s(t) = t
ocp.set_initial(v, 7.0)
ocp.solver('ipopt')
t_c, s_c = ocp.sample(s, grid='control')
t_f, s_f = ocp.sample(s, grid='integrator', refine=2)
print("control grid      :", ocp.initial_value(t_c), ocp.initial_value(s_c))
tf_, sf_ = ocp.initial_value(t_f), ocp.initial_value(s_f)
print("integrator refine2:", tf_, sf_)
# s(t)=t, so the samples must equal their sampling times
if not np.allclose(sf_, tf_):
    print("VIOLATION: sample(s, grid='integrator', refine=2) returns %s for s(t)=t at t=%s (the value 7 is the initial guess of the unrelated variable v)" % (sf_, tf_))
    sys.exit(1)
print("ok")
