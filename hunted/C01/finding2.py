"""
C01 finding 2 -- a time-varying B-spline signal (parameter/variable with grid='bspline', order>=1)
used in the dynamics is frozen at its interval-start value inside the shooting integrator.

rockit defines s = ocp.parameter(grid='bspline', order=d) as a degree-d B-spline *signal of time*
on the control grid; ocp.sample(s, grid='integrator', refine=r) reports it as such (checked below
against scipy's BSpline).  The ODE declared by the user is therefore  xdot = f(x, u, s(t), t).
The property demands that every control interval is propagated with M steps of the chosen scheme,
each stage being evaluated at its absolute time.  For 'rk' this means evaluating the right-hand side
at t, t+DT/2, t+DT/2, t+DT  -- including the signal s.
SamplingMethod.get_p_sys feeds  self.signals[s].sampled[k]  (the value at the START of control
interval k) into the parameter slot of the system function, so all M*4 stage evaluations of the
interval see the same constant: the transcription is RK4 / Euler applied to a different
(zero-order-hold) ODE.  No error or warning is raised.
"""
import sys
import numpy as np, casadi as ca
from scipy.interpolate import BSpline
from rockit import Ocp, MultipleShooting, SingleShooting

def rk4(f, x, t, dt):
    k1 = f(x, t); k2 = f(x+dt/2*k1, t+dt/2); k3 = f(x+dt/2*k2, t+dt/2); k4 = f(x+dt*k3, t+dt)
    return x+dt/6*(k1+2*k2+2*k3+k4)

def clamped(coeff, grid, d):
    knots = np.concatenate([[grid[0]]*d, grid, [grid[-1]]*d])
    return BSpline(knots, np.asarray(coeff, dtype=float), d, extrapolate=True)

bad = []

# ---------------------------------------------------------------- MultipleShooting: gap residuals
N, M, t0, T = 3, 2, 0.5, 2.0
ocp = Ocp(t0=t0, T=T)
x = ocp.state(); u = ocp.control()
s = ocp.parameter(grid='bspline', order=2)       # quadratic spline parameter signal, N+2 coefficients
w = ocp.variable(grid='bspline', order=1)        # piecewise linear decision signal, N+1 coefficients
ocp.set_der(x, -x*u + s + 3*w)
ocp.add_objective(ocp.at_tf(x))
ocp.method(MultipleShooting(N=N, M=M, intg='rk'))
s_coeff = np.array([1.0, -2.0, 0.5, 4.0, -1.0])
ocp.set_value(s, s_coeff)
ocp.solver('ipopt')
ocp._transcribed
opti = ocp._method.opti

ts, xs = ocp.sample(x, grid='control')
_, us = ocp.sample(u, grid='control-')
_, s_ctrl = ocp.sample(s, grid='control')
_, w_ctrl = ocp.sample(w, grid='control')         # a degree-1 B-spline interpolates its coefficients at the knots
F = ca.Function('F', [opti.x, opti.p], [opti.g, opti.lbg, opti.ubg, ts, xs, us, s_ctrl, w_ctrl])
rs = np.random.RandomState(0)
xv = rs.rand(opti.nx)+0.2
pv = ca.DM(opti.debug.value(opti.p, opti.initial()))
g, lbg, ubg, ts, xs, us, s_ctrl, w_ctrl = [np.array(e) for e in F(xv, pv)]
ts = ts.flatten()

# Independent evaluation of the two signals as functions of time
S = clamped(s_coeff, ts, 2)                                   # clamped quadratic B-spline on the control grid (scipy)
W = lambda tt: np.interp(tt, ts, w_ctrl.flatten())           # piecewise linear through the knot values
assert np.allclose(S(ts), s_ctrl.flatten()), "signal definition mismatch"   # same signal as rockit reports on the grid
assert np.ptp(w_ctrl) > 1e-3 and np.ptp(S(np.linspace(ts[0], ts[-1], 50))) > 1e-3  # both really vary in time

expected = []; zoh = []
for k in range(N):
    dt = (ts[k+1]-ts[k])/M
    xa = xb = xs[0, k]; t = ts[k]
    for j in range(M):
        xa = rk4(lambda xx, tt: -xx*us[0, k] + S(tt) + 3*W(tt), xa, t, dt)             # what the property demands
        xb = rk4(lambda xx, tt: -xx*us[0, k] + S(ts[k]) + 3*W(ts[k]), xb, t, dt)       # signals frozen at interval start
        t += dt
    expected.append(xs[0, k+1]-xa); zoh.append(xs[0, k+1]-xb)
expected = np.array(expected); zoh = np.array(zoh)
g = g.flatten()
print("MultipleShooting N=3 M=2 intg='rk', xdot = -x*u + s(t) + 3*w(t), s: order-2 parameter signal, w: order-1 variable signal")
print("  rockit gap residuals           :", g)
print("  RK4 with s(t),w(t) at stage times:", expected)
print("  RK4 with s,w frozen at t_k      :", zoh)
assert np.all(lbg == 0) and np.all(ubg == 0)
if not np.allclose(g, expected, rtol=1e-9, atol=1e-9):
    bad.append("MultipleShooting gap residuals integrate a zero-order-hold of the B-spline signals (max dev %.3g)%s"
               % (np.abs(g-expected).max(), "; they equal the frozen-signal recursion" if np.allclose(g, zoh) else ""))

# ---------------------------------------------------------------- SingleShooting: reported states
ocp = Ocp(t0=0, T=3)
x = ocp.state()
s = ocp.parameter(grid='bspline', order=1)
ocp.set_der(x, s)                                 # xdot = s(t)
ocp.add_objective(ocp.at_tf(x))
ocp.subject_to(ocp.at_t0(x) == 0)
ocp.method(SingleShooting(N=3, M=2, intg='rk'))
ocp.set_value(s, [0, 1, 2, 3])                    # s(t) = t on [0,3]
ocp.solver('ipopt')
ocp._transcribed
opti = ocp._method.opti
ts, xs = ocp.sample(x, grid='control')
xs = np.array(ca.Function('f', [opti.x, opti.p], [xs])(np.zeros(opti.nx), ca.DM(opti.debug.value(opti.p, opti.initial())))).flatten()
# RK4 integrates xdot = t exactly: x(t) = t^2/2
exact = np.array([0, 0.5, 2.0, 4.5])
print("SingleShooting N=3 M=2 intg='rk', xdot = s(t) = t, x(0)=0")
print("  rockit states on control grid:", xs)
print("  RK4 recursion (exact here)   :", exact)
if not np.allclose(xs, exact):
    bad.append("SingleShooting states for xdot=s(t)=t are %s instead of %s" % (xs, exact))

if bad:
    for b in bad: print("VIOLATION:", b)
    sys.exit(1)
print("ok")
