"""
C01 finding 1 -- register_variable([...], grid='control') / register_parameter([...], grid='control')
silently drop grid / include_last / order: the symbols become GLOBAL, so every control interval is
propagated with the same entry instead of "that interval's" per-interval value.

Stage.register_variable(v, grid=..., order=..., include_last=..., ...) accepts a list of symbols, but the
list branch recurses with  self.register_variable(e, scale=scale, domain=domain)  (register_parameter:
self.register_parameter(e, scale=scale)) -- grid, order, include_last and meta are not forwarded.
The user declared per-interval variables (one independent value per control interval, which the
property says must feed interval k through get_p_sys); the transcribed NLP has a single decision
variable per symbol that is shared by all N gap-closing constraints.  Nothing is raised.

Expected behaviour is what registering the same symbols one by one gives (reference OCP below):
N independent entries per symbol, entry k feeding interval k.
"""
import sys
import numpy as np, casadi as ca
from rockit import Ocp, MultipleShooting

N = 3
def build(as_list):
    ocp = Ocp(t0=0, T=3)
    x = ocp.state(); u = ocp.control()
    v1 = ca.MX.sym('v1'); v2 = ca.MX.sym('v2')
    if as_list:
        ocp.register_variable([v1, v2], grid='control')
    else:
        ocp.register_variable(v1, grid='control'); ocp.register_variable(v2, grid='control')
    ocp.set_der(x, v1*x + v2*u)
    ocp.add_objective(ocp.at_tf(x))
    ocp.method(MultipleShooting(N=N, M=1, intg='expl_euler'))
    ocp.solver('ipopt')
    ocp._transcribed
    return ocp, x, u, v1, v2

bad = []
ref, *_ = build(False)
ocp, x, u, v1, v2 = build(True)
opti = ocp._method.opti
print("decision variables: list registration %d, one-by-one registration %d" % (opti.nx, ref._method.opti.nx))
print("variables by grid after register_variable([v1,v2], grid='control'):", {k: len(v) for k, v in ocp.variables.items() if len(v)})
if opti.nx != ref._method.opti.nx:
    bad.append("register_variable([v1,v2], grid='control') creates %d NLP variables instead of %d: v1, v2 are global, not per-interval"
               % (opti.nx, ref._method.opti.nx))

# The values that feed the N intervals, at a random decision vector
_, v1s = ocp.sample(v1, grid='control-')
_, v2s = ocp.sample(v2, grid='control-')
ts, xs = ocp.sample(x, grid='control'); _, us = ocp.sample(u, grid='control-')
F = ca.Function('F', [opti.x], [opti.g, ts, xs, us, v1s, v2s])
rs = np.random.RandomState(0)
g, ts, xs, us, v1s, v2s = [np.array(e).flatten() for e in F(rs.rand(opti.nx))]
print("v1 feeding intervals 0..N-1:", v1s, " v2:", v2s)
# gap residuals really use that single shared value in every interval
res = np.array([xs[k+1] - (xs[k] + (ts[k+1]-ts[k])*(v1s[0]*xs[k] + v2s[0]*us[k])) for k in range(N)])
assert np.allclose(g, res)
# a per-interval variable has N independent entries: the Jacobian of its samples w.r.t. the decision vector has rank N
rank = np.linalg.matrix_rank(np.array(ca.evalf(ca.jacobian(ocp.sample(v1, grid='control-')[1], opti.x))))
if rank != N:
    bad.append("all %d gap-closing constraints use one shared entry of v1 (sample Jacobian rank %d instead of %d)" % (N, rank, N))

# parameters: same loss of grid=; a per-interval value can then not even be given
ocp2 = Ocp(T=1); x2 = ocp2.state(); p1 = ca.MX.sym('p1'); p2 = ca.MX.sym('p2')
ocp2.register_parameter([p1, p2], grid='control', include_last=True)
print("parameters by grid after register_parameter([p1,p2], grid='control', include_last=True):", {k: len(v) for k, v in ocp2.parameters.items() if len(v)})
if len(ocp2.parameters['control+']) != 2:
    bad.append("register_parameter([p1,p2], grid='control', include_last=True) registers global parameters (grid/include_last dropped)")

if bad:
    for b in bad: print("VIOLATION:", b)
    sys.exit(1)
print("ok")
