"""
C10 finding 5 (shape coincidence): a scalar expression of time given as guess for a vector-valued
symbol of length n is rejected (dimension mismatch) for every n -- except when n == N+1, where it is
silently accepted and every node/interval starts at the vector of ALL node times.

Property: expressions of time are evaluated at the node time (states) / interval start time (controls)
of the column they fill.  A scalar guess for a vector symbol can only mean "repeat to fit the shape"
(that is what rockit documents and does for scalar numbers), so for y = ocp.state(4), N=3, T=2,
ocp.set_initial(y, ocp.t+1) node k must start at (t_k+1)*[1,1,1,1], t_k = 0, 2/3, 4/3, 2.
(An exception, as for n != N+1, would also be acceptable; a silent wrong start is not.)

rockit: y starts at [1, 5/3, 7/3, 3] (= the whole time series) at every node, i.e. entry i of the vector
gets the guess at time t_i regardless of the node.  Same for a vector control and grid='control' variable.

Why: SamplingMethod.set_initial samples the expression into a 1 x (N+1) row, finds
target.numel()*(N+1) != value.numel() and passes the whole row as value of each n x 1 target;
Opti accepts it when n == N+1 (sampling_method.py:1001-1020; same loop in DirectCollocation.set_initial
for controls/variables).
"""
import sys
import numpy as np, casadi as ca
from rockit import Ocp, MultipleShooting, DirectCollocation

N = 3; n = N+1; T = 2.0
tk = np.linspace(0, T, N+1)
bad = []
for mname, mk in [("MultipleShooting", MultipleShooting), ("DirectCollocation", DirectCollocation)]:
    ocp = Ocp(T=T)
    y = ocp.state(n); w = ocp.control(n); ocp.set_der(y, w)
    vc = ocp.variable(n, grid='control')
    ocp.add_objective(ocp.at_tf(y[0]) + ocp.sum(vc[0]))
    ocp.method(mk(N=N)); ocp.solver('ipopt')
    tried = []
    for name, sym in [("state y", y), ("control w", w), ("grid='control' variable vc", vc)]:
        try:
            ocp.set_initial(sym, ocp.t+1)
            got = np.array(ocp.initial_value(ocp.sample(sym, grid='control')[1]))
        except Exception as e:
            print("%s %s: raised (%s) -- loud, fine" % (mname, name, str(e).splitlines()[0][:80]))
            ocp._initial.pop(sym, None)   # drop the refused guess again
            continue
        cols = N+1 if sym is y else N
        exp = np.tile(tk[:cols]+1, (n, 1))          # entry (i,k) = t_k+1 : the guess at the time of column k, repeated over the vector
        ok = np.allclose(got[:, :cols], exp)
        print("%s %s: column 0 starts at %s, column 1 at %s; expected %s and %s" % (mname, name, got[:, 0].round(4).tolist(), got[:, 1].round(4).tolist(), exp[:, 0].round(4).tolist(), exp[:, 1].round(4).tolist()))
        if not ok: bad.append(mname+" "+name)
if bad:
    print("VIOLATION: scalar time-dependent guess for a vector symbol of length N+1 silently puts the whole time series into the vector at every node instead of the value at that node's time (%s)" % "; ".join(bad))
    sys.exit(1)
print("OK")
