"""
C10 finding 4: multi-stage OCP whose stages share a horizon variable of the master
(Tv = ocp.variable(); ocp.stage(t0=..., T=Tv)): a guess for Tv given after transcription is not used
by the time-dependent guesses of the stages.

Property: guesses given before the first transcription or after it produce the same starting point;
expressions of time are evaluated at the node times implied by the guessed t0 and T.
With t0=1, guess Tv=2, N=4 the stage guess x = t must start at [1, 1.5, 2, 2.5, 3]:
rockit does so when both set_initial calls precede transcription (in either order), and when, after
transcription, the stage guess is repeated after the horizon guess.  But the plain sequence
    s.set_initial(x, s.t); ocp.set_initial(Tv, 2)            (after a transcription)
starts x at [1,1,1,1,1] (sampled with the old horizon guess 0) while the node times of the starting point
are [1,1.5,2,2.5,3]: the same calls, a different starting point, depending only on whether a
transcription (any ocp.sample / solve) happened before.

Why: Stage.set_initial on a transcribed OCP (stage.py:604-605) re-applies only the guesses of the stage it
is called on (here the master, DirectMethod.set_initial); the time-dependent guesses of the sub-stages,
which were sampled with the old horizon, are not re-evaluated.  In transcribe(phase=2) they are (two passes).
"""
import sys
import numpy as np, casadi as ca
from rockit import Ocp, MultipleShooting, DirectCollocation

N = 4
t0, Tguess = 1.0, 2.0
expected = np.linspace(t0, t0+Tguess, N+1)

def run(mk, order):
    ocp = Ocp()
    Tv = ocp.variable()
    ocp.subject_to(Tv >= 0.1)
    ocp.add_objective(Tv)
    stages = []
    for i in range(2):
        s = ocp.stage(t0=t0, T=Tv)
        x = s.state(); u = s.control(); s.set_der(x, u)
        s.add_objective(s.at_tf(x))
        s.method(mk(N=N))
        stages.append((s, x))
    ocp.solver('ipopt')
    s, x = stages[0]
    if order == "before":
        s.set_initial(x, s.t); ocp.set_initial(Tv, Tguess)
    elif order == "after":
        ocp.initial_value(s.sample(x, grid='control')[1])    # first transcription
        s.set_initial(x, s.t); ocp.set_initial(Tv, Tguess)
    f = lambda e: np.array(ocp.initial_value(s.sample(e, grid='control')[1])).reshape(-1)
    return f(s.t), f(x), float(ocp.initial_value(ocp.value(Tv)))

bad = []
for mname, mk in [("MultipleShooting", MultipleShooting), ("DirectCollocation", DirectCollocation)]:
    tb, xb, Tb = run(mk, "before")
    assert np.allclose(tb, expected) and np.allclose(xb, expected) and Tb == Tguess
    ta, xa, Ta = run(mk, "after")
    print("%s: same calls after transcription -> Tv=%s, node times %s, x starts at %s (before transcription: %s)" % (mname, Ta, ta.tolist(), xa.tolist(), xb.tolist()))
    if not (np.allclose(ta, expected) and np.allclose(xa, expected) and Ta == Tguess):
        bad.append(mname)
if bad:
    print("VIOLATION: horizon-variable guess given after transcription is ignored by the time-dependent guesses of the sub-stages: x=t starts at [1,1,1,1,1] instead of the node times [1,1.5,2,2.5,3] (%s)" % ", ".join(bad))
    sys.exit(1)
print("OK")
