"""
C10 finding 3: with a localized / free time grid, a horizon guess given AFTER transcription does not
reach the grid's helper decision variables; the starting point has node times that do not span the
guessed horizon, and time-dependent guesses are sampled on that stale grid.

Setting: the horizon is an ocp.variable (ocp.set_T(Tv); FreeTime is the same thing plus a re-transcription,
which hides the problem), grid = UniformGrid(localize_T=True) / UniformGrid(localize_t0=True) / FreeGrid().
These grids carry their own decision variables (interval lengths T_k or interval starts t0_k).

Property: guesses given before or after the first transcription produce the same starting point, for
every decision variable including the helper quantities of free t0/T; expressions of time are evaluated
at the times implied by the guessed t0 and T.  With t0=1, guessed T=2, N=4 the node times of the starting
point must be linspace(1,3,5) and the guess x=t must start at [1,1.5,2,2.5,3].
rockit does exactly that when the two set_initial calls come before transcription, but after
transcription it leaves T_k / t0_k at the values of the old horizon guess (0 here): t = [1,1.5,1.5,1.5,1.5]
(localize_T) or [1,1,1,1,1] (localize_t0, FreeGrid) and x follows that stale grid.

Why: the initialisation of t0_local/T_local from the horizon guess lives only in
SamplingMethod.transcribe(phase=2) (sampling_method.py:597-613); Stage.set_initial on a transcribed OCP
calls method.set_initial(stage._initial) once and never redoes that step.
(The same staleness appears when the horizon is a parameter and set_value is called after transcription.)
"""
import sys
import numpy as np, casadi as ca
from rockit import Ocp, MultipleShooting, DirectCollocation, UniformGrid, FreeGrid

N = 4
t0, Tguess = 1.0, 2.0
expected_t = np.linspace(t0, t0+Tguess, N+1)     # independent: uniform nodes over the guessed horizon

def run(mk, grid, when):
    ocp = Ocp(t0=t0)
    Tv = ocp.variable()
    ocp.set_T(Tv)
    x = ocp.state(); u = ocp.control(); ocp.set_der(x, u)
    ocp.subject_to(Tv >= 0.1)
    ocp.add_objective(ocp.at_tf(x) + Tv)
    ocp.method(mk(N=N, grid=grid)); ocp.solver('ipopt')
    if when == "after": ocp.sample(x, grid='control')     # first transcription
    ocp.set_initial(Tv, Tguess)
    ocp.set_initial(x, ocp.t)
    f = lambda e: np.array(ocp.initial_value(ocp.sample(e, grid='control')[1])).reshape(-1)
    return f(ocp.t), f(x), float(ocp.initial_value(ocp.value(ocp.T)))

bad = []
for mname, mk in [("MultipleShooting", MultipleShooting), ("DirectCollocation", DirectCollocation)]:
    for gname, g in [("UniformGrid(localize_T=True)", lambda: UniformGrid(localize_T=True)),
                     ("UniformGrid(localize_t0=True)", lambda: UniformGrid(localize_t0=True)),
                     ("FreeGrid()", lambda: FreeGrid())]:
        tb, xb, Tb = run(mk, g(), "before")
        assert np.allclose(tb, expected_t) and np.allclose(xb, expected_t) and Tb == Tguess   # before transcription: as demanded
        ta, xa, Ta = run(mk, g(), "after")
        ok = np.allclose(ta, expected_t) and np.allclose(xa, expected_t) and Ta == Tguess
        print("%s %s: guesses after transcription -> T=%s, node times %s, x %s (before transcription: %s)" % (mname, gname, Ta, ta.tolist(), xa.tolist(), tb.tolist()))
        if not ok: bad.append((mname, gname))
if bad:
    print("VIOLATION: horizon guess given after transcription is not propagated to the localized time-grid variables: node times of the starting point are stale (e.g. [1,1.5,1.5,1.5,1.5] instead of [1,1.5,2,2.5,3]) and x=t is sampled on them; %d method/grid combinations" % len(bad))
    sys.exit(1)
print("OK")
