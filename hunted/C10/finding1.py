"""
C10 finding 1: a DM guess with structural zeros (DM.eye, diag, DM(n,N) filled partially) is scattered
to the wrong entries of the decision variables -- silently.

Property: the starting value of every decision variable equals the guess; a DM guess is a guess
form of the property, and a structurally-zero entry of a DM *is* the number 0.  So for
    R = ocp.state(2,2);  ocp.set_initial(R, DM.eye(2))
every node must start at R = [[1,0],[0,1]], i.e. vec(R) = [1,0,0,1] (and numpy's dense np.eye(2),
which rockit handles correctly, is the independent reference used below).

rockit: vec(R) = [1,1,0,0] under Multiple/SingleShooting, [1,1,1,1] at the first node and all zeros
at the last node under DirectCollocation.  Same for controls, for scaled (scale=vector) states and for
scaled global variables; a structurally-empty DM(2,1) given to reset an earlier guess is ignored.
"""
import sys, io, contextlib
import numpy as np, casadi as ca
from rockit import Ocp, MultipleShooting, SingleShooting, DirectCollocation

N = 3
bad = []

def readback(ocp, e):
    return np.array(ocp.initial_value(ocp.sample(e, grid='control')[1]))

def build(mk, scale=1):
    ocp = Ocp(T=2.0)
    R = ocp.state(2, 2); W = ocp.control(2, 2); ocp.set_der(R, W)
    y = ocp.state(2, scale=scale); w = ocp.control(2, scale=scale); ocp.set_der(y, w)
    v = ocp.variable(2, scale=scale)
    ocp.add_objective(ocp.at_tf(R[0, 0]) + v[0] + ocp.at_tf(y[0]))
    ocp.method(mk(N=N)); ocp.solver('ipopt')
    return ocp, R, W, y, w, v

for mname, mk in [("MultipleShooting", MultipleShooting), ("SingleShooting", SingleShooting), ("DirectCollocation", DirectCollocation)]:
    for when in ["before", "after"]:
        for sparse in [False, True]:
            ocp, R, W, y, w, v = build(mk, scale=ca.DM([10, 100]))
            if when == "after": ocp.sample(R, grid='control')  # transcribe first
            eye = ca.DM.eye(2) if sparse else np.eye(2)          # same numbers, sparse vs dense storage
            g = ca.DM(2, 1); g[1] = 5                            # [0 (structural), 5]
            G = ca.DM(2, N); G[1, :] = ca.DM([1, 2, 3]).T        # row 0 structurally zero
            if not sparse: g = np.array(g); G = np.array(G)
            ocp.set_initial(R, eye)
            ocp.set_initial(W, 2*eye)
            ocp.set_initial(y, g)
            ocp.set_initial(w, G)
            ocp.set_initial(v, g)
            Rs = readback(ocp, ca.vec(R)); Ws = readback(ocp, ca.vec(W)); ys = readback(ocp, y); ws = readback(ocp, w)
            vs = np.array(ocp.initial_value(ocp.value(v))).reshape(-1)
            nodes = [0] if mk is SingleShooting else [0, N]      # single shooting: only the first node is a decision variable
            exp_R = np.array([1., 0, 0, 1]); exp_W = 2*exp_R
            checks = [("matrix state R at node %d" % k, Rs[:, k], exp_R) for k in nodes]
            checks += [("matrix control W interval 0", Ws[:, 0], exp_W),
                       ("scaled vector state y node 0", ys[:, 0], np.array([0., 5.])),
                       ("scaled vector control w (2xN array)", ws[:, :N].reshape(-1), np.array([0, 0, 0, 1., 2, 3])),
                       ("scaled global variable v", vs, np.array([0., 5.]))]
            for what, got, exp in checks:
                ok = np.allclose(got, exp)
                if not ok:
                    bad.append((mname, when, "sparse DM" if sparse else "dense numpy", what, got.tolist(), exp.tolist()))

# dense numpy guesses must all be right (reference), sparse DM ones are wrong
dense_bad = [b for b in bad if b[2] == "dense numpy"]
assert not dense_bad, dense_bad
for b in bad[:12]:
    print("  %s, guess %s transcription, %s: %s starts at %s, expected %s" % b)
if len(bad) > 12: print("  ... (%d mismatches in total)" % len(bad))

# variant: a structurally empty DM meant to reset a guess to zero is ignored (the last call does not win)
ocp, R, W, y, w, v = build(MultipleShooting, scale=ca.DM([10, 100]))
ocp.sample(R, grid='control')
ocp.set_initial(y, ca.DM([1, 2]))
ocp.set_initial(y, ca.DM(2, 1))     # all zeros
ys = readback(ocp, y)[:, 0]
if not np.allclose(ys, 0):
    print("  reset with DM(2,1): y starts at %s, expected [0, 0]" % ys.tolist())
    bad.append("reset")

if bad:
    print("VIOLATION: DM guesses with structural zeros (e.g. DM.eye(2) for a 2x2 state) start the solver at wrong entries: vec(R)=%s instead of [1,0,0,1]" % bad[0][4])
    sys.exit(1)
print("OK")
