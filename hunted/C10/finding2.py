"""
C10 finding 2: DirectCollocation silently ignores every guess for a variable with grid='bspline'.

Property: guesses apply to every method and to variables of each grid kind; "constants everywhere".
For  b = ocp.variable(grid='bspline', order=2);  ocp.set_initial(b, 3)  every decision variable that
parametrizes b (its B-spline coefficients) must start at 3, so that b(t) = 3 on the whole horizon
(a B-spline whose coefficients are all c is the constant c: partition of unity).

rockit / DirectCollocation: all coefficients start at 0, b(t) = 0 -- no exception, no warning, for a
guess given before or after transcription.  (MultipleShooting/SingleShooting raise for the same call,
SplineMethod honours it -- see the reference run below.)

Why: SamplingMethod.set_initial has a branch `if var in self.signals:` that writes the coefficients;
DirectCollocation.set_initial re-implements the loop without that branch, tries
opti.set_initial(coeff @ B[:,k], value) on the sampled spline and swallows the resulting
"Initialization failed since variables ... are free" error in its blanket `except`.
"""
import sys
sys.path.insert(0, '/verif/pydeps')   # networkx, only for the SplineMethod reference run
import numpy as np, casadi as ca
from rockit import Ocp, DirectCollocation, SplineMethod

N = 4

def run(method, when):
    ocp = Ocp(T=2.0, t0=1.0)
    x = ocp.state(); u = ocp.control()
    b = ocp.variable(grid='bspline', order=2)
    b2 = ocp.variable(2, grid='bspline', order=1)
    ocp.set_der(x, u)
    ocp.subject_to(x <= b); ocp.subject_to(x <= b2[0] + b2[1])
    ocp.add_objective(ocp.at_tf(x))
    ocp.method(method); ocp.solver('ipopt')
    if when == "after": ocp.sample(x, grid='control')
    ocp.set_initial(b, 3)
    ocp.set_initial(b2, ca.DM([4, 5]))
    ocp.sample(x, grid='control')
    m = ocp._method
    cb = np.array(ocp.initial_value(m.signals[b].coeff)).reshape(-1)    # the decision variables behind b
    cb2 = np.array(ocp.initial_value(m.signals[b2].coeff))
    sb = np.array(ocp.initial_value(ocp.sample(b, grid='control')[1])).reshape(-1)
    sb2 = np.array(ocp.initial_value(ocp.sample(b2, grid='control')[1]))
    return cb, cb2, sb, sb2

# reference: SplineMethod does what the property demands
cb, cb2, sb, sb2 = run(SplineMethod(N=N), "before")
assert np.allclose(cb, 3) and np.allclose(cb2[0], 4) and np.allclose(cb2[1], 5) and np.allclose(sb, 3)

bad = []
for when in ["before", "after"]:
    cb, cb2, sb, sb2 = run(DirectCollocation(N=N, M=2, degree=3), when)
    print("DirectCollocation, guess %s transcription: coefficients of b %s (expected all 3), of b2 %s (expected rows 4 and 5); b sampled on the control grid %s"
          % (when, cb.tolist(), cb2.tolist(), sb.tolist()))
    if not (np.allclose(cb, 3) and np.allclose(cb2[0], 4) and np.allclose(cb2[1], 5) and np.allclose(sb, 3)):
        bad.append(when)
if bad:
    print("VIOLATION: DirectCollocation ignores set_initial of grid='bspline' variables: coefficients start at 0 instead of the constant guess 3 (guess given %s transcription)" % " and ".join(bad))
    sys.exit(1)
print("OK")
