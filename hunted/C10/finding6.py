"""
C10 finding 6 (SplineMethod; weaker than 1-5, see notes): a time-dependent guess for a state is not
reproduced at the node times unless it is linear in t.

Property: the guess applies to every method; expressions of time are evaluated at the node times
implied by the guessed t0 and T, and the starting value read back in physical units equals the guess.
For p'' = a (chain p -> v -> a, degree-2 spline, N=4, t0=1, T=2) and ocp.set_initial(p, ocp.t**2)
the state p of the starting point, sampled on the control grid t_k = 1,1.5,2,2.5,3, must be t_k**2.
(Feasible: a degree-2 spline on these knots reproduces t**2 exactly.)

rockit: SplineMethod.set_initial puts the B-spline coefficients equal to the guess evaluated at the
Greville abscissae (spline_method.py:608-610).  That reproduces constants and linear functions only; for
t**2 the start is p = [1, 2.3125, 4.0625, 6.3125, 9] instead of [1, 2.25, 4, 6.25, 9] (error h^2/4 at the
interior nodes), silently.  MultipleShooting/DirectCollocation return exactly t_k**2 for the same calls.
A fix is to solve the (banded) collocation system  B(greville)^T c = f(greville)  instead of c = f(greville).
"""
import sys
sys.path.insert(0, '/verif/pydeps')
import numpy as np, casadi as ca
from rockit import Ocp, SplineMethod, MultipleShooting

N = 4
def run(method, guess):
    ocp = Ocp(T=2.0, t0=1.0)
    p = ocp.state(); v = ocp.state(); a = ocp.control()
    ocp.set_der(p, v); ocp.set_der(v, a)
    ocp.add_objective(ocp.at_tf(p))
    ocp.method(method); ocp.solver('ipopt')
    ocp.set_initial(p, guess(ocp.t))
    ts = np.array(ocp.initial_value(ocp.sample(ocp.t, grid='control')[1])).reshape(-1)
    ps = np.array(ocp.initial_value(ocp.sample(p, grid='control')[1])).reshape(-1)
    return ts, ps

ts, ps = run(MultipleShooting(N=N), lambda t: t**2)
assert np.allclose(ps, ts**2)                      # reference method: exact
ts, ps = run(SplineMethod(N=N), lambda t: 2*t+1)
assert np.allclose(ps, 2*ts+1)                     # linear guesses are fine
ts, ps = run(SplineMethod(N=N), lambda t: t**2)
print("SplineMethod, guess p=t^2: node times %s, p starts at %s, expected %s" % (ts.tolist(), ps.tolist(), (ts**2).tolist()))
if not np.allclose(ps, ts**2):
    print("VIOLATION: SplineMethod starts a state with guess t^2 at %s instead of the guess at the node times %s (coefficients := guess at Greville points)" % (ps.tolist(), (ts**2).tolist()))
    sys.exit(1)
print("OK")
