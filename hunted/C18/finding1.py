# C18 finding 1: ocp.save() changes the starting point of the ORIGINAL problem (and the loaded
# problem starts from a different point than the problem that was saved) when a parameter was
# changed with set_value() after the transcription and a declared guess depends on that
# parameter (directly, or through the time grid of a parametric horizon).
#
# Sequence (public API only, no NLP solve needed):
#   ocp.set_initial(x, p*(1+ocp.t)); ocp.set_value(p,1); <transcribe, e.g. by a first solve>
#   ocp.set_value(p, 5)          # MPC-style update of a transcribed OCP
#   A = starting point of the live NLP            -> x guess 1*(1+t)   (the guess is NOT re-evaluated)
#   ocp.save(file)
#   B = starting point of ocp's NLP after save()   -> x guess 5*(1+t)
#   C = starting point of Ocp.load(file)'s NLP     -> x guess 5*(1+t)
#
# What the property demands: save() is an observer. "saving does not damage the original" and
# "load(save(ocp)) has the same ... parameter values, starting point ... as the original's"
# => A == B and A == C, whatever one thinks the guess should be after set_value.
# rockit: Stage.set_value on a transcribed OCP only pushes the number into Opti (the declared guesses
# are not re-evaluated, unlike Stage.set_initial which re-applies all guesses), while Ocp.save()
# throws the live transcription away (_untranscribe) so that the next query re-transcribes and
# re-evaluates all guesses with the new parameter values.  The very same script with and without
# the line ocp.save(...) hands a different x0 to the solver.
import sys, os, tempfile
import numpy as np
import casadi as ca
from rockit import Ocp, MultipleShooting


def start_and_params(ocp):
    ocp._transcribed  # transcribe if needed (what ocp.solve() does first)
    opti = ocp._method.opti
    x0 = np.array(opti.debug.value(opti.x, opti.initial())).reshape(-1)
    p = np.array(opti.debug.value(opti.p, opti.initial())).reshape(-1)
    return x0, p


def build():
    ocp = Ocp(T=2)
    x = ocp.state()
    u = ocp.control()
    p = ocp.parameter()
    ocp.set_der(x, u)
    ocp.subject_to(ocp.at_t0(x) == p)
    ocp.subject_to(-1 <= (u <= 1))
    ocp.add_objective(ocp.integral(x**2))
    ocp.set_value(p, 1.0)
    ocp.set_initial(x, p*(1 + ocp.t))  # guess depends on the parameter
    ocp.solver('ipopt')
    ocp.method(MultipleShooting(N=2))
    return ocp, p


ocp, p = build()
start_and_params(ocp)          # first transcription (p=1)
ocp.set_value(p, 5.0)          # update the parameter of the transcribed problem
A, pA = start_and_params(ocp)  # live NLP, as ocp.solve() would use it now

fn = os.path.join(tempfile.mkdtemp(), "c18_f1.rockit")
ocp.save(fn)
B, pB = start_and_params(ocp)             # the original, after save()
C, pC = start_and_params(Ocp.load(fn))    # the loaded problem

print("parameter values      live/after save/loaded:", pA, pB, pC)
print("x0 live (before save)  :", A)
print("x0 original after save :", B)
print("x0 loaded              :", C)

ok = np.allclose(A, B) and np.allclose(A, C) and np.allclose(pA, pB) and np.allclose(pA, pC)

# Second demonstration (same root cause): parametric horizon, guess given as a function of time.
from rockit import DirectCollocation
ocp2 = Ocp()
Tp = ocp2.parameter()
ocp2.set_T(Tp)
ocp2.set_value(Tp, 2.0)
y = ocp2.state()
w = ocp2.control()
ocp2.set_der(y, w)
ocp2.subject_to(ocp2.at_t0(y) == 0)
ocp2.add_objective(ocp2.integral(y**2))
ocp2.set_initial(y, ocp2.t)      # documented form: expression of ocp.t
ocp2.solver('ipopt')
ocp2.method(DirectCollocation(N=2, degree=1))
start_and_params(ocp2)
ocp2.set_value(Tp, 6.0)
A2, _ = start_and_params(ocp2)
ocp2.save(fn)
B2, _ = start_and_params(ocp2)
print("parametric horizon: x0 live", A2, " x0 after save", B2)
ok = ok and np.allclose(A2, B2)
if not ok:
    print("VIOLATION: ocp.save() changed the original's NLP starting point from %s to %s (loaded: %s) after a post-transcription set_value" % (A, B, C))
    sys.exit(1)
print("no violation")
