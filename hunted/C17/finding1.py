# C17 finding 1: SplineMethod.grid_gist reports the Greville abscissae of the HEAD of an integrator
# chain for every member of the chain.
#
# Property: "coefficients sit at the Greville points" of the spline they belong to.  Under SplineMethod a
# chain p' = v, v' = a with a piecewise-constant control a makes p a degree-2, v a degree-1 and a a degree-0
# spline on the control knots.  ocp.sample(v, grid='gist') returns the N+1 B-spline coefficients of v (these
# are right: Cox-de Boor on them reproduces the samples of v) but pairs them with a time vector that holds the
# N+2 Greville points of the degree-2 spline p; for a it returns N coefficients with the same N+2 times.
# The expected abscissae are computed here independently from the definition
#   g_i = (k_{i+1}+...+k_{i+d})/d   on the clamped knot vector k (midpoints of the intervals for d=0).
import sys
sys.path.insert(0, '/verif/pydeps')
import numpy as np
import casadi as ca
from scipy.interpolate import BSpline
from rockit import Ocp, SplineMethod, GeometricGrid

def greville(xi, d):
    if d == 0:
        return (xi[1:] + xi[:-1]) / 2
    k = np.concatenate([[xi[0]] * d, xi, [xi[-1]] * d])
    return np.array([np.mean(k[i + 1:i + d + 1]) for i in range(len(xi) - 1 + d)])

N, t0, T = 4, 0.5, 2.0
ocp = Ocp(t0=t0, T=T)
p = ocp.state(); v = ocp.state(); a = ocp.control()
ocp.set_der(p, v); ocp.set_der(v, a)
ocp.add_objective(ocp.at_tf(p))
ocp.solver('ipopt')
grid = GeometricGrid(3)
ocp.method(SplineMethod(N=N, grid=grid))

xi = np.array(ca.evalf(ca.vec(grid(0, 1, N)))).reshape(-1)   # normalized control knots

bad = []
rng = np.random.default_rng(0)
vals = {}
def numeric(e):
    e = ca.MX(e)
    sv = ca.symvar(e)
    if not sv: return np.array(ca.evalf(e))
    for s in sv:
        vals.setdefault(s.name(), ca.DM(rng.normal(size=s.shape)))
    return np.array(ca.Function('f', sv, [e])(*[vals[s.name()] for s in sv]))

for name, sym, d in [('p', p, 2), ('v', v, 1), ('a', a, 0)]:
    tg, C = ocp.sample(sym, grid='gist')
    tg = numeric(tg).reshape(-1); C = numeric(C)
    expected = t0 + T * greville(xi, d)
    # the coefficients themselves are those of a degree-d spline: check against the refined samples
    ts, xs = ocp.sample(sym, grid='control', refine=3)
    ts = numeric(ts).reshape(-1); xs = numeric(xs).reshape(-1)
    k = np.concatenate([[xi[0]] * d, xi, [xi[-1]] * d])
    tau = np.clip((ts - t0) / T + 1e-12, 0, 1 - 1e-12)   # right-continuous evaluation (matters for d=0 only)
    coeff_ok = C.shape[1] == N + d and np.allclose(BSpline(k, C[0], d)(tau), xs, atol=1e-9)
    time_ok = tg.shape == expected.shape and np.allclose(tg, expected, atol=1e-12)
    print("%s (degree %d): %d coefficients (Cox-de Boor reproduces samples: %s), %d gist times" % (name, d, C.shape[1], coeff_ok, tg.shape[0]))
    print("    reported times :", np.round(tg, 5))
    print("    Greville points:", np.round(expected, 5))
    if coeff_ok and not time_ok:
        bad.append(name)

if bad:
    print("VIOLATION: ocp.sample(x, grid='gist') under SplineMethod pairs the coefficients of the lower members %s of an integrator chain with the Greville points of the chain head (wrong count and wrong values)" % bad)
    sys.exit(1)
print("ok")
