# C17 finding 3: SplineMethod, N=1: a path constraint that combines ocp.next()/prev()/offset() with a
# grid='bspline' signal is imposed at a spurious extra grid point with inconsistent operands.
#
# Property: under SplineMethod path constraints are imposed at every grid point (once, with all operands
# evaluated at that point).  With N=1 the constraint  next(p) - p <= w  has exactly one instance,
#   p(t1) - p(t0) <= w(t0)        (the offset drops the last node).
# grid_control() slices the state samples and the time vector for the offset, but not the sampled bspline
# signals (spline_traj keeps N+1 columns).  For N>=2 CasADi refuses the mismatching map input (loud); for N=1
# the map is the plain function, CasADi broadcasts the call over the 2 signal columns and a second row
#   p(t1) - p(t0) <= w(t1)
# enters the NLP silently.
import sys
sys.path.insert(0, '/verif/pydeps')
import numpy as np
import casadi as ca
from rockit import Ocp, SplineMethod

ocp = Ocp(T=2.0)
p = ocp.state(); v = ocp.state(); a = ocp.control()
ocp.set_der(p, v); ocp.set_der(v, a)
w = ocp.variable(grid='bspline', order=1)
ocp.add_objective(ocp.at_tf(p))
ocp.subject_to(ocp.next(p) - p <= w)
ocp.solver('ipopt')
ocp.method(SplineMethod(N=1))

_, ps = ocp.sample(p, grid='control')
_, ws = ocp.sample(w, grid='control')
opti = ocp._method.opti
x = np.random.default_rng(0).normal(size=opti.nx)
f = ca.Function('f', [opti.x], [opti.g, opti.lbg, opti.ubg, ps, ws])
g, lbg, ubg, ps, ws = [np.array(e).reshape(-1) for e in f(x)]
slack = ubg - g if np.all(np.isfinite(ubg)) else g - lbg
expected = np.array([ws[0] - (ps[1] - ps[0])])     # the single instance k=0
print("p at nodes", ps, " w at nodes", ws)
print("rows in NLP:", len(g), " slacks:", slack)
print("expected   :", len(expected), " slacks:", expected)
if len(g) != len(expected) or not np.allclose(np.sort(np.abs(slack)), np.sort(np.abs(expected))):
    extra = ws[1] - (ps[1] - ps[0])
    print("spurious row corresponds to p(t1)-p(t0) <= w(t1): slack %.6f" % extra)
    print("VIOLATION: SplineMethod(N=1) imposes next(p)-p<=w at 2 points instead of 1; the extra row mixes p(t1)-p(t0) with w(t1)")
    sys.exit(1)
print("ok")
