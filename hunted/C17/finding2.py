# C17 finding 2: refine= of a path constraint (and of ocp.integral(.., grid='control', refine=..)) is honoured by
# SplineMethod but silently ignored by MultipleShooting / SingleShooting / DirectCollocation, so the same
# declaration defines different NLPs and different optimal trajectories.
#
# Property: "path constraints are imposed at every (refined) grid point" and "On problems both can represent,
# SplineMethod and the shooting/collocation methods define the same optimal trajectories."
# Problem: double integrator p''=a with piecewise constant a (both methods represent it exactly: p is a
# C1 piecewise quadratic on the control grid), p(0)=0, v(0)=1.0, constraint p<=0.3 declared with refine=5,
# i.e. to hold at the 5 equidistant points of every control interval.  The trajectory is rebuilt here
# independently from the optimal a (p_k+v_k*tau+a_k*tau^2/2) and the constraint is checked at those points.
import sys
sys.path.insert(0, '/verif/pydeps')
import numpy as np
from rockit import Ocp, SplineMethod, MultipleShooting, DirectCollocation

N, T, refine, pmax = 4, 2.0, 5, 0.3

def solve(method):
    ocp = Ocp(T=T)
    p = ocp.state(); v = ocp.state(); a = ocp.control()
    ocp.set_der(p, v); ocp.set_der(v, a)
    ocp.subject_to(ocp.at_t0(p) == 0); ocp.subject_to(ocp.at_t0(v) == 1.0)
    ocp.subject_to(-2 <= (a <= 2))
    ocp.subject_to(p <= pmax, refine=refine)
    ocp.add_objective(ocp.sum(a**2 + (p - 1)**2, include_last=True))
    ocp.solver('ipopt', {'ipopt.print_level': 0, 'print_time': False, 'ipopt.tol': 1e-10})
    ocp.method(method)
    sol = ocp.solve()
    _, ps = sol.sample(p, grid='control'); _, vs = sol.sample(v, grid='control'); _, As = sol.sample(a, grid='control')
    # independent reconstruction on the refined grid
    h = T / N
    fine = []
    for k in range(N):
        for tau in np.linspace(0, h, refine + 1)[:-1]:
            fine.append(ps[k] + vs[k] * tau + As[k] * tau**2 / 2)
    fine.append(ps[-1])
    return np.array(fine), As

res = {}
for name, m in [('SplineMethod', SplineMethod(N=N)), ('MultipleShooting', MultipleShooting(N=N, intg='rk')), ('DirectCollocation', DirectCollocation(N=N))]:
    fine, As = solve(m)
    res[name] = (fine, As)
    print("%-18s a* = %s   max p on refined grid = %.6f (bound %.1f)" % (name, np.round(As[:-1], 4), fine.max(), pmax))

viol = []
for name in ['MultipleShooting', 'DirectCollocation']:
    if res[name][0].max() > pmax + 1e-6:
        viol.append("%s: p=%.4f>%.1f at a refined point" % (name, res[name][0].max(), pmax))
    if np.abs(res[name][1] - res['SplineMethod'][1]).max() > 1e-4:
        viol.append("%s optimum differs from SplineMethod by %.3g in a" % (name, np.abs(res[name][1] - res['SplineMethod'][1]).max()))
assert res['SplineMethod'][0].max() <= pmax + 1e-6   # SplineMethod does what was declared

# Part B: the same holds for ocp.integral(e, grid='control', refine=r) and ocp.sample(e, grid='control', refine=r):
# with a fully prescribed trajectory (a=0.3, p(0)=1, v(0)=0.5, p(t)=1+0.5t+0.15t^2) the declared objective is the
# left Riemann sum of p^2 over the N*r refined intervals; the shooting methods return the sum over the N control
# intervals and N+1 samples instead of N*r+1.
def partB(method):
    ocp = Ocp(T=T)
    p = ocp.state(); v = ocp.state(); a = ocp.control()
    ocp.set_der(p, v); ocp.set_der(v, a)
    I = ocp.integral(p**2, grid='control', refine=4)
    ocp.add_objective(I)
    ocp.subject_to(ocp.at_t0(p) == 1); ocp.subject_to(ocp.at_t0(v) == 0.5); ocp.subject_to(a == 0.3, include_last=False)
    ocp.solver('ipopt', {'ipopt.print_level': 0, 'print_time': False})
    ocp.method(method)
    sol = ocp.solve()
    ts, _ = sol.sample(p, grid='control', refine=4)
    return float(sol.value(I)), len(ts)
tt = np.linspace(0, T, N * 4 + 1); pe = 1 + 0.5 * tt + 0.15 * tt**2
I_expected = np.sum(pe[:-1]**2 * np.diff(tt))
for name, m in [('SplineMethod', SplineMethod(N=N)), ('MultipleShooting', MultipleShooting(N=N, intg='rk')), ('DirectCollocation', DirectCollocation(N=N))]:
    I, n = partB(m)
    print("%-18s integral(p^2, grid='control', refine=4) = %.6f (declared: %.6f), %d samples with refine=4 (declared: %d)" % (name, I, I_expected, n, N * 4 + 1))
    if abs(I - I_expected) > 1e-6 or n != N * 4 + 1:
        viol.append("%s: integral(grid='control',refine=4)=%.4f instead of %.4f, %d samples instead of %d" % (name, I, I_expected, n, N * 4 + 1))
if viol:
    print("VIOLATION: refine= is silently ignored by the shooting/collocation methods (constraints only at control nodes, unrefined sums/samples): " + "; ".join(viol))
    sys.exit(1)
print("ok")
