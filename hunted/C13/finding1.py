# C13 finding 1: set_value() after a transcription (sample/solve) does not refresh the initial guesses that
# depend on the parameter: the next solve starts from guesses computed with the OLD parameter value, whereas a
# freshly written OCP with the same final specification starts from guesses computed with the NEW value.
#  (a) a user guess declared as an expression of the parameter:  ocp.set_initial(x, p*ocp.t)
#  (b) rockit's own guesses of the helper variables of a localized time grid (T_local), computed from the
#      horizon T=p: after set_value they no longer add up to the horizon.
# Expected (property C13): the NLP + starting point handed to the solver depend only on the final
# specification {guess x = p*t, p = 3}, i.e. x guess = 3*t_k on the control grid; history must not matter.
import sys
import numpy as np, casadi as ca
from rockit import Ocp, MultipleShooting, UniformGrid

opts = {'ipopt.print_level': 0, 'print_time': False, 'ipopt.sb': 'yes'}

bad = []

# ---------------- (a) user guess depending on a parameter
def build_a():
    ocp = Ocp(T=2)
    x = ocp.state(); u = ocp.control(); p = ocp.parameter()
    ocp.set_der(x, u)
    ocp.subject_to(ocp.at_t0(x) == 0)
    ocp.add_objective(ocp.integral((x-p*ocp.t)**2 + u**2))
    ocp.set_initial(x, p*ocp.t)
    ocp.method(MultipleShooting(N=4)); ocp.solver('ipopt', opts)
    return ocp, x, p

fresh, x, p = build_a(); fresh.set_value(p, 3.0)
hist, xh, ph = build_a(); hist.set_value(ph, 1.0); hist.solve(); hist.set_value(ph, 3.0)

def x_guess(ocp, x):
    _, xs = ocp.sample(x, grid='control')
    opti = ocp._method.opti
    return np.array(opti.debug.value(xs, opti.initial())).reshape(-1)
gf, gh = x_guess(fresh, x), x_guess(hist, xh)
expected = 3.0*np.linspace(0, 2, 5)               # p*t on the control grid, independent computation
print("(a) expected x guess      :", expected)
print("(a) fresh OCP             :", gf)
print("(a) solve, then set_value :", gh)
if np.abs(gf-expected).max() < 1e-12 and np.abs(gh-expected).max() > 1e-6:
    bad.append("guess x=p*t still evaluated with the old p after set_value (got %s, fresh OCP gives %s)" % (gh, gf))

# ---------------- (b) helper guesses of a localized grid, horizon T = parameter
def build_b():
    ocp = Ocp()
    x = ocp.state(); u = ocp.control(); p = ocp.parameter()
    ocp.set_T(p)
    ocp.set_der(x, u)
    ocp.subject_to(ocp.at_t0(x) == 0); ocp.subject_to(ocp.at_tf(x) == 1)
    ocp.add_objective(ocp.integral(u**2))
    ocp.method(MultipleShooting(N=4, grid=UniformGrid(localize_T=True))); ocp.solver('ipopt', opts)
    return ocp, x, p
fresh, x, p = build_b(); fresh.set_value(p, 3.0)
hist, xh, ph = build_b(); hist.set_value(ph, 1.0); hist.solve(); hist.set_value(ph, 3.0)
def grid_guess(ocp):
    ts, _ = ocp.sample(ocp.t, grid='control')
    opti = ocp._method.opti
    return np.array(opti.debug.value(ts, opti.initial())).reshape(-1)
tf_, th_ = grid_guess(fresh), grid_guess(hist)
expected = np.linspace(0, 3, 5)
print("(b) expected control grid at the initial guess (T=3):", expected)
print("(b) fresh OCP             :", tf_)
print("(b) solve, then set_value :", th_)
if np.abs(tf_-expected).max() < 1e-12 and np.abs(th_-expected).max() > 1e-6:
    bad.append("guesses of the local interval lengths still those of the old horizon after set_value (grid %s instead of %s)" % (th_, tf_))

if bad:
    for b in bad: print("VIOLATION: " + b)
    sys.exit(1)
print("ok")
