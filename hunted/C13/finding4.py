# C13 finding 4: the public method Ocp.transcribe() transcribes the user's OCP IN PLACE (Ocp._transcribe is run on
# the original object instead of on the augmented deep copy that sample/solve work on). It thereby alters what
# the user declared: the FreeTime horizon is replaced by a plain variable, a constraint T>=0, a quadrature state
# and a guess are added to the user's OCP. As a consequence a later  ocp.set_initial(ocp.T, 5)  (a change of
# the FreeTime guess, which normally leads to a re-transcription) is silently ignored: the next solve still
# starts from T=2, a freshly written OCP with the same declarations from T=5.
# Expected (property C13): transcribing never alters the declared states/constraints/horizon; a change made
# afterwards is honoured or rejected.
import sys
import numpy as np, casadi as ca
from rockit import Ocp, MultipleShooting, FreeTime
opts = {'ipopt.print_level': 0, 'print_time': False, 'ipopt.sb': 'yes'}

def build():
    ocp = Ocp(T=FreeTime(2.0))
    x = ocp.state(); u = ocp.control()
    ocp.set_der(x, u)
    ocp.subject_to(ocp.at_t0(x) == 0); ocp.subject_to(ocp.at_tf(x) == 1); ocp.subject_to(-1 <= (u <= 1))
    ocp.add_objective(ocp.T + ocp.integral(u**2))
    ocp.set_initial(x, ocp.t)
    ocp.method(MultipleShooting(N=4)); ocp.solver('ipopt', opts)
    return ocp, x

def declared(ocp):
    return dict(T=type(ocp._T).__name__, n_variables=ocp.nv, n_quadrature_states=len(ocp.qstates),
                n_point_constraints=len(ocp._constraints['point']), n_guesses=len(list(ocp._initial.keys())))
def start(ocp, x):
    xs = ocp.sample(x, grid='control')[1]
    opti = ocp._method.opti
    val = lambda e: np.array(opti.debug.value(e, opti.initial())).reshape(-1)
    return float(val(ocp.value(ocp.T))[0]), val(xs)

ref, xr = build()
ref.solve()                                  # ordinary route: works on a copy
d_ref = declared(ref)
ref.set_initial(ref.T, 5.0)
T_ref, x_ref = start(ref, xr)

ocp, x = build()
d0 = declared(ocp)
ocp.transcribe()
d1 = declared(ocp)
ocp.set_initial(ocp.T, 5.0)
T_got, x_got = start(ocp, x)
print("declarations before transcribe():", d0)
print("declarations after  transcribe():", d1)
print("declarations after  solve()     :", d_ref)
print("T / x guess after set_initial(T,5): via solve() route", T_ref, x_ref, "; via transcribe() route", T_got, x_got)
bad = []
if d0 == d_ref and d1 != d0:
    bad.append("Ocp.transcribe() altered the user's declarations: %s -> %s" % (d0, d1))
if abs(T_ref-5) < 1e-12 and abs(T_got-5) > 1e-9:
    bad.append("set_initial(ocp.T, 5) after Ocp.transcribe() is silently ignored (T guess %s, x guess %s instead of 5, %s)" % (T_got, x_got, x_ref))
if bad:
    for b in bad: print("VIOLATION: " + b)
    sys.exit(1)
print("ok")
