# C13 finding 2: set_initial() after a transcription re-applies only the guesses of the calling stage, once.
# A fresh transcription does more (every stage, two passes, plus the guesses of rockit's helper variables),
# so the starting point of the next solve depends on whether a query/solve happened before the call:
#  (a) idempotence: repeating an already declared guess  ocp.set_initial(w, 0)  after a mere ocp.sample()
#      changes the guess of ANOTHER variable (x) - two OCPs with literally the same declarations differ.
#      (guesses declared as expressions of other guesses: v=3, u=2*v, x=5*u)
#  (b) a guess of a master variable on which the horizon of a sub-stage depends: after a solve, the new guess
#      reaches the master variable only; the stage's time-dependent guess x=t and the guesses of the helper
#      variables of its localized grid keep the values computed from the old horizon guess (they no longer add up to T).
# Expected (property C13): same declarations => same NLP starting point; querying changes nothing.
import sys
import numpy as np, casadi as ca
from rockit import Ocp, MultipleShooting, UniformGrid
opts = {'ipopt.print_level': 0, 'print_time': False, 'ipopt.sb': 'yes'}
bad = []

def guess(ocp, e, stage=None, grid='control'):
    s = ocp if stage is None else stage
    _, es = s.sample(e, grid=grid)
    opti = ocp._method.opti
    return np.array(opti.debug.value(es, opti.initial())).reshape(-1)

# ---------------- (a)
def build_a(query_first):
    ocp = Ocp(T=2)
    x = ocp.state(); u = ocp.control(); v = ocp.variable(); w = ocp.variable()
    ocp.set_der(x, u+v+w)
    ocp.add_objective(ocp.integral(x**2+u**2)+v**2+w**2)
    ocp.set_initial(v, 3)
    ocp.set_initial(u, 2*v)
    ocp.set_initial(x, 5*u)
    ocp.set_initial(w, 0.0)
    ocp.method(MultipleShooting(N=2)); ocp.solver('ipopt', opts)
    if query_first:
        ocp.sample(x, grid='control')    # a query
    ocp.set_initial(w, 0.0)              # the very same guess once more
    return ocp, x
A, xa = build_a(False); B, xb = build_a(True)
ga, gb = guess(A, xa), guess(B, xb)
print("(a) x guess, no query before the repeated set_initial:", ga)
print("(a) x guess, ocp.sample() before the repeated set_initial:", gb, " (declared: x=5*u=5*2*v=30)")
if np.abs(ga-gb).max() > 1e-9:
    bad.append("same declarations, different starting point: x guess %s without and %s with an intermediate ocp.sample()" % (ga, gb))

# ---------------- (b)
def build_b(Tguess, history):
    ocp = Ocp()
    Tv = ocp.variable()
    ocp.subject_to(Tv >= 0.1)
    ocp.set_initial(Tv, 1.0 if history else Tguess)
    s = ocp.stage(T=Tv)
    x = s.state(); u = s.control(); s.set_der(x, u)
    s.subject_to(s.at_t0(x) == 0); s.subject_to(s.at_tf(x) == 1); s.subject_to(-1 <= (u <= 1))
    s.set_initial(x, s.t)
    s.method(MultipleShooting(N=4, grid=UniformGrid(localize_T=True)))
    ocp.add_objective(Tv); ocp.solver('ipopt', opts)
    if history:
        ocp.solve()
        ocp.set_initial(Tv, Tguess)       # change made after a solve
    return ocp, s, x, Tv
F, sf, xf, Tf = build_b(3.0, False); H, sh, xh, Th = build_b(3.0, True)
tF, tH = guess(F, sf.t, sf), guess(H, sh.t, sh)
xF, xH = guess(F, xf, sf), guess(H, xh, sh)
TF = float(F._method.opti.debug.value(F.value(Tf), F._method.opti.initial())); TH = float(H._method.opti.debug.value(H.value(Th), H._method.opti.initial()))
expected = np.linspace(0, 3, 5)   # uniform grid on [0, T] with the guess T=3; x guess = t
print("(b) T guess fresh/history:", TF, TH)
print("(b) control grid at the initial guess, fresh  :", tF, " x:", xF)
print("(b) control grid at the initial guess, history:", tH, " x:", xH)
if abs(TF-3) < 1e-12 and abs(TH-3) < 1e-12 and np.abs(tF-expected).max() < 1e-12 and (np.abs(tH-expected).max() > 1e-6 or np.abs(xH-expected).max() > 1e-6):
    bad.append("after solve + set_initial(T,3) the stage starts from grid %s / x %s (old horizon guess), a fresh OCP from %s" % (tH, xH, tF))

if bad:
    for b in bad: print("VIOLATION: " + b)
    sys.exit(1)
print("ok")
