# C13 finding 3: an OCP whose transcription FAILED half-way is treated as transcribed.
# Ocp._transcribe() marks the OCP as transcribed right after phase 1; phase 2 (initial guesses, guesses of the
# helper variables of free/localized time grids, parameter values) runs afterwards. If phase 2 raises - here: an
# initial guess with a wrong number of columns for stage 1 - the exception is loud, but from then on
#   * a second ocp.solve() does not report the bad guess any more: it hands the half-initialised NLP to the solver
#     (which here gives up because the FreeTime guesses of stage 2 were never applied: T=0), and
#   * correcting the guess with set_initial() only re-applies the guesses of that stage: the guesses that
#     the user declared for stage 2, and its FreeTime guesses for T and t0, are never applied (all zeros).
# Expected (property C13): after the correction the next solve starts from the same point as a freshly
# written OCP with the corrected guess (or the OCP keeps refusing to solve); declared guesses are not dropped.
import sys
import numpy as np, casadi as ca
from rockit import Ocp, MultipleShooting, FreeTime
opts = {'ipopt.print_level': 0, 'print_time': False, 'ipopt.sb': 'yes'}

def build(u_guess):
    ocp = Ocp()
    def mkstage(T, t0=0):
        s = ocp.stage(t0=t0, T=T)
        x = s.state(); u = s.control()
        s.set_der(x, u)
        s.subject_to(-1 <= (u <= 1))
        s.add_objective(s.integral(x**2+u**2))
        s.method(MultipleShooting(N=3))
        s.x_, s.u_ = x, u
        return s
    s1 = mkstage(1.0); s2 = mkstage(FreeTime(1.5), t0=FreeTime(1.0))
    s1.set_initial(s1.u_, u_guess)
    s2.set_initial(s2.x_, 0.7); s2.set_initial(s2.u_, 0.2)
    ocp.subject_to(s1.at_t0(s1.x_) == 1)
    ocp.subject_to(s1.at_tf(s1.x_) == s2.at_t0(s2.x_))
    ocp.subject_to(s1.tf == s2.t0)
    ocp.add_objective(s2.T)
    ocp.solver('ipopt', opts)
    return ocp, s1, s2

def start(ocp, s2):
    xs = s2.sample(s2.x_, grid='control')[1]   # a query: transcribes when needed
    opti = ocp._method.opti
    val = lambda e: np.array(opti.debug.value(e, opti.initial())).reshape(-1)
    return dict(x2=val(s2.sample(s2.x_, grid='control')[1]), u2=val(s2.sample(s2.u_, grid='control-')[1]),
                T2=val(ocp.value(s2.T)), t02=val(ocp.value(s2.t0)))

good = np.array([.1, .2, .3])
fresh, f1, f2 = build(good)
ref = start(fresh, f2)
print("fresh OCP, stage 2 starting point:", ref)

ocp, s1, s2 = build(np.ones(7))          # 7 values for 3 control intervals
try:
    ocp.solve()
    print("first solve did not raise?!"); sys.exit(0)
except Exception as e:
    print("first solve raises (fine, loud):", str(e).splitlines()[-1][:80])
second_silent = False
try:
    ocp.solve(); second_silent = True
    print("second solve: no exception any more")
except Exception as e:
    # "Solver failed" = the NLP solver was started on the half-initialised problem (T guess 0) and gave up:
    # the transcription error itself is not reported any more
    second_silent = "Solver failed" in str(e)
    print("second solve raises:", str(e).splitlines()[-1][:80])
s1.set_initial(s1.u_, good)              # the user corrects the guess
got = start(ocp, s2)
print("after the correction, stage 2 starting point:", got)
# independent expectation: what the user declared for stage 2
exp = dict(x2=0.7*np.ones(4), u2=0.2*np.ones(3), T2=np.array([1.5]), t02=np.array([1.0]))
ok_ref = all(np.abs(ref[k]-exp[k]).max() < 1e-12 for k in exp)
wrong = [k for k in exp if np.abs(got[k]-exp[k]).max() > 1e-9]
if ok_ref and wrong:
    print("VIOLATION: after a failed transcription + corrected guess, the declared guesses of stage 2 are dropped (%s: got %s, declared %s)%s"
          % (",".join(wrong), [got[k].tolist() for k in wrong], [exp[k].tolist() for k in wrong],
             "; a second solve() handed the half-initialised NLP to the solver instead of reporting the bad guess again" if second_silent else ""))
    sys.exit(1)
print("ok")
