# C12 finding 3: read-back of stage.objective through sol(stage) is silently wrong for a tree of clones.
#
# Structure taken from examples/robust_optimal_control_recurse.py: one template with a slack variable L
# as objective (template.add_objective(L)), stages are made with parent.stage(template) so that clones
# are nested inside clones.  Clones share the symbols of the template (L, parameters, ...).
# Stage.objective returns  self._objective + sum(child.objective)  as ONE expression: for a parent P with
# child C (both clones) that is  L + L.  sol(P).value(P.objective) / P.value(P.objective) evaluates this
# expression in the context of P only, so the child's term is read with P's variable (and P's parameter
# values): 2*L_P instead of L_P + L_C.  No exception.
#
# Expected (C12: "the total objective is the sum of all stage objectives", stages do not interfere,
# sol(stage) read-back): the value of P.objective must be the part of the NLP objective contributed by P
# and its sub-stage, here the whole opti.f = L_P + w_C*L_C  (hand formula below).
# No NLP solve is needed: both sides are evaluated at an arbitrary decision vector.
import sys
import numpy as np, casadi as ca
from rockit import Ocp, Stage, MultipleShooting

tmpl = Stage(T=1)
x = tmpl.state(); u = tmpl.control()
L = tmpl.variable()          # slack variable used as cost
w = tmpl.parameter()         # weight, different per clone
tmpl.set_der(x, u)
tmpl.add_objective(w*L)
tmpl.subject_to(L >= (x-3)**2+u**2)
tmpl.method(MultipleShooting(N=2))

ocp = Ocp()
P = ocp.stage(tmpl, t0=0); P.set_value(w, 1)
C = P.stage(tmpl, t0=1);   C.set_value(w, 10)
P.set_initial(L, 2); C.set_initial(L, 3)
ocp.subject_to(C.at_t0(x) == P.at_tf(x))
ocp.solver('ipopt', {"ipopt.print_level": 0, "print_time": False})

ocp._transcribed
opti = ocp._method.opti
opti.advanced.bake()
pv = opti.debug.value(opti.p, opti.initial())

readback = ca.Function('r', [opti.x, opti.p], [P.value(P.objective), opti.f, P.value(L), C.value(L), C.value(C.objective)])
xv = np.random.RandomState(1).rand(opti.nx)+0.5
rb, f, LP, LC, rbC = [float(e) for e in readback(xv, pv)]
expected = 1*LP + 10*LC      # by hand: sum of the two stage objectives
print("L_P = %.6f  L_C = %.6f" % (LP, LC))
print("NLP objective opti.f            : %.6f (hand: %.6f)" % (f, expected))
print("C.value(C.objective)            : %.6f (hand: %.6f)" % (rbC, 10*LC))
print("P.value(P.objective) (read-back): %.6f" % rb)
assert abs(f-expected) < 1e-9 and abs(rbC-10*LC) < 1e-9

# same through an OcpSolution object (no iterations: the solution object of the initial point)
ocp.solver('ipopt', {"ipopt.print_level": 0, "print_time": False, "ipopt.max_iter": 0})
sol = ocp.solve_limited()
v_sol = float(sol(P).value(P.objective)); v_ref = float(sol(P).value(w*L)) + float(sol(C).value(w*L))
print("sol(P).value(P.objective) = %.6f, sol(P).value(w*L)+sol(C).value(w*L) = %.6f" % (v_sol, v_ref))

if abs(rb-expected) > 1e-9:
    print("VIOLATION: P.objective of a parent clone is read back as %.6f = 2*w_P*L_P instead of the sum of the stage objectives %.6f (child's term evaluated with the parent's symbols)" % (rb, expected))
    sys.exit(1)
print("ok")
