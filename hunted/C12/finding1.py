# C12 finding 1: Stage.clone() silently drops the sub-stages of a template.
#
# A template stage that itself carries a sub-stage (a stage tree used as a building block, e.g. a
# "phase" that owns a nested "sub-phase") is cloned with ocp.stage(template).  The clone silently loses
# the nested stage: its decision variables, its dynamics constraints, its boundary constraints and its
# objective term are all absent from the NLP, no exception is raised.
#
# Expected (property C12): "A stage created from a template is equivalent to a stage declared directly
# with the same content".  The directly declared tree  ocp -> s -> ss  has nx = 5 + 3 variables,
# 2 + 2 gap-closing constraints + 1 boundary constraint of ss, and f = at_tf(x) + at_tf(y).
# The reference below is the directly declared tree, and additionally a hand computation of f.
import sys
import numpy as np, casadi as ca
from rockit import Ocp, Stage, MultipleShooting


def content(s):
    # parent content
    x = s.state(); u = s.control()
    s.set_der(x, u)
    s.add_objective(s.at_tf(x))
    s.method(MultipleShooting(N=2))
    # nested sub-stage
    ss = s.stage(t0=0, T=1)
    y = ss.state()
    ss.set_der(y, -y)
    ss.subject_to(ss.at_t0(y) == 1)
    ss.add_objective(ss.at_tf(y))
    ss.method(MultipleShooting(N=2))
    return ss


def nlp(ocp):
    ocp.solver('ipopt', {"ipopt.print_level": 0, "print_time": False})
    ocp._transcribed
    opti = ocp._method.opti
    opti.advanced.bake()
    return opti, ca.Function('F', [opti.x], [opti.f, opti.g])


# directly declared
ocp_d = Ocp()
s = ocp_d.stage(t0=0, T=1)
content(s)
opti_d, F_d = nlp(ocp_d)

# via a template
ocp_c = Ocp()
tmpl = Stage(t0=0, T=1)
content(tmpl)
c = ocp_c.stage(tmpl)
opti_c, F_c = nlp(ocp_c)

print("template has sub-stages :", len(tmpl._stages), " clone has sub-stages:", len(c._stages))
print("direct  : nx=%d ng=%d" % (opti_d.nx, opti_d.ng))
print("cloned  : nx=%d ng=%d" % (opti_c.nx, opti_c.ng))

xv = np.arange(1, opti_d.nx+1)*0.1   # [X0,U0,X1,U1,X2, Y0,Y1,Y2]
f_d = float(F_d(xv)[0])
f_expected = xv[4] + xv[7]            # at_tf(x) + at_tf(y), by hand
f_c = float(F_c(xv[:opti_c.nx])[0])
print("objective direct %.4f (hand %.4f), cloned %.4f" % (f_d, f_expected, f_c))

bad = (opti_c.nx != opti_d.nx) or (opti_c.ng != opti_d.ng) or abs(f_c-f_expected) > 1e-9
assert abs(f_d-f_expected) < 1e-9
if bad:
    print("VIOLATION: ocp.stage(template) silently drops the template's sub-stages (clone NLP has %d vars / %d constraints instead of %d / %d; objective misses the nested stage's term)" % (opti_c.nx, opti_c.ng, opti_d.nx, opti_d.ng))
    sys.exit(1)
print("ok")
