# C12 finding 2: a clone keeps the TEMPLATE's placeholders inside ocp.next/prev/offset expressions,
# so the clone's constraint silently reads quantities (T, at_t0, ...) of its sibling.
#
# Pattern (same as examples/bounce_loop.py): the template is a live stage of the OCP and further
# stages are made with ocp.stage(previous_stage).  The template has a path constraint with an offset
# whose argument contains one of the stage's own placeholders (here the free horizon T and at_t0):
#         s.next(s.T*x) - s.T*x <= 1            ("scaled increment per interval")
#         (s.next(x - s.at_t0(x)))*u <= 5
# Stage.clone() renews/substitutes the placeholders in constraints, objective, dynamics and placeholder
# expressions, but deep-copies self._offsets without substitution.  In the clone, s.next(...) therefore
# still contains the template's r_T / r_at_t0 symbols.  They are not loud: the master-level placeholder
# pool contains the template's placeholders (the template is transcribed too), so they are resolved to
# the TEMPLATE's horizon / initial state.
#
# Expected (C12: a clone is equivalent to a stage declared directly with the same content, T of a stage
# refers to that stage only, independent of its siblings): rows of stage 2 must be
#         1 - T2*(Y[k+1]-Y[k])      and      5 - (Y[k+1]-Y0)*W[k]
# (hand formulas below, and the same OCP with stage 2 declared directly reproduces them).
import sys
import numpy as np, casadi as ca
from rockit import Ocp, MultipleShooting, FreeTime


def content(s):
    x = s.state(); u = s.control()
    s.set_der(x, u)
    s.subject_to(s.next(s.T*x) - s.T*x <= 1, include_last=False)
    s.subject_to(s.next(x - s.at_t0(x))*u <= 5, include_last=False)
    s.add_objective(s.T)
    s.method(MultipleShooting(N=2))
    return x, u


def nlp(ocp):
    ocp.solver('ipopt', {"ipopt.print_level": 0, "print_time": False})
    ocp._transcribed
    opti = ocp._method.opti
    opti.advanced.bake()
    return opti, ca.Function('F', [opti.x], [opti.g, opti.lbg, opti.ubg])


def slacks(ocp, xv):
    opti, F = nlp(ocp)
    g, lbg, ubg = [np.array(e).ravel() for e in F(xv)]
    sel = np.isinf(lbg) & np.isfinite(ubg)     # the '<=' rows
    return np.sort(ubg[sel]-g[sel]), opti


def make(clone):
    ocp = Ocp()
    s1 = ocp.stage(t0=0, T=FreeTime(1))
    x, u = content(s1)
    if clone:
        s2 = ocp.stage(s1, t0=1, T=FreeTime(2))
    else:
        s2 = ocp.stage(t0=1, T=FreeTime(2))
        content(s2)
    return ocp, s1, s2, x, u


rng = np.random.RandomState(0)
xv = rng.rand(12)+0.5
# MultipleShooting variable layout per stage: [X0, T, U0, X1, U1, X2]
X0, T1, U0, X1, U1, X2, Y0, T2, W0, Y1, W1, Y2 = xv

ocp_c, s1, s2, x, u = make(True)
got, opti = slacks(ocp_c, xv)
# sanity check of the assumed layout through the library's own read-back
chk = ca.Function('c', [opti.x], [s2.value(s2.T), s2.sample(x, grid='control')[1], s1.value(s1.T)])
t2, ys, t1 = chk(xv)
assert abs(float(t2)-T2) < 1e-12 and abs(float(t1)-T1) < 1e-12 and np.allclose(np.array(ys).ravel(), [Y0, Y1, Y2])

expected = np.sort([1-T1*(X1-X0), 1-T1*(X2-X1), 5-(X1-X0)*U0, 5-(X2-X0)*U1,
                    1-T2*(Y1-Y0), 1-T2*(Y2-Y1), 5-(Y1-Y0)*W0, 5-(Y2-Y0)*W1])
ocp_d = make(False)[0]
direct, _ = slacks(ocp_d, xv)
assert np.allclose(direct, expected), (direct, expected)   # directly declared stages obey the hand formulas

print("expected slacks (hand / direct declaration):", expected)
print("clone-built OCP                             :", got)
wrong = np.sort([1-(T1*Y1-T2*Y0), 1-(T1*Y2-T2*Y1), 5-(Y1-X0)*W0, 5-(Y2-X0)*W1])
print("rows of stage 2 if it used T and at_t0(x) of stage 1:", wrong)
if got.shape != expected.shape or not np.allclose(got, expected):
    print("VIOLATION: in a clone, placeholders (T, at_t0, ...) inside ocp.next/prev/offset still refer to the template stage: the clone's constraints silently use its sibling's horizon/initial state")
    sys.exit(1)
print("ok")
