# C15 finding 1: a product of a VECTOR-valued state in a grid='inf' constraint silently
# constrains only the first component.
#
#   x = ocp.state(2);  ocp.subject_to(x*x <= 1, grid='inf')
#
# is the element-wise path constraint x0(t)^2<=1 AND x1(t)^2<=1 for all t (this is what the
# same declaration means on grid='control': two rows per grid point).  The property demands NLP
# conditions that are sufficient for both components at every time, or a rejection.
# rockit produces, per integrator interval, 9 Bernstein rows that involve x0 only: BSpline.__mul__
# indexes the (5 x 2) coefficient matrix with a flat list (self.coeffs[pairs[0].tolist()]), which
# for a casadi matrix is linear indexing into the first column.  Nothing about x1 enters the NLP.
#
# Evidence (no NLP solve): a decision vector that satisfies EVERY constraint of the transcribed NLP
# (gap closing and all grid='inf' rows) while x1(t)^2 is about 4 > 1 on the whole horizon.
# The trajectory is recomputed here independently with a hand-written RK4 step and its
# degree-4 continuous extension (the scheme's own polynomial).
import sys
import numpy as np
import casadi as ca
from rockit import Ocp, MultipleShooting

T, N = 2.0, 2
f = lambda x, u: np.array([-x[0] + u, -0.1 * x[1]])

ocp = Ocp(T=T)
x = ocp.state(2)
u = ocp.control()
ocp.set_der(x, ca.vertcat(-x[0] + u, -0.1 * x[1]))
ocp.subject_to(x * x <= 1, grid='inf')          # element-wise: both components
ocp.add_objective(ocp.integral(u ** 2))
ocp.solver('ipopt')
ocp.method(MultipleShooting(N=N, M=1, intg='rk'))
ocp._transcribe()
opti = ocp._method.opti
m = ocp._method

def index_of(expr):
    # decision variables are unscaled plain entries of opti.x: evaluate at w=arange to get their positions
    return np.array(ca.Function('i', [opti.x], [expr])(np.arange(opti.nx))).astype(int).reshape(-1)

# hand-made RK4 (independent of rockit)
def rk4(xk, uk, h):
    k1 = f(xk, uk); k2 = f(xk + h / 2 * k1, uk); k3 = f(xk + h / 2 * k2, uk); k4 = f(xk + h * k3, uk)
    xf = xk + h / 6 * (k1 + 2 * k2 + 2 * k3 + k4)
    # continuous extension used by rockit for intg='rk' (degree 4 in local time s in [0,h])
    c = [xk, k1, (k2 - k1) / h, 2 * (k3 - k2) / (3 * h ** 2), (k4 - 2 * k3 + k1) / (6 * h ** 3)]
    return xf, c

w = np.zeros(opti.nx)
h = T / N
xk = np.array([0.1, 2.0])     # x1 starts at 2: x1^2 = 4 > 1
min_x1sq = np.inf
max_x0sq = 0
for k in range(N):
    w[index_of(m.X[k])] = xk
    w[index_of(m.U[k])] = 0.0
    xf, c = rk4(xk, 0.0, h)
    s = np.linspace(0, h, 101)
    traj = sum(np.outer(ci, s ** i) for i, ci in enumerate(c))   # 2 x 101
    assert np.allclose(traj[:, -1], xf)
    min_x1sq = min(min_x1sq, np.min(traj[1] ** 2))
    max_x0sq = max(max_x0sq, np.max(traj[0] ** 2))
    xk = xf
w[index_of(m.X[N])] = xk

G = ca.Function('G', [opti.x, opti.p], [opti.g, opti.lbg, opti.ubg])
g, lbg, ubg = [np.array(e).reshape(-1) for e in G(w, np.zeros(opti.np))]
viol = max(np.max(lbg - g), np.max(g - ubg))
n_ineq = int(np.sum(lbg != ubg))
print("NLP rows: %d (of which %d inequality rows from grid='inf'); max NLP constraint violation at w: %.2e" % (g.size, n_ineq, viol))
print("independent trajectory: max_t x0(t)^2 = %.4f, min_t x1(t)^2 = %.4f (declared bound: 1)" % (max_x0sq, min_x1sq))
# 2 components x N intervals x 9 Bernstein coefficients (degree 8) would be needed
print("expected 2*%d*9 = %d sufficient rows (or a rejection), got %d" % (N, 2 * N * 9, n_ineq))

if viol < 1e-9 and min_x1sq > 1 + 1e-6:
    print("VIOLATION: grid='inf' constraint x*x<=1 on a 2-vector state: all NLP conditions hold but x1(t)^2 >= %.3f > 1 on the whole horizon (second component dropped silently)" % min_x1sq)
    sys.exit(1)
print("ok")
