# C15 finding 2: box bounds with per-component limits on a 5-dimensional vector state, declared
# with grid='inf', are paired with the wrong axis (Bernstein-coefficient index instead of
# state-component index).
#
#   x  = ocp.state(5);  ub = [1,2,3,4,5]
#   ocp.subject_to(-ub <= (x <= ub), grid='inf')
#
# declares |x_j(t)| <= ub_j for every component j and every t.  The property demands NLP conditions
# that are sufficient for this at every time of every interval (or a rejection; for every other
# state dimension rockit does reject: "Dimension mismatch ... x is 3x1 while y is 5x3").
# For nx=5 the Bernstein coefficient matrix C (5 coefficients x 5 components) happens to have as
# many rows as the bound vector, so BSpline.common() evaluates  C <= ub  with casadi's column
# broadcasting: the resulting rows are  -ub_i <= C[i,j] <= ub_i , i = coefficient index.  I.e. the
# value at the START of each interval of every component is bounded by 1, the value at the END of
# each interval of every component by 5.  Component x_0 (declared |x_0|<=1) may reach 5.
#
# Evidence (no NLP solve): a decision vector satisfying EVERY constraint of the transcribed NLP
# while x_0 rises to 3 > 1.  Trajectory recomputed independently with a hand-written RK4 step and
# its degree-4 continuous extension.
import sys
import numpy as np
import casadi as ca
from rockit import Ocp, MultipleShooting

T, N = 2.0, 2
ub = np.array([1., 2., 3., 4., 5.])
e0 = np.array([1., 0, 0, 0, 0])
f = lambda x, u: e0 * u            # x0' = u, other components constant

ocp = Ocp(T=T)
x = ocp.state(5)
u = ocp.control()
ocp.set_der(x, ca.DM(e0) * u)
ocp.subject_to(-ca.DM(ub) <= (x <= ca.DM(ub)), grid='inf')
ocp.add_objective(ocp.integral(u ** 2))
ocp.solver('ipopt')
ocp.method(MultipleShooting(N=N, M=1, intg='rk'))
ocp._transcribe()
opti = ocp._method.opti
m = ocp._method

def index_of(expr):
    return np.array(ca.Function('i', [opti.x], [expr])(np.arange(opti.nx))).astype(int).reshape(-1)

def rk4(xk, uk, h):
    k1 = f(xk, uk); k2 = f(xk + h / 2 * k1, uk); k3 = f(xk + h / 2 * k2, uk); k4 = f(xk + h * k3, uk)
    xf = xk + h / 6 * (k1 + 2 * k2 + 2 * k3 + k4)
    c = [xk, k1, (k2 - k1) / h, 2 * (k3 - k2) / (3 * h ** 2), (k4 - 2 * k3 + k1) / (6 * h ** 3)]
    return xf, c

h = T / N
U = [0.2, 2.3]                      # x0: 0.5 -> 0.7 -> 3.0
xk = np.array([0.5, 0, 0, 0, 0])
w = np.zeros(opti.nx)
worst = -np.inf                     # max over t and j of |x_j(t)| - ub_j
for k in range(N):
    w[index_of(m.X[k])] = xk
    w[index_of(m.U[k])] = U[k]
    xf, c = rk4(xk, U[k], h)
    s = np.linspace(0, h, 101)
    traj = sum(np.outer(ci, s ** i) for i, ci in enumerate(c))   # 5 x 101
    assert np.allclose(traj[:, -1], xf)
    worst = max(worst, np.max(np.abs(traj) - ub[:, None]))
    xk = xf
w[index_of(m.X[N])] = xk

G = ca.Function('G', [opti.x, opti.p], [opti.g, opti.lbg, opti.ubg])
g, lbg, ubg = [np.array(e).reshape(-1) for e in G(w, np.zeros(opti.np))]
viol = max(np.max(lbg - g), np.max(g - ubg))
print("NLP rows: %d; max NLP constraint violation at w: %.2e" % (g.size, viol))
ineq = lbg != ubg
print("upper bounds of the first 25 grid='inf' rows (column-major over coefficient i, component j):")
print(ubg[ineq][:25].reshape(5, 5).T)
print("declared: x_j(t) <= ub_j = %s for all t;  independent trajectory: x_0 ends at %.3f, max_t,j (|x_j(t)| - ub_j) = %.3f" % (ub, xk[0], worst))

if viol < 1e-9 and worst > 1e-6:
    print("VIOLATION: grid='inf' box -ub<=(x<=ub) on a 5-vector state: all NLP conditions hold but x_0(t) reaches %.2f > ub_0 = 1 (bounds paired with Bernstein-coefficient index instead of component index)" % xk[0])
    sys.exit(1)
print("ok")
