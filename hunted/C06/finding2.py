"""
C06 finding 2: min/max bounds on the control-interval length are silently dropped whenever the
horizon T is a fixed number or a parameter (every FixedGrid: UniformGrid, GeometricGrid,
FunctionGrid, DensityGrid; every sampling method).

Property: "min/max bounds on the control-interval length are enforced by NLP constraints",
quantified over fixed, FreeTime and parameter-valued T.
Independent expectation: UniformGrid(min=0.5), N=4, T=1 gives intervals T/N = 0.25 < 0.5, so the
declared problem has NO feasible point; a faithful transcription is an infeasible NLP (or rockit's
own loud "You have a constraint that is never statisfied." that OptiWrapper.subject_to raises for
constant constraints).  FreeGrid(min=0.5) with the same data does behave like that (solver reports
infeasibility).

What rockit does: SamplingMethod.add_coupling_constraints skips every grid constraint for which
opti.advanced.is_parametric(c) holds.  That filter is meant to drop the vacuous 0<=T/N<=inf rows, but
it equally drops violated bounds: the NLP contains no trace of min/max, solves "successfully" and
returns a grid whose intervals violate the declared bound.  With a parameter-valued T the bound is
never checked either, whatever value is later given with set_value.
"""
import sys
import numpy as np
import casadi as ca
from rockit import Ocp, UniformGrid, GeometricGrid, FreeGrid, MultipleShooting, DirectCollocation
from rockit.sampling_method import FunctionGrid

N, MIN = 4, 0.5
opts = {'ipopt.print_level': 0, 'print_time': False, 'ipopt.sb': 'yes'}

def make(T_kind, grid, method=MultipleShooting):
    if T_kind == 'fixed':
        ocp = Ocp(T=1.0)
    else:
        ocp = Ocp()
        pT = ocp.parameter()
        ocp.set_T(pT)
        ocp.set_value(pT, 1.0)
    x = ocp.state(); u = ocp.control()
    ocp.set_der(x, u)
    ocp.subject_to(ocp.at_t0(x) == 0)
    ocp.add_objective(ocp.integral((u-1)**2))
    ocp.solver('ipopt', opts)
    ocp.method(method(N=N, grid=grid))
    return ocp, x

bad = []
for T_kind in ['fixed', 'parameter']:
    for gname, grid in [('UniformGrid(min=0.5)', UniformGrid(min=MIN)),
                        ('UniformGrid(min=0.5,localize_T=True)', UniformGrid(min=MIN, localize_T=True)),
                        ('GeometricGrid(2,min=0.5)', GeometricGrid(2, min=MIN)),
                        ('FunctionGrid(sqrt-spaced,min=0.5)', FunctionGrid(lambda n: list(np.sqrt(np.linspace(0, 1, n+1))), min=MIN)),
                        ('UniformGrid(max=0.1)', UniformGrid(max=0.1))]:
        for method in [MultipleShooting, DirectCollocation]:
            ocp, x = make(T_kind, grid, method)
            try:
                sol = ocp.solve()
            except Exception as e:
                print(T_kind, gname, method.__name__, "-> loud failure (fine):", str(e).splitlines()[-1][:80])
                continue
            ts, _ = sol.sample(x, grid='control')
            d = np.diff(ts)
            lo, hi = grid.min, grid.max
            ok = d.min() >= lo-1e-9 and d.max() <= hi+1e-9
            print(T_kind, gname, method.__name__, "-> solved, intervals", d, "declared [min,max]=[%g,%g]" % (lo, hi), "OK" if ok else "BOUND IGNORED")
            if not ok:
                bad.append((T_kind, gname, method.__name__))

# reference: FreeGrid honours the same bound with the same fixed T (NLP infeasible -> exception)
ocp, x = make('fixed', FreeGrid(min=MIN))
try:
    ocp.solve()
    print("FreeGrid(min=0.5), T=1: solved ?!")
except Exception as e:
    print("reference FreeGrid(min=0.5), T=1, N=4 -> solver reports:", str(e).splitlines()[-1][:90])

if bad:
    print("VIOLATION: grid min/max bounds are silently discarded for fixed or parameter-valued T (is_parametric filter in add_coupling_constraints): %d configurations solved with intervals outside [min,max]" % len(bad))
    sys.exit(1)
print("no violation")
