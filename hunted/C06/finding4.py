"""
C06 finding 4: with FreeGrid the knot grid of B-spline signals is NOT the control grid.

Property: the control grid of a FreeGrid is whatever partition t_0<t_1<...<t_N satisfies the grid's own
constraints, and every consumer of the time grid (sampled time vectors, ocp.t, DT, DT_control, ...) must
agree with it.  B-spline signals (ocp.variable/parameter(grid='bspline', order=d)) are defined on the
control grid: their knots are the control nodes (SamplingMethod.transcribe: "Grid for B-spline").

What rockit does: self.xi = time_grid(0, 1, N) is evaluated numerically; FreeGrid inherits Grid.__call__,
i.e. a *uniform* linspace, and BSplineSignal differentiates with  bspline_derivative(coeff, xi, d)/T.
So whatever interval lengths the optimiser/decision vector chooses, the derivative of the signal is computed
as if every control interval had length T/N.

Independent expectation used below (no spline theory needed): an order-1 signal is piecewise linear between
consecutive control nodes, so on interval k its time-derivative is the finite difference
      (v(t_{k+1}) - v(t_k)) / (t_{k+1} - t_k)
of the values/times that rockit itself samples on the control grid.  In particular if v(t_k)=t_k at all
nodes then v(t)=t and dv/dt = 1 everywhere.
The same check passes for UniformGrid, GeometricGrid and their localized variants (shown as reference).
No NLP solve is needed: everything is evaluated at a hand-picked decision vector.
"""
import sys
import numpy as np
import casadi as ca
from rockit import Ocp, MultipleShooting, FreeGrid, UniformGrid, GeometricGrid

N = 4
t0, T = 0.0, 2.0
intervals = np.array([1.2, 0.3, 0.3, 0.2])          # a feasible FreeGrid partition of [0, 2]
nodes = t0+np.concatenate([[0], np.cumsum(intervals)])

def check(method, grid, target_nodes):
    ocp = Ocp(t0=t0, T=T)
    x = ocp.state(); u = ocp.control()
    ocp.set_der(x, u)
    v = ocp.variable(grid='bspline', order=1)
    dv = ocp.der(v)
    ocp.solver('ipopt')
    ocp.method(method(N=N, grid=grid))
    ts, vs = ocp.sample(v, grid='control')
    _, dvs = ocp.sample(dv, grid='control')
    opti = ocp._method.opti
    ts = ca.vec(ts); vs = ca.vec(vs); dvs = ca.vec(dvs)
    F = ca.Function('F', [opti.x], [ts, vs, dvs])
    # ts and vs are affine in the decision vector: pick x with  ts = target_nodes (for the fixed grids these are
    # the declared nodes, so localized time variables get their consistent values) and vs = ts  (signal equal to
    # time at every control node)
    e = ca.vertcat(ts, vs-ts)
    A = np.array(ca.DM(ca.Function('A', [opti.x], [ca.jacobian(e, opti.x)])(0)))
    b0 = np.array(ca.Function('b', [opti.x], [e])(0)).flatten()
    rhs = np.concatenate([target_nodes, np.zeros(N+1)])
    xval = np.linalg.lstsq(A, rhs-b0, rcond=None)[0]
    tsv, vsv, dvsv = [np.array(r).flatten() for r in F(xval)]
    assert np.allclose(vsv, tsv) and np.allclose(tsv, target_nodes)  # v(t_k) = t_k on the requested nodes
    fd = np.diff(vsv)/np.diff(tsv)                                  # = 1 on every interval
    return tsv, vsv, dvsv, fd

bad = False
for method in [MultipleShooting]:   # (DirectCollocation fails loudly when der() of a bspline signal is declared)
    uni = np.linspace(t0, t0+T, N+1)
    geo = t0+T*np.array(GeometricGrid(3).normalized(N))
    for gname, grid, tn in [("UniformGrid", UniformGrid(), uni), ("GeometricGrid(3)", GeometricGrid(3), geo),
                            ("UniformGrid(localize_T)", UniformGrid(localize_T=True), uni),
                            ("GeometricGrid(3,localize_t0)", GeometricGrid(3, localize_t0=True), geo),
                            ("FreeGrid", FreeGrid(), nodes), ("FreeGrid(localize_t0)", FreeGrid(localize_t0=True), nodes)]:
        tsv, vsv, dvsv, fd = check(method, grid, tn)
        # derivative sampled at node k belongs to interval k (last node: interval N-1)
        expected = np.concatenate([fd, fd[-1:]])
        ok = np.allclose(dvsv, expected, atol=1e-9)
        print("%-17s %-28s nodes %s  der(v) sampled %s  expected %s  %s" % (method.__name__, gname, np.round(tsv, 4), np.round(dvsv, 4), np.round(expected, 4), "ok" if ok else "WRONG"))
        if not ok:
            assert isinstance(grid, FreeGrid)
            # rockit's numbers are exactly the finite differences on a uniform grid of step T/N
            assert np.allclose(dvsv[:-1], np.diff(vsv)/(T/N))
            bad = dvsv
if bad is not False:
    print("VIOLATION: with FreeGrid the B-spline knot grid is the uniform linspace, not the (free) control grid: der of a bspline signal with v(t_k)=t_k is", np.round(bad, 4), "instead of 1")
    sys.exit(1)
print("no violation")
