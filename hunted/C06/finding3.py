"""
C06 finding 3: ocp.sample(expr, grid='integrator-') (and '-integrator') returns a time vector that does
not belong to the returned samples.

Property: "sampled time vectors ... agree with [the integrator grid]": sample() returns
(time, values) "same length as res" (docstring of Stage.sample).  The trailing/leading '-' asks to
leave out the last grid point (Stage._parse_grid -> include_last=False).
Independent expectation: with N control intervals and M integrator steps each, 'integrator-' has the
N*M points  t0 + T*(k+i/M)/N, k<N, i<M  (everything but t_f), one time per sample.

What rockit does: Stage._grid_integrator drops the final *sample* when include_last=False but always
returns vcat(integrator_grid), which still contains t_f: N*M+1 time points for N*M samples.  The
sibling 'control-' was fixed ("one time point per sampled value") but 'integrator-' was not.
No exception is raised by ocp.sample; any consumer that pairs time[i] with values[:,i], takes
time[-1] as the time of the last sample, or exports both through ocp.to_function gets a
misaligned/over-long time axis.
"""
import sys
import numpy as np
import casadi as ca
from rockit import Ocp, MultipleShooting, SingleShooting, DirectCollocation, GeometricGrid, UniformGrid

bad = []
for method in [MultipleShooting, SingleShooting, DirectCollocation]:
    for grid, norm in [(UniformGrid(), lambda N: np.linspace(0, 1, N+1)),
                       (GeometricGrid(2, local=True), lambda N: np.concatenate([[0], np.cumsum(2.0**np.arange(N))])/(2.0**N-1))]:
        for N, M in [(3, 2), (2, 1), (1, 3)]:
            t0, T = 0.5, 2.0
            ocp = Ocp(t0=t0, T=T)
            x = ocp.state(); u = ocp.control()
            ocp.set_der(x, u)
            ocp.solver('ipopt')
            ocp.method(method(N=N, M=M, grid=grid))
            for g in ['integrator-', '-integrator']:
                ts, xs = ocp.sample(ocp.t, grid=g)     # sampling the time itself: values ARE the sample times
                ts_v = np.array(ocp.initial_value(ts)).flatten()
                xs_v = np.array(ocp.initial_value(xs)).flatten()
                cg = t0+T*norm(N)
                expected = np.concatenate([np.linspace(cg[k], cg[k+1], M+1)[:-1] for k in range(N)])
                assert np.allclose(xs_v, expected)        # the samples themselves are right (N*M of them)
                ok = ts_v.shape == expected.shape and np.allclose(ts_v, expected)
                if not ok:
                    bad.append((method.__name__, type(grid).__name__, N, M, g))
                    if len(bad) <= 3:
                        print(method.__name__, type(grid).__name__, "N=%d M=%d" % (N, M), g)
                        print("   samples of ocp.t :", xs_v)
                        print("   returned time    :", ts_v, " (expected", expected, ")")
if bad:
    print("VIOLATION: sample(grid='integrator-') returns N*M+1 time points (including t_f) for N*M samples in %d/%d configurations" % (len(bad), 3*2*3*2))
    sys.exit(1)
print("no violation")
