"""
C06 finding 1: SplineMethod silently drops the min/max bounds on the control-interval length.

Property: "min/max bounds on the control-interval length are enforced by NLP constraints" for every
grid class x every method.  UniformGrid(min=0.5) with N=4 demands T/N >= 0.5, i.e. T >= 2 at every
NLP-feasible point.  Expected value is therefore independent of rockit: any decision vector with
T=1 (interval length 0.25) must violate at least one NLP constraint, and the minimum-time solution
of  x''=u, |u|<=1 ... must have T >= 2.

With MultipleShooting / SingleShooting / DirectCollocation this holds (the coupling constraints of
Grid.bounds_T are added by add_coupling_constraints).  SplineMethod.add_constraints never calls
add_coupling_constraints, so min/max are accepted by the grid constructor and never read.
"""
import sys
sys.path.insert(0, '/verif/pydeps')
import numpy as np
import casadi as ca
from rockit import Ocp, FreeTime, UniformGrid, GeometricGrid, MultipleShooting, SplineMethod

N = 4
MIN = 0.5

def build(method):
    ocp = Ocp(T=FreeTime(3.0))
    p = ocp.state(); v = ocp.state(); a = ocp.control()
    ocp.set_der(p, v); ocp.set_der(v, a)
    ocp.add_objective(ocp.T)
    ocp.solver('ipopt', {'ipopt.print_level': 0, 'print_time': False, 'ipopt.sb': 'yes'})
    ocp.method(method)
    return ocp, p

def feasible_with_T(ocp, p, Tval):
    """Is the decision vector [T=Tval, everything else 0] feasible for the transcribed NLP?"""
    ts, _ = ocp.sample(p, grid='control')      # triggers transcription
    opti = ocp._method.opti
    Tsym = ocp.value(ocp.T)
    f = ca.Function('f', [opti.x], [opti.g, opti.lbg, opti.ubg, Tsym, ts])
    # locate T in opti.x through its jacobian
    J = np.array(ca.DM(ca.jacobian(Tsym, opti.x).sparsity())).flatten()
    x0 = np.zeros(opti.x.numel()); x0[np.nonzero(J)[0]] = Tval
    g, lbg, ubg, T, tgrid = [np.array(e).flatten() for e in f(x0)]
    assert abs(T[0]-Tval) < 1e-12
    viol = np.maximum(lbg-g, 0)+np.maximum(g-ubg, 0)
    return viol.max() <= 1e-9, np.diff(tgrid)

bad = False
for gname, grid in [("UniformGrid(min=0.5)", lambda: UniformGrid(min=MIN)),
                    ("GeometricGrid(2,min=0.5)", lambda: GeometricGrid(2, min=MIN))]:
    ocp, p = build(MultipleShooting(N=N, grid=grid()))
    feas_ms, d_ms = feasible_with_T(ocp, p, 1.0)
    ocp, p = build(SplineMethod(N=N, grid=grid()))
    feas_sp, d_sp = feasible_with_T(ocp, p, 1.0)
    print(gname, ": point with T=1, intervals", d_sp, "-> NLP-feasible with MultipleShooting:", feas_ms,
          ", with SplineMethod:", feas_sp)
    # independent expectation: min interval 0.25 (or less) < 0.5  => must be infeasible
    if d_sp.min() < MIN-1e-9 and feas_sp:
        bad = True

# Second demonstration through a solve: minimum time, rest-to-rest over distance 0.25 with |a|<=1
# (unconstrained optimum T=1 -> intervals 0.25); with min=0.5 the optimum must have T>=2.
ocp = Ocp(T=FreeTime(3.0))
p = ocp.state(); v = ocp.state(); a = ocp.control()
ocp.set_der(p, v); ocp.set_der(v, a)
ocp.subject_to(ocp.at_t0(p) == 0); ocp.subject_to(ocp.at_t0(v) == 0)
ocp.subject_to(ocp.at_tf(p) == 0.25); ocp.subject_to(ocp.at_tf(v) == 0)
ocp.subject_to(-1 <= (a <= 1))
ocp.add_objective(ocp.T)
ocp.solver('ipopt', {'ipopt.print_level': 0, 'print_time': False, 'ipopt.sb': 'yes'})
ocp.method(SplineMethod(N=N, grid=UniformGrid(min=MIN)))
sol = ocp.solve()
ts, _ = sol.sample(p, grid='control')
print("SplineMethod solve: T* =", float(sol.value(ocp.T)), "control intervals", np.diff(ts), "declared min", MIN)
if np.diff(ts).min() < MIN-1e-6:
    bad = True

if bad:
    print("VIOLATION: SplineMethod ignores Grid min/max: control intervals shorter than the declared min are NLP-feasible (no bounds_T constraint is transcribed)")
    sys.exit(1)
print("no violation")
