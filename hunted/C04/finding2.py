"""
C04 finding 2 -- SplineMethod silently ignores path constraints declared with grid='integrator_roots'.

Input class: any OCP transcribed with SplineMethod, ocp.subject_to(<signal constraint>, grid='integrator_roots').

stage.subject_to accepts the grid name and files the constraint under stage._constraints['integrator_roots'].
SplineMethod.add_constraints (rockit/spline_method.py) only looks at the 'point', 'inf' and 'control' lists (and
asserts that there are no 'integrator' constraints), so the constraint never reaches the NLP and nothing is raised.
The shooting methods reject this grid loudly ("only supported by DirectCollocation"); the property demands that a
constraint that cannot be placed is rejected rather than ignored.

Evidence: the NLP of the same OCP has exactly as many rows with and without the declared constraint, and the
declared bound  p <= -5  (violated by the initial condition p(t0)=0 itself, so the OCP is infeasible as declared)
does not stop rockit from reporting a successful solve.
"""
import sys
sys.path.insert(0, '/verif/pydeps')   # pure python networkx, needed by SplineMethod
import numpy as np, casadi as ca
from rockit import Ocp, SplineMethod

def build(with_constraint):
    ocp = Ocp(t0=0, T=2)
    p = ocp.state(); v = ocp.state(); a = ocp.control()
    ocp.set_der(p, v); ocp.set_der(v, a)
    ocp.subject_to(ocp.at_t0(p) == 0)
    ocp.subject_to(ocp.at_t0(v) == 0)
    ocp.subject_to(-1 <= (a <= 1))
    if with_constraint:
        # can never hold: p(t0)=0 and |a|<=1 on a horizon of 2 s gives p >= -2 everywhere
        ocp.subject_to(p <= -5, grid='integrator_roots')
    ocp.add_objective(ocp.at_tf(p))
    ocp.method(SplineMethod(N=4))
    ocp.solver('ipopt', {"ipopt.print_level": 0, "print_time": False})
    return ocp, p

ocp0, _ = build(False); ocp0._transcribed
ocp1, p = build(True)
try:
    ocp1._transcribed
except Exception as e:
    print("rejected loudly (fine):", str(e)[:200]); print("no violation"); sys.exit(0)
n0 = ocp0._method.opti.g.numel(); n1 = ocp1._method.opti.g.numel()
print("NLP constraint rows without the path constraint:", n0)
print("NLP constraint rows with    the path constraint:", n1)
sol = ocp1.solve()
ts, ps = sol.sample(p, grid='control')
print("solver status:", sol.stats["return_status"], "  p on the control grid:", np.round(ps, 4))
if n1 == n0:
    print("VIOLATION: SplineMethod drops a grid='integrator_roots' path constraint without any error (p <= -5 declared, solution has p in [%.3f, %.3f])" % (min(ps), max(ps)))
    sys.exit(1)
print("no violation")
