"""
C04 finding 1 -- shooting methods evaluate path constraints with the algebraic value of a LATER point.

Input class: any DAE (ocp.algebraic + ocp.add_alg) transcribed with MultipleShooting or SingleShooting
(intg='idas' / 'collocation'), path constraint that involves the algebraic variable,
grid='control' (first node) or grid='integrator' (every integrator point).

Index-1 DAE:   der(x) = -x + z ,   0 = z - (2x + u + t)      =>  z(t) = 2 x(t) + u_k + t  on interval k,
                                                              and x obeys the ODE  der(x) = x + u_k + t.
Constraint:    z + x <= 100   on grid='integrator' (M=4 integrator steps per control interval).

The property demands that the instance of the constraint at integrator point (k,l) is evaluated with the
state, the algebraic value and the time OF THAT POINT:  z + x = 3 x(t_kl) + u_k + t_kl.  The expected numbers
below come from scipy (solve_ivp on the reduced ODE); they do not use any rockit code.

rockit (multiple_shooting.py / single_shooting.py, add_constraints) fills
     self.zk[k*M+i] = FF["Zi"][:, i]       and       self.Z[0] = FF["Zi"][:, 0]
but "Zi" holds the integrator output "zf" of every step, i.e. the algebraic value at the END of step i.  So the
instance at integrator point (k,i) pairs x(t_i), t_i with z(t_{i+1}), and the instance at the first control node
(grid='control') uses z(t_0 + DT).  Nothing is raised.
"""
import sys
import numpy as np, casadi as ca
from scipy.integrate import solve_ivp
from rockit import Ocp, MultipleShooting, SingleShooting

def all_symbols(opti):
    adv = opti.advanced
    syms = adv.symvar()
    return ([s for s in syms if adv.get_meta(s).type == ca.OPTI_VAR],
            [s for s in syms if adv.get_meta(s).type == ca.OPTI_PAR])

N, M, T = 2, 4, 1.0
bad = False
for Method in [SingleShooting, MultipleShooting]:
    for cgrid in ['integrator', 'control']:
        ocp = Ocp(t0=0, T=T)
        x = ocp.state(); u = ocp.control(); z = ocp.algebraic()
        ocp.set_der(x, -x + z)
        ocp.add_alg(z - (2*x + u + ocp.t))
        ocp.subject_to(z + x <= 100, grid=cgrid)
        ocp.method(Method(N=N, M=M, intg='idas', intg_options={"abstol": 1e-12, "reltol": 1e-12}))
        ocp.solver('ipopt')
        ocp._transcribed                      # transcribe, no solve
        m = ocp._method; opti = m.opti
        vs, ps = all_symbols(opti)
        X = ca.veccat(*vs); P = ca.veccat(*ps)
        pv = opti.value(P, opti.initial()) if P.numel() else ca.DM(0, 1)
        F = ca.Function('F', [X, P], [opti.g, opti.ubg, m.X[0], ca.vcat(m.U)])
        w = np.random.RandomState(1).uniform(0.5, 1.5, X.numel())
        g, ubg, x0, U = [np.array(e).ravel() for e in F(w, pv)]
        rows = g[ubg == 100]                  # the user constraint instances, in placement order
        # independent reference on the FIRST control interval (depends on x0 and u_0 only, so the gaps of
        # multiple shooting do not matter)
        dt = T/N/M
        tpts = np.arange(M)*dt
        sol = solve_ivp(lambda t, y: y + U[0] + t, [0, T/N], [x0[0]], t_eval=np.r_[tpts, T/N], rtol=1e-12, atol=1e-12)
        xs = sol.y[0]
        expected = 3*xs[:M] + U[0] + tpts     # z + x at the integrator points of interval 0
        later = 2*xs[1:M+1] + U[0] + (tpts+dt) + xs[:M]   # what one gets with z taken one step later
        n = M if cgrid == 'integrator' else 1
        got = rows[:n]
        print(Method.__name__, "grid=%s" % cgrid)
        print("   rockit                      :", np.round(got, 6))
        print("   demanded (z of that point)  :", np.round(expected[:n], 6))
        print("   z of the NEXT integr. point :", np.round(later[:n], 6))
        if not np.allclose(got, expected[:n], atol=1e-6):
            bad = True
if bad:
    print("VIOLATION: MultipleShooting/SingleShooting evaluate path constraints with the algebraic value of the end of the integrator step (z(t_{i+1}) paired with x(t_i), t_i); the first control node uses z(t0+DT)")
    sys.exit(1)
print("no violation")
