"""
C04 finding 7 (lower severity) -- a constraint that is classified as a path constraint on a stage WITHOUT a
transcription method (typically the master Ocp of a multi-stage problem) is dropped silently.

Input class: multi-stage OCP; constraint declared on the master `ocp` that depends on one of the master's own
signal symbols (ocp.t, ocp.DT, a per-interval variable/parameter declared on the master) or that is given an
explicit grid while depending on such a symbol.

Stage.subject_to files such a constraint under _constraints['control'] (is_signal is true).  The master has no
states, so its method is the plain DirectMethod, whose transcribe (rockit/direct_method.py:121-133) only loops over
stage._constraints["point"].  The 'control' / 'integrator' / 'inf' lists are never looked at and nothing is raised.
The property demands that a constraint that cannot be placed is rejected rather than ignored.
"""
import sys
import numpy as np, casadi as ca
from rockit import Ocp, MultipleShooting

def build(with_constraints):
    ocp = Ocp(t0=0, T=1)
    s = ocp.stage(t0=0, T=1)
    x = s.state(); u = s.control()
    s.set_der(x, u)
    s.method(MultipleShooting(N=2))
    s.subject_to(s.at_t0(x) == 0)
    s.add_objective(s.integral(u**2) - s.at_tf(x))
    if with_constraints:
        w = ocp.variable(grid='control')              # per-interval variable declared on the master by mistake
        ocp.subject_to(s.at_tf(x) <= -10 - ocp.t)     # depends on the master's time (in [0,1]) -> 'control' list
        ocp.subject_to(s.at_tf(x) + w <= -10)         # depends on a per-interval variable of the master -> 'control' list
    ocp.solver('ipopt', {"ipopt.print_level": 0, "print_time": False})
    return ocp, s, x

ocp0, _, _ = build(False); ocp0._transcribed
ocp1, s, x = build(True)
try:
    ocp1._transcribed
except Exception as e:
    print("rejected loudly (fine):", str(e)[:200]); print("no violation"); sys.exit(0)
n0 = ocp0._method.opti.g.numel(); n1 = ocp1._method.opti.g.numel()
sol = ocp1.solve()
xf = sol(s).sample(x, grid='control')[1][-1]
print("NLP rows without / with the two master-level constraints:", n0, "/", n1)
print("declared: x(tf) <= -10 ; solution has x(tf) = %.4f, status %s" % (xf, sol.stats["return_status"]))
if n1 == n0:
    print("VIOLATION: constraints classified as path constraints on a method-less (master) stage are silently ignored by DirectMethod.transcribe")
    sys.exit(1)
print("no violation")
