"""
C04 finding 3 -- SplineMethod loses instances of an ordinary path constraint as soon as ANOTHER path
constraint of the same stage uses ocp.next / ocp.prev / ocp.offset.

Input class: SplineMethod, two (or more) grid='control' path constraints with the same
(refine, include_first, include_last) options, at least one of them with an offset operand.

    ocp.subject_to(v <= 1)                    # (A) must be imposed at all N+1 control nodes
    ocp.subject_to(ocp.next(p) - p <= 0.3)    # (B) instances k=0..N-1 (k=N reaches outside the horizon)

SplineMethod.add_constraints_noninf (rockit/spline_method.py) stacks the canonical forms of all constraints with
the same key into ONE vector and samples that vector with grid_control, which trims the node range of the whole
vector to [ -min_offset , N - max_offset ].  Constraint (A), which has no offset at all, is therefore also only
imposed at nodes 0..N-1: its instance at t_f is dropped silently (with a prev() in the mix, the instance at t_0).
MultipleShooting imposes (A) at all N+1 nodes for the same declarations.

The expected rows below are computed with scipy B-splines from the raw coefficient decision variables.
"""
import sys
sys.path.insert(0, '/verif/pydeps')
import numpy as np, casadi as ca
from scipy.interpolate import BSpline
from rockit import Ocp, SplineMethod

N, T, t0 = 4, 2.0, 0.5
ocp = Ocp(t0=t0, T=T)
p = ocp.state(); v = ocp.state(); a = ocp.control()
ocp.set_der(p, v); ocp.set_der(v, a)
ocp.subject_to(v <= 1)                       # (A)
ocp.subject_to(ocp.next(p) - p <= 0.3)       # (B)
ocp.method(SplineMethod(N=N))
ocp.solver('ipopt')
ocp._transcribed
m = ocp._method; opti = m.opti
adv = opti.advanced
vs = [s for s in adv.symvar() if adv.get_meta(s).type == ca.OPTI_VAR]
X = ca.veccat(*vs)
C = m.coeffs_and_der[3][0]                   # raw decision variable: the N+2 coefficients of the degree-2 spline of p
F = ca.Function('F', [X], [opti.g, opti.lbg, opti.ubg, C])
w = np.random.RandomState(2).uniform(-1, 1, X.numel())
g, lbg, ubg, coef = [np.array(e).ravel() for e in F(w)]

# independent evaluation of p and v=dp/dt at the control nodes
tau = np.linspace(0, 1, N+1)
knots = np.r_[[0, 0], tau, [1, 1]]
sp = BSpline(knots, coef, 2)
pn = sp(tau); vn = sp.derivative()(tau)/T
exp_A = vn                                   # N+1 instances
exp_B = pn[1:] - pn[:-1]                     # N instances
rows_A = g[ubg == 1.0]; rows_B = g[ubg == 0.3]
print("(A) v<=1        rockit rows :", np.round(rows_A, 5))
print("(A) v<=1        demanded    :", np.round(exp_A, 5))
print("(B) next(p)-p   rockit rows :", np.round(rows_B, 5))
print("(B) next(p)-p   demanded    :", np.round(exp_B, 5))
okB = len(rows_B) == len(exp_B) and np.allclose(rows_B, exp_B)
okA = len(rows_A) == len(exp_A) and np.allclose(rows_A, exp_A)
if not (okA and okB):
    print("VIOLATION: SplineMethod imposes the offset-free path constraint v<=1 at %d of the %d control nodes (instance at t_f dropped) because another constraint uses ocp.next" % (len(rows_A), N+1))
    sys.exit(1)
print("no violation")
