"""
C04 finding 4 -- SplineMethod: include_first=False / include_last=False remove a VALID instance of a path
constraint that has a prev()/next() operand.

Input class: SplineMethod, grid='control' path constraint with an offset operand and include_first=False (offset<0)
or include_last=False (offset>0).

    ocp.subject_to(p - ocp.prev(p) <= 1, include_first=False)
        demanded: instances at nodes k=1..N   (k=0 is excluded by include_first AND reaches outside anyway)
    ocp.subject_to(ocp.next(p) - p <= 2, include_last=False)
        demanded: instances at nodes k=0..N-1 (k=N is excluded by include_last AND reaches outside anyway)

These are the N instances MultipleShooting / SingleShooting / DirectCollocation create for the same declaration.
SplineMethod.grid_control already returns only the N in-horizon instances, and add_constraints_noninf
(rockit/spline_method.py, "results = results[:, (0 if include_first else 1):...]") then cuts the first / last
COLUMN of that reduced set, i.e. the instance at node 1 (resp. node N-1), which is inside the horizon and not
excluded by the user.  Only N-1 instances reach the NLP, silently.

Expected rows are computed with scipy B-splines from the raw coefficient decision variables.
"""
import sys
sys.path.insert(0, '/verif/pydeps')
import numpy as np, casadi as ca
from scipy.interpolate import BSpline
from rockit import Ocp, SplineMethod, MultipleShooting

N, T, t0 = 4, 2.0, 0.5
def build(method):
    ocp = Ocp(t0=t0, T=T)
    p = ocp.state(); v = ocp.state(); a = ocp.control()
    ocp.set_der(p, v); ocp.set_der(v, a)
    ocp.subject_to(p - ocp.prev(p) <= 1, include_first=False)
    ocp.subject_to(ocp.next(p) - p <= 2, include_last=False)
    ocp.method(method)
    ocp.solver('ipopt')
    ocp._transcribed
    return ocp

ocp = build(SplineMethod(N=N))
m = ocp._method; opti = m.opti
adv = opti.advanced
vs = [s for s in adv.symvar() if adv.get_meta(s).type == ca.OPTI_VAR]
X = ca.veccat(*vs)
C = m.coeffs_and_der[3][0]                   # raw coefficients of the degree-2 spline of p
F = ca.Function('F', [X], [opti.g, opti.ubg, C])
w = np.random.RandomState(2).uniform(-1, 1, X.numel())
g, ubg, coef = [np.array(e).ravel() for e in F(w)]
tau = np.linspace(0, 1, N+1)
pn = BSpline(np.r_[[0, 0], tau, [1, 1]], coef, 2)(tau)
exp_prev = pn[1:] - pn[:-1]                  # nodes 1..N
exp_next = pn[1:] - pn[:-1]                  # nodes 0..N-1
rows_prev = g[ubg == 1.0]; rows_next = g[ubg == 2.0]
print("p-prev(p)<=1, include_first=False : rockit", np.round(rows_prev, 5), " demanded", np.round(exp_prev, 5))
print("next(p)-p<=2, include_last=False  : rockit", np.round(rows_next, 5), " demanded", np.round(exp_next, 5))
ms = build(MultipleShooting(N=N))
ubg_ms = np.array(ca.evalf(ms._method.opti.ubg)).ravel()
print("for reference, MultipleShooting creates %d and %d instances" % (np.sum(ubg_ms == 1.0), np.sum(ubg_ms == 2.0)))
ok = (len(rows_prev) == N and np.allclose(rows_prev, exp_prev)) and (len(rows_next) == N and np.allclose(rows_next, exp_next))
if not ok:
    print("VIOLATION: SplineMethod creates %d/%d instead of %d instances: include_first/include_last=False cut an in-horizon instance of a constraint with prev()/next()" % (len(rows_prev), len(rows_next), N))
    sys.exit(1)
print("no violation")
