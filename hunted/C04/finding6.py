"""
C04 finding 6 (lower severity) -- a contradictory min/max interval bound of a time grid is dropped silently when
the horizon is fixed.

Input class: UniformGrid / GeometricGrid / FunctionGrid / DensityGrid with min= or max= (no localize_T), horizon T
given as a number (or a parameter), any sampling method.

    ocp.method(MultipleShooting(N=4, grid=UniformGrid(min=2.0)))      with  Ocp(T=2)
declares "every control interval is at least 2 long" while every interval is T/N = 0.5 long.  The generated bound
2 <= T/N is an expression without decision variables; SamplingMethod.add_coupling_constraints
(rockit/sampling_method.py) filters with `if not advanced.is_parametric(c)` and therefore drops it without
evaluating it.  The same contradiction written as a constraint (ocp.subject_to(ocp.T/4 >= 2)) is rejected by
OptiWrapper.subject_to ("You have a constraint that is never statisfied"), and with a free horizon the bound IS
enforced.  The property demands that a constraint that cannot be placed is rejected rather than ignored.
"""
import sys
import numpy as np, casadi as ca
from rockit import Ocp, MultipleShooting, UniformGrid, GeometricGrid, FreeTime

def build(T, grid):
    ocp = Ocp(T=T)
    x = ocp.state(); u = ocp.control()
    ocp.set_der(x, u)
    ocp.subject_to(ocp.at_t0(x) == 0)
    ocp.add_objective(ocp.integral(u**2))
    ocp.method(MultipleShooting(N=4, grid=grid))
    ocp.solver('ipopt', {"ipopt.print_level": 0, "print_time": False})
    return ocp

def rows(ocp):
    ocp._transcribed
    return ocp._method.opti.g.numel()

def rows_with_lb(ocp, lb):
    ocp._transcribed
    o = ocp._method.opti
    adv = o.advanced
    ps = ca.veccat(*[s for s in adv.symvar() if adv.get_meta(s).type == ca.OPTI_PAR])
    lbg = ca.Function('f', [ps], [o.lbg])(o.value(ps, o.initial()) if ps.numel() else ca.DM(0, 1))
    return int(np.sum(np.array(lbg).ravel() == lb))

bad = False
for name, mk in [("UniformGrid(min=2.0)", lambda **kw: UniformGrid(**kw)), ("GeometricGrid(2, min=2.0)", lambda **kw: GeometricGrid(2, **kw))]:
    n_plain = rows(build(2.0, mk()))
    try:
        ocp = build(2.0, mk(min=2.0))
        n_min = rows(ocp)
        sol = ocp.solve()
        ts, _ = sol.sample(ocp.t, grid='control')
        status = sol.stats["return_status"]
    except Exception as e:
        print(name, "rejected loudly (fine):", str(e)[:100]); continue
    n_free = rows_with_lb(build(FreeTime(2.0), mk(min=2.0)), 2.0)
    print("%-26s fixed T=2, N=4: NLP rows %d (without min: %d); solve: %s; interval lengths %s; declared minimum 2.0"
          % (name, n_min, n_plain, status, np.round(np.diff(ts), 3)))
    print("%-26s free  T       : the same option yields %d NLP row(s) with lower bound 2.0" % ("", n_free))
    if n_min == n_plain:
        bad = True
if bad:
    print("VIOLATION: grid min= bound that contradicts the fixed horizon (intervals 0.5 < min 2.0) is silently discarded instead of rejected")
    sys.exit(1)
print("no violation")
