"""
C04 finding 5 (lower severity) -- include_last="auto" is accepted and documented by subject_to but never honoured.

Input class: ocp.subject_to(<constraint that depends on a control>, include_last="auto"), any of
MultipleShooting / SingleShooting / DirectCollocation.

Docstring of Stage.subject_to (rockit/stage.py):
    include_last : bool or "auto"
        Enforce constraint also at tf
        "auto" mode will only enforce the constraint if it is not dependent on a control signal,
        since typically control signals are not defined at tf.
So for  u <= 1, include_last="auto"  the declaration says: skip the final node -> N instances.
The placement loops only test `if not args["include_last"]: continue`; the string "auto" is truthy, so the
constraint is imposed at the final node too (N+1 instances, the last one a duplicate on the last interval's control),
exactly as include_last=True.  No error, no warning.  (Stage.subject_to never reads the value either.)
"""
import sys
import numpy as np, casadi as ca
from rockit import Ocp, MultipleShooting, SingleShooting, DirectCollocation

N = 3
bad = False
for method in [MultipleShooting(N=N), SingleShooting(N=N), DirectCollocation(N=N, degree=2)]:
    counts = {}
    for flag in [True, False, "auto"]:
        ocp = Ocp(T=1)
        x = ocp.state(); u = ocp.control()
        ocp.set_der(x, u)
        ocp.subject_to(u <= 1, include_last=flag)      # depends on a control
        ocp.subject_to(x <= 2, include_last=flag)      # does not depend on a control
        ocp.method(method); ocp.solver('ipopt')
        ocp._transcribed
        ubg = np.array(ca.evalf(ocp._method.opti.ubg)).ravel()
        counts[flag] = (int(np.sum(ubg == 1)), int(np.sum(ubg == 2)))
    print(type(method).__name__, "instances (u<=1, x<=2):  include_last=True", counts[True], " False", counts[False], " 'auto'", counts["auto"],
          "  demanded for 'auto':", (N, N+1))
    if counts["auto"] != (N, N+1):
        bad = True
if bad:
    print("VIOLATION: include_last='auto' is silently treated as True: the control-dependent constraint u<=1 is also imposed at t_f")
    sys.exit(1)
print("no violation")
