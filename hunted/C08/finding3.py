"""
C08 finding 3 (same root cause as finding 1, other code path: DirectCollocation.add_constraints):
with a grid='bspline' parameter AND any variable in the stage, the collocation equations evaluate the
ODE with the B-spline value and the variable value swapped. At a point that satisfies rockit's dynamic
constraints the collocation polynomial therefore does NOT have "the ODE's slope at every collocation
time", and the refined trajectory is not the (here exactly representable) true solution.

ODE: der(x) = p(t), x(0) = 1, p = degree-1 B-spline parameter with coefficients [1,2,4] on knots [0,1,2]
     (p(t) = np.interp(t,[0,1,2],[1,2,4])), plus an unrelated variable w pinned to 7.
True solution: piecewise quadratic, x(1) = 2.5, x(2) = 5.5; DirectCollocation with degree 2 represents it exactly.
Part A (no solve): put the exact solution into the decision vector via set_initial and evaluate the
        equality constraints of the NLP there: they must all be satisfied.
Part B (solve, linear problem): the refined sample of the solution has to be the exact solution.
"""
import sys
import numpy as np
import casadi as ca
from rockit import Ocp, DirectCollocation

def x_true(t):
    t = np.asarray(t, dtype=float)
    return np.where(t <= 1, 1 + t + t**2/2, 2.5 + 2*(t-1) + (t-1)**2)

ocp = Ocp(t0=0, T=2)
x = ocp.state()
p = ocp.parameter(grid='bspline', order=1)
w = ocp.variable()
ocp.set_der(x, p)
ocp.subject_to(ocp.at_t0(x) == 1)
ocp.subject_to(w == 7)
ocp.set_value(p, np.array([[1.0, 2.0, 4.0]]))
t = ocp.t
ocp.set_initial(x, ca.if_else(t <= 1, 1 + t + t**2/2, 2.5 + 2*(t-1) + (t-1)**2))
ocp.set_initial(w, 7)
ocp.method(DirectCollocation(N=2, M=1, degree=2))
ocp.solver('ipopt', {"ipopt.print_level": 0, "print_time": False, "ipopt.tol": 1e-12})

bad = []
# Part A
ocp.sample(x, grid='control')           # triggers the transcription
opti = ocp._method.opti
g, lbg, ubg = [np.array(opti.debug.value(e, opti.initial())).ravel() for e in (opti.g, opti.lbg, opti.ubg)]
viol = np.maximum(np.maximum(lbg - g, g - ubg), 0)
tr0, xr0 = [np.array(ocp.initial_value(e)).ravel() for e in ocp.sample(x, grid='integrator', refine=4)]
print("decision vector = exact solution? refined sample error:", np.abs(xr0 - x_true(tr0)).max())
print("constraint violations of the NLP at the exact solution:", viol)
if np.abs(xr0 - x_true(tr0)).max() < 1e-12 and viol.max() > 1e-6:
    bad.append("exact ODE solution violates rockit's collocation equations by %g" % viol.max())

# Part B
sol = ocp.solve()
tr, xr = sol.sample(x, grid='integrator', refine=4)
print("refined t          =", tr)
print("refined x (rockit) =", xr)
print("exact x            =", x_true(tr))
if np.abs(xr - x_true(tr)).max() > 1e-6:
    bad.append("refined trajectory at the NLP solution is off by %g (x(tf)=%g instead of 5.5)" % (np.abs(xr - x_true(tr)).max(), xr[-1]))
if bad:
    print("VIOLATION: DirectCollocation evaluates the ODE with B-spline parameter and variable swapped (" + "; ".join(bad) + ")")
    sys.exit(1)
print("OK")
