"""
C08 finding 1: refined sampling (grid='integrator', refine=r) mixes up B-spline parameter signals
with ordinary variables.

Input class: any stage that declares a parameter with grid='bspline' AND at least one variable
(global, grid='control', include_last or grid='bspline'), any SamplingMethod (SS/MS/DC), any refine.

The property demands that the refined sample returns, at every r-th entry, the same values as the
unrefined/control-grid sample, and that in-between values are the declared signals at these times.
Here:
  * p is a degree-1 B-spline parameter on the uniform knot grid [0,1,2] with coefficients [1,2,4];
    a degree-1 clamped B-spline interpolates its coefficients linearly, so p(t) = np.interp(t,[0,1,2],[1,2,4]).
  * w is a plain (time-invariant) variable with value 7, so every sample of w must be 7.
No NLP solve is needed: SingleShooting is dynamically feasible for every decision vector and the
expressions are evaluated at the initial guess with ocp.initial_value.
"""
import sys
import numpy as np
import casadi as ca
from rockit import Ocp, SingleShooting

ocp = Ocp(t0=0, T=2)
x = ocp.state()
p = ocp.parameter(grid='bspline', order=1)
w = ocp.variable()
ocp.set_der(x, -x + p + 0*w)
ocp.subject_to(ocp.at_t0(x) == 1)
ocp.set_value(p, np.array([[1.0, 2.0, 4.0]]))
ocp.set_initial(w, 7.0)
ocp.set_initial(x, 1.0)
ocp.method(SingleShooting(N=2, M=1, intg='rk'))
ocp.solver('ipopt')

r = 2
tc, pc = ocp.sample(p, grid='control')
_, wc = ocp.sample(w, grid='control')
tr, pr = ocp.sample(p, grid='integrator', refine=r)
_, wr = ocp.sample(w, grid='integrator', refine=r)
val = lambda e: np.array(ocp.initial_value(e)).ravel()
tc, pc, wc, tr, pr, wr = map(val, [tc, pc, wc, tr, pr, wr])

p_expected = np.interp(tr, [0, 1, 2], [1, 2, 4])
w_expected = 7.0*np.ones_like(tr)
print("control grid      t =", tc, " p =", pc, " w =", wc)
print("refined (r=2)     t =", tr)
print("  p sampled  =", pr, "\n  p expected =", p_expected)
print("  w sampled  =", wr, "\n  w expected =", w_expected)

bad = []
if not np.allclose(pc, [1, 2, 4]) or not np.allclose(wc, 7):
    print("unexpected: control-grid sample already wrong")
if not np.allclose(pr, p_expected, atol=1e-9):
    bad.append("refined sample of B-spline parameter p = %s, expected %s" % (pr, p_expected))
if not np.allclose(wr, w_expected, atol=1e-9):
    bad.append("refined sample of constant variable w = %s, expected all 7" % (wr,))
if not np.allclose(pr[::r], pc, atol=1e-9):
    bad.append("every r-th refined entry of p differs from the control-grid sample")
if bad:
    print("VIOLATION: refine>=1 sampling swaps B-spline parameter and variable values (" + "; ".join(bad) + ")")
    sys.exit(1)
print("OK")
