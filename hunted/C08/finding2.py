"""
C08 finding 2 (scope note: needs a DAE, hence a CasADi built-in integrator instead of rk/expl_euler):
for SingleShooting/MultipleShooting the integrator-grid sample of an algebraic variable is shifted by
one integrator step, so that its every M-th entry does NOT equal the control-grid sample, and the
values reported at time t_j belong to time t_{j+1}.

Property: "the unrefined integrator grid, whose every M-th entry in turn equals the control-grid sample",
and of course values reported at a time instant have to be the trajectory values at that instant.

DAE:  der(x) = 1, 0 = z - x - 10, x(0)=0  ->  x(t) = t, z(t) = 10 + t  (linear: every integrator is exact).
Independent check: at every sampled instant the algebraic equation z - x - 10 = 0 has to hold for the
sampled pair (x, z), and z has to be 10 + t.
SingleShooting is dynamically feasible for every decision vector; evaluation at the initial guess, no NLP solve.
"""
import sys
import numpy as np
from rockit import Ocp, SingleShooting

M = 2
ocp = Ocp(t0=0, T=1)
x = ocp.state()
z = ocp.algebraic()
ocp.set_der(x, 1)
ocp.add_alg(z - x - 10)
ocp.subject_to(ocp.at_t0(x) == 0)
ocp.set_initial(x, 0)
ocp.method(SingleShooting(N=4, M=M, intg='collocation'))
ocp.solver('ipopt')

val = lambda e: np.array(ocp.initial_value(e)).ravel()
tc, zc = map(val, ocp.sample(z, grid='control'))
ti, zi = map(val, ocp.sample(z, grid='integrator'))
_, xi = map(val, ocp.sample(x, grid='integrator'))
_, ri = map(val, ocp.sample(z - x - 10, grid='integrator'))
print("control    t =", tc, "\n           z =", zc)
print("integrator t =", ti, "\n           z =", zi, "\n           x =", xi)
print("z expected (10+t) on integrator grid =", 10 + ti)
print("algebraic residual z-x-10 sampled on integrator grid =", ri)

bad = []
if not np.allclose(xi, ti, atol=1e-8):
    print("unexpected: x wrong")
if not np.allclose(zi[::M], zc, atol=1e-8):
    bad.append("every M-th integrator-grid entry of z %s != control-grid sample %s" % (zi[::M], zc))
if not np.allclose(zi, 10 + ti, atol=1e-8):
    bad.append("integrator-grid z is z(t_{j+1}) instead of z(t_j): max error %g" % np.abs(zi - 10 - ti).max())
if not np.allclose(ri, 0, atol=1e-8):
    bad.append("sampled (x,z) pairs violate the algebraic equation by %g" % np.abs(ri).max())
if bad:
    print("VIOLATION: algebraic variable on grid='integrator' is shifted by one integrator step (" + "; ".join(bad) + ")")
    sys.exit(1)
print("OK")
