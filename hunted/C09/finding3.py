"""
C09 finding 3: a grid='bspline' parameter that enters the dynamics is frozen at its value at the start of each
control interval by the shooting methods (zero-order hold), instead of being the spline of the given coefficients.

Property: "For any parameter values, the NLP data seen by the solver are identical to those of the same OCP written
with the values as constants".

OCP:  x' = s(t),  x(0)=0,  T=2, N=2,  s = degree-1 B-spline parameter on the control grid with coefficients [0,1,3],
i.e. the piecewise linear function s(0)=0, s(1)=1, s(2)=3.  RK4 is exact for this right-hand side, so the
"values written in" OCP (and the exact solution) gives the gap-closing constraints
      x_1 - x_0 = int_0^1 s = 0.5,     x_2 - x_1 = int_1^2 s = 2.0
so that X = [0, 0.5, 2.5] must satisfy all equality constraints of the NLP.  rockit (MultipleShooting and
SingleShooting, any M, any integrator) evaluates the whole interval with s(t_k): increments 0 and 1.
DirectCollocation samples the spline at the collocation times and is correct.
"""
import sys
import numpy as np
import casadi as ca
from rockit import Ocp, MultipleShooting, SingleShooting, DirectCollocation

C = np.array([[0.0, 1.0, 3.0]])
X_exact = np.array([0.0, 0.5, 2.5])

def build(method, written_in):
    ocp = Ocp(T=2.0)
    x = ocp.state()
    if written_in:
        t = ocp.t
        s = ca.if_else(t <= 1, t, 1+2*(t-1))   # the same spline written as a function of time
    else:
        s = ocp.parameter(grid='bspline', order=1)
    ocp.set_der(x, s)
    ocp.subject_to(ocp.at_t0(x) == 0)
    ocp.add_objective(ocp.at_tf(x))
    ocp.method(method)
    ocp.solver('ipopt')
    if not written_in:
        ocp.set_value(s, C)
    return ocp, x

bad = []
for name, meth in [("MultipleShooting(M=1)", lambda: MultipleShooting(N=2)),
                   ("MultipleShooting(M=4)", lambda: MultipleShooting(N=2, M=4)),
                   ("MultipleShooting(cvodes)", lambda: MultipleShooting(N=2, intg='cvodes')),
                   ("DirectCollocation", lambda: DirectCollocation(N=2, degree=2))]:
    res = {}
    for written_in in [True, False]:
        ocp, x = build(meth(), written_in)
        ocp._transcribed
        opti = ocp._method.opti
        xs = ocp.sample(x, grid='control')[1]
        # equality residuals of the NLP at the exact trajectory (collocation helper states: solve for them is not
        # needed, the residual of the gap constraints is read from the multiple shooting NLP only)
        if 'Collocation' in name:
            # no closed form for the helper states: evaluate both NLPs at the same arbitrary decision vector
            F = ca.Function('F', [opti.x, opti.p], [opti.g])
            v = np.linspace(0.3, 1.7, opti.nx)
            res[written_in] = np.array(F(v, opti.value(opti.p) if opti.np > 0 else ca.DM(0, 1))).reshape(-1)
            continue
        F = ca.Function('F', [opti.x, opti.p], [opti.g, xs])
        # decision vector such that the sampled states are X_exact (x0,x1,x2 are the only variables)
        assert opti.nx == 3
        g, X = F(X_exact, opti.value(opti.p) if opti.np > 0 else ca.DM(0, 1))
        assert np.allclose(np.array(X).reshape(-1), X_exact)
        res[written_in] = np.abs(np.array(g).reshape(-1))
    if 'Collocation' in name:
        print("%-26s g(v) identical for written-in and bspline parameter: %s" % (name, np.allclose(res[True], res[False])))
        if not np.allclose(res[True], res[False]): bad.append(name)
        continue
    print("%-26s |g| at exact trajectory: written-in %s   bspline parameter %s" % (name, np.round(res[True], 6), np.round(res[False], 6)))
    assert np.allclose(res[True], 0, atol=1e-4)
    if not np.allclose(res[False], 0, atol=1e-4):
        bad.append(name)

# SingleShooting: the propagated final state
ocp, x = build(SingleShooting(N=2, M=2), False)
xs = np.array(ocp.initial_value(ocp.sample(x, grid='control')[1])).reshape(-1)
print("SingleShooting(M=2)        propagated states from x0=0:", xs, " expected", X_exact)
if not np.allclose(xs, X_exact, atol=1e-6):
    bad.append("SingleShooting")

if bad:
    print("VIOLATION: bspline parameter in the dynamics is held constant over each control interval by " + ", ".join(bad) +
          " (increments 0 and 1 instead of 0.5 and 2.0)")
    sys.exit(1)
print("ok")
