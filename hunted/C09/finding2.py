"""
C09 finding 2: a horizon (or start time) given by a parameter does not behave like that number with respect
to the min/max bounds of the time grid: the bounds are silently dropped.

Property: "... a horizon given by a parameter behaves like that number."

UniformGrid(min=1, max=2) declares that every control interval must be between 1 and 2 long.
 * With the number T=2 and N=4 the intervals are 0.5 long and rockit refuses the problem
   ("The min/max bounds of the time grid (1.0, 2.0) do not hold ...").
 * With a free horizon the bounds become NLP constraints.
 * With T = p (parameter) and p = 2 (before or after transcription) rockit transcribes and solves the problem
   without a word: SamplingMethod.check_grid_bounds gives up when the grid is symbolic ("handled by the NLP
   constraints") but SamplingMethod.add_coupling_constraints then skips the constraint because it is parametric.
   The NLP is exactly the NLP of a grid without bounds.  The same happens when only t0 is a parameter
   (T a plain number), and for GeometricGrid / FunctionGrid / DensityGrid.
Expected (what the property demands): the parametric problem is handled like the numeric one, i.e. the violated
grid bound is reported (at transcription or by set_value), not ignored.
"""
import sys
import numpy as np
import casadi as ca
from rockit import Ocp, MultipleShooting, UniformGrid, GeometricGrid

def build(T_kind, t0_kind, grid):
    ocp = Ocp()
    x = ocp.state(); u = ocp.control()
    ocp.set_der(x, u)
    ocp.subject_to(ocp.at_t0(x) == 0)
    ocp.subject_to(-1 <= (u <= 1))
    ocp.add_objective(ocp.at_tf(x))
    pars = {}
    if T_kind == 'param':
        pars['T'] = ocp.parameter(); ocp.set_T(pars['T'])
    else:
        ocp.set_T(2.0)
    if t0_kind == 'param':
        pars['t0'] = ocp.parameter(); ocp.set_t0(pars['t0'])
    else:
        ocp.set_t0(0.0)
    ocp.method(MultipleShooting(N=4, grid=grid))
    ocp.solver('ipopt')
    return ocp, pars

def n_constraints(ocp):
    ocp._transcribed
    return ocp._method.opti.ng

# reference: the numbers written in  -> refused
refused = False
try:
    ocp, _ = build('number', 'number', UniformGrid(min=1, max=2))
    n_constraints(ocp)
except Exception as e:
    refused = True
    print("numeric horizon T=2, N=4, UniformGrid(min=1,max=2): refused:", str(e)[:90], "...")
assert refused

n_plain = n_constraints(build('number', 'number', UniformGrid())[0])
print("number of NLP constraints of the same OCP on a grid without bounds:", n_plain)

bad = []
for label, T_kind, t0_kind, grid in [("T parameter", 'param', 'number', lambda: UniformGrid(min=1, max=2)),
                                     ("t0 parameter, T number", 'number', 'param', lambda: UniformGrid(min=1, max=2)),
                                     ("T parameter, GeometricGrid", 'param', 'number', lambda: GeometricGrid(2, min=1))]:
    for when in ['before', 'after']:
        ocp, pars = build(T_kind, t0_kind, grid())
        try:
            if when == 'after':
                # a value for which the bounds hold (intervals 1.5 long) first, the violating one after transcription
                for k, s in pars.items(): ocp.set_value(s, 6.0 if k == 'T' else 0.0)
                n_constraints(ocp)
            for k, s in pars.items(): ocp.set_value(s, 2.0 if k == 'T' else 0.0)
            n = n_constraints(ocp)
            ts = np.array(ocp.initial_value(ocp.sample(ocp.t, grid='control')[0])).reshape(-1)
            print("%-28s value set %-6s transcription: accepted, %d constraints, interval lengths %s" % (label, when, n, np.diff(ts)))
            if n == n_plain and np.any(np.diff(ts) < 1-1e-9):
                bad.append("%s (%s)" % (label, when))
        except Exception as e:
            print("%-28s value set %-6s transcription: refused (%s)" % (label, when, str(e)[:60]))

if bad:
    print("VIOLATION: grid min/max bounds silently dropped when the horizon/start time is a parameter (same value as a number is refused): " + ", ".join(bad))
    sys.exit(1)
print("ok")
