"""
C09 finding 1: the starting point (and the algebraic start values of shooting methods) is not refreshed
when a parameter value is changed after transcription.

Property: "... the NLP data seen by the solver (objective, constraints, bounds, STARTING POINT) are identical to
those of the same OCP written with the values as constants, whether the values are supplied before the first
transcription or CHANGED AFTERWARDS".

OCP:  x' = u on [0, T] with T = p (horizon parameter), guesses  x(t) = t,  u = 3*p,  N = 4 (MultipleShooting).
With p = 2 the starting point demanded by the property is (hand computed, no rockit involved)
      x_k = t_k = k*2/4 = [0, .5, 1, 1.5, 2],    u_k = 3*2 = 6.
This is what rockit produces when p=2 is given before transcription.  When the OCP is first transcribed
(or solved) with p=1 and p is then set to 2 (the usual MPC / parameter-sweep loop, cf. examples/parametric_time.py),
rockit keeps the numbers computed for p=1: x_k = [0,.25,.5,.75,1], u_k = 3.
Same for the time-grid guesses of localized grids and for the algebraic start values Z0 of shooting methods.
"""
import sys
import numpy as np
import casadi as ca
from rockit import Ocp, MultipleShooting, UniformGrid

N = 4

def build(grid=None):
    ocp = Ocp()
    x = ocp.state(); u = ocp.control()
    p = ocp.parameter()
    ocp.set_T(p)
    ocp.set_der(x, u)
    ocp.subject_to(ocp.at_t0(x) == 0)
    ocp.add_objective(ocp.integral(u**2))
    ocp.set_initial(x, ocp.t)
    ocp.set_initial(u, 3*p)
    kw = {} if grid is None else dict(grid=grid)
    ocp.method(MultipleShooting(N=N, **kw))
    ocp.solver('ipopt')
    return ocp, x, u, p

def start(ocp, x, u):
    xs = ocp.initial_value(ocp.sample(x, grid='control')[1])
    us = ocp.initial_value(ocp.sample(u, grid='control-')[1])
    return np.array(xs).reshape(-1), np.array(us).reshape(-1)

bad = []

exp_x = np.arange(N+1)*2.0/N
exp_u = 6.0*np.ones(N)

# value supplied before transcription: fine
ocp, x, u, p = build()
ocp.set_value(p, 2.0)
xs, us = start(ocp, x, u)
print("before transcription: x0 guess", xs, "u guess", us)
assert np.allclose(xs, exp_x) and np.allclose(us, exp_u)

# value changed after transcription
ocp, x, u, p = build()
ocp.set_value(p, 1.0)
ocp.initial_value(ocp.sample(x, grid='control')[1])  # transcribes
ocp.set_value(p, 2.0)
xs, us = start(ocp, x, u)
print("after  transcription: x0 guess", xs, "u guess", us, " expected", exp_x, exp_u)
if not (np.allclose(xs, exp_x) and np.allclose(us, exp_u)):
    bad.append("state/control guesses keep the values of the old parameter value (x=%s, u=%s; expected x=%s, u=%s)" % (xs, us, exp_x, exp_u))

# same with a localized grid: the guesses of the local time variables t0_k, T_k stay at the old horizon
ocp, x, u, p = build(grid=UniformGrid(localize_t0=True, localize_T=True))
ocp.set_value(p, 1.0)
ocp.initial_value(ocp.sample(x, grid='control')[1])
ocp.set_value(p, 2.0)
ts = np.array(ocp.initial_value(ocp.sample(x, grid='control')[0])).reshape(-1)
print("localized grid: guess of the control grid", ts, " expected", exp_x)
if not np.allclose(ts, exp_x):
    bad.append("guesses of the localized time grid stay at the old horizon (%s, expected %s)" % (ts, exp_x))

# algebraic start value of a shooting method (an Opti parameter handed to the integrator): z guess = 2*q
def build_dae():
    ocp = Ocp(T=1)
    x = ocp.state(); z = ocp.algebraic(); q = ocp.parameter()
    ocp.set_der(x, z)
    ocp.add_alg(z - q*x)
    ocp.set_initial(z, 2*q)
    ocp.add_objective(ocp.at_tf(x))
    ocp.subject_to(ocp.at_t0(x) == 1)
    ocp.method(MultipleShooting(N=2, intg='collocation'))
    ocp.solver('ipopt')
    return ocp, q
import io, contextlib
with contextlib.redirect_stdout(io.StringIO()):  # the library prints debug output here
    ocp, q = build_dae()
    ocp.set_value(q, 1.0)
    ocp._transcribed
    ocp.set_value(q, 5.0)
    opti = ocp._method.opti
    z0 = np.array([float(opti.value(e)) for e in ocp._method.Z0])
print("algebraic start values Z0", z0, " expected", 2*5.0)
if not np.allclose(z0, 10.0):
    bad.append("algebraic start values of MultipleShooting stay at the old parameter value (%s, expected 10)" % z0)

if bad:
    print("VIOLATION: starting point not updated by set_value after transcription: " + "; ".join(bad))
    sys.exit(1)
print("ok")
