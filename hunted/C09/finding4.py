"""
C09 finding 4: SplineMethod silently ignores a parameter (or any constant offset) that enters the dynamics additively.

Property: "For any parameter values, the NLP data seen by the solver (objective, constraints ...) are identical to
those of the same OCP written with the values as constants".

OCP:  x' = v,  v' = u + p,   x(0)=v(0)=0,   u == 0 on the whole horizon,  T = 1.
The only trajectory allowed by these declarations is v(t) = p*t, x(t) = p*t^2/2, hence x(1) = p/2 (= 1.0 for p = 2),
which is also what MultipleShooting computes.  SplineMethod.transcribe_start keeps only the Jacobians A, B of the
right-hand side with respect to states and controls (it checks that they are constant) and builds the state/control
splines from the differentiation chains x -> v -> u; the remainder  rhs - A x - B u = p  is never looked at.
The resulting NLP does not contain p at all: x = v = u = 0 satisfies every constraint for every p.
(The same happens for a plain number, v' = u + 2, so the constants-written OCP is equally wrong; the value
demanded by the property is the one of the declared dynamics.)
"""
import sys
sys.path.insert(0, "/verif/pydeps")   # networkx, needed by SplineMethod
import numpy as np
import casadi as ca
from rockit import Ocp, MultipleShooting, SplineMethod

def build(method, pval):
    ocp = Ocp(T=1.0)
    x = ocp.state(); v = ocp.state(); u = ocp.control()
    p = ocp.parameter()
    ocp.set_der(x, v)
    ocp.set_der(v, u + p)
    ocp.subject_to(ocp.at_t0(x) == 0)
    ocp.subject_to(ocp.at_t0(v) == 0)
    ocp.subject_to(u == 0, include_last=False)
    ocp.add_objective(ocp.at_tf(x))
    ocp.method(method)
    ocp.solver('ipopt')
    ocp.set_value(p, pval)
    return ocp, x, v, u, p

pval = 2.0
expected_xf = pval/2

# reference inside rockit: MultipleShooting (rk4 is exact here).  All variables are fixed by the constraints:
# evaluate the final state by propagating from the initial guess 0 with u=0 -> check the gap constraints by hand instead
ocp, x, v, u, p = build(MultipleShooting(N=3), pval)
ocp._transcribed
opti = ocp._method.opti
xs = ocp.sample(ca.vertcat(x, v), grid='control')[1]; us = ocp.sample(u, grid='control-')[1]
F = ca.Function('F', [opti.x, opti.p], [opti.g, opti.lbg, opti.ubg, xs, us])
# find the decision vector of the exact trajectory: x_k = p t_k^2/2, v_k = p t_k, u_k = 0
# (linear least squares on the linear maps decision vector -> samples)
J = ca.Function('J', [opti.x], [ca.jacobian(ca.vertcat(ca.vec(xs), ca.vec(us)), opti.x)])(np.zeros(opti.nx))
t = np.linspace(0, 1, 4)
target = np.concatenate([np.vstack([pval*t**2/2, pval*t]).reshape(-1, order='F'), np.zeros(3)])
w = np.linalg.lstsq(np.array(J), target, rcond=None)[0]
g, lbg, ubg, X, U = [np.array(e) for e in F(w, opti.value(opti.p))]
feas_ms = np.all(g >= lbg-1e-9) and np.all(g <= ubg+1e-9)
print("MultipleShooting: exact trajectory x(1)=%g feasible: %s" % (X[0, -1], feas_ms))
assert feas_ms and np.isclose(X[0, -1], expected_xf)

# SplineMethod
ocp, x, v, u, p = build(SplineMethod(N=3), pval)
ocp._transcribed
opti = ocp._method.opti
print("SplineMethod: number of Opti parameters appearing in the NLP:", opti.np)
xs = ocp.sample(ca.vertcat(x, v), grid='control')[1]; us = ocp.sample(u, grid='control-')[1]
pin = [opti.p] if opti.np > 0 else []
F = ca.Function('F', [opti.x]+pin, [opti.g, opti.lbg, opti.ubg, xs, us])
w0 = np.zeros(opti.nx)
args = [w0]+([opti.value(opti.p)] if opti.np > 0 else [])
g, lbg, ubg, X, U = [np.array(e) for e in F(*args)]
feas_zero = np.all(g >= lbg-1e-9) and np.all(g <= ubg+1e-9)
print("SplineMethod: x=v=u=0 (x(1)=%g) satisfies all NLP constraints with p=%g: %s" % (X[0, -1], pval, feas_zero))
# and the NLP functions do not depend on p
dep = opti.np > 0 and ca.depends_on(ca.vertcat(opti.f, opti.g, opti.lbg, opti.ubg), opti.p)
print("SplineMethod: NLP depends on the parameter:", bool(dep))
if feas_zero and not dep:
    print("VIOLATION: SplineMethod drops the parameter term of the dynamics v'=u+p: the NLP does not contain p and forces x(1)=0 instead of p/2=%g" % expected_xf)
    sys.exit(1)
print("ok")
