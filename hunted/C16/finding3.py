"""
C16 finding 3: SplineMethod silently drops every term of the right-hand side that is not linear in (x,u):
constants, parameters and B-spline signals.  ocp.der(p) still returns the declared right-hand side, so
der(p) is no longer the time derivative of the trajectory p(t) that the method produces.

  p' = v + c ,  v' = a        with c = 1 (number) / c = par (ocp.parameter, value 0.5) / c = s (bspline signal)

SplineMethod.transcribe_start only looks at A = d ode/dx and B = d ode/du ("Only linear systems supported"
is raised when A,B are not constant) and builds the differentiation chains p -> v -> a from them: the affine
part ode - A x - B u is never inspected.  The B-spline of v is made the exact derivative of the B-spline of p.

Check (no NLP solve, random decision vector): sample p on a fine grid (refine=40), take central finite
differences inside the control intervals -> d/dt p(t); the property demands  d/dt p = der(p) = v + c.
rockit's own sample(ocp.der(p)) returns v + c as well, but d/dt p(t) equals v.
"""
import sys
sys.path.insert(0, '/verif/pydeps')   # networkx (optional dependency of SplineMethod)
import numpy as np, casadi as ca
from rockit import Ocp, SplineMethod

def run(kind):
    ocp = Ocp(T=2.0)
    p = ocp.state(); v = ocp.state(); a = ocp.control()
    if kind == 'number':
        c = 1.0
    elif kind == 'parameter':
        c = ocp.parameter(); ocp.set_value(c, 0.5)
    else:
        c = ocp.parameter(grid='bspline', order=1); 
    ocp.set_der(p, v + c)
    ocp.set_der(v, a)
    ocp.add_objective(ocp.at_tf(p))
    ocp.subject_to(-1 <= (a <= 1))
    N = 3
    ocp.method(SplineMethod(N=N))
    if kind == 'signal':
        ocp.set_value(c, np.array([[0.5, 1.0, 2.0, 1.0]]))
    ocp.solver('ipopt')
    refine = 40
    tt, ps = ocp.sample(p, grid='control', refine=refine)
    _, rhs = ocp.sample(v + c, grid='control', refine=refine)      # declared right-hand side along the trajectory
    _, dps = ocp.sample(ocp.der(p), grid='control', refine=refine)  # what rockit calls der(p)
    _, vs = ocp.sample(v, grid='control', refine=refine)
    opti = ocp._method.opti
    np.random.seed(1)
    x0 = np.random.randn(opti.nx)
    p0 = opti.debug.value(opti.p, opti.initial()) if opti.np else []
    F = ca.Function('F', [opti.x, opti.p], [tt, ps, rhs, dps, vs])
    tt, ps, rhs, dps, vs = [np.array(e).squeeze() for e in F(x0, p0)]
    # central differences at points that are not control-grid knots
    idx = [i for i in range(1, len(tt)-1) if i % refine != 0]
    fd = np.array([(ps[i+1]-ps[i-1])/(tt[i+1]-tt[i-1]) for i in idx])
    err_decl = np.max(np.abs(fd - rhs[idx]))
    err_der = np.max(np.abs(fd - dps[idx]))
    err_v = np.max(np.abs(fd - vs[idx]))
    print("c = %-9s  max |d/dt p - (v+c)| = %.4f   max |d/dt p - sample(der(p))| = %.4f   max |d/dt p - v| = %.1e" % (kind, err_decl, err_der, err_v))
    return err_decl > 1e-2

bad = [k for k in ['number', 'parameter', 'signal'] if run(k)]
if bad:
    print("VIOLATION: SplineMethod drops the affine part of the ODE (offset given as %s): der(p)=v+c but the transcribed p(t) obeys p'=v" % bad)
    sys.exit(1)
print("ok")
