"""
C16 finding 2: shooting methods freeze B-spline signals inside the dynamics (zero-order hold),
so der(x) and the trajectory x(t) that rockit produces do not belong to the same ODE.

  x' = s(t),  s a degree-1 B-spline signal (ocp.parameter(grid='bspline', order=1)) with coefficients [0,1,4]
  on T=2, N=2:  s(0)=0, s(1)=1, s(2)=4, linear in between.   x(0)=0.

Declared dynamics: x(t) = int_0^t s  ->  x(1) = 0.5, x(2) = 3.   ocp.der(x) = s (and sample(s) is indeed 0,1,4).
SingleShooting / MultipleShooting (any intg, any M) call the integrator with p = value of s at the START of the
control interval (SamplingMethod.get_p_sys(stage,k) -> signals[s].sampled[k]), i.e. they integrate x' = s(t_k):
x = [0, 0, 1].  DirectCollocation evaluates the signal at the collocation times and gets [0, 0.5, 3].

Property: der(e) is d/dt e along the exact solution of the declared ODE, ODEs "involving B-spline signals" included.
Here (x(t_{k+1})-x(t_k))/dt differs from the mean of der(x)=s over the interval by O(1); RK4 is exact for this
polynomial right-hand side, so this is not an integration-accuracy effect.

No NLP solve: the SingleShooting states are explicit expressions in x(0); for MultipleShooting the gap-closing
residuals are evaluated at the exact trajectory.
Reference: scipy BSpline antiderivative (independent of rockit).
"""
import sys
import numpy as np, casadi as ca
from scipy.interpolate import BSpline
from rockit import Ocp, SingleShooting, MultipleShooting, DirectCollocation

N, T = 2, 2.0
C = [0.0, 1.0, 4.0]
knots = np.array([0, 0, 1, 2, 2.0])
s_ref = BSpline(knots, C, 1)
S_ref = s_ref.antiderivative()
tgrid = np.linspace(0, T, N+1)
x_exact = np.array([float(S_ref(t) - S_ref(0)) for t in tgrid])   # [0, 0.5, 3]

def build(method):
    ocp = Ocp(T=T)
    x = ocp.state()
    s = ocp.parameter(grid='bspline', order=1)
    ocp.set_der(x, s)
    ocp.add_objective(ocp.at_tf(x))
    ocp.method(method)
    ocp.set_value(s, C)
    ocp.solver('ipopt')
    return ocp, x, s

bad = []
# --- SingleShooting: states at the nodes as a function of x(0)
for M, intg in [(1, 'rk'), (4, 'rk'), (1, 'cvodes')]:
    ocp, x, s = build(SingleShooting(N=N, M=M, intg=intg))
    _, xs = ocp.sample(x, grid='control')
    _, ds = ocp.sample(ocp.der(x), grid='control')
    opti = ocp._method.opti
    F = ca.Function('F', [opti.x, opti.p], [xs, ds])
    xs_, ds_ = [np.array(v).squeeze() for v in F(0.0, ca.DM(C))]      # x(0) = 0
    print("SingleShooting M=%d intg=%-6s  x at nodes %s   exact %s   der(x) at nodes %s" % (M, intg, xs_, x_exact, ds_))
    if np.max(np.abs(xs_ - x_exact)) > 1e-6:
        bad.append("SingleShooting(M=%d,intg=%s)" % (M, intg))

# --- MultipleShooting: residual of the dynamic constraints at the exact trajectory
ocp, x, s = build(MultipleShooting(N=N, M=3, intg='rk'))
_, xs = ocp.sample(x, grid='control')
opti = ocp._method.opti
# decision vector such that the sampled states equal the exact trajectory
A = np.array(ca.Function('J', [opti.x, opti.p], [ca.jacobian(xs, opti.x)])(0, ca.DM(C)))
xdec = np.linalg.lstsq(A, x_exact, rcond=None)[0]
g, lbg, ubg = [np.array(v).squeeze() for v in ca.Function('G', [opti.x, opti.p], [opti.g, opti.lbg, opti.ubg])(xdec, ca.DM(C))]
viol = np.maximum(lbg - g, 0) + np.maximum(g - ubg, 0)
print("MultipleShooting: constraint violation at the exact trajectory x=%s : %s" % (x_exact, viol))
if np.max(viol) > 1e-6:
    bad.append("MultipleShooting")

# --- DirectCollocation for comparison (correct)
ocp, x, s = build(DirectCollocation(N=N, M=1))
_, xs = ocp.sample(x, grid='control')
opti = ocp._method.opti
# the collocation equations are linear in the unknowns here: solve them with x(0)=0
gfun = ca.Function('G', [opti.x, opti.p], [opti.g, ca.jacobian(opti.g, opti.x), xs, ca.jacobian(xs, opti.x)])
g0, J, xs0, Jx = [np.array(v) for v in gfun(np.zeros(opti.nx), ca.DM(C))]
Aeq = np.vstack([J, Jx[0:1, :]]); beq = np.concatenate([-g0.squeeze(), [0 - xs0.squeeze()[0]]])
xdec = np.linalg.lstsq(Aeq, beq, rcond=None)[0]
print("DirectCollocation x at nodes", (xs0.squeeze() + Jx @ xdec), "(matches the declared ODE)")

if bad:
    print("VIOLATION: B-spline signals in the ODE are held at their interval-start value by", bad,
          ": x(tf)=1 instead of 3 while der(x)=s is sampled as the true spline")
    sys.exit(1)
print("ok")
