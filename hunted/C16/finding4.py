"""
C16 finding 4: with SplineMethod a state whose right-hand side does not depend on any state or control
(set_der(c, 0), set_der(c, number), set_der(c, parameter)) is turned into a FREE piecewise-constant decision.

  c' = 0   (a constant carried along as a state, e.g. an unknown mass / offset)  together with  p' = v, v' = a

The chain detection of SplineMethod.transcribe_start builds a graph from A = d ode/dx and B = d ode/du.  The node
of c has no edge, forms a chain of length L=1 and therefore gets its own degree-0 B-spline with N independent
coefficients (add_variables: d=L-1=0, s=N) - exactly what is done for a plain control.  No constraint ties the
N values together, so "c" can jump at every control node although ocp.der(c) = 0.

Property: der(c)=0 is d/dt c along the trajectory, i.e. c(t) must be constant.  (No NLP solve: the sampled
trajectory is evaluated for a random decision vector; nothing in opti.g removes the freedom.)
"""
import sys
sys.path.insert(0, '/verif/pydeps')   # networkx (optional dependency of SplineMethod)
import numpy as np, casadi as ca
from rockit import Ocp, SplineMethod

ocp = Ocp(T=2.0)
p = ocp.state(); v = ocp.state(); a = ocp.control()
c = ocp.state()
ocp.set_der(p, v)
ocp.set_der(v, a)
ocp.set_der(c, 0)
ocp.subject_to(ocp.at_t0(c) == 1)
ocp.subject_to(-1 <= (a <= 1))
ocp.add_objective(ocp.at_tf(p) + ocp.at_tf(c))
N = 4
ocp.method(SplineMethod(N=N))
ocp.solver('ipopt')
tt, cs = ocp.sample(c, grid='control')
_, dcs = ocp.sample(ocp.der(c), grid='control')
opti = ocp._method.opti
np.random.seed(0)
x0 = np.random.randn(opti.nx)
F = ca.Function('F', [opti.x], [tt, cs, dcs, opti.g, ca.jacobian(opti.g, opti.x), ca.jacobian(cs, opti.x)])
tt_, cs_, dcs_, g, Jg, Jc = [np.array(e) for e in F(x0)]
print("t            ", tt_.squeeze())
print("sampled c(t) ", cs_.squeeze())
print("sampled der(c)", dcs_.squeeze())
# number of independent directions in which c(t_k) can move with all constraints of the NLP kept fixed (all are linear here)
from scipy.linalg import null_space
Z = null_space(Jg)
free_dirs = np.linalg.matrix_rank(Jc @ Z)
print("c at the %d nodes is governed by %d independent free directions of the NLP (a constant state has at most 1, here 0 since c(t0) is fixed)" % (N+1, free_dirs))
if np.ptp(cs_) > 1e-9 and free_dirs > 1:
    print("VIOLATION: SplineMethod makes a state with c'=0 a free piecewise-constant signal (values %s) while der(c)=0" % np.round(cs_.squeeze(), 3))
    sys.exit(1)
print("ok")
