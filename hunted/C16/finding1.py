"""
C16 finding 1: Stage.der silently treats algebraic variables as constants.

Semi-explicit index-1 DAE      x' = -x + z ,   0 = z - x**2      (so z(t) = x(t)**2 along every solution)

  d/dt z      = 2 x x'                (exists, is not 0)
  d/dt (z*x)  = d/dt x**3 = 3 x**2 x'
  d2/dt2 x    = d/dt(-x+z) = -x' + 2 x x'

rockit:  der(z) -> 0,   der(z*x) -> z*x'  (the x*dz/dt term is missing),   der(der(x)) -> -x' (f_z*dz/dt missing)
The property wants der(e) to be d/dt e along the exact solution, and a derivative that rockit cannot form
(like the one of a plain control, which raises "Dependency on controls not supported") has to raise.
Here nothing raises and the numbers are wrong.

The reference is independent of rockit: the DAE is reduced by hand to x' = -x + x**2 and integrated with scipy;
d/dt of e along that trajectory is obtained by central finite differences.
"""
import sys
import numpy as np, casadi as ca
from scipy.integrate import solve_ivp
from rockit import Ocp

ocp = Ocp(T=1.0)
x = ocp.state()
z = ocp.algebraic()
ocp.set_der(x, -x + z)
ocp.add_alg(z - x**2)

exprs = {"z": z, "z*x": z*x}
got = {}
raised = {}
for name, e in exprs.items():
    try:
        got[name] = ca.Function('d', [x, z], [ocp.der(e)])
    except Exception as ex:
        raised[name] = ex
try:
    got["der(x)"] = ca.Function('d', [x, z], [ocp.der(ocp.der(x))])
except Exception as ex:
    raised["der(x)"] = ex

# exact solution of the DAE (hand-reduced), dense output
sol = solve_ivp(lambda t, y: -y + y**2, [0, 1], [0.7], rtol=1e-12, atol=1e-13, dense_output=True)
X = lambda t: sol.sol(t)[0]
Z = lambda t: X(t)**2
traj = {"z": Z, "z*x": lambda t: Z(t)*X(t), "der(x)": lambda t: -X(t) + Z(t)}

tq, h = 0.4, 1e-5
bad = []
for name in ["z", "z*x", "der(x)"]:
    if name in raised:
        print("der of", name, "raises (fine):", raised[name]); continue
    fd = (traj[name](tq+h) - traj[name](tq-h))/(2*h)         # d/dt along the exact solution
    r = float(got[name](X(tq), Z(tq)))
    print("d/dt %-7s exact %+.6f   rockit der() %+.6f" % (name, fd, r))
    if abs(fd - r) > 1e-5:
        bad.append(name)
if bad:
    print("VIOLATION: Stage.der ignores the time dependence of algebraic variables (wrong, no exception) for", bad)
    sys.exit(1)
print("ok")
