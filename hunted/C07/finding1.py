"""
C07 finding 1 -- sample(..., grid='integrator', refine=r) scrambles parameters/variables as soon as
the stage declares a B-spline *parameter* (ocp.parameter(grid='bspline')) next to any variable.

Input class : any SamplingMethod with polynomial dense output (MultipleShooting/SingleShooting intg='rk' or
              'expl_euler', DirectCollocation), a stage with >=1 B-spline parameter and >=1 variable
              (global, per-interval, or B-spline), grid='integrator' with refine=<int>.
What rockit does : Stage._grid_intg_fine builds the parameter argument of the helper Function
              expr_f(t, x, xq, z, u, vertcat(stage.p, stage.v), t0, T) as
                  vertcat( get_p_sys(k, include_signals=False) , <all signals> )
              i.e. [P, P_control, P_control+, V, V_control, V_control+, signals...] whereas the Function input is
              laid out as stage.p ; stage.v = [p, p_control, p_control+, p_bspline, v, v_control, v_control+, v_bspline].
              Every interior refine point is therefore evaluated with shifted/permuted p/v entries (only the very last
              point, which uses get_p_sys(-1) with include_signals=True, is right).
What C07 demands : the sample of e at each time equals e evaluated at the values of its ingredients at that time:
              a global variable v keeps its (initial-guess) value at every time, a B-spline parameter takes the value of
              the spline with the user-given coefficients (independently computed here with scipy.interpolate.BSpline).
No NLP solve needed: values are read back at the initial guess with ocp.initial_value.
"""
import sys
import numpy as np
import casadi as ca
from scipy.interpolate import BSpline
from rockit import Ocp, MultipleShooting, SingleShooting, DirectCollocation

np.set_printoptions(linewidth=200, precision=6, suppress=True)

N, M, refine = 4, 1, 2
T = 2.0
coeff = np.array([1.0, 2.0, 3.0, 4.0, 5.0, 6.0])  # N + order coefficients
V0 = 100.0

def truth_pb(t):
    d = 2
    xi = np.linspace(0, 1, N + 1)
    knots = np.r_[[0.0] * d, xi, [1.0] * d]
    return BSpline(knots, coeff, d)(np.clip(t / T, 0, 1 - 1e-15))

bad = []
for name, method in [("MultipleShooting(rk)", MultipleShooting(N=N, M=M, intg='rk')),
                     ("SingleShooting(rk)", SingleShooting(N=N, M=M, intg='rk')),
                     ("DirectCollocation", DirectCollocation(N=N, M=M, degree=2))]:
    ocp = Ocp(T=T)
    x = ocp.state()
    u = ocp.control()
    pb = ocp.parameter(grid='bspline', order=2)
    v = ocp.variable()
    ocp.set_der(x, u)           # neither pb nor v enters the dynamics: this is purely a sampling issue
    ocp.add_objective(ocp.integral(u ** 2))
    ocp.set_value(pb, coeff.reshape(1, -1))
    ocp.set_initial(v, V0)
    ocp.solver('ipopt')
    ocp.method(method)

    # sanity: the control grid and the plain integrator grid are fine / loud
    tc, rc = ocp.sample(ca.vertcat(pb, v), grid='control')
    tc = np.array(ocp.initial_value(tc)).reshape(-1); rc = np.array(ocp.initial_value(rc))
    assert np.allclose(rc[0], truth_pb(tc)) and np.allclose(rc[1], V0), "control grid unexpectedly wrong"

    t, r = ocp.sample(ca.vertcat(pb, v), grid='integrator', refine=refine)
    t = np.array(ocp.initial_value(t)).reshape(-1)
    r = np.array(ocp.initial_value(r))
    exp = np.vstack([truth_pb(t), V0 * np.ones_like(t)])
    print(name)
    print("  t           ", t)
    print("  rockit  pb  ", r[0])
    print("  expected pb ", exp[0])
    print("  rockit  v   ", r[1])
    print("  expected v  ", exp[1])
    if not np.allclose(r, exp, atol=1e-9):
        swapped = np.allclose(r[::-1, :-1], exp[:, :-1], atol=1e-9)
        bad.append("%s: sample(vertcat(pb,v), grid='integrator', refine=%d) wrong at interior points%s" %
                   (name, refine, " (rows pb/v are swapped)" if swapped else ""))

    # an expression that does not even contain the B-spline parameter is corrupted as well
    t2, r2 = ocp.sample(v, grid='integrator', refine=refine)
    r2 = np.array(ocp.initial_value(r2)).reshape(-1)
    if not np.allclose(r2, V0):
        bad.append("%s: sample(v, refine=%d) of a constant global variable returns %s instead of %g everywhere" %
                   (name, refine, r2[:3], V0))

if bad:
    for b in bad:
        print("VIOLATION:", b)
    sys.exit(1)
print("no violation")
