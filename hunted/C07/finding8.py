"""
C07 finding 8 (minor: declared option silently ignored) --
sample(expr, grid='control', refine=r) ignores `refine` for MultipleShooting / SingleShooting / DirectCollocation.

Input class : ocp.sample / sol.sample with grid='control' (or 'control-') and refine=<int> on every method but SplineMethod;
              the same path is used by ocp.integral(expr, grid='control', refine=r).
What rockit does : Stage._grid_control accepts `refine` (default 1) and only forwards it to a method-provided grid_control
              (SplineMethod); the generic loop over the N+1 control nodes never reads it. N+1 points come back, no exception.
              SplineMethod honours the very same call and returns N*refine+1 points.
What is demanded : the docstring of sample() promises "refine: Refine grid by evaluation the polynomal of the integrater at
              intermediate points ('refine' points per interval)": either N*refine+1 points (as grid='integrator',
              refine=r with M=1 gives) or a loud failure -- not a silently unrefined result.
"""
import sys
sys.path.insert(0, '/verif/pydeps')
import casadi as ca
from rockit import Ocp, MultipleShooting, DirectCollocation, SplineMethod

N, refine = 3, 4
bad = []
for name, method in [("SplineMethod", SplineMethod(N=N)), ("MultipleShooting", MultipleShooting(N=N, intg='rk')), ("DirectCollocation", DirectCollocation(N=N))]:
    ocp = Ocp(T=2.0)
    x = ocp.state(); u = ocp.control()
    ocp.set_der(x, u)
    ocp.add_objective(ocp.at_tf(x ** 2) + ocp.sum(u ** 2))
    ocp.solver('ipopt')
    ocp.method(method)
    t1, r1 = ocp.sample(x, grid='control')
    t, r = ocp.sample(x, grid='control', refine=refine)
    ti, ri = (None, None)
    print("%-18s grid='control': %d points; grid='control', refine=%d: %d points" % (name, r1.shape[1], refine, r.shape[1]))
    if r.shape[1] != N * refine + 1:
        bad.append("%s: sample(x, grid='control', refine=%d) returns %d points (refine silently ignored), expected %d" % (name, refine, r.shape[1], N * refine + 1))

if bad:
    for b in bad:
        print("VIOLATION:", b)
    sys.exit(1)
print("no violation")
