"""
RELATED to C07 finding 1 (same root cause, but the victim is the DYNAMICS transcription, not sampling) --
DirectCollocation feeds a permuted parameter vector to the ODE right-hand side when a B-spline parameter is declared
next to any variable.

Input class : DirectCollocation, stage with >=1 ocp.parameter(grid='bspline') and >=1 variable ('' / 'control' / 'control+' / 'bspline').
What rockit does : direct_collocation.add_constraints uses
                  p_total = vertcat(get_p_sys(k, include_signals=False), signals_sampled[...])
              = [P, P_control, P_control+, V, V_control, V_control+, <signals>] for the "p" input of stage._ode(), whose layout is
              vertcat(stage.p, stage.v) = [p, p_control, p_control+, p_bspline, v, v_control, v_control+, v_bspline].
              With x' = pb (B-spline parameter == 1) and an unrelated global variable v == 100 the collocation equations
              integrate x' = v instead: x(2) = 200.
What is demanded : x' = pb(t) = 1  =>  x(2) = 2 (MultipleShooting gets it right).
"""
import sys
import numpy as np
from rockit import Ocp, DirectCollocation, MultipleShooting

bad = []
for name, meth in [("MultipleShooting", MultipleShooting(N=4, M=1, intg='rk')), ("DirectCollocation", DirectCollocation(N=4, M=1, degree=3))]:
    ocp = Ocp(T=2.0)
    x = ocp.state()
    pb = ocp.parameter(grid='bspline', order=1)
    v = ocp.variable()
    ocp.set_der(x, pb)
    ocp.subject_to(ocp.at_t0(x) == 0)
    ocp.subject_to(v == 100)
    ocp.add_objective(ocp.at_tf(x))
    ocp.set_value(pb, np.ones((1, 5)))   # pb(t) == 1
    ocp.solver('ipopt', {'ipopt.print_level': 0, 'print_time': False, 'ipopt.sb': 'yes'})
    ocp.method(meth)
    sol = ocp.solve()
    xf = sol.sample(x, grid='control')[1][-1]
    print(name, "x(tf) =", xf, " expected 2.0   (v =", sol.value(v), ")")
    if abs(xf - 2.0) > 1e-6:
        bad.append("%s: x'=pb(t)=1 on [0,2] gives x(tf)=%g instead of 2 (the variable v=100 was used as right-hand side)" % (name, xf))

if bad:
    for b in bad:
        print("VIOLATION:", b)
    sys.exit(1)
print("no violation")
