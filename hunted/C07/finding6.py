"""
C07 finding 6 (value read-back; borders on the objective/integral property) --
SplineMethod: ocp.integral(e) (and any user quadrature state) silently evaluates to 0:
sol.value(ocp.integral(e)) == 0, ocp.value(ocp.integral(e)) is the constant 0 and a Lagrange objective vanishes from opti.f.

Input class : any stage transcribed with SplineMethod that uses ocp.integral(expr) (default grid='inf') in the objective,
              in a constraint or in a value()/sample() query; also ocp.state(quad=True) read at t_f.
What rockit does : DirectMethod.fill_placeholders_integral turns the integral into at_tf(<quadrature state>); SplineMethod has
              no quadrature at all (clean() sets self.Q = None, self.q stays 0) and SamplingMethod.eval_at_control substitutes
              xq = self.q = 0 for k == -1. No exception, the NLP objective is literally 0.
What C07 demands : value(e) of a non-signal expression equals e at the values of its ingredients; for e = integral(s**2) that is
              the integral of the sampled trajectory. Independent check: trapezoidal quadrature of sol.sample(s**2) on a
              200x refined control grid (s is a piecewise linear spline here, so this is accurate), and the same OCP with
              MultipleShooting.
"""
import sys
sys.path.insert(0, '/verif/pydeps')   # networkx (pure python copy) for SplineMethod
import numpy as np
from rockit import Ocp, SplineMethod, MultipleShooting

bad = []
for name, method in [("MultipleShooting", MultipleShooting(N=4, intg='rk')), ("SplineMethod", SplineMethod(N=4))]:
    ocp = Ocp(T=2.0)
    s = ocp.state(); w = ocp.control()
    ocp.set_der(s, w)
    I = ocp.integral(s ** 2)
    ocp.add_objective(I)
    ocp.subject_to(ocp.at_t0(s) == 1)
    ocp.subject_to(ocp.at_tf(s) == 2)
    ocp.subject_to(-3 <= (w <= 3))
    ocp.solver('ipopt', {'ipopt.print_level': 0, 'print_time': False, 'ipopt.sb': 'yes'})
    ocp.method(method)
    sol = ocp.solve()
    f = ocp._method.opti.f
    val = float(sol.value(I))
    if name == "SplineMethod":
        t, ss = sol.sample(s ** 2, grid='control', refine=200)
    else:
        t, ss = sol.sample(s ** 2, grid='integrator', refine=200)
    ref = float(np.sum(0.5 * (ss[1:] + ss[:-1]) * np.diff(t)))
    print("%-17s opti.f is constant zero: %-5s  sol.value(integral(s^2)) = %.6f   quadrature of the sampled s^2 = %.6f" %
          (name, f.is_constant() and float(f.to_DM()) == 0 if f.is_constant() else False, val, ref))
    if abs(val - ref) > 1e-2 * max(1, ref):
        bad.append("%s: sol.value(ocp.integral(s**2)) = %g but the sampled trajectory integrates to %g (objective in opti.f: %s)" % (name, val, ref, f))

if bad:
    for b in bad:
        print("VIOLATION:", b)
    sys.exit(1)
print("no violation")
