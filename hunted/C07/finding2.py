"""
C07 finding 2 -- MultipleShooting / SingleShooting with a DAE: the algebraic variable sampled on grid='integrator'
is the value of ONE INTEGRATOR STEP LATER (and the first point of grid='control' is z one step after t0).

Input class : DAE (ocp.algebraic + ocp.add_alg) transcribed with MultipleShooting or SingleShooting and a CasADi
              integrator (intg='idas' or 'collocation'), any M; grid='integrator' (all points but the last),
              grid='control' (first point only).
What rockit does : multiple_shooting.add_constraints / single_shooting.add_constraints store
              zk[k*M+i] = FF["Zi"][:, i], but discrete_system() builds Zi = hcat(Zs) with Zs[i] = zf of sub-step i,
              i.e. z at the END of integrator step (k,i), whereas xk[k*M+i] = Xi[:, i] is x at the START of that step
              and the reported time is integrator_grid[k][i] (start of the step). eval_at_integrator combines the two.
              Likewise Z[0] = zk_temp[:,0] is z at t0+dt instead of z at t0.
What C07 demands : sampling e on a grid gives e at the values of its ingredients AT THAT GRID POINT and at the sampled time.
              For the index-1 DAE  0 = z - x*(1+t)  the algebraic variable at a time point is uniquely determined by the
              sampled state and time:  z(t_i) = x(t_i)*(1+t_i); so sample(z)[i] must equal sample(x)[i]*(1+t[i]) and the
              sampled residual sample(z - x*(1+t)) must vanish (it does on every grid of DirectCollocation roots).
              Independent evidence: (a) hand formula x*(1+t) with the sampled x and t, (b) for M=1 the control grid and the
              integrator grid are the same time points, yet rockit returns different z for them, (c) rockit's z sample at
              point i equals the hand formula at point i+1 (pure index shift).
"""
import sys
import numpy as np
import casadi as ca
from rockit import Ocp, MultipleShooting, SingleShooting

np.set_printoptions(linewidth=200, precision=6, suppress=True)
bad = []

def build(method):
    ocp = Ocp(T=1.5)
    x = ocp.state(); z = ocp.algebraic(); u = ocp.control()
    ocp.set_der(x, -z + u)
    ocp.add_alg(z - x * (1 + ocp.t))      # z = x (1+t)
    ocp.subject_to(ocp.at_t0(x) == 1)
    ocp.add_objective(ocp.integral(u ** 2))   # optimum: u = 0, plain DAE simulation
    ocp.solver('ipopt', {'ipopt.print_level': 0, 'print_time': False, 'ipopt.sb': 'yes'})
    ocp.method(method)
    return ocp, x, z, u

for name, method in [("MultipleShooting(idas,M=2)", MultipleShooting(N=3, M=2, intg='idas')),
                     ("SingleShooting(idas,M=2)", SingleShooting(N=3, M=2, intg='idas')),
                     ("MultipleShooting(collocation,M=3)", MultipleShooting(N=3, M=3, intg='collocation'))]:
    ocp, x, z, u = build(method)
    sol = ocp.solve()
    t, zs = sol.sample(z, grid='integrator')
    _, xs = sol.sample(x, grid='integrator')
    _, res = sol.sample(z - x * (1 + ocp.t), grid='integrator')
    truth = xs * (1 + t)
    print(name)
    print("  t                     ", t)
    print("  rockit sample(z)      ", zs)
    print("  sample(x)*(1+t)       ", truth)
    print("  sample(z - x*(1+t))   ", res)
    # interior integrator points (exclude t0, where the integrator gives no z, and tf, which is taken from the control grid)
    if not np.allclose(zs[1:-1], truth[1:-1], atol=1e-5):
        shifted = np.allclose(zs[:-2], truth[1:-1], atol=1e-5)
        bad.append("%s: sample(z, grid='integrator') differs from x*(1+t) by up to %.3g at interior points%s" %
                   (name, np.max(np.abs(zs[1:-1] - truth[1:-1])), "; it equals the truth shifted by one integrator step" if shifted else ""))

# M=1: control grid and integrator grid are the same time points
ocp, x, z, u = build(MultipleShooting(N=3, M=1, intg='idas'))
sol = ocp.solve()
tc, zc = sol.sample(z, grid='control')
ti, zi = sol.sample(z, grid='integrator')
print("M=1  t control/integrator", tc, ti)
print("     sample(z,'control')   ", zc)
print("     sample(z,'integrator')", zi)
if np.allclose(tc, ti) and not np.allclose(zc, zi, atol=1e-5):
    bad.append("MultipleShooting(idas,M=1): identical time points, but sample(z,'control')=%s and sample(z,'integrator')=%s" % (zc, zi))

if bad:
    for b in bad:
        print("VIOLATION:", b)
    sys.exit(1)
print("no violation")
