"""
C07 finding 5 -- SplineMethod: inside ocp.next()/ocp.prev()/ocp.offset() only states and controls are shifted;
time (ocp.t) and B-spline signals are silently evaluated at the CURRENT grid point.

Input class : SplineMethod, expressions sampled on grid='control' (and control-grid path constraints, which use the same
              SplineMethod.grid_control) that contain ocp.next(e)/prev(e)/offset(e,k) where e depends on ocp.t or on a
              B-spline parameter/variable.
What rockit does : SplineMethod.grid_control replaces the offset symbol by e with only the state/control symbols renamed to
              shifted copies ("<name>_offset_k"); stage.t and the spline symbols inside e stay the un-shifted map inputs
              (`time`, `spline_traj`). So (next(p*t)-p)[k] = p[k+1]*t[k]-p[k] and next(t)-t = 0, next(pb)-pb = 0, and when e has no
              state/control at all the number of returned points is not even reduced (N+1 points, incl. t_f where "next"
              does not exist).
What C07 demands : ocp.next(e) at grid point k is e at grid point k+1 (all its ingredients and the time taken at k+1), as the
              shooting/collocation methods do: MultipleShooting returns next(t)-t = [dt_0,...,dt_{N-1}, nan] and
              next(p*t)[k] = p[k+1]*t[k+1].
No NLP solve: evaluated at a random decision vector through ocp.initial_value.
"""
import sys
sys.path.insert(0, '/verif/pydeps')   # networkx (pure python copy) for SplineMethod
import numpy as np
import casadi as ca
from rockit import Ocp, SplineMethod, MultipleShooting
from rockit.sampling_method import FunctionGrid

np.set_printoptions(linewidth=200, precision=6, suppress=True)
norm = [0, 0.2, 0.5, 1.0]
coeff_pb = np.array([[1.0, 2.0, 4.0, 8.0]])   # degree-1 spline: value at knot k is coeff[k]

def run(method, with_pb):
    ocp = Ocp(T=2.0, t0=1.0)
    p = ocp.state(); v = ocp.control()
    ocp.set_der(p, v)
    E = dict(next_t=ocp.next(ocp.t) - ocp.t, next_pt=ocp.next(p * ocp.t) - p)
    if with_pb:
        # (with a B-spline signal declared, offsets of states are a loud failure in SplineMethod: separate problem)
        pb = ocp.parameter(grid='bspline', order=1)
        ocp.set_value(pb, coeff_pb)
        E = dict(next_pb=ocp.next(pb) - pb)
    ocp.subject_to(ocp.at_t0(p) == 0)
    ocp.add_objective(ocp.at_tf(p ** 2))
    ocp.solver('ipopt')
    ocp.method(method)
    ocp._transcribed
    opti = ocp._method.opti
    rng = np.random.RandomState(0)
    for sv in [e for e in opti.advanced.symvar() if opti.advanced.get_meta(e).type == ca.OPTI_VAR]:
        opti.set_initial(sv, rng.randn(*sv.shape))
    def S(e):
        t, r = ocp.sample(e, grid='control')
        return np.array(ocp.initial_value(t)).reshape(-1), np.array(ocp.initial_value(r)).reshape(-1)
    out = {}
    out['t'], out['p'] = S(p)
    for k, e in E.items():
        try:
            out[k] = S(e)
        except Exception as ex:
            out[k] = "LOUD: " + str(ex).replace("\n", " ")[:80]
    return out

bad = []
tg = 1.0 + 2.0 * np.array(norm)
ms = run(MultipleShooting(N=3, grid=FunctionGrid(lambda N: norm)), False)
print("MultipleShooting reference: next(t)-t =", ms['next_t'][1], " next(p*t)-p == p[k+1]*t[k+1]-p[k]:",
      np.allclose(ms['next_pt'][1][:-1], ms['p'][1:] * tg[1:] - ms['p'][:-1]))
sp = run(SplineMethod(N=3, grid=FunctionGrid(lambda N: norm)), False)
sp.update(run(SplineMethod(N=3, grid=FunctionGrid(lambda N: norm)), True))
P = sp['p']; t = sp['t']
assert np.allclose(t, tg)

tt, r = sp['next_t']
print("SplineMethod next(t)-t     : t =", tt, " values =", r, "  expected", np.diff(tg), "at", tg[:-1])
if not (len(r) == 3 and np.allclose(r, np.diff(tg))):
    bad.append("SplineMethod: sample(next(t)-t,'control') = %s on %d points; expected the interval lengths %s on the first N points" % (r, len(r), np.diff(tg)))

tt, r = sp['next_pt']
exp = P[1:] * tg[1:] - P[:-1]
alt = P[1:] * tg[:-1] - P[:-1]
print("SplineMethod next(p*t)-p   : t =", tt, " values =", r, "  expected p[k+1]*t[k+1]-p[k] =", exp, "  p[k+1]*t[k]-p[k] =", alt)
if not np.allclose(r, exp):
    bad.append("SplineMethod: sample(next(p*t)-p,'control') = %s; expected p[k+1]*t[k+1]-p[k] = %s (rockit value equals p[k+1]*t[k]-p[k]: %s)" % (r, exp, np.allclose(r, alt)))

res = sp['next_pb']
if isinstance(res, str):
    print("SplineMethod next(pb)-pb   :", res)
else:
    tt, r = res
    exp = np.diff(coeff_pb[0])
    print("SplineMethod next(pb)-pb   : t =", tt, " values =", r, "  expected", exp)
    if not (len(r) == 3 and np.allclose(r, exp)):
        bad.append("SplineMethod: sample(next(pb)-pb,'control') = %s; expected the knot-to-knot increments %s of the B-spline parameter" % (r, exp))

if bad:
    for b in bad:
        print("VIOLATION:", b)
    sys.exit(1)
print("no violation")
