"""
C07 finding 4 -- SplineMethod: grid='control-' is silently treated as grid='control' (the final time point is returned).

Input class : any stage transcribed with SplineMethod, ocp.sample / sol.sample with grid='control-'.
What rockit does : Stage._sample parses 'control-' into grid='control', include_last=False and forwards include_last to
              SplineMethod.grid_control, which accepts include_first/include_last but never reads them: N+1 time points
              and N+1 values (including t_f) are returned. The shooting/collocation methods return N points.
What C07 demands : 'control-' is the control grid without the final point (N leading entries, times t_0..t_{N-1});
              the returned array has one leading index per time point OF THAT GRID.
No solve needed (symbolic shapes); a numeric read-back with sol.sample is shown as well.
"""
import sys
sys.path.insert(0, '/verif/pydeps')   # networkx (pure python copy) for SplineMethod
import numpy as np
from rockit import Ocp, SplineMethod, MultipleShooting

N = 3
bad = []
shapes = {}
for name, method in [("MultipleShooting", MultipleShooting(N=N)), ("SplineMethod", SplineMethod(N=N))]:
    ocp = Ocp(T=2.0, t0=1.0)
    s = ocp.state(); w = ocp.control()
    ocp.set_der(s, w)
    ocp.subject_to(ocp.at_t0(s) == 1)
    ocp.subject_to(ocp.at_tf(s) == 2)
    ocp.add_objective(ocp.at_tf(s ** 2) + ocp.sum(w ** 2))
    ocp.solver('ipopt', {'ipopt.print_level': 0, 'print_time': False, 'ipopt.sb': 'yes'})
    ocp.method(method)
    t_sym, r_sym = ocp.sample(s * ocp.t, grid='control-')
    sol = ocp.solve()
    t, r = sol.sample(s * ocp.t, grid='control-')
    tf = sol.value(ocp.tf)
    print(name, "symbolic shapes", t_sym.shape, r_sym.shape, "| numeric t =", t, " values =", r)
    if t.shape[0] != N or r.shape[0] != N or abs(t[-1] - tf) < 1e-9:
        bad.append("%s: grid='control-' returns %d points (last time %.3g == tf) instead of the N=%d points t_0..t_{N-1}" % (name, t.shape[0], t[-1], N))

if bad:
    for b in bad:
        print("VIOLATION:", b)
    sys.exit(1)
print("no violation")
