"""
C07 finding 3 -- MultipleShooting/SingleShooting + CasADi integrator (idas, collocation, ...): sampling an expression of
the algebraic variable with grid='integrator', refine=r silently returns NaN at every point.

Input class : DAE with algebraic variables, MultipleShooting/SingleShooting with intg in {'idas','collocation',...}
              (no dense-output polynomial), sample(e(z), grid='integrator', refine=<int>).
What rockit does : Stage._grid_intg_fine guards the missing dense output for states ("No polynomal coefficients for the
              idas integration method") and for quadrature states, but not for algebraic variables: with
              poly_coeff_z None it substitutes z = nan and returns an all-NaN array without any exception
              (also at the integrator grid points themselves, where sample(z, grid='integrator') does have values).
What C07 demands : the value of e at the sampled values of its ingredients at each point -- or a loud failure like the
              one raised for the states in exactly the same situation. NaN "values" are silently wrong numbers.
"""
import sys
import numpy as np
from rockit import Ocp, MultipleShooting, SingleShooting

np.set_printoptions(linewidth=200, precision=6, suppress=True)
bad = []
for name, method in [("MultipleShooting(idas)", MultipleShooting(N=3, M=2, intg='idas')),
                     ("SingleShooting(collocation)", SingleShooting(N=3, M=2, intg='collocation'))]:
    ocp = Ocp(T=1.5)
    x = ocp.state(); z = ocp.algebraic(); u = ocp.control()
    ocp.set_der(x, -z + u)
    ocp.add_alg(z - x * (1 + ocp.t))
    ocp.subject_to(ocp.at_t0(x) == 1)
    ocp.add_objective(ocp.integral(u ** 2))
    ocp.solver('ipopt', {'ipopt.print_level': 0, 'print_time': False, 'ipopt.sb': 'yes'})
    ocp.method(method)
    sol = ocp.solve()

    # the same request for the state is a loud failure (fine)
    try:
        sol.sample(x, grid='integrator', refine=2)
        loud_x = False
    except Exception as e:
        loud_x = True
    t0, z0 = sol.sample(z, grid='integrator')
    try:
        t, zs = sol.sample(2 * z + u, grid='integrator', refine=2)
    except Exception as e:
        print(name, "loud failure (fine):", str(e)[:100])
        continue
    print(name, "state request loud:", loud_x)
    print("  sample(z,'integrator')            ", z0)
    print("  sample(2*z+u,'integrator',refine=2)", zs)
    if np.any(np.isnan(zs)):
        bad.append("%s: sample(2*z+u, grid='integrator', refine=2) silently returns %d NaN out of %d values" % (name, np.isnan(zs).sum(), zs.size))

if bad:
    for b in bad:
        print("VIOLATION:", b)
    sys.exit(1)
print("no violation")
