# C11 finding 3 (adjacent: starting point of a free-horizon problem under SplineMethod).
#
# Horizon assigned as a variable through set_T, SplineMethod, guess of the horizon changed on a transcribed
# OCP.  SplineMethod.set_initial reads t0 and T from the CURRENT starting point at its very top
# (T = opti.debug.value(self.T, opti.initial())), evaluates all time-dependent state/control guesses on
# t0 + G*T with that OLD value, and only afterwards applies the new horizon guess (it is deferred to
# initial_remainder -> SamplingMethod.set_initial).  During transcription this is hidden because
# SamplingMethod.transcribe calls set_initial twice; Stage.set_initial on a transcribed OCP calls it once.
# The solver then starts from T=new guess with state guesses sampled over the old horizon, whereas the
# same declarations made before transcription (and every shooting/collocation method, which put the horizon
# guess first) start from x(t)=2t on [t0, t0+new guess].
#
# Expected (independent): x guess at the control grid = 2*(t0 + guess*k/N).
import sys
sys.path.insert(0, '/verif/pydeps')   # pure-python networkx needed by SplineMethod
import numpy as np
from rockit import Ocp, SplineMethod, MultipleShooting

t0, N = 0.5, 4
old_guess, new_guess = 1.0, 2.0

def build(method, when):
    ocp = Ocp(t0=t0)
    T = ocp.variable()
    ocp.set_T(T)
    ocp.subject_to(T >= 0)
    x = ocp.state(); u = ocp.control()
    ocp.set_der(x, u)
    ocp.subject_to(ocp.at_t0(x) == 0)
    ocp.add_objective(ocp.T + ocp.integral(u**2))
    ocp.set_initial(x, 2*ocp.t)
    ocp.set_initial(T, old_guess)
    ocp.method(method)
    ocp.solver('ipopt', {'print_time': False, 'ipopt.print_level': 0})
    if when == 'before':
        ocp.set_initial(T, new_guess)
    ocp._transcribed
    if when == 'after':
        ocp.set_initial(T, new_guess)
    iv = lambda e: np.array(ocp.initial_value(e)).reshape(-1)
    ts, xs = ocp.sample(x, grid='control')
    return float(iv(ocp.value(ocp.T))[0]), iv(ts), iv(xs)

expected_t = t0 + new_guess*np.linspace(0, 1, N+1)
bad = []
for name, mk in [("MultipleShooting (control)", lambda: MultipleShooting(N=N)), ("SplineMethod", lambda: SplineMethod(N=N))]:
    for when in ['before', 'after']:
        T0, ts, xs = build(mk(), when)
        print("%-28s guess given %-6s transcription: T start=%g, grid start=%s, x start=%s (expected %s)" % (name, when, T0, np.round(ts, 3), np.round(xs, 3), np.round(2*expected_t, 3)))
        if not (abs(T0-new_guess) < 1e-12 and np.allclose(ts, expected_t) and np.allclose(xs, 2*expected_t)):
            bad.append("%s [%s]: T starts at %g, x guess is 2*t over a horizon of %g" % (name, when, T0, (xs[-1]-xs[0])/2))
if bad:
    print("VIOLATION: SplineMethod evaluates time-dependent guesses on the old horizon when the guess of a horizon variable is set on a transcribed OCP: " + "; ".join(bad))
    sys.exit(1)
print("no violation")
