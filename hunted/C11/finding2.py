# C11 finding 2: horizon assigned as a variable through set_T, localized / free time grid, guess for the
# horizon given (or changed) after the OCP has been transcribed.
#
# With a localized grid (UniformGrid(localize_T/localize_t0=True), GeometricGrid(localize_*), FreeGrid) the
# horizon the integrators see is NOT the variable T but the helper variables T_local[k] / t0_local[k]
# (control_grid is built from them; T only enters through coupling constraints).  SamplingMethod.transcribe
# (phase 2) therefore seeds these helpers from the guess of T.  ocp.set_initial(T, guess) on a transcribed
# OCP goes through SamplingMethod.set_initial only, which sets T itself and leaves T_local/t0_local at the
# values derived from the OLD guess.  Result: the solver starts from T=guess, but on a control grid (and
# with time-dependent state guesses) of the old horizon: the effective starting horizon sum(T_local) is not
# the guess.  The property demands that the starting value of the free horizon is the guess for every grid
# formulation; rockit itself produces the consistent start when the same guess is given before
# transcription (and for T=FreeTime(.), where set_initial(ocp.T, .) re-transcribes).
#
# Expected (independent): control grid at the starting point = t0 + guess*k/N, x guess = 2*t on that grid.
import sys
import numpy as np
from rockit import Ocp, MultipleShooting, DirectCollocation, UniformGrid, FreeGrid, GeometricGrid

t0, N = 0.5, 4
old_guess, new_guess = 1.0, 2.0

def build(method, when):
    ocp = Ocp(t0=t0)
    T = ocp.variable()
    ocp.set_T(T)                      # horizon assigned as a variable
    ocp.subject_to(T >= 0)
    x = ocp.state(); u = ocp.control()
    ocp.set_der(x, u)
    ocp.subject_to(ocp.at_t0(x) == 0)
    ocp.add_objective(ocp.T + ocp.integral(u**2))
    ocp.set_initial(x, 2*ocp.t)       # time-dependent guess
    ocp.set_initial(T, old_guess)
    ocp.method(method)
    ocp.solver('ipopt', {'print_time': False, 'ipopt.print_level': 0})
    if when == 'before':
        ocp.set_initial(T, new_guess)
    ocp._transcribed                  # e.g. a first ocp.solve() / ocp.sample() / ocp.value()
    if when == 'after':
        ocp.set_initial(T, new_guess)
    iv = lambda e: np.array(ocp.initial_value(e)).reshape(-1)
    ts, xs = ocp.sample(x, grid='control')
    return float(iv(ocp.value(ocp.T))[0]), iv(ts), iv(xs)

cases = [
    ("MultipleShooting/UniformGrid(localize_T)", lambda: MultipleShooting(N=N, grid=UniformGrid(localize_T=True)), np.linspace(0, 1, N+1)),
    ("MultipleShooting/UniformGrid(localize_t0)", lambda: MultipleShooting(N=N, grid=UniformGrid(localize_t0=True)), np.linspace(0, 1, N+1)),
    ("DirectCollocation/GeometricGrid(2,localize_T)", lambda: DirectCollocation(N=N, degree=2, grid=GeometricGrid(2, localize_T=True)), np.array(GeometricGrid(2).normalized(N))),
    ("MultipleShooting/FreeGrid", lambda: MultipleShooting(N=N, grid=FreeGrid()), np.linspace(0, 1, N+1)),
    ("MultipleShooting/UniformGrid (not localized, control)", lambda: MultipleShooting(N=N, grid=UniformGrid()), np.linspace(0, 1, N+1)),
]
bad = []
for name, mk, normalized in cases:
    expected_t = t0 + new_guess*normalized
    for when in ['before', 'after']:
        T0, ts, xs = build(mk(), when)
        ok = abs(T0-new_guess) < 1e-12 and np.allclose(ts, expected_t) and np.allclose(xs, 2*expected_t)
        print("%-50s guess given %-6s transcription: T start=%g, grid start=%s (expected %s), x start=%s" % (name, when, T0, np.round(ts, 3), np.round(expected_t, 3), np.round(xs, 3)))
        if not ok:
            bad.append("%s [%s]: T starts at %g but the control grid spans a horizon of %g" % (name, when, T0, ts[-1]-ts[0]))
if bad:
    print("VIOLATION: guess of a horizon variable (set_T) given after transcription does not reach the localized time grid: " + "; ".join(bad))
    sys.exit(1)
print("no violation")
