# C11 finding 4: horizon (or start time) assigned as a variable through set_T / set_t0; a guess is given
# once through the variable symbol and once through ocp.T / ocp.t0.  The LATER guess is silently ignored.
#
# ocp.T (placeholder) and the variable v assigned with ocp.set_T(v) denote the same decision variable
# (the property: "ocp.T ... refer to that variable, and its starting value is the guess"), but
# Stage.set_initial stores guesses in a dict keyed by the symbol that was passed, and every call moves its
# key to the FRONT of the dict (priority=True).  SamplingMethod.set_initial maps the key ocp.T onto the
# same Opti variable as v (the T/t0 special-casing) and applies the entries front to back, so the entry of
# the EARLIER call is applied last and wins.  Repeating set_initial with the same symbol overwrites the
# value (last call wins), so the expected semantics - the most recent guess is the starting value - is
# clear.  Typical victim: a warm start  ocp.set_initial(ocp.T, sol.value(ocp.T))  after the horizon was
# first initialised with  ocp.set_initial(v, 1.0): the solver silently restarts from 1.0.
import sys
import numpy as np
from rockit import Ocp, MultipleShooting, DirectCollocation, SingleShooting

def build(method, scenario):
    ocp = Ocp()
    v = ocp.variable(); ocp.set_T(v); ocp.subject_to(v >= 0)
    w = ocp.variable(); ocp.set_t0(w)
    x = ocp.state(); u = ocp.control()
    ocp.set_der(x, u)
    ocp.subject_to(ocp.at_t0(x) == 0)
    ocp.add_objective(ocp.T + ocp.integral(u**2))
    ocp.method(method)
    ocp.solver('ipopt', {'print_time': False, 'ipopt.print_level': 0})
    if scenario == 'symbol, then ocp.T':
        ocp.set_initial(v, 1.5);     ocp.set_initial(w, 0.1)
        ocp.set_initial(ocp.T, 2.5); ocp.set_initial(ocp.t0, 0.2)
    elif scenario == 'ocp.T, then symbol':
        ocp.set_initial(ocp.T, 1.5); ocp.set_initial(ocp.t0, 0.1)
        ocp.set_initial(v, 2.5);     ocp.set_initial(w, 0.2)
    elif scenario == 'symbol, transcribe, warm start through ocp.T':
        ocp.set_initial(v, 1.5);     ocp.set_initial(w, 0.1)
        ocp._transcribed             # stands for a first ocp.solve()
        ocp.set_initial(ocp.T, 2.5); ocp.set_initial(ocp.t0, 0.2)
    elif scenario == 'control: same symbol twice':
        ocp.set_initial(v, 1.5);     ocp.set_initial(w, 0.1)
        ocp.set_initial(v, 2.5);     ocp.set_initial(w, 0.2)
    T0 = float(ocp.initial_value(ocp.value(ocp.T)))
    t00 = float(ocp.initial_value(ocp.value(ocp.t0)))
    return T0, t00

bad = []
for mname, mk in [("MultipleShooting", lambda: MultipleShooting(N=3)), ("DirectCollocation", lambda: DirectCollocation(N=3, degree=2)), ("SingleShooting", lambda: SingleShooting(N=3))]:
    for scenario in ['control: same symbol twice', 'symbol, then ocp.T', 'ocp.T, then symbol', 'symbol, transcribe, warm start through ocp.T']:
        T0, t00 = build(mk(), scenario)
        print("%-18s %-46s T starts at %g (last guess 2.5), t0 starts at %g (last guess 0.2)" % (mname, scenario, T0, t00))
        if abs(T0-2.5) > 1e-12 or abs(t00-0.2) > 1e-12:
            bad.append("%s/%s: T=%g, t0=%g" % (mname, scenario, T0, t00))
if bad:
    print("VIOLATION: the most recent guess of a set_T/set_t0 variable is ignored when it is given through the other alias (ocp.T vs the variable): " + "; ".join(bad))
    sys.exit(1)
print("no violation")
