# C11 finding 1: with a free START time (t0=FreeTime) and a FIXED horizon T, the min/max bounds of the
# time grid are silently dropped.
#
# The property says: the NLP of the free-t0 problem, restricted to t0=c0, has the same constraints as the
# problem declared with the number c0.  With T=1, N=4 and UniformGrid(min=0.5) every control interval is
# 0.25 < min, whatever t0 is.  Declared with a numeric t0 rockit refuses the problem ("The min/max bounds
# of the time grid ... do not hold").  Declared with t0=FreeTime(.) the very same bound vanishes: the
# comparison min <= T/N <= max is a constant, add_coupling_constraints skips it as "parametric", and
# check_grid_bounds gives up because the control grid t0+T*k/N is symbolic.  The resulting NLP is
# feasible (we exhibit a point satisfying every constraint) on a grid whose intervals violate min.
import sys
import numpy as np
import casadi as ca
from rockit import Ocp, FreeTime, MultipleShooting, SingleShooting, DirectCollocation, UniformGrid, GeometricGrid
from rockit.sampling_method import FunctionGrid

T, N = 1.0, 4

def build(t0, method):
    ocp = Ocp(t0=t0, T=T)
    x = ocp.state(); u = ocp.control()
    ocp.set_der(x, u)
    ocp.add_objective(ocp.integral(u**2))
    ocp.subject_to(ocp.at_t0(x) == 0)
    ocp.method(method)
    ocp.solver('ipopt', {'print_time': False, 'ipopt.print_level': 0})
    return ocp, x

cases = [
    ("MultipleShooting/UniformGrid(min=0.5)",  lambda: MultipleShooting(N=N, grid=UniformGrid(min=0.5)), 0.5, np.inf),
    ("SingleShooting/UniformGrid(max=0.1)",    lambda: SingleShooting(N=N, grid=UniformGrid(max=0.1)), 0.0, 0.1),
    ("DirectCollocation/GeometricGrid(2,min=0.5)", lambda: DirectCollocation(N=N, degree=2, grid=GeometricGrid(2, min=0.5)), 0.5, np.inf),
    ("MultipleShooting/FunctionGrid(min=0.5)", lambda: MultipleShooting(N=N, grid=FunctionGrid(lambda n: list(np.linspace(0, 1, n+1)), min=0.5)), 0.5, np.inf),
]

violations = []
for name, mk, lo, hi in cases:
    # reference: the same OCP with the number t0=0.3 -> rockit refuses it
    try:
        ocp_fixed, _ = build(0.3, mk())
        ocp_fixed._transcribed
        fixed = "transcribed"
    except Exception as e:
        fixed = "refused: " + str(e).splitlines()[0][:70]
    # free t0
    try:
        ocp, x = build(FreeTime(0.3), mk())
        ocp._transcribed
    except Exception as e:
        print(name, "| fixed t0:", fixed, "| free t0: refused (loud, fine):", str(e).splitlines()[0][:70])
        continue
    opti = ocp._augmented._method.opti
    # decision vector: everything 0 except t0=0.3  (x=0,u=0 satisfies dynamics and x(t0)=0)
    t0_expr = ocp.value(ocp.t0)
    J = np.array(ca.DM(ca.evalf(ca.jacobian(t0_expr, opti.x)))).reshape(-1)
    z = 0.3*J
    F = ca.Function('F', [opti.x, opti.p], [opti.g, opti.lbg, opti.ubg, ocp.sample(ocp.t, grid='control')[1]])
    p = np.zeros(opti.p.numel())
    g, lbg, ubg, tgrid = [np.array(e).reshape(-1) for e in F(z, p)]
    feasible = bool(np.all(g >= lbg-1e-9) and np.all(g <= ubg+1e-9))
    lengths = np.diff(tgrid)
    bound_violated = bool(np.any(lengths < lo-1e-9) or np.any(lengths > hi+1e-9))
    print(name, "| fixed t0:", fixed, "| free t0: transcribed, ng=%d, point feasible=%s, interval lengths=%s, declared bounds=[%g,%g]" % (g.size, feasible, np.round(lengths, 4), lo, hi))
    if feasible and bound_violated and fixed.startswith("refused"):
        violations.append(name)

if violations:
    print("VIOLATION: free t0 with fixed T silently drops the time-grid min/max bounds (the fixed-t0 declaration is refused, the free-t0 NLP accepts the grid): " + "; ".join(violations))
    sys.exit(1)
print("no violation")
