"""
C05 finding 4: for a DAE transcribed with MultipleShooting / SingleShooting (intg='idas', 'collocation', ...)
the Mayer term ocp.at_t0(g(z)) and the k=0 term of ocp.sum(g(z)) are evaluated with the algebraic
variable at the END of the first integrator step (t0 + DT_control/M) instead of at the first node t0.
With M=1 the "value at node 0" is simply the value at node 1.

SamplingMethod.discrete_system collects Zs.append(intg_res["zf"]) (end-of-step values) as output 'Zi',
and {Multiple,Single}Shooting.add_constraints do  `if k==0: self.Z.append(zk_temp[:, 0])`, i.e. Z[0] is
z at the end of the first integrator step; eval_at_control(stage, expr, 0) substitutes z -> Z[0].

Expected (property C05): at_t0 evaluates at the first node.  For the semi-explicit index-1 DAE below
z(t0) is fixed by the algebraic equation  0 = z - sin(t)*u - x**2  at (x_0,u_0,t0), which is what
DirectCollocation returns as well (up to its polynomial extrapolation).  The independent reference
value is computed with numpy from the decision vector read back with ocp.sample.
"""
import sys
import numpy as np
import casadi as ca
from scipy.integrate import solve_ivp
from rockit import Ocp, MultipleShooting, SingleShooting

bad = False
for method in [MultipleShooting(N=3, M=2, intg='idas'), MultipleShooting(N=3, M=1, intg='idas'), SingleShooting(N=3, M=2, intg='collocation')]:
    ocp = Ocp(t0=0.5, T=1.5)
    x = ocp.state(); z = ocp.algebraic(); u = ocp.control()
    ocp.set_der(x, -x + z)
    ocp.add_alg(z - ca.sin(ocp.t)*u - x**2)
    ocp.add_objective(ocp.at_t0(z))           # Mayer term on the algebraic variable
    ocp.subject_to(-10 <= (u <= 10))          # (keeps all controls in the NLP)
    ocp.method(method)
    ocp.solver('ipopt')
    ocp._transcribed
    opti = ocp._augmented._method.opti
    tg, xs = ocp.sample(x, grid='control')
    _, us = ocp.sample(u, grid='control')
    F = ca.Function('F', [opti.x, opti.p], [opti.f, xs, us, tg])
    x0 = np.random.RandomState(0).rand(opti.nx) + 0.2
    f, X, U, tg = [np.array(e).squeeze() for e in F(x0, opti.value(opti.p, opti.initial()))]
    z_t0 = np.sin(tg[0])*U[0] + X[0]**2                    # algebraic equation solved at the first node
    h = (tg[1]-tg[0])/method.M
    s = solve_ivp(lambda t, y: [-y[0] + np.sin(t)*U[0] + y[0]**2], [tg[0], tg[0]+h], [X[0]], rtol=1e-12, atol=1e-12)
    z_step = np.sin(tg[0]+h)*U[0] + s.y[0, -1]**2          # z at the end of the first integrator step
    name = "%s(intg=%s,M=%d)" % (type(method).__name__, method.intg, method.M)
    print("%-40s objective at_t0(z)=%.10g   z(t0)=%.10g   z(t0+DT)=%.10g" % (name, float(f), z_t0, z_step))
    if abs(float(f) - z_t0) > 1e-6:
        print("VIOLATION: %s: objective at_t0(z) = %.8g but z at the first node is %.8g (rockit uses z at t0+%.3g, the end of the first integrator step: %.8g)" % (name, float(f), z_t0, h, z_step))
        bad = True
sys.exit(1 if bad else 0)
