"""
C05 finding 2: DirectCollocation feeds a scrambled parameter vector to the integrand (and the ODE) when
the stage has a B-spline *parameter* (grid='bspline') together with any variable (global, per-interval
or B-spline): the quadrature of ocp.integral(...) is evaluated with the B-spline parameter and the
variable swapped.

The system function is Function('ode',[x,u,z,vertcat(stage.p,stage.v),t],...) with
stage.p = [p_global, p_control, p_control+, p_bspline] and stage.v = [v_global, v_control, v_control+, v_bspline].
DirectCollocation.add_constraints builds  p_total = vertcat(get_p_sys(stage,k,include_signals=False), signals_sampled[...])
i.e. [p_global, p_control, p_control+, v_global, v_control, v_control+] followed by ALL signals (in
registration order: variable signals first, parameter signals last).  As soon as a B-spline parameter
coexists with a variable the slots no longer line up.  Sizes match, so nothing is raised.

Expected (property C05): objective = collocation quadrature of  ps(t) + 100*w  over [0,T] with
ps == 1 (all B-spline coefficients 1 -> the spline is the constant 1) and w the global variable:
   T*(1 + 100*w)   (the collocation weights integrate constants exactly).
MultipleShooting on the same OCP gives exactly that.
"""
import sys
import numpy as np
import casadi as ca
from rockit import Ocp, DirectCollocation, MultipleShooting

T = 2.0
def build(method):
    ocp = Ocp(T=T)
    x = ocp.state()
    w = ocp.variable()
    ps = ocp.parameter(grid='bspline', order=1)
    ocp.set_der(x, 0)
    ocp.add_objective(ocp.integral(ps + 100*w))
    ocp.subject_to(-10 <= (w <= 10))
    ocp.set_value(ps, np.ones((1, 4+1)))        # N+order coefficients, all one: ps(t) == 1
    ocp.method(method)
    ocp.solver('ipopt')
    ocp._transcribed
    opti = ocp._augmented._method.opti
    F = ca.Function('F', [opti.x, opti.p], [opti.f, ocp.value(w)])
    x0 = 0.1*np.arange(1, opti.nx+1)
    f, wv = F(x0, opti.value(opti.p, opti.initial()))
    return float(f), float(wv)

bad = False
for method in [MultipleShooting(N=4), DirectCollocation(N=4, degree=2), DirectCollocation(N=4, M=2, degree=3, scheme='legendre')]:
    f, wv = build(method)
    expected = T*(1 + 100*wv)
    swapped = T*(wv + 100*1)
    print("%-18s w=%g  objective=%.12g  expected T*(1+100*w)=%.12g   [T*(w+100*1)=%.12g]" % (type(method).__name__, wv, f, expected, swapped))
    if abs(f-expected) > 1e-9*max(1, abs(expected)):
        print("VIOLATION: %s: integral(ps+100*w) with B-spline parameter ps==1 and variable w evaluates to %g instead of %g (ps and w swapped in the integrand's parameter vector)" % (type(method).__name__, f, expected))
        bad = True
sys.exit(1 if bad else 0)
