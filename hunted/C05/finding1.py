"""
C05 finding 1: SplineMethod silently drops every ocp.integral(...) term (it contributes exactly 0).

DirectMethod.fill_placeholders_integral turns integral(L) into a quadrature state I with der(I)=L and
at_tf(I).  SplineMethod never integrates quadrature states (SplineMethod.clean sets self.Q=None and
add_constraints never fills it), so SamplingMethod.eval_at_control falls back to xq=self.q, which is
still the 0 assigned in SamplingMethod.clean().  No exception is raised.

Expected (property C05): the objective contains the quadrature of the integrand.  Whatever rule is
used it must integrate constants exactly, so integral(1)=T=2 here, and integral(p**2+1) >= 2.
"""
import sys
sys.path.insert(0, '/verif/pydeps')   # networkx, needed by SplineMethod
import numpy as np
import casadi as ca
from rockit import Ocp, SplineMethod


def build(with_integral):
    ocp = Ocp(T=2)
    p = ocp.state(); v = ocp.state(); a = ocp.control()
    ocp.set_der(p, v); ocp.set_der(v, a)
    if with_integral:
        ocp.add_objective(ocp.integral(p**2 + 1))     # Lagrange term, >= T = 2 for every trajectory
    ocp.add_objective(ocp.at_tf(v))                   # Mayer term
    ocp.subject_to(ocp.at_t0(p) == 1)
    ocp.subject_to(-5 <= (a <= 5))
    ocp.method(SplineMethod(N=4))
    ocp.solver('ipopt')
    ocp._transcribed
    opti = ocp._augmented._method.opti
    _, vs = ocp.sample(v, grid='control')
    F = ca.Function('F', [opti.x], [opti.f, ocp.value(ocp.objective), vs])
    return F, opti.nx

F1, nx = build(True)
F0, _ = build(False)
x0 = np.random.RandomState(1).rand(nx)
f1, obj1, vs = [np.array(e).squeeze() for e in F1(x0)]
f0 = float(F0(x0)[0])
mayer = float(vs[-1])
print("NLP objective with integral term   :", float(f1))
print("NLP objective without integral term:", f0)
print("Mayer term at_tf(v)                :", mayer)
print("lower bound demanded by property   : at_tf(v) + integral(1) = %g" % (mayer + 2.0))
bad = False
if abs(float(f1) - f0) < 1e-12:
    print("VIOLATION: SplineMethod: ocp.integral(p**2+1) contributes exactly 0 to the NLP objective (expected >= T = 2)")
    bad = True
if float(f1) < mayer + 2.0 - 1e-9:
    bad = True
sys.exit(1 if bad else 0)
