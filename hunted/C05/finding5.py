"""
C05 finding 5: for a multi-stage OCP  sol.value(ocp.objective)  is NOT the cost the solver minimised:
Stage.objective returns only the terms added with ocp.add_objective on the top-level Ocp object; every
term declared with stage.add_objective on a sub-stage is part of the NLP objective (opti.f) but missing
from ocp.objective.  No warning/exception.

Expected (property C05, last sentence): sol.value(ocp.objective) equals the minimised cost, i.e. the sum
of the add_objective terms of the OCP *and its stages*.
Responsible: Stage.objective (rockit/stage.py) returns self._objective only; there is no aggregate over
self.iter_stages().
"""
import sys
import numpy as np
import casadi as ca
from rockit import Ocp, MultipleShooting, FreeTime

ocp = Ocp()
w = ocp.variable()
st = ocp.stage(t0=0, T=FreeTime(1.0))
x = st.state(); v = st.state(); u = st.control()
st.set_der(x, v); st.set_der(v, u)
st.add_objective(st.integral(u**2))          # stage terms
st.add_objective(st.T)
st.subject_to(st.at_t0(x) == 0); st.subject_to(st.at_t0(v) == 0)
st.subject_to(st.at_tf(x) == 1); st.subject_to(st.at_tf(v) == w)
st.subject_to(-4 <= (u <= 4))
st.method(MultipleShooting(N=5))
ocp.add_objective(10*(w-0.3)**2)             # top-level term
ocp.solver('ipopt', {"ipopt.print_level": 0, "print_time": False})

# (a) no solve needed: symbolic read-back at an arbitrary decision vector
ocp._transcribed
opti = ocp._augmented._method.opti
stage_terms = st.value(st.objective)
F = ca.Function('F', [opti.x], [opti.f, ocp.value(ocp.objective), stage_terms])
x0 = np.random.RandomState(0).rand(opti.nx) + 0.1
f, obj, stg = [float(e) for e in F(x0)]
print("at a random decision vector: NLP objective f = %.10g, value(ocp.objective) = %.10g, stage terms = %.10g, sum = %.10g" % (f, obj, stg, obj+stg))
bad = abs(f-obj) > 1e-9

# (b) after a solve
sol = ocp.solve()
cost = sol.stats['iterations']['obj'][-1]
print("after solve: cost minimised by ipopt = %.10g, sol.value(ocp.objective) = %.10g" % (cost, sol.value(ocp.objective)))
bad = bad or abs(cost - sol.value(ocp.objective)) > 1e-8
if bad:
    print("VIOLATION: multi-stage OCP: sol.value(ocp.objective)=%.8g differs from the minimised cost %.8g (sub-stage add_objective terms are not part of ocp.objective)" % (sol.value(ocp.objective), cost))
sys.exit(1 if bad else 0)
