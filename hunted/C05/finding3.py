"""
C05 finding 3: with the shooting methods (MultipleShooting / SingleShooting, any intg, any M) a B-spline
signal (ocp.variable/parameter(grid='bspline', order>=1)) is frozen at its value at the left control
node over the whole control interval inside the integrator.  ocp.integral(f(v_spline)) is therefore a
left Riemann sum of the spline instead of the stage's integration rule applied to the integrand along
the declared (piecewise polynomial) signal.

SamplingMethod.get_p_sys(stage,k) passes  self.signals[s].sampled[k]  (the spline evaluated at knot k)
as a constant parameter of the discrete system F for interval k; the M integrator steps and the RK
stages all see that constant.  ocp.sample(v, grid='integrator', refine=..) on the other hand shows the
real spline, and DirectCollocation evaluates the spline at every collocation point.

Expected (property C05): RK4 applied to the augmented system  q' = v(t).  For a time-only integrand an
RK4 step is Simpson's rule, which is exact for polynomials up to degree 3, so for a spline of order 1
or 2 the objective must equal the exact integral of the spline (computed below with scipy).
"""
import sys
import numpy as np
import casadi as ca
from scipy.interpolate import BSpline
from rockit import Ocp, MultipleShooting, SingleShooting, DirectCollocation, GeometricGrid

def run(method, order):
    N = method.N
    ocp = Ocp(t0=0.5, T=2.0)
    x = ocp.state(); u = ocp.control()
    v = ocp.variable(grid='bspline', order=order)
    ocp.set_der(x, u)
    ocp.add_objective(ocp.integral(v))
    ocp.subject_to(-10 <= (v <= 10)); ocp.subject_to(-10 <= (u <= 10))
    ocp.method(method)
    ocp.solver('ipopt')
    ocp._transcribed
    m = ocp._augmented._method
    opti = m.opti
    coeff = [s.coeff for k, s in m.signals.items() if ca.is_equal(k, v)][0]
    tg, _ = ocp.sample(x, grid='control')
    F = ca.Function('F', [opti.x], [opti.f, coeff, tg])
    x0 = np.random.RandomState(3).rand(opti.nx)
    f, C, tg = [np.array(e).squeeze() for e in F(x0)]
    knots = np.concatenate([[tg[0]]*order, tg, [tg[-1]]*order])
    sp = BSpline(knots, C, order)
    exact = float(sp.integrate(tg[0], tg[-1]))
    left = float(sum(sp(tg[k])*(tg[k+1]-tg[k]) for k in range(N)))
    return float(f), exact, left

bad = False
cases = [("MultipleShooting rk M=1, order 1", MultipleShooting(N=4), 1),
         ("MultipleShooting rk M=3, order 2, geometric grid", MultipleShooting(N=4, M=3, grid=GeometricGrid(2)), 2),
         ("SingleShooting cvodes M=2, order 1", SingleShooting(N=4, M=2, intg='cvodes'), 1),
         ("DirectCollocation (reference), order 2", DirectCollocation(N=4, M=2, degree=3), 2)]
for name, method, order in cases:
    f, exact, left = run(method, order)
    print("%-50s objective=%.12g  exact integral of spline=%.12g  left Riemann sum=%.12g" % (name, f, exact, left))
    if abs(f-exact) > 1e-8*max(1, abs(exact)):
        print("VIOLATION: %s: integral(v_bspline) = %.10g, the integration rule applied to the spline gives %.10g (rockit returns the left Riemann sum %.10g)" % (name, f, exact, left))
        bad = True
sys.exit(1 if bad else 0)
