# Commit 907c969 (save() after an edit of a transcribed OCP drops the stale transcription):
# new silent wrong result.  save() now wipes the bookkeeping of the transcription method, which is shared
# with the (still "transcribed") augmented copy that an earlier OcpSolution refers to.  After
#     sol = ocp.solve(); ocp.subject_to(...); ocp.save(file)
# sol.sample(x, grid='control') silently returns NaN for every sample (before the save it returns the
# solution; at the parent commit the save itself raised, so no wrong numbers could be read).
import sys, os, tempfile
sys.path.append('/verif/pydeps')
import numpy as np
import rockit
from rockit import Ocp, MultipleShooting

ocp = Ocp(T=2)
x = ocp.state()
u = ocp.control()
ocp.set_der(x, u)
ocp.add_objective(ocp.integral(u**2) + 10*(ocp.at_tf(x)-0.7)**2)
ocp.subject_to(ocp.at_t0(x) == 0.1)
ocp.method(MultipleShooting(N=3))
ocp.solver('ipopt', {'ipopt.print_level': 0, 'print_time': False, 'ipopt.sb': 'yes'})
sol = ocp.solve()
ref_x = sol.sample(x, grid='control')[1]
ref_u = sol.sample(u, grid='control')[1]

ocp.subject_to(x <= 0.5)          # edit after the solve
try:
    assert np.allclose(sol.sample(x, grid='control')[1], ref_x)   # at HEAD the old solution is still readable here
except AssertionError:
    raise
except Exception as e:
    print("OK (reading the old solution after an edit fails loudly at this commit: %s)" % ' '.join(str(e).split())[:100])
    sys.exit(0)

fname = os.path.join(tempfile.mkdtemp(), 'ocp.pkl')
try:
    ocp.save(fname)
except Exception as e:
    print("OK (save refused loudly: %s)" % ' '.join(str(e).split())[:100])
    sys.exit(0)

try:
    xs = sol.sample(x, grid='control')[1]
    us = sol.sample(u, grid='control')[1]
except Exception as e:
    print("OK (reading the old solution after save() fails loudly: %s)" % ' '.join(str(e).split())[:100])
    sys.exit(0)

if np.allclose(xs, ref_x) and np.allclose(us, ref_u):
    print("OK")
    sys.exit(0)
print("PROBLEM: after solve -> edit -> save(), sol.sample(x, grid='control') silently returns %s (u: %s) instead of the solution %s" % (xs, us, ref_x))
sys.exit(1)
