# Commit 5ea2e2f (clone() substitutes the template's time symbols ...): incomplete repair.
# The values of the template's initial guesses are copied verbatim by Stage.clone(); a guess that is an
# expression of the template's time symbol (set_initial(x, f(stage.t)), the documented way to give a
# time-dependent guess) still refers to the template's placeholder in the clone, so the multi-stage OCP
# cannot be transcribed ("MX symbol 'r_t' ... declared outside of Opti"), exactly the defect class of the commit.
import sys
sys.path.append('/verif/pydeps')
import numpy as np
import rockit
from rockit import Ocp, Stage, MultipleShooting


def build_template():
    s = Stage(t0=0, T=2)
    x = s.state()
    u = s.control()
    s.set_der(x, u)
    s.add_objective(s.integral(u**2))
    s.subject_to(s.at_t0(x) == 0)
    s.subject_to(s.at_tf(x) == 1)
    s.set_initial(x, 3 + s.t)       # time-dependent guesses
    s.set_initial(u, 2*s.t)
    s.method(MultipleShooting(N=4))
    return s, x, u


ocp = Ocp()
s, x, u = build_template()
a = ocp.stage(s)            # t in [0,2]
b = ocp.stage(s, t0=2)      # t in [2,4]
ocp.solver('ipopt', {'ipopt.print_level': 0, 'print_time': False, 'ipopt.sb': 'yes'})

try:
    ocp.transcribe()
    got = []
    for st in [a, b]:
        got.append(np.array(ocp.initial_value(st.sample(x, grid='control')[1])).reshape(-1))
        got.append(np.array(ocp.initial_value(st.sample(u, grid='control-')[1])).reshape(-1))
except Exception as e:
    print("PROBLEM: a stage cloned from a template with a time-dependent guess (set_initial(x, 3+stage.t)) cannot be transcribed: "
          + ' '.join(str(e).split())[:220])
    sys.exit(1)

ta = np.linspace(0, 2, 5)
tb = np.linspace(2, 4, 5)
expected = [3 + ta, 2*ta[:-1], 3 + tb, 2*tb[:-1]]
for g, e in zip(got, expected):
    if g.shape != e.shape or np.max(np.abs(g - e)) > 1e-9:
        print("PROBLEM: time-dependent guess of a cloned stage is wrong: got %s expected %s" % (g, e))
        sys.exit(1)
print("OK")
