# Incomplete repair of the grid min/max bounds (7e5acd5, 7d51186, 8cd3808; refusal added later in check_grid_bounds):
# with a FIXED horizon and a localized grid (localize_T=True and/or localize_t0=True) the bound on the interval
# length is a constant comparison (T_local[0]=T/N resp. T*n[1] is a number), add_coupling_constraints skips it
# (is_parametric) and check_grid_bounds returns early for localized grids, so min=/max= are silently ignored:
# the OCP is solved on a grid that violates the declared bounds.
# Expected: the same refusal as for the non-localized grid ("The min/max bounds of the time grid ... do not hold").
import sys
import numpy as np
import rockit
from rockit import Ocp, MultipleShooting, SingleShooting, DirectCollocation, UniformGrid, GeometricGrid

def solve(method):
    ocp = Ocp(T=2.0)
    x = ocp.state(); u = ocp.control()
    ocp.set_der(x, u)
    ocp.subject_to(ocp.at_t0(x)==0)
    ocp.subject_to(-1<=(u<=1))
    ocp.add_objective(ocp.at_tf((x-1)**2))
    ocp.solver('ipopt', {"ipopt.print_level":0, "print_time":False})
    ocp.method(method)
    sol = ocp.solve()
    ts, _ = sol.sample(x, grid='control')
    return np.diff(ts)

cases = [
  ("UniformGrid(localize_T=True, min=1.0)",   lambda: UniformGrid(localize_T=True, min=1.0),   1.0, np.inf),
  ("UniformGrid(localize_T=True, max=0.1)",   lambda: UniformGrid(localize_T=True, max=0.1),   0.0, 0.1),
  ("UniformGrid(localize_t0=True, min=1.0)",  lambda: UniformGrid(localize_t0=True, min=1.0),  1.0, np.inf),
  ("GeometricGrid(2, localize_t0=True, max=0.1)", lambda: GeometricGrid(2, localize_t0=True, max=0.1), 0.0, 0.1),
  # first interval 0.342 < min=0.5 <= last interval 0.684: only the (constant) bound on the first interval is violated
  ("GeometricGrid(2, localize_T=True, min=0.5)",  lambda: GeometricGrid(2, localize_T=True, min=0.5),  0.5, np.inf),
]

# sanity: the non-localized grid is refused
try:
    solve(MultipleShooting(N=4, grid=UniformGrid(min=1.0)))
    print("PROBLEM: UniformGrid(min=1.0) with T=2, N=4 is not even refused for the plain grid")
    sys.exit(1)
except Exception as e:
    assert "min/max bounds" in str(e), str(e)

bad = []
for M in [MultipleShooting, SingleShooting, DirectCollocation]:
    for name, G, lo, hi in cases:
        try:
            d = solve(M(N=4, grid=G()))
        except Exception as e:
            continue # refused or infeasible: loud, fine
        if d.min() < lo-1e-6 or d.max() > hi+1e-6:
            bad.append("%s %s -> solved with intervals %s" % (M.__name__, name, np.round(d, 3)))

if bad:
    print("PROBLEM: fixed horizon T=2, N=4: grid min/max silently ignored for localized grids (%d cases), e.g. %s" % (len(bad), bad[0]))
    for b in bad[1:]: print("   also:", b)
    sys.exit(1)
print("OK")
