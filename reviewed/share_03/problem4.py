# 1d28e4c "scale= of grid='inf' constraints ... is applied" patched the callers of SamplingMethod.add_inf_constraints
# (MultipleShooting, SingleShooting, DirectCollocation).  SplineMethod has its own add_constraints_inf, which still
# unpacks the constraint as (c, meta, _): the declared scale of a grid='inf' constraint is silently ignored there
# (rows b_i <= 4 instead of b_i/5 <= 0.8); add_constraints_noninf ignores args["scale"] of control-grid constraints likewise.
import sys, io, contextlib
sys.path.append('/verif/pydeps')
import numpy as np, casadi as ca
from rockit import Ocp, MultipleShooting, SplineMethod

def ubg_rows(method, grid, scale):
    def mk(with_c):
        ocp = Ocp(T=2)
        p = ocp.state(); v = ocp.state(); a = ocp.control()
        ocp.set_der(p, v); ocp.set_der(v, a)
        ocp.add_objective(ocp.at_tf(p))
        if with_c: ocp.subject_to(v<=4, grid=grid, scale=scale)
        ocp.method(method())
        ocp.solver('ipopt', {'ipopt.print_level':0, 'print_time':0, 'ipopt.sb':'yes'})
        with contextlib.redirect_stdout(io.StringIO()):
            ocp.transcribe()
        return ocp._augmented._method.opti
    o0, o1 = mk(False), mk(True)
    ub = np.array(ca.Function('f', [o1.x, o1.p], [o1.ubg])(0, 0)).reshape(-1)
    return sorted(ub[np.isfinite(ub) & (ub!=0)].tolist())   # the bounds of the added inequality rows

ref = ubg_rows(lambda: MultipleShooting(N=2), 'inf', 5)
assert len(ref)>0 and np.allclose(ref, 0.8), ref           # repaired by the commit
bad = []
for grid in ['inf', 'control']:
    got = ubg_rows(lambda: SplineMethod(N=2), grid, 5)
    if not np.allclose(got, 0.8):
        bad.append("grid='%s': upper bounds %s instead of 0.8" % (grid, got))
if bad:
    print("PROBLEM: SplineMethod ignores scale=5 of subject_to(v<=4, ...): " + "; ".join(bad))
    sys.exit(1)
print("OK")
