# b6324aa "the fixed-horizon check of the grid's min/max does not depend on t0" added an early return for localized grids
# ("the interval lengths are decision variables: handled by the NLP constraints").  For a FixedGrid with a fixed horizon
# that is not so: UniformGrid(localize_T=True) bounds only T_local[0] = T/N, a number, and with localize_t0 the bounded
# quantity T/N is a number as well; add_coupling_constraints drops such constant comparisons.  The violated min/max of the
# grid is silently dropped (the defect class of addaf70 / b6324aa) and the OCP solves on intervals of 0.25 < min = 0.5.
import sys
sys.path.append('/verif/pydeps')
import numpy as np
from rockit import Ocp, MultipleShooting, DirectCollocation, UniformGrid, GeometricGrid

def run(method, grid, N):
    ocp = Ocp(T=1.0)
    x = ocp.state(); u = ocp.control()
    ocp.set_der(x, u)
    ocp.subject_to(ocp.at_t0(x)==0); ocp.subject_to(ocp.at_tf(x)==1)
    ocp.add_objective(ocp.integral(u**2))
    ocp.method(method(N=N, grid=grid))
    ocp.solver('ipopt', {'ipopt.print_level':0, 'print_time':0, 'ipopt.sb':'yes'})
    sol = ocp.solve()
    ts, _ = sol.sample(x, grid='control')
    return np.diff(ts)

# reference: the non-localized grid is refused
try:
    run(MultipleShooting, UniformGrid(min=0.5), 4)
    print("PROBLEM: UniformGrid(min=0.5) with T=1, N=4 is not refused"); sys.exit(1)
except Exception as e:
    assert "min/max bounds of the time grid" in str(e), str(e)

bad = []
for name, method, grid, N in [
        ("MultipleShooting UniformGrid(min=0.5, localize_T=True)", MultipleShooting, UniformGrid(min=0.5, localize_T=True), 4),
        ("MultipleShooting UniformGrid(max=0.1, localize_T=True)", MultipleShooting, UniformGrid(max=0.1, localize_T=True), 4),
        ("MultipleShooting UniformGrid(min=0.5, localize_t0=True)", MultipleShooting, UniformGrid(min=0.5, localize_t0=True), 4),
        ("DirectCollocation UniformGrid(min=0.5, localize_T=True)", DirectCollocation, UniformGrid(min=0.5, localize_T=True), 4),
        ("MultipleShooting GeometricGrid(2, min=0.5, localize_t0=True)", MultipleShooting, GeometricGrid(2, min=0.5, localize_t0=True), 3)]:
    try:
        d = run(method, grid, N)
    except Exception as e:
        continue  # refused (or infeasible): loud
    lo, hi = grid.min, grid.max
    if np.any(d<lo-1e-9) or np.any(d>hi+1e-9):
        bad.append("%s solved on intervals %s" % (name, np.round(d, 4).tolist()))
if bad:
    print("PROBLEM: fixed horizon, localized grid: violated min/max silently dropped (%d cases), e.g. %s" % (len(bad), bad[0]))
    sys.exit(1)
print("OK")
