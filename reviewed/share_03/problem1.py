# d24ca39 "bspline parameters/variables on a FreeGrid are refused" is too broad.
# The defect it describes is der() of a bspline signal on a FreeGrid.  The values of a bspline variable of order 0 / 1
# were correct before: the spline lives in the piecewise-linearly warped time of the free grid, so an order-0 signal is
# constant on every (free) control interval and an order-1 signal is the piecewise-linear interpolant of its node
# values in physical time.  HEAD refuses these too, although no derivative is requested.
import sys
sys.path.append('/verif/pydeps')
import numpy as np, casadi as ca
from rockit import Ocp, MultipleShooting, FreeGrid, FreeTime

def check(order):
    ocp = Ocp(T=FreeTime(2))
    x = ocp.state()
    w = ocp.variable(grid='bspline', order=order)
    ocp.set_der(x, w)
    ocp.subject_to(ocp.at_t0(x)==0)
    ocp.add_objective(ocp.integral((x-ocp.t**2)**2))
    ocp.method(MultipleShooting(N=4, M=2, grid=FreeGrid(min=0.1, max=1.5)))
    ocp.solver('ipopt', {'ipopt.print_level':0, 'print_time':0, 'ipopt.sb':'yes'})
    tc, wc = ocp.sample(w, grid='control')
    tf, wf = ocp.sample(w, grid='integrator', refine=4)
    opti = ocp._augmented._method.opti
    f = ca.Function('f', [opti.x], [tc, wc, tf, wf])
    np.random.seed(0)
    tc, wc, tf, wf = [np.array(e).reshape(-1) for e in f(np.random.rand(opti.nx)+0.2)]  # a non-uniform grid
    assert np.std(np.diff(tc))>1e-2
    if order==1:
        ref = np.interp(tf, tc, wc)
    else:
        ref = wc[np.minimum(np.searchsorted(tc, tf, side='right')-1, 3)]
    return np.max(np.abs(wf-ref))

try:
    errs = [check(0), check(1)]
except Exception as e:
    print("PROBLEM: order-0/1 grid='bspline' variable on a FreeGrid (no der() used, sampled correctly before d24ca39) is refused: " + str(e).splitlines()[0][:120])
    sys.exit(1)
if max(errs)>1e-9:
    print("PROBLEM: bspline variable on a FreeGrid sampled inconsistently", errs)
    sys.exit(1)
print("OK", errs)
