# 8d12a06 "sparse DM initial guesses are taken as dense numbers" densifies casadi.DM guesses only.
# A numeric casadi.MX guess with structural zeros (MX.eye(2), MX(DM.eye(2)), any constant MX expression with a sparse
# pattern) takes the same route: is_numeric(expr) -> evalf(expr) gives a sparse DM, which Opti.set_initial assigns
# nonzero by nonzero.  The described defect still reproduces: the 2x2 state starts at vec(R)=[1,1,0,0].
import sys
import numpy as np, casadi as ca
from rockit import Ocp, MultipleShooting, SingleShooting, DirectCollocation

def start(method, guess, kind):
    ocp = Ocp(T=1)
    x = ocp.state(); ocp.set_der(x, 0)
    if kind=='state':
        R = ocp.state(2, 2); ocp.set_der(R, ca.MX.zeros(2, 2))
    else:
        R = ocp.control(2, 2)
    ocp.add_objective(ocp.integral(ca.sumsqr(R)))
    ocp.set_initial(R, guess)
    ocp.method(method)
    ocp.solver('ipopt', {'ipopt.print_level':0, 'print_time':0, 'ipopt.sb':'yes'})
    _, Rs = ocp.sample(R, grid='control')
    return np.array(ocp.initial_value(Rs))[:, :2]   # the 2x2 block at t0

bad = []
for mname, m in [('MultipleShooting', lambda: MultipleShooting(N=2)), ('SingleShooting', lambda: SingleShooting(N=2)), ('DirectCollocation', lambda: DirectCollocation(N=2))]:
    for kind in ['state', 'control']:
        ref = start(m(), ca.DM.eye(2), kind)          # repaired by the commit
        assert np.allclose(ref, np.eye(2)), ref
        for gname, g in [('MX.eye(2)', ca.MX.eye(2)), ('MX(DM.eye(2))', ca.MX(ca.DM.eye(2)))]:
            got = start(m(), g, kind)
            if not np.allclose(got, np.eye(2)):
                bad.append("%s %s %s -> %s" % (mname, kind, gname, got.tolist()))
if bad:
    print("PROBLEM: a sparse numeric MX guess is still assigned nonzero by nonzero (%d cases), e.g. %s" % (len(bad), bad[0]))
    sys.exit(1)
print("OK")
