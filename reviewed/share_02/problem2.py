"""
Commit addaf70 (grid min/max bounds that do not hold for a fixed horizon are refused instead of dropped)
INCOMPLETE REPAIR: the check only covers a numeric horizon on a non-localized grid.  The same bound is still dropped
silently (constant / parametric comparison skipped by add_coupling_constraints, check_grid_bounds returns early)
 (a) for UniformGrid(min=0.5, localize_T=True) (or localize_t0=True) with the numeric horizon T=1, N=4,
 (b) for a horizon given by a parameter: T = p, set_value(p, 1).
Both are solved with control intervals of 0.25 although min=0.5 was declared.
"""
import sys
sys.path.append('/verif/pydeps')
import numpy as np
from rockit import Ocp, MultipleShooting, UniformGrid

def build(grid, parametric=False):
    ocp = Ocp(T=1)
    if parametric:
        p = ocp.parameter()
        ocp.set_T(p)
        ocp.set_value(p, 1)
    x = ocp.state(); u = ocp.control()
    ocp.set_der(x, u)
    ocp.subject_to(ocp.at_t0(x)==0)
    ocp.subject_to(ocp.at_tf(x)==1)
    ocp.add_objective(ocp.integral(u**2))
    ocp.method(MultipleShooting(N=4, grid=grid))
    ocp.solver('ipopt', {"ipopt.print_level":0, "print_time":False})
    return ocp, x

bad = []
for name, grid, parametric in [("UniformGrid(min=0.5, localize_T=True), T=1", UniformGrid(min=0.5, localize_T=True), False),
                               ("UniformGrid(min=0.5, localize_t0=True), T=1", UniformGrid(min=0.5, localize_t0=True), False),
                               ("UniformGrid(min=0.5), T=parameter with value 1", UniformGrid(min=0.5), True)]:
    try:
        ocp, x = build(grid, parametric)
        sol = ocp.solve()
    except Exception as e:
        continue # refused (or infeasible): fine
    t, _ = sol.sample(x, grid='control')
    if np.min(np.diff(t)) < 0.5-1e-6:
        bad.append("%s -> intervals %s" % (name, np.diff(t).round(3).tolist()))
if bad:
    print("PROBLEM: grid bound min=0.5 silently dropped for a fixed horizon: " + "; ".join(bad))
    sys.exit(1)
print("OK")
