"""
Commit 05eaeb7 (to_function on a multi-stage OCP initialises the collocation helper states of its sub-stages)
REGRESSION: Ocp.to_function of a multi-stage OCP whose sub-stage uses DirectCollocation raises as soon as the arguments
contain only a PART of the sampled states of that sub-stage (here: the state at the first control node, e.g. a
warm-start value for x(t0)).  The implicit initialisation Xc_vars0 is an expression of ALL state nodes X[0..N]; the
nodes that are not arguments end up as free variables of the wrapping casadi.Function.
At the parent commit the same call returned a working function (helper states start from the stage's set_initial guess).
"""
import sys
sys.path.append('/verif/pydeps')
import numpy as np
import casadi as ca
from rockit import Ocp, DirectCollocation

ocp = Ocp()
s = ocp.stage(t0=0, T=1)
x = s.state(2); u = s.control()
s.set_der(x, ca.vertcat(x[1], u - ca.sin(x[0])))
p = s.parameter(2)
s.set_value(p, [0.5, 0])
s.subject_to(s.at_t0(x)==p)
s.subject_to(s.at_tf(x)==0)
s.add_objective(s.integral(u**2))
s.method(DirectCollocation(N=4))
s.set_initial(x, ca.vertcat(0.3, 0.1))
ocp.solver('ipopt', {"ipopt.print_level":0, "print_time":False, "ipopt.max_iter":0})

_, X = s.sample(x, grid='control')          # 2 x (N+1) decision variables
args = [s.value(p), X[:,0]]                 # parameter and the state at the first node only
try:
    f = ocp.to_function('f', args, [X])
    r = np.array(f(ca.DM([0.5,0]), ca.DM([0.2,0.25])))
except Exception as e:
    print("PROBLEM: to_function(args=[p, X[:,0]]) on a multi-stage OCP with a DirectCollocation sub-stage raises: " + str(e).strip().split("\n")[-1][:150])
    sys.exit(1)
# with max_iter=0 the result is the initial point: first node from the argument, the rest from set_initial
exp = np.array([[0.2]+[0.3]*4, [0.25]+[0.1]*4])
if not np.allclose(r, exp):
    print("PROBLEM: to_function ignores the partial state guess: got %s" % r.tolist())
    sys.exit(1)
print("OK")
