"""
Commit 3956707 (ocp.objective includes the objective terms of the sub-stages)
INCOMPLETE REPAIR: the summed expression is evaluated by the master stage only, which substitutes the master's own
global variables/parameters.  As soon as a sub-stage objective mentions a variable or parameter that belongs to the
sub-stage (stage.variable(), stage.parameter()), sol.value(ocp.objective) raises ("MX symbol 'v1' ... declared outside
of Opti") instead of returning the cost the solver minimised (the parent commit silently left the term out).
"""
import sys
sys.path.append('/verif/pydeps')
import numpy as np
from rockit import Ocp, MultipleShooting

ocp = Ocp()
s = ocp.stage(t0=0, T=1)
x = s.state(); u = s.control()
v = s.variable()          # a variable owned by the sub-stage
p = s.parameter()         # a parameter owned by the sub-stage
s.set_value(p, 3)
s.set_der(x, u)
s.subject_to(s.at_t0(x)==0)
s.subject_to(s.at_tf(x)==1)
s.add_objective(s.integral(u**2))
s.add_objective((v-2)**2 + p*s.at_tf(x))
s.method(MultipleShooting(N=4))
ocp.solver('ipopt', {"ipopt.print_level":0, "print_time":False})
sol = ocp.solve()
f = sol.stats["iterations"]["obj"][-1]   # the cost the solver minimised (1 + 0 + 3 = 4)
try:
    val = float(sol.value(ocp.objective))
except Exception as e:
    print("PROBLEM: sol.value(ocp.objective) raises for a sub-stage objective with stage-owned variable/parameter (solver cost %g): %s" % (f, str(e).strip().split("\n")[1][:120]))
    sys.exit(1)
if abs(val-f)>1e-6:
    print("PROBLEM: sol.value(ocp.objective)=%g differs from the minimised cost %g" % (val, f))
    sys.exit(1)
print("OK")
