# Commit db48e9d makes SplineMethod refuse per-interval variables "instead of evaluating them as 0" (and 492e8fb makes a
# method-less stage refuse quadrature states instead of ignoring them).  The same silent zero remains for quadrature
# states / ocp.integral under SplineMethod: the method never integrates them (self.Q is None, self.q stays 0), so
# at_tf(q) and every ocp.integral(...) term evaluate to the constant 0 and drop out of the NLP.
#   minimise integral (u-1)^2  ->  u = 1, objective 0 (MultipleShooting);  SplineMethod returns u = 0 with "objective" 0.
import sys
sys.path.append("/verif/pydeps")  # optional module networkx, needed by SplineMethod
import numpy as np
import casadi as ca
import rockit
from rockit import Ocp, SplineMethod, MultipleShooting

def solve(method, use_quad_state):
    ocp = Ocp(T=2)
    x = ocp.state(); u = ocp.control()
    ocp.set_der(x, u)
    ocp.subject_to(ocp.at_t0(x) == 0)
    ocp.subject_to(-3 <= (u <= 3))
    if use_quad_state:
        q = ocp.state(quad=True)
        ocp.set_der(q, (u-1)**2)
        ocp.add_objective(ocp.at_tf(q))
    else:
        ocp.add_objective(ocp.integral((u-1)**2))
    ocp.add_objective(1e-6*ocp.sum(u**2))   # keeps the NLP well-posed when the integral vanishes
    ocp.solver('ipopt', {'print_time': False, 'ipopt.print_level': 0})
    ocp.method(method)
    sol = ocp.solve()
    return sol.sample(u, grid='control')[1][:-1]

bad = []
for use_quad_state in [False, True]:
    ref = solve(MultipleShooting(N=4), use_quad_state)
    try:
        got = solve(SplineMethod(N=4), use_quad_state)
    except Exception as e:
        continue  # a refusal would be fine
    if not np.allclose(got, ref, atol=1e-3):
        bad.append("%s: u=%s (MultipleShooting: %s)" % ("quadrature state" if use_quad_state else "ocp.integral", np.round(got, 4), np.round(ref, 4)))
if bad:
    print("PROBLEM: SplineMethod silently evaluates quadrature states / ocp.integral as 0: " + "; ".join(bad))
    sys.exit(1)
print("OK")
