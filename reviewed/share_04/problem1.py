# Commit 5aa046f (and its predecessor 5ea2e2f): Stage.clone renews the template's placeholders in every container
# (constraints, objective, dynamics, placeholder expressions, and since 5aa046f the next/prev/offset operands)
# EXCEPT the values of the declared initial guesses: ret._initial keeps the template's t / T / t0 symbols.
# Cloning a stage that carries a time- or horizon-dependent guess therefore still fails at transcription
# ("Unknown: MX symbol 'r_t' ... declared outside of Opti"), for abstract and for live templates.
import sys
import numpy as np
import rockit
from rockit import Ocp, Stage, MultipleShooting

def build(kind, guess):
    ocp = Ocp()
    tmpl = Stage(t0=0, T=1.0) if kind == 'abstract' else ocp.stage(t0=0, T=1.0)
    y = tmpl.state(); u = tmpl.control()
    tmpl.set_der(y, u)
    tmpl.subject_to(tmpl.at_t0(y) == 0)
    tmpl.subject_to(-1 <= (u <= 1))
    tmpl.add_objective(-tmpl.at_tf(y))
    tmpl.set_initial(y, tmpl.t if guess == 't' else 2*tmpl.T)
    tmpl.method(MultipleShooting(N=2))
    s2 = ocp.stage(tmpl, t0=1, T=4.0)       # clone with its own time window [1, 5]
    ocp.solver('ipopt', {'print_time': False, 'ipopt.print_level': 0})
    return ocp, s2, y

problems = []
for kind in ['abstract', 'live']:
    for guess in ['t', 'T']:
        try:
            ocp, s2, y = build(kind, guess)
            _, ys = s2.sample(y, grid='control')
            got = np.array(ocp.initial_value(ys)).reshape(-1)
            expected = np.array([1., 3., 5.]) if guess == 't' else np.array([8., 8., 8.])
            if not np.allclose(got, expected):
                problems.append("%s template, guess in %s: guess of the clone is %s, expected %s" % (kind, guess, got, expected))
        except Exception as e:
            problems.append("%s template, guess in %s: %s" % (kind, guess, str(e).strip().splitlines()[-2][-90:]))

if problems:
    print("PROBLEM: Stage.clone does not renew the template's t/T/t0 inside initial-guess values: " + " | ".join(problems[:2]) + " (%d of 4 variants fail)" % len(problems))
    sys.exit(1)
print("OK")
