# Commit 8c3e343 refuses refine= on the control grid under MultipleShooting / SingleShooting / DirectCollocation,
# because only SplineMethod implements it.  The same option on grid='integrator' constraints is still accepted and
# ignored without a word: subject_to(x<=b, grid='integrator', refine=4) yields exactly the NLP of refine=1
# (the constraint is not imposed at any refined point).
import sys
import casadi as ca
import rockit
from rockit import Ocp, MultipleShooting, SingleShooting, DirectCollocation

def n_constraints(method, refine):
    ocp = Ocp(T=2)
    x = ocp.state(); u = ocp.control()
    ocp.set_der(x, u)
    ocp.subject_to(ocp.at_t0(x) == 0)
    ocp.subject_to(x <= 0.3, grid='integrator', refine=refine)
    ocp.add_objective(ocp.integral((u-1)**2))
    ocp.solver('ipopt', {'print_time': False, 'ipopt.print_level': 0})
    ocp.method(method)
    J = ocp.jacobian()      # transcribes
    return J.size1()

silent = []
for name, mk in [('MultipleShooting', lambda: MultipleShooting(N=2, M=2)),
                 ('SingleShooting', lambda: SingleShooting(N=2, M=2)),
                 ('DirectCollocation', lambda: DirectCollocation(N=2, M=2))]:
    n1 = n_constraints(mk(), 1)
    try:
        n4 = n_constraints(mk(), 4)
    except Exception as e:
        continue  # refused: fine
    if n4 == n1:
        silent.append("%s (%d constraint rows with refine=1 and with refine=4)" % (name, n1))

if silent:
    print("PROBLEM: subject_to(..., grid='integrator', refine=4) is accepted and silently ignored under " + ", ".join(silent))
    sys.exit(1)
print("OK")
