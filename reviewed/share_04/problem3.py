# Commit a52833d: set_value on a transcribed OCP now re-applies ALL declared initial guesses of ALL stages
# (Stage._reapply_initial -> apply_initial = 3 x set_initial, each evaluating every guess at every node through
# opti.debug.value), unconditionally -- also when no guess and no horizon depends on any parameter.
# In the standard MPC loop (ocp.set_value(X_0, current_X); ocp.solve()) every set_value call goes from ~0.1 ms to
# ~0.5 s (N=40, two time-dependent guesses): thousands of times slower than before, often slower than the solve itself,
# while the NLP's initial point is bit-for-bit unchanged by it.
import sys, time
import numpy as np
import casadi as ca
import rockit
import rockit.direct_method as dm
from rockit import Ocp, MultipleShooting

ocp = Ocp(T=2.0)
x = ocp.state(4); u = ocp.control(2)
ocp.set_der(x, ca.vertcat(x[2:], u))
X0 = ocp.parameter(4)
ocp.subject_to(ocp.at_t0(x) == X0)
ocp.subject_to(-1 <= (u <= 1))
ocp.add_objective(ocp.integral(ca.sumsqr(u) + ca.sumsqr(x)))
ocp.solver('ipopt', {'print_time': False, 'ipopt.print_level': 0})
ocp.method(MultipleShooting(N=40))
ocp.set_value(X0, [1, 1, 0, 0])
# guesses that do not involve any parameter
ocp.set_initial(x, ca.vertcat(ca.sin(ocp.t), 1, 0, 0))
ocp.set_initial(u, ca.vertcat(ca.cos(ocp.t), 0))
t0 = time.time()
sol = ocp.solve()
t_solve = time.time() - t0    # includes the transcription

# count the guess assignments triggered by one set_value
count = [0]
orig = dm.OptiWrapper.set_initial
def counting(self, *a, **k):
    count[0] += 1
    return orig(self, *a, **k)
dm.OptiWrapper.set_initial = counting
t0 = time.time()
ocp.set_value(X0, [1, 1, 0, 0.1])
t_set = time.time() - t0
dm.OptiWrapper.set_initial = orig

t0 = time.time()
sol = ocp.solve()
t_resolve = time.time() - t0

if count[0] > 0 and t_set > 0.02:
    print("PROBLEM: ocp.set_value(X_0, ..) on a transcribed OCP whose guesses do not depend on parameters re-evaluates all guesses: %d Opti.set_initial calls, %.3f s per set_value (the re-solve itself takes %.3f s)" % (count[0], t_set, t_resolve))
    sys.exit(1)
print("OK (%d set_initial calls, %.5f s per set_value)" % (count[0], t_set))
