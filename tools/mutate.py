#!/venv/bin/python
"""Apply a textual mutation (or a patch file) to a scratch worktree of /repo and run checks against it.
usage: tools/mutate.py [--patch file | --sub FILE OLD NEW] -- C01 C04 ..."""
import sys, os, subprocess, tempfile, shutil
args = sys.argv[1:]
sep = args.index("--")
spec, pids = args[:sep], args[sep + 1:]
wt = tempfile.mkdtemp(prefix="mut_", dir="/tmp")
os.rmdir(wt)
subprocess.run(["git", "-C", "/repo", "worktree", "add", "--detach", wt], capture_output=True, check=True)
try:
    if spec[0] == "--patch":
        r = subprocess.run(["git", "-C", wt, "apply", os.path.abspath(spec[1])], capture_output=True, text=True)
        if r.returncode:
            # the tree has moved on since the change was seeded: try with fuzz
            r2 = subprocess.run(["patch", "-p1", "--fuzz=3", "-d", wt, "-i", os.path.abspath(spec[1])], capture_output=True, text=True)
            if r2.returncode:
                print("patch failed:", r.stderr, r2.stdout[-300:]); sys.exit(2)
            print("(applied with fuzz)")
    else:
        _, f, old, new = spec
        p = os.path.join(wt, f)
        s = open(p).read()
        if old not in s:
            print("pattern not found"); sys.exit(2)
        open(p, "w").write(s.replace(old, new, 1))
    env = dict(os.environ, ROCKIT_REPO=wt, PYTHONPATH="/verif:/verif/pydeps:" + wt, PYTHONHASHSEED="0")
    for pid in pids:
        r = subprocess.run(["/venv/bin/python", "-c", "import sys; from harness.driver import main; main([sys.argv[1]])", pid],
                           cwd="/verif", env=env, capture_output=True, text=True)
        lines = [l for l in r.stdout.split("\n") if l.strip()]
        viol = [l for l in lines if l.startswith("VIOLATION")]
        print(pid, "exit", r.returncode, "|", lines[-1] if lines else r.stderr[-300:], "|", viol[0] if viol else "")
finally:
    import glob, hashlib
    for d in glob.glob("/verif/work/gen_%s*" % hashlib.sha256(os.path.realpath(wt).encode()).hexdigest()[:10]):
        shutil.rmtree(d, ignore_errors=True)
    subprocess.run(["git", "-C", "/repo", "worktree", "remove", "--force", wt], capture_output=True)
    shutil.rmtree(wt, ignore_errors=True)
