"""debug: run a property engine and summarise disagreements. usage: dbg.py C12 [seed] [tier]"""
import sys, json, collections, importlib, os
sys.path.insert(0, "/verif")
pid = sys.argv[1]; seed = int(sys.argv[2]) if len(sys.argv) > 2 else 0
tier = sys.argv[3] if len(sys.argv) > 3 else "quick"
mod = importlib.import_module("harness.props." + pid.lower())
res = mod.run(tier=tier, seed=seed)
c = collections.Counter(); ex = {}
for d in res["disagreements"]:
    w = d["what"][0] if isinstance(d.get("what"), list) else d
    k = (str(w.get("what"))[:80], str(w.get("error") or w.get("detail") or w.get("mismatch") or "")[:300], d.get("finding_key"))
    c[k] += 1; ex.setdefault(k, d)
print(res["evaluations"], res["distinct_nontrivial"], len(res["disagreements"]), res.get("extra"))
for k, v in c.most_common():
    print(v, k)
json.dump([ex[k] for k in ex], open("/tmp/dbg_%s.json" % pid, "w"), indent=1, default=str)
