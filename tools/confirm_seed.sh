#!/bin/bash
# usage: confirm_seed.sh <name> <patch.diff> <demo.py>
# confirms a seeded change in a scratch worktree of /repo's HEAD: demo holds on the clean tree, is violated on
# the patched tree, and the pinned test-suite still has exactly the baseline's passing tests.
name=$1; patch=$(readlink -f $2); demo=$(readlink -f $3)
wt=/tmp/confirm_$name
out=/tmp/confirm_${name}.json
rm -rf $wt; git -C /repo worktree prune; git -C /repo worktree add --detach $wt >/dev/null 2>&1 || exit 2
cd $wt
PYTHONPATH=$wt:$DEMO_EXTRA /venv/bin/python $demo > /tmp/confirm_${name}_clean.txt 2>&1; rc_clean=$?
if ! git -C $wt apply $patch 2>/tmp/confirm_${name}_apply.txt; then
  patch -p1 -d $wt < $patch > /tmp/confirm_${name}_apply.txt 2>&1 || { echo "{\"name\":\"$name\",\"applies\":false}" > $out; git -C /repo worktree remove --force $wt; exit 1; }
fi
PYTHONPATH=$wt:$DEMO_EXTRA /venv/bin/python $demo > /tmp/confirm_${name}_patched.txt 2>&1; rc_patched=$?
PYTHONPATH=$wt /venv/bin/python -m pytest -q -p no:cacheprovider --timeout=900 --continue-on-collection-errors --junitxml=/tmp/confirm_${name}.xml > /tmp/confirm_${name}_tests.txt 2>&1
/venv/bin/python - <<PY
import json,xml.etree.ElementTree as ET
b=json.load(open('/root/.vp/BASELINE.json'))
ok=set()
for tc in ET.parse('/tmp/confirm_${name}.xml').iter('testcase'):
    if not any(c.tag in('failure','error','skipped') for c in tc):
        ok.add(tc.get('classname')+'::'+tc.get('name'))
sp=set(b['stable_pass'])
tail=open('/tmp/confirm_${name}_tests.txt').read().strip().split('\n')[-1]
json.dump({"name":"$name","applies":True,"demo_clean_rc":$rc_clean,"demo_patched_rc":$rc_patched,
  "demo_clean_tail":open('/tmp/confirm_${name}_clean.txt').read().strip().split('\n')[-1][:300],
  "demo_patched_tail":open('/tmp/confirm_${name}_patched.txt').read().strip().split('\n')[-1][:300],
  "baseline_pass_still_pass":sorted(sp-ok)==[], "lost":sorted(sp-ok), "tests_tail":tail},open('$out','w'),indent=1)
PY
cd /; git -C /repo worktree remove --force $wt; rm -rf $wt
cat $out
