#!/bin/bash
# usage: stage_seeds3.sh C14 -- third-round seeds: /tmp/seed_<id>_out -> /verif/seeded/<id>-{g,h}, confirmations started
p=$1
i=0
for suffix in "" 2; do
  pf=/tmp/seed_${p}_out/patch${suffix}.diff; df=/tmp/seed_${p}_out/demo${suffix}.py
  [ -f $pf ] || continue
  letter=$(echo g h | cut -d' ' -f$((i+1)))
  d=/verif/seeded/$p-$letter
  mkdir -p $d; cp $pf $d/patch.diff; cp $df $d/demo.py; cp /tmp/seed_${p}_out/notes.md $d/notes.md
  (nohup /verif/tools/confirm_seed.sh $p-$letter $d/patch.diff $d/demo.py > /tmp/confirm_$p-$letter.log 2>&1 &)
  i=$((i+1))
done
git -C /repo worktree remove --force /tmp/seed_$p 2>/dev/null
echo staged $i
