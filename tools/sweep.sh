#!/bin/bash
# run every claimed check for several seeds from the directory this script lives in (used with vp run)
cd "$(dirname "$0")/.."
ROOT=$PWD
./setup.sh >/dev/null 2>&1
for s in ${SEEDS:-1 2 3 4 5 6}; do
  for p in $(/venv/bin/python -c "import json;print(' '.join(c['property_id'] for c in json.load(open('MANIFEST.json'))['checks']))"); do
    out=$(VERIF_SEED=$s PYTHONHASHSEED=0 PYTHONPATH=$ROOT:/verif/pydeps:/repo ROCKIT_VERIF=1 /venv/bin/python -c "import sys; from harness.driver import main; main(sys.argv[1:])" $p --tier ${TIER:-quick} 2>&1 | grep -v "^WARNING" | tail -2 | tr '\n' ' ')
    echo "seed=$s $out"
  done
done
