#!/bin/bash
# re-run, against the current /repo HEAD, every seeded change with the checks recorded in its meta.json (caught_by);
# writes one line per seed to the given log: <seed> caught-by <check> | MISSED | NOAPPLY
cd /verif
log=${1:-/tmp/revalidate.log}; : > $log
one() {
  d=$1; n=$(basename $d)
  cb=$(/venv/bin/python -c "import json;print(' '.join(json.load(open('$d/meta.json'))['caught_by']))" 2>/dev/null)
  out=$(tools/mutate.py --patch $d/patch.diff -- $cb 2>&1)
  if echo "$out" | grep -q "patch failed"; then echo "$n NOAPPLY"; return; fi
  hit=$(echo "$out" | grep " exit 1 " | head -1 | cut -d' ' -f1)
  if [ -n "$hit" ]; then echo "$n caught-by $hit"; else echo "$n MISSED ($cb)"; fi
}
export -f one
ls -d seeded/*/ | sed 's#/$##' | xargs -P 6 -I{} bash -c 'one {}' >> $log
