#!/bin/bash
# run every claimed check (quick tier) on the current tree, print one line each
cd /verif
for id in $(/venv/bin/python -c "import json;print(' '.join(c['property_id'] for c in json.load(open('/verif/MANIFEST.json'))['checks']))"); do
  ./check $id 2>&1 | grep -v WARNING | grep "VIOLATION\|BROKEN\| -> " | cut -c1-200
done
