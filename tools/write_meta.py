#!/venv/bin/python
"""usage: write_meta.py <confdir> <spec.json>  -- spec: [{name, caught_by, change, note}]; writes seeded/<name>/meta.json
from the confirmation record <confdir>/confirm_<name>.json (produced by tools/confirm_seed.sh)."""
import json, sys, os
confdir, spec = sys.argv[1], json.load(open(sys.argv[2]))
for s in spec:
    c = json.load(open(os.path.join(confdir, 'confirm_%s.json' % s['name'])))
    assert c['applies'] and c['demo_clean_rc'] == 0 and c['demo_patched_rc'] != 0 and c['baseline_pass_still_pass'], c
    meta = {"property": s['name'].split('-')[0],
            "origin": s.get('origin', "third round: fresh sub-agent given only the property text and a scratch worktree, "
                      "asked for code paths and ingredients not touched by the earlier rounds"),
            "change": s['change'], "confirmed_on": "scratch worktree of /repo HEAD (tools/confirm_seed.sh)",
            "demo_on_clean_tree": c['demo_clean_tail'], "demo_on_patched_tree": c['demo_patched_tail'],
            "tests": c['tests_tail'], "baseline_passing_tests_still_pass": True,
            "caught_by": s['caught_by'], "note": s.get('note', '')}
    json.dump(meta, open('/verif/seeded/%s/meta.json' % s['name'], 'w'), indent=1)
    print('wrote', s['name'])
