#!/venv/bin/python
import json, sys
man=json.load(open('/verif/MANIFEST.json'))
for pid in sys.argv[1:]:
    if any(c['property_id']==pid for c in man['checks']): continue
    man['not_applicable']=[n for n in man['not_applicable'] if n['property_id']!=pid]
    man['checks'].append({
      "property_id":pid,"quick_cmd":"./check %s --tier quick"%pid,"thorough_cmd":"./check %s --tier thorough"%pid,
      "evidence_file":"/verif/evidence/%s.json"%pid,"replay_cmd_template":"./check %s --replay {path}"%pid,
      "engine":"nlp-engine",
      "level_claimed":{"category":"proof","text":"Rocq theorems over an abstract field about the hand-written executable model of rockit's mechanism (refinement to the mathematical statement of the property), tied to /repo on every run by a correspondence check of the model against the real transcription on generated cases","design_ref":"DESIGN.md section 5, "+pid},
      "level_note":"trusted: Coq kernel, the hand-written model and the sampled model-vs-code correspondence, CasADi; see evidence trusted_base",
      "technique":"machine-checked proof in Rocq (Coq 8.16) of refinement theorems + executable-model correspondence check"})
    for e in man['engines']:
        if pid not in e['serves_properties']: e['serves_properties'].append(pid)
man['checks'].sort(key=lambda c:c['property_id'])
json.dump(man,open('/verif/MANIFEST.json','w'),indent=1)
