#!/bin/bash
# run the source ties (translator + Tie/*.v) against seeded patches that touch the translated kernels
# usage: tools/tie_mutants.sh seeded/C01-a seeded/C05-a ...
for d in "$@"; do
  wt=/tmp/tiemut_$$; rm -rf $wt; mkdir -p $wt/rockit
  cp /repo/rockit/sampling_method.py /repo/rockit/direct_collocation.py /repo/rockit/multiple_shooting.py /repo/rockit/single_shooting.py /repo/rockit/stage.py /repo/rockit/spline_method.py /repo/rockit/direct_method.py $wt/rockit/
  (cd $wt && patch -p1 --fuzz=3 -f -s < /verif/$d/patch.diff >/dev/null 2>&1)
  if diff -rq /repo/rockit $wt/rockit 2>/dev/null | grep -q "differ"; then :; else
    echo "$d: patch does not change the translated files (or no longer applies)"; rm -rf $wt; continue; fi
  PYTHONPATH=/verif /venv/bin/python -c "
from harness.translate import check_tie
for w in ('Intg','Dc','Smp','Shoot','Layout','Spline','Free'):
    r=check_tie('$wt', w); print('$d', w+':', 'tie ok' if r['ok'] else 'BROKEN: '+r['stage']+' | '+r['log'].strip().replace('\n',' ')[:160])" 2>&1 | grep -v WARNING
  rm -rf $wt /verif/work/gen_$(python3 -c "import hashlib,os;print(hashlib.sha256(os.path.realpath('$wt').encode()).hexdigest()[:10])")
done
