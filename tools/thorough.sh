#!/bin/bash
# run the thorough tier of every claimed check, one summary line each (long: 1-2 h)
cd /verif
for id in $(/venv/bin/python -c "import json;print(' '.join(c['property_id'] for c in json.load(open('/verif/MANIFEST.json'))['checks']))"); do
  /usr/bin/time -f "$id wall %e s" ./check $id --tier thorough 2>&1 | grep -v WARNING | grep "VIOLATION\|BROKEN\| -> \|wall" | cut -c1-220
done
