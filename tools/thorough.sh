#!/bin/bash
# run the thorough tier of every claimed check from the directory this script lives in (used with vp run), one summary line each
cd "$(dirname "$0")/.."
ROOT=$PWD
./setup.sh >/dev/null 2>&1
for p in $(/venv/bin/python -c "import json;print(' '.join(c['property_id'] for c in json.load(open('MANIFEST.json'))['checks']))"); do
  out=$(VERIF_SEED=${VERIF_SEED:-0} PYTHONHASHSEED=0 PYTHONPATH=$ROOT:/verif/pydeps:/repo ROCKIT_VERIF=1 /venv/bin/python -c "import sys; from harness.driver import main; main(sys.argv[1:])" $p --tier thorough 2>&1 | grep -v "^WARNING" | grep "VIOLATION\|BROKEN\| -> " | cut -c1-220 | tr '\n' ' ')
  echo "$out"
done
