#!/usr/bin/env python3
"""print a restatement `Theorem NEW binders : statement. Proof. exact (OLD args). Qed. Print Assumptions NEW.` of a theorem
of a proof file, for pasting into a Props file (statements stay visible there).  usage: lift_theorem.py file OLD NEW"""
import re, sys
src = open(sys.argv[1]).read()
old, new = sys.argv[2], sys.argv[3]
m = re.search(r"(?:Theorem|Lemma|Corollary)\s+%s\b" % re.escape(old), src)
i = m.end()
# binders: parenthesised groups until ':' at depth 0
depth, j, binders = 0, i, []
start = None
while True:
    ch = src[j]
    if ch == "(":
        if depth == 0:
            start = j
        depth += 1
    elif ch == ")":
        depth -= 1
        if depth == 0:
            binders.append(src[start:j + 1])
    elif ch == ":" and depth == 0:
        break
    j += 1
k = src.index("\nProof.", j)
stmt = src[j + 1:k].rstrip()
assert stmt.endswith(".")
names = []
for b in binders:
    names += b[1:b.index(":")].split()
print("Theorem %s %s :%s\nProof. exact (%s %s). Qed.\nPrint Assumptions %s.\n" % (new, " ".join(binders), stmt, old, " ".join(names), new))
