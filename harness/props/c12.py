"""C12 — stages compose without interference and clones equal their template.

Multi-stage OCPs (1-3 stages, each a generated single-stage case with its own method, grid, N,
horizon, parameters, variables, constraints and objective; directly declared or cloned from a
template with overridden t0/T and post-clone edits), a master with its own variables, coupling
constraints and objective terms.  rockit's NLP (one shared Opti) is compared, as a multiset of
normal rows and an objective value at semantic decision points, against Mech/Stages.v
(run_multi_float): disjoint union of the stage NLPs + master rows, sum of objectives.  Clones are
emitted on the model side through the model's `clone` function.  A decoy master that clones and
edits the same template first checks that the template is left unchanged."""
import numpy as np
import os, json, random, copy, traceback, glob, multiprocessing as mp
from fractions import Fraction
from ..common import VERIF, sha, Fr, jq, dyadic, dyadic_nz
from .. import gen, engine, coqrun
from .. import cases as CS
from .nlpprop import TRUSTED as T0, ASSUMPTIONS as A0, default_build

PID = "C12"
OPTS = {"methods": ["MS", "SS", "DC"], "deg_max": 2, "intgs": ["rk", "expl_euler", "next"], "N_max": 3, "M_max": 3,
        "nx_max": 2, "nu_max": 1, "nc_min": 1, "nc_max": 3, "no_min": 1, "no_max": 2, "p_offset": 0.2,
        "p_freeT": 0.3, "p_freet0": 0.2, "roots": False}
OPTS_T = dict(OPTS, N_max=4, M_max=3, nx_max=3)
TRUSTED = T0 + ["Mech/Stages.v (multi-stage composition, clone) tied to rockit by the same sampled correspondence over multi-stage OCPs"]
ASSUMPTIONS = A0 + ["the master declares only variables, coupling constraints and objective terms (no dynamics of its own)",
                    "templates do not use signals/bspline or grid='inf' constraints (not modelled for clones)"]
RULE = ("1-3 stages x {directly declared | cloned from one template with overridden t0/T (fixed or FreeTime) and per-clone "
        "extra constraints / parameter values} x per-stage method MS|SS|DC, intg, N, M, grid, free/fixed/param horizon, "
        "explicit quadrature states, integrals with time inside, sums, at_t0/at_tf terms x master variables and parameters x 0-3 coupling "
        "constraints (stage boundary terms, integrals, T, t0, tf) x master objective terms; optional decoy master using the "
        "same template first.  Compared: objective value and all rows; sol(stage).sample read-back of per-stage starting values after a zero-iteration solve.  non-trivial = at least two stages or a clone; "
        "distinct by hash of the multi-stage case")


# ------------------------------------------------------------------ generation
def C(q):
    f = Fraction(q)
    return ["c", f.numerator, f.denominator]


def gen_horizon_override(rng, what):
    r = rng.random()
    if r < 0.3:
        return None
    if what == "t0":
        return {"fixed": jq(dyadic(rng, -1, 2, 1))} if r < 0.8 else {"free": jq(dyadic(rng, 0, 1, 1))}
    v = jq(rng.choice([Fraction(1, 2), 1, Fraction(3, 2), 2]))
    return {"fixed": v} if r < 0.7 else {"free": v}


def eff_case(mc, i):
    st = mc["stages"][i]
    if st.get("case") is not None:
        return st["case"]
    c = copy.deepcopy(mc["template"])
    ov = st["clone"]
    if ov.get("t0") is not None:
        c["t0"] = ov["t0"]
    if ov.get("T") is not None:
        c["T"] = ov["T"]
    c["constraints"] = c["constraints"] + st.get("extra", [])
    if st.get("param_values") is not None:
        c["param_values"] = st["param_values"]
    if st.get("ode_override") is not None:
        # set_der given again on this clone only: replaces the rule of one state object
        from ..cases import nslots
        j = st["ode_override"]["obj"]
        off = nslots(c["states"][:j])
        c["ode"] = list(c["ode"])
        for k, e in enumerate(st["ode_override"]["exprs"]):
            c["ode"][off + k] = e
    return c


def gen_stage_case(rng, opts):
    c = default_build(rng, opts)
    if rng.random() < 0.25 and not c.get("n_explicit_quad"):
        pass
    return c


def cterm(rng, mc, cases):
    """a scalar term of the master: a stage point term or a master variable"""
    r = rng.random()
    if mc["nmv"] and r < 0.25:
        return ["mv", rng.randrange(mc["nmv"])]
    if mc.get("mpv") and r < 0.4:
        return ["*", ["mp", rng.randrange(len(mc["mpv"]))], ["mv", rng.randrange(mc["nmv"])]] if mc["nmv"] and r < 0.33 \
            else ["mp", rng.randrange(len(mc["mpv"]))]
    i = rng.randrange(len(cases))
    return ["st", i, wrap_globals(gen.pterm(rng, cases[i], OPTS))]


def wrap_globals(e):
    """a stage's parameters and variables are symbols of that stage: at master level they are
    reached through at_t0 (T, t0, tf are placeholders and may be used directly)"""
    if isinstance(e, list):
        if e and e[0] == "g" and len(e) == 3:
            return ["at0", ["s", e[1], e[2]]]
        if e and e[0] in ("at0", "atf", "sum", "sump", "intc", "int", "c"):
            return e
        return [e[0]] + [wrap_globals(a) for a in e[1:]]
    return e


def gen_multi(rng, opts):
    k = rng.choice([1, 2, 2, 3])
    mode = rng.choice(["direct", "clone", "clone", "mixed"])
    mc = {"stages": [], "template": None, "nmv": rng.choice([0, 0, 1, 2]), "coupling": [], "mobj": [],
          "decoy": False}
    # parameters declared on the master (values set with master.set_value)
    mc["mpv"] = [jq(dyadic_nz(rng, -2, 2, 2)) for _ in range(rng.choice([0, 1, 1, 2]))]
    if mode != "direct":
        mc["template"] = gen_stage_case(rng, opts)
        mc["decoy"] = rng.random() < 0.5
        if rng.random() < 0.4:
            # time-invariant dynamics (no template symbol inside the rules: nothing for clone() to rewrite)
            tc = mc["template"]
            syms = gen.sym_list(tc, ["x", "u", "p", "pc", "pp", "v", "vc", "vp"] + (["z"] if tc.get("algebraics") else []))
            tc["ode"] = [gen.rand_poly(rng, syms, 2) for _ in tc["ode"]]
            for q in range(tc.get("n_explicit_quad", 0)):
                tc["quad"][q] = gen.rand_poly(rng, syms, 2)
            tc["_time_invariant"] = True
    for i in range(k):
        if mode == "direct" or (mode == "mixed" and i % 2 == 1):
            mc["stages"].append({"case": gen_stage_case(rng, opts)})
        else:
            st = {"case": None, "clone": {"t0": gen_horizon_override(rng, "t0"), "T": gen_horizon_override(rng, "T")},
                  "extra": []}
            mc["stages"].append(st)
    # coupling terms may append integrands to the stage cases (clones: to the template)
    tcases = [st["case"] if st["case"] is not None else mc["template"] for st in mc["stages"]]
    for _ in range(rng.choice([0, 1, 2, 3])):
        lhs = cterm(rng, mc, tcases)
        rhs = cterm(rng, mc, tcases) if rng.random() < 0.7 else C(dyadic(rng, -2, 2, 1))
        if rng.random() < 0.4:
            lhs = ["+", lhs, ["*", C(dyadic_nz(rng)), cterm(rng, mc, tcases)]]
        mc["coupling"].append({"rel": rng.choice(["eq", "le"]), "lhs": lhs, "rhs": rhs})
        # a coupling constraint may also be DECLARED ON one of the sub-stages (st2.subject_to(st2.at_t0(x) == st1.at_tf(x))):
        # the same row as when it is declared on the master
        mc["coupling"][-1]["host"] = rng.randrange(k) if rng.random() < 0.4 else None
    for _ in range(rng.choice([0, 1, 2])):
        t = cterm(rng, mc, tcases)
        if rng.random() < 0.4:
            t = ["pow", t, 2]
        mc["mobj"].append(t)
    for j in range(mc["nmv"]):
        # make sure every master variable occurs in the NLP
        mc["mobj"].append(["pow", ["mv", j], 2])
    # post-clone edits: an extra constraint / other parameter values / another rule for one state on one clone only
    clones = [st for st in mc["stages"] if st["case"] is None]
    if clones and rng.random() < 0.5:
        from ..cases import nslots as _ns
        tc = mc["template"]
        st = rng.choice(clones)
        j = rng.randrange(len(tc["states"]))
        syms = gen.sym_list(tc, ["x", "u", "p", "v"])
        n = _ns([tc["states"][j]])
        st["ode_override"] = {"obj": j, "exprs": [gen.rand_poly(rng, syms, 2) for _ in range(n)]}
    for st in mc["stages"]:
        if st["case"] is None and rng.random() < 0.4:
            tc = mc["template"]
            st["extra"].append(gen.gen_path_constraint(rng, tc, dict(OPTS, p_offset=0.0, cgrids=["control"])))
        if st["case"] is None and mc["template"].get("param_values", {}).get("p") and rng.random() < 0.4:
            pv = copy.deepcopy(mc["template"]["param_values"])
            pv["p"] = [jq(dyadic_nz(rng)) for _ in pv["p"]]
            st["param_values"] = pv
    return mc


def gen_mpoint(rng, mc):
    pts = [gen.gen_point(rng, eff_case(mc, i)) for i in range(len(mc["stages"]))]
    return {"stages": pts, "V": [jq(dyadic(rng, -2, 2, 3)) for _ in range(mc["nmv"])]}


# ------------------------------------------------------------------ Coq side
MPV = []      # values of the master parameters of the case being printed


def cexpr_coq(e):
    op = e[0]
    if op == "c":
        return "(CC %s)" % CS.cq(Fraction(e[1], e[2]))
    if op == "st":
        return "(CSt %d%%nat %s)" % (e[1], CS.pexpr_coq(e[2]))
    if op == "mv":
        return "(CV %d%%nat)" % e[1]
    if op == "mp":
        # a master parameter behaves like the number written in (C09)
        return "(CC %s)" % CS.cq(Fr(MPV[e[1]]))
    if op in ("+", "-", "*", "/"):
        return "(%s %s %s)" % ({"+": "CAdd", "-": "CSub", "*": "CMul", "/": "CDiv"}[op], cexpr_coq(e[1]), cexpr_coq(e[2]))
    if op == "neg":
        return "(CNeg %s)" % cexpr_coq(e[1])
    if op == "pow":
        return "(CPow %s %d%%nat)" % (cexpr_coq(e[1]), e[2])
    raise ValueError(e)


def hopt_coq(h):
    return "None" if h is None else "(Some %s)" % CS.horizon_coq(h)


def multi_coq(idx, mc, inputs):
    """Gallina definitions of the multi-stage case; clones go through the model's clone function
    when they carry no post-clone edits"""
    out = []
    names = []
    if mc["template"] is not None:
        tin = next((inputs[i] for i, st in enumerate(mc["stages"]) if st["case"] is None), {})
    for i, st in enumerate(mc["stages"]):
        nm = "s%d_%d" % (idx, i)
        plain = st["case"] is None and not st.get("extra") and st.get("param_values") is None and st.get("ode_override") is None
        if plain:
            # grid inputs (growth factor, nodes, tau) do not depend on the horizon
            out.append("Definition t%d_%d : ocp := %s.\n" % (idx, i, CS.case_coq(mc["template"], inputs[i])))
            out.append("Definition %s : ocp := clone t%d_%d %s %s.\n" % (
                nm, idx, i, hopt_coq(st["clone"]["t0"]), hopt_coq(st["clone"]["T"])))
        else:
            out.append("Definition %s : ocp := %s.\n" % (nm, CS.case_coq(eff_case(mc, i), inputs[i])))
        names.append(nm)
    global MPV
    MPV = mc.get("mpv", [])
    cons = ["(mkCConstr %d%%nat %s %s %s)" % (j, "REq" if c["rel"] == "eq" else "RLe", cexpr_coq(c["lhs"]), cexpr_coq(c["rhs"]))
            for j, c in enumerate(mc["coupling"])]
    out.append("Definition m%d : multi := mkMulti %s %s %s.\n" % (
        idx, CS.clist(names), CS.clist(cons), CS.clist([cexpr_coq(e) for e in mc["mobj"]])))
    return "".join(out)


def mpoint_coq(mp_):
    return "(%s, %s)" % (CS.clist([CS.point_coq(p) for p in mp_["stages"]]), CS.cqlist(mp_["V"]))


def model_multi(cps, inputs_list, name, shard=25):
    bodies = []
    for s in range(0, len(cps), shard):
        chunk = []
        for i in range(s, min(s + shard, len(cps))):
            mc, pts = cps[i]
            if inputs_list[i] is None:
                continue
            chunk.append(multi_coq(i, mc, inputs_list[i]))
            chunk.append("Eval vm_compute in (%d%%nat, map (run_multi_float m%d) %s).\n" % (
                i, i, CS.clist([mpoint_coq(p) for p in pts])))
        if chunk:
            bodies.append("".join(chunk))
    res = coqrun.run_shards(name, bodies)
    out = {}
    for shard_vals in res:
        for i, vals in shard_vals:
            out[i] = vals
    return out


# ------------------------------------------------------------------ rockit side
def hor_kw(rockit, h):
    if h is None:
        return None
    if "fixed" in h:
        return float(Fr(h["fixed"]))
    return rockit.FreeTime(float(Fr(h["free"])))


def build_multi(mc, rockit):
    import casadi as ca
    master = rockit.Ocp()
    Bs = []
    tplB = None
    if mc["template"] is not None:
        tplB = CS.build_rockit(mc["template"], rockit, with_solver=False, factory=rockit.Stage)
        if mc.get("decoy"):
            # another master clones and edits the same template first: must leave no trace
            decoy = rockit.Ocp()
            d = decoy.stage(tplB.ocp, t0=0.5, T=3)
            if tplB.objs["x"]:
                d.subject_to(d.at_t0(tplB.objs["x"][0][0]) == 7)
                d.subject_to(tplB.objs["x"][0][0] <= 11)
            d.add_objective(d.T * 5)
            for g, p, dcl in tplB.pdecl:
                if g == "":
                    d.set_value(p, 9 * ca.DM.ones(p.shape))
            decoy.solver("ipopt")
            d.sample(d.t, grid="control")
    for i, st in enumerate(mc["stages"]):
        if st["case"] is not None:
            B = CS.build_rockit(st["case"], rockit, with_solver=False, factory=master.stage)
            B.master = master
        else:
            kw = {}
            for key in ("t0", "T"):
                v = hor_kw(rockit, st["clone"][key])
                if v is not None:
                    kw[key] = v
            s = master.stage(tplB.ocp, **kw)
            B = copy.copy(tplB)
            B.ocp = s
            B.master = master
            for c in st.get("extra", []):
                kwc = {"grid": c["grid"], "include_first": c.get("include_first", True),
                       "include_last": c.get("include_last", True)}
                if Fr(c.get("scale", 1)) != 1:
                    kwc["scale"] = float(Fr(c["scale"]))
                expr = CS.constraint_expr(c, lambda e: tplB.ex(e, s))
                s.subject_to(expr, **kwc)
            if st.get("param_values") is not None:
                CS.apply_param_values(B, eff_case(mc, i))
            if st.get("ode_override") is not None:
                xo = tplB.objs["x"][st["ode_override"]["obj"]]
                rhs = ca.vertcat(*[tplB.ex(e, s) for e in st["ode_override"]["exprs"]])
                rhs = ca.reshape(rhs, xo.shape[0], xo.shape[1])
                if mc["template"].get("discrete"):
                    s.set_next(xo, rhs)
                else:
                    s.set_der(xo, rhs)
        Bs.append(B)
    # declaration order on the master: parameters and variables interleaved
    mv, mp = [], []
    for j in range(max(mc["nmv"], len(mc.get("mpv", [])))):
        if j < len(mc.get("mpv", [])):
            mp.append(master.parameter())
            master.set_value(mp[-1], float(Fr(mc["mpv"][j])))
        if j < mc["nmv"]:
            mv.append(master.variable())

    def cex(e):
        op = e[0]
        if op == "c":
            return ca.MX(float(Fraction(e[1], e[2])))
        if op == "st":
            B = Bs[e[1]]
            return B.pex(e[2], B.ocp if mc["stages"][e[1]]["case"] is None else None)
        if op == "mv":
            return mv[e[1]]
        if op == "mp":
            return mp[e[1]]
        if op == "+":
            return cex(e[1]) + cex(e[2])
        if op == "-":
            return cex(e[1]) - cex(e[2])
        if op == "*":
            return cex(e[1]) * cex(e[2])
        if op == "/":
            return cex(e[1]) / cex(e[2])
        if op == "neg":
            return -cex(e[1])
        if op == "pow":
            return cex(e[1]) ** e[2]
        raise ValueError(e)
    for c in mc["coupling"]:
        L, R = cex(c["lhs"]), cex(c["rhs"])
        host = master if c.get("host") is None else Bs[c["host"]].ocp
        host.subject_to((L == R) if c["rel"] == "eq" else (L <= R))
    for t in mc["mobj"]:
        master.add_objective(cex(t))
    master.solver("ipopt", {"ipopt.print_level": 0, "print_time": False, "ipopt.sb": "yes"})
    return master, Bs, mv


def observe_multi(master, Bs, mv, cases, points):
    """NLP of a transcribed multi-stage OCP at semantic points: (observation, objective values, rows)"""
    from .. import nlp
    import casadi as ca
    import numpy as np

    def qs_fn(B0, case0):
        qs = []
        for i, (B, c) in enumerate(zip(Bs, cases)):
            qs += [("%d:%s" % (i, n), e) for n, e in nlp.quantities(B, c)]
        if mv:
            qs.append(("MV", master.value(ca.vvcat(mv))))
        return qs
    ob = nlp.observe(Bs[0], cases[0], None, qs_fn=qs_fn)
    targets = []
    for mp_ in points:
        vals = []
        for name, shape in ob.qnames:
            if name == "MV":
                vals += [float(Fr(a)) for a in mp_["V"]]
            else:
                i, n = name.split(":")
                vals += list(nlp.flatten_q([(n, shape)], mp_["stages"][int(i)]))
        targets.append(np.array(vals))
    objs, rows = nlp.rockit_rows(ob, targets)
    return ob, objs, rows


def rockit_side(args):
    mc, points = args
    from ..common import setup_rockit_path
    rockit = setup_rockit_path()
    from .. import nlp
    import io, contextlib
    import casadi as ca
    out = {"id": mc.get("id")}
    try:
        buf = io.StringIO()
        from ..common import time_limit
        with time_limit(120), contextlib.redirect_stdout(buf):
            master, Bs, mv = build_multi(mc, rockit)
            cases = [eff_case(mc, i) for i in range(len(Bs))]
            Bs[0].ocp.sample(Bs[0].ocp.t, grid="control")   # forces transcription of the whole tree
            out["inputs"] = [engine.impl_inputs(B, c) for B, c in zip(Bs, cases)]

            ob, objs, rows = observe_multi(master, Bs, mv, cases, points)
            out["objs"] = objs
            out["rows"] = [(s, list(map(float, hs))) for s, key, hs in rows]
            out["nx_opti"] = ob.nx
            # sol(stage) read-back: with max_iter=0 the "solution" is the starting point; give every stage its own
            # node-state guesses (the first semantic point) and read them back through sol(stage).sample
            import numpy as np
            rb = []
            for i, (B, c) in enumerate(zip(Bs, cases)):
                if c["method"]["kind"] == "SS" or not B.objs["x"]:
                    continue
                Xp = points[0]["stages"][i]["X"]          # list of columns
                off = 0
                for xs in B.objs["x"]:
                    n_ = xs.numel()
                    if xs.shape[1] != 1:
                        off += n_
                        continue
                    arr = np.array([[float(Fr(col[off + r])) for col in Xp] for r in range(n_)])
                    B.ocp.set_initial(xs, arr[0] if n_ == 1 else arr)
                    off += n_
            master.solver("ipopt", {"ipopt.print_level": 0, "print_time": False, "ipopt.sb": "yes", "ipopt.max_iter": 0})
            try:
                sol = master.solve_limited()
            except RuntimeError as e_:
                sol = None
                if "Solver failed" not in str(e_) and "return_success" not in str(e_):
                    raise
            if sol is not None:
                for i, (B, c) in enumerate(zip(Bs, cases)):
                    if c["method"]["kind"] == "SS" or not B.objs["x"] or any(x_.shape[1] != 1 for x_ in B.objs["x"]):
                        continue
                    got = np.array(sol(B.ocp).sample(B.ocp.x, grid="control")[1], dtype=float)
                    Xp = points[0]["stages"][i]["X"]
                    exp = np.array([[float(Fr(v)) for v in col] for col in Xp])      # (N+1) x nx, time-major like DM2numpy
                    rb.append([i, exp.reshape(-1).tolist(), got.reshape(-1).tolist()])
            out["readback"] = rb
            if sol is not None:
                # sol.value(ocp.objective) is the cost the solver works on
                try:
                    out["objective_readback"] = [float(sol.value(master.objective)), float(sol.sol.value(master._method.opti.f))]
                except Exception as e_:
                    out["objective_readback_error"] = str(e_)[:200]
    except nlp.Mismatch as e:
        out["mismatch"] = str(e)
    except Exception as e:
        out["error"] = "%s: %s" % (type(e).__name__, e)
        out["trace"] = traceback.format_exc()[-1800:]
    return out


def run_rockit(cps, jobs=16):
    if jobs <= 1 or len(cps) <= 1:
        return [rockit_side(a) for a in cps]
    ctx = mp.get_context("fork")
    with ctx.Pool(min(jobs, len(cps))) as pool:
        return pool.map(rockit_side, cps, chunksize=1)


# ------------------------------------------------------------------ judging
def classify(mc, d):
    return None


def judge(cps, rr, mv):
    dis, nontriv, dist, skipped = [], set(), {}, 0
    for i, (mc, pts) in enumerate(cps):
        key = "%d stages/%s%s" % (len(mc["stages"]),
                                  "clone" if mc["template"] is not None else "direct",
                                  "+decoy" if mc.get("decoy") else "")
        dist[key] = dist.get(key, 0) + 1
        r = rr[i]
        if i not in mv:
            if "error" in r and engine.compare_case({}, [(0.0, [], [], True)], r) == []:
                skipped += 1
                continue
            d = [{"what": "rockit side failed before the model could run", "error": r.get("error"),
                  "mismatch": r.get("mismatch"), "trace": r.get("trace")}]
        else:
            d = engine.compare_case({}, mv[i], r)
            objs, mrows, _ = engine.model_rows(mv[i])
            if "error" in r or engine.unjudgeable(objs, mrows, r):
                skipped += 1
            elif not d:
                for i_, exp, got in r.get("readback", []):
                    if len(exp) != len(got) or any(not engine.close(a, b, scale=abs(b)) for a, b in zip(got, exp)):
                        d = [{"what": "sol(stage).sample after a zero-iteration solve does not return that stage's own starting values",
                              "stage": i_, "expected": exp[:8], "got": got[:8]}]
                        break
                if not d and (len(mc["stages"]) > 1 or mc["template"] is not None):
                    nontriv.add(sha(mc))
        if d:
            dis.append({"property": PID, "what": d[:4], "case": mc, "points": pts, "finding_key": classify(mc, d)})
    return dis, nontriv, dist, skipped


def gen_cases(seed, n, opts, npts):
    rng = random.Random(seed * 1000003 + 12)
    out = []
    for i in range(n):
        mc = gen_multi(rng, opts)
        mc["id"] = "C12-%d-%d" % (seed, i)
        out.append((mc, [gen_mpoint(rng, mc) for _ in range(npts)]))
    return out


def corpus():
    out = []
    for p in sorted(glob.glob(os.path.join(VERIF, "corpus", PID, "*.json"))):
        d = json.load(open(p))
        out.append((d["case"], d["points"]))
    return out


def union_worker(cfg):
    """disjoint union with CasADi integrators: two clones of one template whose methods differ only in the VALUES of the
    integrator options (or in M / the plugin): the rows of the two-stage NLP at a decision vector are the rows of each stage
    transcribed on its own (declared directly, with its own method)"""
    from ..common import setup_rockit_path
    rockit = setup_rockit_path()
    import io, contextlib
    from collections import Counter
    import casadi as ca
    out = {}
    try:
        with contextlib.redirect_stdout(io.StringIO()), contextlib.redirect_stderr(io.StringIO()):
            Meth = rockit.MultipleShooting if cfg["method"] == "MS" else rockit.SingleShooting

            def meth(spec):
                return Meth(N=2, M=spec.get("M", 1), intg=spec["intg"], intg_options=dict(spec.get("options", {})))

            def declare(st):
                x = st.state(); u = st.control()
                st.set_der(x, -x + u + 0.3 * x * x)
                st.add_objective(st.integral(u ** 2))
                st.subject_to(st.at_t0(x) == 1)
                return x, u

            def rows_of(ocp):
                ocp.solver("ipopt", {"ipopt.print_level": 0, "print_time": False})
                ocp._transcribe() if hasattr(ocp, "_transcribe") and not ocp.is_transcribed else None
                opti = ocp._method.opti
                f = ca.Function("g", [opti.x], [opti.g])
                # every decision variable gets the same value: the comparison does not depend on the order of the variables
                cnt = Counter()
                for cval in (0.4, 0.7, -0.3):
                    cnt += Counter((cval, round(float(v), 8)) for v in np.array(f(ca.DM([cval] * opti.nx))).reshape(-1))
                return cnt
            # two clones of one template
            master = rockit.Ocp()
            tpl = rockit.Stage(T=1)
            declare(tpl)
            a = master.stage(tpl, t0=0); b = master.stage(tpl, t0=1)
            a.method(meth(cfg["A"])); b.method(meth(cfg["B"]))
            both = rows_of(master)
            alone = Counter()
            for t0, spec in ((0, cfg["A"]), (1, cfg["B"])):
                m2 = rockit.Ocp()
                st = m2.stage(t0=t0, T=1)
                declare(st)
                st.method(meth(spec))
                alone += rows_of(m2)
            out["ok"] = both == alone
            out["only_multi"] = [k for k in (both - alone)][:4]
            out["only_alone"] = [k for k in (alone - both)][:4]
    except Exception as e_:
        out["error"] = "%s: %s" % (type(e_).__name__, str(e_)[:300])
    return out


def run(tier="quick", seed=0, jobs=16):
    n = 80 if tier == "quick" else 800
    npts = 3 if tier == "quick" else 4
    cps = corpus() + gen_cases(seed, n, OPTS if tier == "quick" else OPTS_T, npts)
    rr = run_rockit(cps, jobs)
    mv = model_multi(cps, [r.get("inputs") for r in rr], PID)
    dis, nontriv, dist, skipped = judge(cps, rr, mv)
    ucfg = [{"method": m, "A": A, "B": B} for m in ("MS", "SS") for A, B in (
        ({"intg": "collocation", "options": {"interpolation_order": 1, "collocation_scheme": "radau"}},
         {"intg": "collocation", "options": {"interpolation_order": 3, "collocation_scheme": "radau"}}),
        ({"intg": "collocation", "options": {"interpolation_order": 2, "collocation_scheme": "legendre"}},
         {"intg": "collocation", "options": {"interpolation_order": 2, "collocation_scheme": "radau"}}),
        ({"intg": "rk", "M": 1}, {"intg": "rk", "M": 3}),
        ({"intg": "rk", "M": 2}, {"intg": "expl_euler", "M": 2}))]
    with mp.get_context("fork").Pool(min(jobs, len(ucfg))) as pool:
        ru = pool.map(union_worker, ucfg, chunksize=1)
    for cfg, r in zip(ucfg, ru):
        dist["union-of-clones/%s" % cfg["A"]["intg"]] = dist.get("union-of-clones/%s" % cfg["A"]["intg"], 0) + 1
        if "error" in r or not r.get("ok"):
            dis.append({"property": PID, "case": dict(cfg, _union=True), "points": [], "finding_key": None,
                        "what": [{"what": "two clones whose methods differ only in integrator options / M / scheme: the rows of the two-stage NLP "
                                          "are not the rows of each stage transcribed on its own", "rows_only_in_the_multi_stage_NLP": r.get("only_multi"),
                                  "rows_only_in_the_stages_alone": r.get("only_alone"), "error": r.get("error")}]})
    return {"evaluations": len(cps) + len(ucfg), "distinct_nontrivial": len(nontriv), "rule": RULE,
            "samples": [{"case": cps[-1][0], "points": cps[-1][1][:1]}],
            "disagreements": dis, "distribution": dist,
            "extra": {"points_per_case": npts, "skipped_unjudgeable": skipped}}


def replay(path):
    d = json.load(open(path))
    if d.get("case", {}).get("_union"):
        print(json.dumps(union_worker(d["case"]), indent=1, default=str))
        return 0
    cps = [(d["case"], d["points"])]
    rr = run_rockit(cps, 1)
    mv = model_multi(cps, [r.get("inputs") for r in rr], PID + "r")
    dis, _, _, _ = judge(cps, rr, mv)
    print(json.dumps(dis[:1], indent=1, default=str)[:4000] if dis else "replay: agrees")
    return 1 if dis else 0
