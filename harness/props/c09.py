"""C09 — a parametric OCP is the family of OCPs with the values written in."""
import json
import copy, random
from .nlpprop import NlpProp, TRUSTED, ASSUMPTIONS, default_build
from .. import engine, gen
from ..common import Fr, sha

OPTS = {"methods": ["MS", "SS", "DC"], "intgs": ["rk", "expl_euler"], "N_max": 4, "M_max": 2, "deg_max": 3,
        "p_param": 0.8, "p_var": 0.3, "p_paramT": 0.35, "p_freeT": 0.1, "nc_min": 1, "nc_max": 3,
        "no_min": 1, "no_max": 2, "intc": True, "p_param_mat": 0.3}
OPTS_T = dict(OPTS, N_max=6, M_max=3)


def fold_expr(e, pvals):
    if isinstance(e, list):
        if e and e[0] == "s" and e[1] == "p":
            v = Fr(pvals[e[2]])
            return ["c", v.numerator, v.denominator]
        if e and e[0] == "g" and e[1] == "p":
            v = Fr(pvals[e[2]])
            return ["c", v.numerator, v.denominator]
        return [fold_expr(a, pvals) if isinstance(a, list) else a for a in e]
    return e


def fold_case(case):
    """the same OCP with the values of its global parameters written in as constants"""
    c = copy.deepcopy(case)
    pv = case["param_values"]["p"]
    for key in ("ode", "quad", "alg", "objective"):
        c[key] = [fold_expr(e, pv) for e in c.get(key, [])]
    for con in c.get("constraints", []):
        for r in con["rels"]:
            r["lhs"] = fold_expr(r["lhs"], pv)
            r["rhs"] = fold_expr(r["rhs"], pv)
        if "vb" in con:
            con["vb"]["exprs"] = [fold_expr(e, pv) for e in con["vb"]["exprs"]]
    if "param" in c.get("T", {}):
        c["T"] = {"fixed": pv[c["T"]["param"]]}
    if "param" in c.get("t0", {}):
        c["t0"] = {"fixed": pv[c["t0"]["param"]]}
    c["params"] = [d for d in c["params"] if d.get("grid", "") != ""]
    c["param_values"] = dict(c["param_values"], p=[])
    c["id"] = case.get("id", "") + "-folded"
    return c


def fold_point(pt):
    p = dict(pt)
    p["P"] = []
    return p


class C09Prop(NlpProp):
    def gen_cases(self, *a, **k):
        out = NlpProp.gen_cases(self, *a, **k)
        for i, (c, p) in enumerate(out):
            # every third case sets its global parameters in one call through a simple concatenation
            # (ocp.set_value(horzcat(A, B, ...), horzcat(VA, VB, ...)), matrices included)
            if i % 3 == 1:
                c["param_cat"] = True
            # every fifth case declares its parameters and variables through register_parameter([sym], ...) /
            # register_variable([sym], ...)
            if i % 5 == 2:
                c["register_list"] = True
        return out

    def run(self, tier="quick", seed=0, jobs=16):
        res = NlpProp.run(self, tier, seed, jobs)
        # metamorphic oracle on rockit alone: parametric case vs constant-folded case
        n = 60 if tier == "quick" else 600
        cps = self.gen_cases(seed + 17, n, self.opts_q if tier == "quick" else self.opts_t, 3)
        cps = [(c, p) for c, p in cps if c["param_values"]["p"]]
        # a parameter whose value is 0 can multiply a next/prev/offset operand: written in as a constant,
        # CasADi folds 0*offset(..) away and the instance that would reach outside the horizon is no
        # longer dropped; the two OCPs then differ by construction (degenerate pair, not compared)
        def has_off(e):
            return '"off"' in json.dumps(e)
        cps = [(c, p) for c, p in cps
               if not (any(Fr(v) == 0 for v in c["param_values"]["p"]) and has_off(c.get("constraints", [])))]
        folded = [(fold_case(c), [fold_point(q) for q in p]) for c, p in cps]
        ra = engine.run_rockit(cps, jobs=jobs)
        rb = engine.run_rockit(folded, jobs=jobs)
        npairs = 0
        for (c, p), a, b in zip(cps, ra, rb):
            if "error" in a or "error" in b or "mismatch" in a or "mismatch" in b:
                if ("error" in a) != ("error" in b) and not any(("constant" in str(x.get("error", "")) or "never statisfied" in str(x.get("error", ""))) for x in (a, b)):
                    res["disagreements"].append({"property": "C09", "finding_key": None, "case": c, "points": p,
                                                 "what": [{"what": "parametric and constant-folded OCP: only one of them transcribes",
                                                           "parametric": a.get("error"), "folded": b.get("error")}]})
                continue
            if engine.pair_unjudgeable(a, b):
                continue
            npairs += 1
            ua, ub = engine.match_rows_factor(a["rows"], b["rows"])
            # rows that became constant-true after folding are dropped by rockit
            ua = [r for r in ua if not (max(r[1]) - min(r[1]) <= 1e-12 and (abs(r[1][0]) <= 1e-12 if r[0] == 0 else r[1][0] <= 1e-12))]
            objbad = [(x, y) for x, y in zip(a["objs"], b["objs"]) if not engine.close(x, y, scale=abs(y))]
            if ua or ub or objbad:
                res["disagreements"].append({"property": "C09", "finding_key": None, "case": c, "points": p,
                                             "what": [{"what": "NLP of the parametric OCP at the parameter values differs from the NLP of the OCP with the values written in as constants",
                                                       "rows_only_parametric": ua[:3], "rows_only_constant": ub[:3], "objective": objbad[:2]}]})
        res["evaluations"] += len(cps)
        res["extra"]["pairs_compared"] = npairs
        return res


def nontrivial(case, mrows):
    pv = case["param_values"]
    return bool(pv["p"]) or any(pv["pc"]) and any(len(c) for c in pv["pc"]) or any(len(c) for c in pv["pp"])


P = C09Prop("C09", OPTS, OPTS_T, judge_kinds=None, judge_obj=True, nontrivial=nontrivial,
            rule="random OCPs with global, per-interval and per-interval(include_last) parameters (vector valued too) in "
                 "dynamics, constraints, bounds and objective, and horizons given by a parameter, x {MS,SS,DC} x N,M x grids: "
                 "(1) every NLP row and the objective against the model evaluated at the declared values; (2) metamorphic on "
                 "rockit: the parametric OCP against the same OCP with the global parameter values written in as constants "
                 "(rows as multisets, objective).  non-trivial = the case has parameters; distinct by hash of the case")
run, replay = P.run, P.replay


# ---------------------------------------------------------------- set_value histories
def hist_worker(args):
    """run a set_value / transcribe / edit history on the real rockit and report the parameter values the
    next solve works with"""
    npar, init, ops = args
    from ..common import setup_rockit_path
    rockit = setup_rockit_path()
    import io, contextlib
    try:
        with contextlib.redirect_stdout(io.StringIO()):
            ocp = rockit.Ocp(T=1)
            x = ocp.state()
            u = ocp.control()
            ps = [ocp.parameter() for _ in range(npar)]
            ocp.set_der(x, u + sum(ps))
            ocp.add_objective(ocp.at_tf(x) ** 2)
            ocp.subject_to(ocp.at_t0(x) == 0)
            for i, v in init:
                ocp.set_value(ps[i], v)
            ocp.method(rockit.MultipleShooting(N=2, intg="expl_euler"))
            ocp.solver("ipopt", {"ipopt.print_level": 0, "print_time": False})
            nedit = 0
            for op in ops:
                if op[0] == "set":
                    ocp.set_value(ps[op[1]], op[2])
                elif op[0] == "transcribe":
                    ocp.sample(x, grid="control")
                else:
                    nedit += 1
                    ocp.subject_to(x <= 100 + nedit)
            ocp.sample(x, grid="control")
            opti = ocp._method.opti
            seen = [float(opti.debug.value(ocp.value(p))) for p in ps]
        return {"seen": seen}
    except Exception as e:
        return {"error": "%s: %s" % (type(e).__name__, str(e)[:300])}


def gen_history(rng, npar, maxlen):
    init = [(i, rng.randint(-5, 5)) for i in range(npar)]
    ops = []
    for _ in range(rng.randint(1, maxlen)):
        r = rng.random()
        if r < 0.5:
            ops.append(("set", rng.randrange(npar), rng.randint(-9, 9)))
        elif r < 0.8:
            ops.append(("transcribe",))
        else:
            ops.append(("edit",))
    return init, ops


def model_histories(hists):
    from .. import coqrun
    lines = []
    for npar, init, ops in hists:
        ini = "[" + "; ".join("(%d%%nat, (%d)%%Z)" % (i, v) for i, v in reversed(init)) + "]"
        o = "[" + "; ".join(("SetValue %d%%nat (%d)%%Z" % (op[1], op[2])) if op[0] == "set" else
                            ("Transcribe" if op[0] == "transcribe" else "Edit") for op in ops) + "]"
        lines.append("Eval vm_compute in (map (fun i => seen (prun (pinit %s) %s) i) (seq 0 %d)).\n" % (ini, o, npar))
    hdr = coqrun.HEADER + "From RV Require Import Mech.Params.\n"
    res = coqrun.run_shards("C09hist", ["".join(lines)], header=hdr)
    return res[0]


_run0 = run


def run(tier="quick", seed=0, jobs=16):
    import multiprocessing as mp
    res = _run0(tier, seed, jobs)
    rng = random.Random(seed * 31 + 9)
    n = 40 if tier == "quick" else 400
    hists = []
    for _ in range(n):
        npar = rng.randint(1, 3)
        init, ops = gen_history(rng, npar, 8 if tier == "quick" else 20)
        hists.append((npar, init, ops))
    with mp.get_context("fork").Pool(min(jobs, len(hists))) as pool:
        rr = pool.map(hist_worker, hists, chunksize=2)
    mm = model_histories(hists)
    nh = 0
    for h, r, m in zip(hists, rr, mm):
        mseen = [float(v) if v is not None else None for v in m]
        if "error" in r or r["seen"] != mseen:
            res["disagreements"].append({"property": "C09", "finding_key": None, "case": {"history": h}, "points": [],
                                         "what": [{"what": "parameter values the next solve works with differ from 'last set_value wins'",
                                                   "rockit": r, "model": mseen}]})
        else:
            nh += 1
    res["evaluations"] += len(hists)
    res["extra"]["set_value_histories_agreeing"] = nh
    res["samples"].append({"history": hists[0]})
    return res
