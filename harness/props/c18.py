"""C18 — saving and loading an OCP preserves the problem.

Generated OCPs (every method, DAEs, scaling, free time, parameters and variables of every kind,
constraints, objective, initial guesses, solver options; every third one a multi-stage OCP with
clones) are saved before transcription / after transcription / after a (limited) solve and loaded
again.  Compared: (a) NLP rows, objective, parameter vector, starting point and solver settings of
the loaded OCP against the original after saving (both transcribed by rockit, symbols of the loaded
OCP reached through its accessors by position), (b) the loaded OCP's rows and objective against the
Rocq model of the case, (c) accessors (names, shapes, order), method class and N/M, (d) the
original is still transcribable/solvable after saving and its NLP is what it was."""
import os, json, random, glob, traceback, copy, tempfile, multiprocessing as mp
import numpy as np
from ..common import VERIF, sha, Fr, jq, dyadic
from .. import gen, engine, coqrun, cases as CS
from .nlpprop import ASSUMPTIONS as A0
from . import c10, c13, c12

PID = "C18"
TRUSTED = [
    "generic Rocq state machine Mech/History.v + Mech/Persist.v (save = untranscribe + encode the declaration, load = decode into a fresh OCP); "
    "the codec (pickle + CasADi StringSerializer) is an oracle with the hypothesis deser (ser sp) = Some sp",
    "that hypothesis is tested, not proved: loaded-vs-original NLP comparison (rows as multisets, objective, parameter vector, start point, "
    "solver name/options) and loaded-vs-Rocq-model comparison on generated OCPs",
    "CasADi Opti; IPOPT only as the target of solve_limited with max_iter 1",
]
ASSUMPTIONS = A0 + ["symbols of the loaded OCP are identified by position in its accessors (states, controls, algebraics, qstates, parameters[grid], variables[grid])"]
OPTS = {"methods": ["MS", "SS", "DC"], "intgs": ["rk", "expl_euler"], "N_max": 3, "M_max": 2, "deg_max": 3,
        "p_param": 0.7, "p_var": 0.5, "p_freeT": 0.3, "p_freet0": 0.2, "p_paramT": 0.1, "nc_min": 1, "nc_max": 3,
        "no_min": 1, "no_max": 2, "nx_max": 2, "nu_max": 2, "p_scale": 0.4, "p_offset": 0.2, "roots": True}


def rebuild(o2, B):
    """a Built-like table for the loaded OCP, from its accessors only"""
    B2 = CS.Built()
    B2.ocp = o2
    B2.master = o2.master if o2.master is not None else o2
    B2.objs = {"x": list(o2.states), "u": list(o2.controls), "z": list(o2.algebraics), "q": list(o2.qstates),
               "p": [], "v": []}
    B2.pdecl, B2.vdecl = [], []
    for g in ("", "control", "control+"):
        for p in o2.parameters[g]:
            B2.pdecl.append((g, p, None)); B2.objs["p"].append(p)
        for v in o2.variables[g]:
            B2.vdecl.append((g, v, None)); B2.objs["v"].append(v)
    return B2


def accessor_signature(ocp):
    sig = {}
    for name, lst in (("states", ocp.states), ("controls", ocp.controls), ("algebraics", ocp.algebraics), ("qstates", ocp.qstates)):
        sig[name] = [(s.name(), tuple(s.shape)) for s in lst]
    for g in ("", "control", "control+"):
        sig["parameters[%s]" % g] = [(s.name(), tuple(s.shape)) for s in ocp.parameters[g]]
        sig["variables[%s]" % g] = [(s.name(), tuple(s.shape)) for s in ocp.variables[g]]
    m = ocp._method
    sig["method"] = (type(m).__name__, getattr(m, "N", None), getattr(m, "M", None), getattr(m, "intg", None),
                     getattr(m, "degree", None), getattr(m, "scheme", None), type(getattr(m, "time_grid", None)).__name__)
    return sig


def worker(args):
    case, when, calls, points = args[:4]
    edit = args[4] if len(args) > 4 else None
    late = args[5] if len(args) > 5 and args[5] else {"calls": [], "values": []}
    from ..common import setup_rockit_path, time_limit
    rockit = setup_rockit_path()
    import io, contextlib
    import casadi as ca
    out = {}
    rec = {}
    orig_solver = ca.Opti.solver

    def spy(self, name, *a):
        rec[id(self)] = (name, dict(a[0]) if a else {})
        return orig_solver(self, name, *a)
    ca.Opti.solver = spy
    fd, path = tempfile.mkstemp(suffix=".rockit", dir=os.environ.get("TMPDIR", "/tmp"))
    os.close(fd)
    try:
        with time_limit(240), contextlib.redirect_stdout(io.StringIO()), contextlib.redirect_stderr(io.StringIO()):
            case0 = case
            if edit is not None:
                # the OCP as it was before the edit (declared after the first transcription, before saving)
                case0 = copy.deepcopy(case)
                if edit[0] == "subject_to":
                    case0["constraints"] = case0["constraints"][:-1]
                elif edit[0] == "add_objective":
                    case0["objective"] = case0["objective"][:-1]
            if late["values"]:
                # values that are set only after the first transcription start out different
                case0 = copy.deepcopy(case0)
                for slot, v in late["values"]:
                    case0["param_values"]["p"][slot] = jq(Fr(v) + 1)
            B = CS.build_rockit(case0, rockit, with_solver=False)
            ocp = B.ocp
            ocp.solver(*(edit[1] if edit is not None and edit[0] == "solver" else case.get("solver", c13.SOLVER0)))
            for call in calls:
                c13.apply_call(B, ocp, call)
            out["inputs"] = engine.impl_inputs(B, case)
            before = None
            if when in ("transcribed", "solved"):
                ocp.sample(ocp.t, grid="control")
                if sum(map(ord, str(case.get("id", "")))) % 2 == 0 and (late["values"] or late["calls"]):
                    # a checkpoint to the SAME file before the late updates (an MPC loop saving every iteration): the later save
                    # must write what the OCP is then
                    ocp.save(path)
                    ocp.sample(ocp.t, grid="control")
                # updates made on the transcribed OCP must be part of what is saved
                for slot, v in late["values"]:
                    ocp.set_value(B.S["p"][slot], float(Fr(v)))
                for call in late["calls"]:
                    c13.apply_call(B, ocp, call)
                before = c13.observe_nlp(B, case, points, rockit)
                before["solver"] = rec.get(before.pop("opti_id"))
            if when == "edited":
                ocp.sample(ocp.t, grid="control")
                if edit[0] == "subject_to":
                    con = edit[2]
                    pt = con["grid"] == "point"
                    kw = {} if pt else {"grid": con["grid"], "include_first": con.get("include_first", True),
                                        "include_last": con.get("include_last", True)}
                    if Fr(con.get("scale", 1)) != 1:
                        kw["scale"] = float(Fr(con["scale"]))
                    ocp.subject_to(CS.constraint_expr(con, B.pex if pt else B.ex), **kw)
                elif edit[0] == "add_objective":
                    ocp.add_objective(B.pex(edit[2]))
                else:
                    ocp.solver(*case["solver"])
            if when == "solved":
                try:
                    ocp.solve_limited()
                except RuntimeError as e_:
                    if "Solver failed" not in str(e_) and "return_success" not in str(e_):
                        raise
            sig0 = accessor_signature(ocp)
            ocp.save(path)
            o2 = rockit.Ocp.load(path)
            out["sig"] = [sig0, accessor_signature(ocp), accessor_signature(o2)]
            # the original after saving
            orig = c13.observe_nlp(B, case, points, rockit)
            orig["solver"] = rec.get(orig.pop("opti_id"))
            try:
                ocp.solve_limited()
                out["orig_solvable"] = True
            except RuntimeError as e_:
                out["orig_solvable"] = ("Solver failed" in str(e_) or "return_success" in str(e_))
                out["orig_solve_error"] = str(e_)[:200]
            B2 = rebuild(o2, B)
            # the loaded OCP's symbols must be usable: members of their accessor lists, accepted by set_value
            memb = []
            for name, lst in (("states", o2.states), ("controls", o2.controls), ("algebraics", o2.algebraics), ("qstates", o2.qstates)):
                memb += [name for s_ in lst if s_ not in lst]
            for g_ in ("", "control", "control+"):
                memb += ["parameters[%s]" % g_ for s_ in o2.parameters[g_] if s_ not in o2.parameters[g_]]
                memb += ["variables[%s]" % g_ for s_ in o2.variables[g_] if s_ not in o2.variables[g_]]
            out["membership_failures"] = sorted(set(memb))
            off_ = 0
            for g_, p_, d_ in B2.pdecl:
                if g_ == "":
                    n_ = p_.numel()
                    vals_ = case["param_values"]["p"][off_:off_ + n_]
                    o2.set_value(p_, ca.DM([float(Fr(v)) for v in vals_]).reshape(p_.shape))   # same values again
                    off_ += n_
            loaded = c13.observe_nlp(B2, case, points, rockit)
            loaded["solver"] = rec.get(loaded.pop("opti_id"))
            out["before"], out["orig"], out["loaded"] = before, orig, loaded
    except Exception as e:
        out["error"] = "%s: %s" % (type(e).__name__, str(e)[:400])
        out["trace"] = traceback.format_exc()[-1500:]
    finally:
        ca.Opti.solver = orig_solver
        try:
            os.remove(path)
        except OSError:
            pass
    return out


def multi_worker(args):
    """save / load of a multi-stage OCP (stages, clones, master variables, coupling)"""
    mc, points, when = args[:3]
    late = args[3] if len(args) > 3 else None
    from ..common import setup_rockit_path, time_limit
    rockit = setup_rockit_path()
    import io, contextlib
    out = {}
    fd, path = tempfile.mkstemp(suffix=".rockit", dir=os.environ.get("TMPDIR", "/tmp"))
    os.close(fd)
    try:
        with time_limit(240), contextlib.redirect_stdout(io.StringIO()), contextlib.redirect_stderr(io.StringIO()):
            master, Bs, mv = c12.build_multi(mc, rockit)
            cases = [c12.eff_case(mc, i) for i in range(len(Bs))]
            if when != "fresh":
                Bs[0].ocp.sample(Bs[0].ocp.t, grid="control")
            if late is not None and when != "fresh":
                i_, slot_, v_ = late          # a sub-stage parameter reset on the transcribed OCP, before saving
                Bs[i_].ocp.set_value(Bs[i_].S["p"][slot_], float(Fr(v_)))
            if when == "solved":
                try:
                    master.solve_limited()
                except RuntimeError as e_:
                    if "Solver failed" not in str(e_) and "return_success" not in str(e_):
                        raise
            master.save(path)
            o2 = rockit.Ocp.load(path)
            Bs[0].ocp.sample(Bs[0].ocp.t, grid="control")
            out["inputs"] = [engine.impl_inputs(B, c) for B, c in zip(Bs, cases)]
            _, objs1, rows1 = c12.observe_multi(master, Bs, mv, cases, points)
            stages2 = list(o2.iter_stages())
            out["nstages"] = [len(Bs), len(stages2)]
            out["sigs"] = [[accessor_signature(B.ocp) for B in Bs], [accessor_signature(st) for st in stages2]]
            Bs2 = [rebuild(st, B) for st, B in zip(stages2, Bs)]
            for B2 in Bs2:
                B2.master = o2
            mv2 = list(o2.variables[""])
            Bs2[0].ocp.sample(Bs2[0].ocp.t, grid="control")
            _, objs2, rows2 = c12.observe_multi(o2, Bs2, mv2, cases, points)
            out["orig"] = {"objs": objs1, "rows": [(s_, list(map(float, hs))) for s_, key, hs in rows1]}
            out["loaded"] = {"objs": objs2, "rows": [(s_, list(map(float, hs))) for s_, key, hs in rows2]}
    except Exception as e:
        out["error"] = "%s: %s" % (type(e).__name__, str(e)[:400])
        out["trace"] = traceback.format_exc()[-1500:]
    finally:
        try:
            os.remove(path)
        except OSError:
            pass
    return out


def run_multi(seed, n, jobs, name):
    cps = c12.gen_cases(seed + 1800, n, c12.OPTS, 2)
    rng = random.Random(seed * 31 + 18)
    items, cps_model = [], []
    for i, (mc, pts) in enumerate(cps):
        when = ["fresh", "transcribed", "solved"][i % 3]
        late, mcm = None, mc
        if when != "fresh":
            cand = [(j, sl) for j in range(len(mc["stages"])) for sl in c13.scalar_param_slots(c12.eff_case(mc, j))
                    if c12.eff_case(mc, j).get("T", {}).get("param") != sl]
            if cand:
                j, sl = rng.choice(cand)
                v = jq(dyadic(rng, -2, 2, 2))
                late = (j, sl, v)
                mcm = copy.deepcopy(mc)           # what the saved problem must be
                st = mcm["stages"][j]
                if st.get("case") is not None:
                    st["case"]["param_values"]["p"][sl] = v
                else:
                    pv = copy.deepcopy(c12.eff_case(mc, j)["param_values"])
                    pv["p"][sl] = v
                    st["param_values"] = pv
        ptsm = pts
        if late is not None:
            # parameter values travel with the semantic points on the model side
            ptsm = copy.deepcopy(pts)
            for q in ptsm:
                q["stages"][late[0]]["P"][late[1]] = late[2]
        items.append((mc, pts, when, late))
        cps_model.append((mcm, ptsm))
    with mp.get_context("fork").Pool(min(jobs, max(1, len(items)))) as pool:
        rr = pool.map(multi_worker, items, chunksize=1)
    mv = c12.model_multi(cps_model, [r.get("inputs") for r in rr], name)
    dis, ok = [], 0
    for i, ((mc, pts, when, late), r) in enumerate(zip(items, rr)):
        d = []
        if "error" in r:
            if any(s_ in r["error"] for s_ in SKIP) or "constant middle" in r["error"]:
                continue
            d = [{"what": "save / load of a multi-stage OCP raised", "error": r["error"], "trace": r.get("trace")}]
        else:
            if r["nstages"][0] != r["nstages"][1]:
                d = [{"what": "the loaded OCP has a different number of stages", "stages": r["nstages"]}]
            elif r["sigs"][0] != r["sigs"][1]:
                d = [{"what": "accessors / methods of the loaded stages differ from the original's", "original": r["sigs"][0], "loaded": r["sigs"][1]}]
            elif not engine.pair_unjudgeable(r["orig"], r["loaded"]):
                ua, ub = engine.match_rows_factor(r["orig"]["rows"], r["loaded"]["rows"])
                objbad = [(x, y) for x, y in zip(r["orig"]["objs"], r["loaded"]["objs"]) if not engine.close(x, y, scale=abs(y))]
                if ua or ub or objbad:
                    d = [{"what": "NLP of the loaded multi-stage OCP differs from the original's", "rows_only_original": ua[:3],
                          "rows_only_loaded": ub[:3], "objective": objbad[:2]}]
                elif i in mv:
                    dd = engine.compare_case({}, mv[i], r["loaded"])
                    if dd:
                        d = [{"what": "the loaded multi-stage OCP's NLP differs from the Rocq model", "detail": dd[:3]}]
        if d:
            dis.append({"property": PID, "what": d[:2], "case": {"multi": mc, "when": when, "late": late}, "points": pts, "finding_key": None})
        else:
            ok += 1
    return dis, ok, len(items)


SKIP = ("You passed a constant", "never statisfied", "Constraint must contain decision variables", "MX symbol 'offset'")


def gen_items(seed, n):
    rng = random.Random(seed * 1000003 + 1818)
    items = []
    for i in range(n):
        c = gen.gen_base(rng, OPTS)
        gen.add_constraints(rng, c, OPTS)
        gen.add_objective(rng, c, OPTS)
        gen.touch_objective(c)
        c["id"] = "C18-%d-%d" % (seed, i)
        c["solver"] = ["ipopt", {"ipopt.print_level": 0, "print_time": False, "ipopt.sb": "yes",
                                 "ipopt.max_iter": rng.choice([1, 2, 3]), "ipopt.tol": rng.choice([1e-6, 1e-4, 1e-8])}]
        calls = []
        objs = [o for o in c10.objects(c) if o["g"] in ("GX", "GU")]
        if c["method"]["kind"] == "SS":
            objs = [o for o in objs if o["g"] == "GU"]
        for _ in range(rng.randint(0, 2)):
            if objs:
                o = rng.choice(objs)
                calls.append({"obj": [o["kind"], o["idx"]], "g": o["g"], "slot": o["slot"], "len": o["len"], "form": "const",
                              "value": jq(dyadic(rng, -3, 3, 2)), "after": False})
        when = ["fresh", "transcribed", "solved", "edited"][i % 4]
        edit = None
        if when == "edited":
            k = rng.choice(["subject_to", "add_objective", "solver"])
            if k == "subject_to":
                con = gen.gen_path_constraint(rng, c, dict(OPTS, roots=False))
                c["constraints"].append(con)
                edit = ["subject_to", None, con]
            elif k == "add_objective":
                t = gen.pterm(rng, c, {"intc": False}, allow_int=False)
                c["objective"].append(t)
                edit = ["add_objective", None, t]
            else:
                edit = ["solver", ["ipopt", {"ipopt.print_level": 0, "print_time": False, "ipopt.sb": "yes", "ipopt.max_iter": 5}]]
        late = {"calls": [], "values": []}
        if when in ("transcribed", "solved"):
            for slot in c13.scalar_param_slots(c):
                if rng.random() < 0.6:
                    late["values"].append([slot, c["param_values"]["p"][slot]])
            if objs and rng.random() < 0.7:
                o = rng.choice(objs)
                late["calls"].append({"obj": [o["kind"], o["idx"]], "g": o["g"], "slot": o["slot"], "len": o["len"], "form": "const",
                                      "value": jq(dyadic(rng, -3, 3, 2)), "after": True})
        pts = [gen.gen_point(rng, c) for _ in range(2)]
        items.append((c, when, calls, pts, edit, late))
    return items


def run_items(items, name, jobs=16):
    with mp.get_context("fork").Pool(min(jobs, max(1, len(items)))) as pool:
        rr = pool.map(worker, items, chunksize=1)
    cps = [(it[0], it[3]) for it in items]
    mv = engine.model_shooting(cps, [r.get("inputs") for r in rr], name)
    dis, nontriv, dist, skipped = [], set(), {}, 0
    for i, (it, r) in enumerate(zip(items, rr)):
        case, when, calls, pts = it[:4]
        edit = it[4] if len(it) > 4 else None
        late = it[5] if len(it) > 5 else None
        key = "%s/%s" % (case["method"]["kind"], when)
        dist[key] = dist.get(key, 0) + 1
        d = []
        if "error" in r:
            if any(s in r["error"] for s in SKIP):
                skipped += 1
                continue
            d = [{"what": "save / load / transcription of the loaded OCP raised", "error": r["error"], "trace": r.get("trace")}]
        else:
            s0, s1, s2 = r["sig"]
            if s0 != s1:
                d.append({"what": "saving altered the original's declaration (accessors / method)", "before": s0, "after": s1})
            if s0 != s2:
                d.append({"what": "the loaded OCP's accessors or method differ from the original's", "original": s0, "loaded": s2})
            if r.get("membership_failures"):
                d.append({"what": "symbols of the loaded OCP are not members of their own accessor lists", "lists": r["membership_failures"]})
            if not r.get("orig_solvable"):
                d.append({"what": "the original cannot be solved after saving", "error": r.get("orig_solve_error")})
            if not d:
                d = c13.cmp_nlp(r["orig"], r["loaded"], "NLP / start point / parameter values / solver of the loaded OCP differ from the original's")
            if not d and r.get("before") is not None:
                d = c13.cmp_nlp(r["before"], r["orig"], "saving changed the original's NLP / start point / parameter values / solver")
            if not d and i in mv:
                d = engine.compare_case(case, mv[i], r["loaded"])
                if d:
                    d = [{"what": "the loaded OCP's NLP differs from the Rocq model of the case", "detail": d[:3]}]
            if not d:
                nontriv.add(sha([case, when, calls]))
        if d:
            dis.append({"property": PID, "what": d[:3], "case": {"case": case, "when": when, "calls": calls, "edit": edit, "late": late}, "points": pts,
                        "finding_key": None})
    return dis, nontriv, dist, skipped


def corpus():
    out = []
    for p in sorted(glob.glob(os.path.join(VERIF, "corpus", PID, "*.json"))):
        d = json.load(open(p))
        c = d["case"]
        out.append((c["case"], c["when"], c["calls"], d["points"], c.get("edit"), c.get("late")))
    return out


def run(tier="quick", seed=0, jobs=16):
    n = 90 if tier == "quick" else 900
    items = corpus() + gen_items(seed, n)
    dis, nontriv, dist, skipped = run_items(items, PID, jobs)
    dm, okm, nm = run_multi(seed, 21 if tier == "quick" else 210, jobs, PID + "multi")
    dis += dm
    dist["multi-stage"] = nm
    return {"evaluations": len(items) + nm, "distinct_nontrivial": len(nontriv) + okm,
            "rule": "random OCPs (MS|SS|DC degree 1..3, DAEs, scales, free/parametric horizon, parameters and variables of every grid kind, "
                    "path/point constraints with offsets and scales, objective terms, constant initial guesses, solver options) x save "
                    "{before transcription, after transcription, after solve_limited, after an edit (subject_to / add_objective / solver) of "
                    "the transcribed OCP}; set_value / set_initial updates made after the transcription and before saving.  Compared: accessors and method of original before/"
                    "after saving and of the loaded OCP; NLP rows, objective, parameter vector, start point, solver name/options loaded vs "
                    "original; original before vs after saving; loaded vs Rocq model rows/objective; original still solvable.  distinct by "
                    "hash of (case, when, guesses).  Plus multi-stage OCPs (1-3 stages, clones, master variables, coupling): stages, accessors, "
                    "NLP loaded vs original vs Rocq multi-stage model.",
            "samples": [{"when": items[-1][1], "case": items[-1][0]}], "disagreements": dis, "distribution": dist,
            "extra": {"skipped_degenerate": skipped}}


def replay(path):
    d = json.load(open(path))
    c = d["case"]
    if "multi" in c:
        r = multi_worker((c["multi"], d["points"], c["when"], c.get("late")))
        print(json.dumps({k: v for k, v in r.items() if k in ("error", "trace", "nstages")}, indent=1)[:3000])
        return 1 if "error" in r else 0
    dis, _, _, _ = run_items([(c["case"], c["when"], c["calls"], d["points"], c.get("edit"), c.get("late"))], PID + "r", 1)
    print(json.dumps(dis[:1], indent=1, default=str)[:4000] if dis else "replay: agrees")
    return 1 if dis else 0
