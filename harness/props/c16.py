"""C16 — der() is the total time derivative along the declared dynamics."""
import os, json, math, random, traceback
import multiprocessing as mp
import numpy as np
from fractions import Fraction
from ..common import VERIF, sha, Fr, jq, dyadic, dyadic_nz
from .. import gen, engine, coqrun, cases as CS

TRUSTED = [
    "Rocq model Mech/Der.v (forward-mode total derivative on the expression AST) tied to /repo by comparing ocp.der(e) "
    "evaluated by CasADi with the model's derivative expression evaluated at random rational points (rtol 1e-9)",
    "Coquelicot real analysis (is_derive) for the theorem that the model's derivative is d/dt along solutions",
    "CasADi jtimes (automatic differentiation) is what rockit calls; it is exercised, not modelled",
]
ASSUMPTIONS = ["expressions are rational functions of states, time and parameters; denominators are bounded away from zero at the sampled points"]


def rexpr(rng, syms, depth=2):
    """random rational expression with safe denominators 1 + s^2"""
    e = gen.rand_poly(rng, syms, 2)
    r = rng.random()
    if r < 0.3:
        s_ = rng.choice(syms)
        e = ["/", e, ["+", gen.C(1), ["*", s_, s_]]]
    elif r < 0.5:
        e = ["pow", e, rng.choice([2, 3])]
    elif r < 0.6:
        e = ["*", e, gen.rand_poly(rng, syms, 1)]
    return e


def gen_case(rng):
    nx = rng.randint(1, 3)
    npar = rng.randint(0, 2)
    nu = rng.randint(0, 1)
    sx = [["s", "x", i] for i in range(nx)]
    sp = [["s", "p", i] for i in range(npar)]
    su = [["s", "u", i] for i in range(nu)]
    t = [["s", "t"]]
    # quadrature states (ocp.state(quad=True)) are states nx..nx+nq-1: their right-hand side may not depend on them,
    # expressions may
    nq = rng.choice([0, 0, 0, 1, 2])
    sq = [["s", "x", nx + i] for i in range(nq)]
    ode = [rexpr(rng, sx + sp + su + t) for _ in range(nx + nq)]
    es = [rexpr(rng, sx + sq + sp + t) for _ in range(rng.randint(1, 3))]
    if nq and rng.random() < 0.5:
        es[0] = sq[0] if rng.random() < 0.5 else ["+", es[0], ["*", sq[-1], rng.choice(sx + t)]]
    pts = [{"x": [jq(dyadic(rng, -2, 2, 3)) for _ in range(nx + nq)], "u": [jq(dyadic(rng, -2, 2, 3)) for _ in range(nu)],
            "p": [jq(dyadic(rng, -2, 2, 3)) for _ in range(npar)], "t": jq(dyadic(rng, -1, 3, 3))} for _ in range(3)]
    return {"nx": nx, "nq": nq, "np": npar, "nu": nu, "ode": ode, "es": es, "pts": pts, "order": rng.randint(0, 3)}


def worker(c):
    from ..common import setup_rockit_path
    rockit = setup_rockit_path()
    import io, contextlib
    import casadi as ca
    out = {}
    try:
        with contextlib.redirect_stdout(io.StringIO()):
            ocp = rockit.Ocp(T=1)
            case = {"states": [{"rows": 1, "cols": 1}] * c["nx"]}
            xs = [ocp.state() for _ in range(c["nx"])] + [ocp.state(quad=True) for _ in range(c.get("nq", 0))]
            us = [ocp.control() for _ in range(c["nu"])]
            ps = [ocp.parameter() for _ in range(c["np"])]
            S = {"x": xs, "u": us, "p": ps}

            def ex(e):
                op = e[0]
                if op == "c":
                    return ca.MX(float(Fraction(e[1], e[2])))
                if op == "s":
                    return ocp.t if e[1] == "t" else S[e[1]][e[2]]
                if op in "+-*/":
                    a, b = ex(e[1]), ex(e[2])
                    return a + b if op == "+" else a - b if op == "-" else a * b if op == "*" else a / b
                if op == "neg":
                    return -ex(e[1])
                if op == "pow":
                    return ex(e[1]) ** e[2]
                raise ValueError(e)
            for x, rhs in zip(xs, c["ode"]):
                ocp.set_der(x, ex(rhs))
            E = ca.vertcat(*[ex(e) for e in c["es"]])      # vector-valued expression
            dE = ocp.der(E)
            f = ca.Function("d", [ca.vvcat(xs), ca.vvcat(us) if us else ca.MX(0, 1), ca.vvcat(ps) if ps else ca.MX(0, 1), ocp.t], [dE])
            vals = []
            for pt in c["pts"]:
                v = f([float(Fr(a)) for a in pt["x"]], [float(Fr(a)) for a in pt["u"]], [float(Fr(a)) for a in pt["p"]], float(Fr(pt["t"])))
                vals.append(np.array(v).reshape(-1).tolist())
            out["vals"] = vals
            # der of a control must raise
            try:
                if us:
                    ocp.der(us[0] * xs[0])
                    out["der_control_raises"] = False
                else:
                    out["der_control_raises"] = True
            except Exception:
                out["der_control_raises"] = True
            # der of an expression that depends on an algebraic variable: not along the declared dynamics -> must raise
            o2 = rockit.Ocp(T=1)
            x2 = o2.state(); z2 = o2.algebraic()
            o2.set_der(x2, -x2 + z2)
            o2.add_alg(z2 - x2 ** 2)
            try:
                dz = o2.der(z2 * x2 if c["nx"] % 2 else z2)
                out["der_alg_raises"] = False
                out["der_alg_value"] = str(dz)[:80]
            except Exception:
                out["der_alg_raises"] = True
            # product rule with a bspline signal: der(s*g(t) + h) = der(s)*g + s*g' + der(h), whether or not h brings a state in
            o3 = rockit.Ocp(t0=0.5, T=2)
            x3 = o3.state()
            o3.set_der(x3, -x3 + o3.t)
            s3 = o3.parameter(grid="bspline", order=2 + c["nx"] % 2)
            a3, b3 = 0.5 + 0.25 * c["order"], 1.0 + 0.5 * (c["nx"] % 3)
            g3 = a3 * ca.cos(o3.t) + o3.t ** 2
            out["signal_product_rule"] = []
            for h3, dh3 in ((b3 * o3.t, b3), (x3 * x3, 2 * x3 * (-x3 + o3.t)), (ca.MX(0), 0)):
                lhs = o3.der(s3 * g3 + h3)
                rhs = o3.der(s3) * g3 + s3 * ca.jacobian(g3, o3.t) + dh3
                diff = lhs - rhs
                sv = ca.symvar(diff)
                fdiff = ca.Function("fd", sv, [diff])
                vals = [float(fdiff(*[0.3 + 0.17 * (i + 1) * (q + 1) for i in range(len(sv))])) for q in range(3)]
                out["signal_product_rule"].append(max(abs(v) for v in vals))
            # control of order k: k derivatives exist, one more raises
            k = c["order"]
            w = ocp.control(order=k)
            cur, nder, chain_ok = w, 0, True
            try:
                for _ in range(k):
                    cur = ocp.der(cur)
                    nder += 1
            except Exception:
                chain_ok = False
            try:
                ocp.der(cur)
                extra_raises = False
            except Exception:
                extra_raises = True
            out["chain"] = {"order": k, "derivatives_taken": nder, "ok": chain_ok, "one_more_raises": extra_raises,
                            "last_is_control": bool(cur.is_symbolic() and any(ca.is_equal(cur, u) for u in ocp.controls))}
    except Exception as e:
        out["error"] = "%s: %s" % (type(e).__name__, str(e)[:300])
        out["trace"] = traceback.format_exc()[-1200:]
    return out


def model_run(cases):
    lines = []
    for c in cases:
        envs = CS.clist(["(%s, %s, %s, %s)" % (CS.cqlist(p["x"]), CS.cqlist(p["u"]), CS.cqlist(p["p"]), CS.cq(p["t"])) for p in c["pts"]])
        lines.append("Eval vm_compute in (run_der_float %s %s %s).\n" % (
            CS.clist([CS.expr_coq(e) for e in c["ode"]]), CS.clist([CS.expr_coq(e) for e in c["es"]]), envs))
    bodies = ["".join(lines[i:i + 60]) for i in range(0, len(lines), 60)]
    res = coqrun.run_shards("C16", bodies)
    return [v for shard in res for v in shard]


def run(tier="quick", seed=0, jobs=16):
    rng = random.Random(seed * 1000003 + 1616)
    n = 150 if tier == "quick" else 2000
    cases = [gen_case(rng) for _ in range(n)]
    with mp.get_context("fork").Pool(min(jobs, len(cases))) as pool:
        rr = pool.map(worker, cases, chunksize=4)
    mm = model_run(cases)
    dis, nontriv = [], set()
    for c, r, m in zip(cases, rr, mm):
        d = []
        if "error" in r:
            d = [{"what": "rockit raised on der()", "error": r["error"], "trace": r.get("trace")}]
        else:
            for p, (rv, mv) in enumerate(zip(r["vals"], m)):
                flat = [v for pair in mv for v in pair]
                if any((not math.isfinite(v)) or abs(v) > engine.BIG for v in flat):
                    continue
                for j, (a, (b, g)) in enumerate(zip(rv, mv)):
                    if not engine.close(a, b, scale=abs(b)) :
                        d = [{"what": "ocp.der(e) differs from the total time derivative along the dynamics",
                              "entry": j, "point": p, "rockit": a, "model_forward_mode": b, "model_gradient_form": g}]
                        break
                    if not engine.close(g, b, rtol=1e-7, scale=abs(b)):
                        d = [{"what": "model: forward-mode and gradient-form derivatives disagree", "values": [b, g]}]
                        break
                if d:
                    break
            ch = r["chain"]
            if not d and not (ch["ok"] and ch["derivatives_taken"] == ch["order"] and ch["one_more_raises"] and ch["last_is_control"]):
                d = [{"what": "control(order=k): der does not walk down exactly k derivatives to the raw control and then raise", "chain": ch}]
            if not d and not r.get("der_alg_raises", True):
                d = [{"what": "der of an expression depending on an algebraic variable did not raise (the variable is treated as a constant)",
                      "returned": r.get("der_alg_value")}]
            if not d and any(v > 1e-9 for v in r.get("signal_product_rule", [])):
                d = [{"what": "der(s*g(t) + h) of a bspline signal s is not der(s)*g + s*g' + der(h) (explicit time direction or a seed lost)",
                      "residuals [h = b*t, h = x^2, h = 0]": r["signal_product_rule"]}]
            if not d and not r["der_control_raises"]:
                d = [{"what": "der of an expression depending on a control did not raise"}]
        if d:
            dis.append({"property": "C16", "what": d, "case": c, "points": [], "finding_key": None})
        else:
            nontriv.add(sha(c))
    return {"evaluations": len(cases), "distinct_nontrivial": len(nontriv),
            "rule": "random ODEs (1-3 states plus 0-2 quadrature states, rational right-hand sides in x, u, p, t) x 1-3 (stacked, vector valued) "
                    "expressions of states, parameters and explicit time (polynomials, quotients with 1+s^2 denominators, "
                    "powers, products) x 3 rational evaluation points; controls of order 0..3 (chain walk, one more raises); "
                    "der of a control-dependent expression raises; product rule for expressions of a bspline signal times a function of time, with and without a state.  distinct by hash of the case",
            "samples": [cases[0]], "disagreements": dis, "distribution": {"orders": [c["order"] for c in cases[:20]]},
            "extra": {}}


def replay(path):
    d = json.load(open(path))
    c = d["case"]
    r = worker(c)
    m = model_run([c])[0]
    print(json.dumps({"rockit": r, "model": m}, indent=1, default=str)[:3000])
    return 0
