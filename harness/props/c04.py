"""C04 — every constraint is imposed exactly where declared, and nothing else is."""
from .nlpprop import NlpProp, TRUSTED, ASSUMPTIONS, default_build
from .. import gen

OPTS = {"methods": ["MS", "SS", "DC"], "deg_max": 3, "intgs": ["rk", "expl_euler"], "N_max": 4, "M_max": 3,
        "nc_min": 2, "nc_max": 5, "p_offset": 0.4, "objective": False}
OPTS_T = dict(OPTS, N_max=6, M_max=4)


def nontrivial(case, mrows):
    return any(r[0] in (3, 4) for r in mrows)


def build(rng, opts):
    c = default_build(rng, opts)
    if c["method"]["kind"] != "DC" and rng.random() < 0.08:
        # a constraint no shooting method can place: must be rejected, not ignored
        gen.add_roots_constraint(rng, c)
    return c


P = NlpProp("C04", OPTS, OPTS_T, build=build, judge_kinds=[3, 4, 5], judge_obj=False, nontrivial=nontrivial,
            rule="random OCPs with 2-5 declared constraints: path constraints on grid control|integrator (|integrator_roots under DirectCollocation, where algebraic states also occur) with random "
                 "include_first/include_last, forms ==, <=, >=, two-sided, vector valued, mixed x/u/t/p/v/T/t0/DT expressions, "
                 "next/prev/offset(+-1..3) operands, constraint scales; boundary constraints mixing at_t0/at_tf/global symbols; "
                 "x {MS,SS,DC degree 1..3 radau|legendre} x N,M x grids; plus integrator_roots constraints under shooting methods (must be rejected).  Compared: all rows of kinds path/point/freetime and rows of rockit nobody "
                 "accounts for.  non-trivial = NLP has at least one path or point row; distinct by hash of the case")
run, replay = P.run, P.replay
