"""C11 — a free-time problem is the fixed-time problem with T (t0) as a decision variable."""
import copy
from .nlpprop import NlpProp, TRUSTED, ASSUMPTIONS
from .. import engine
from ..common import Fr

OPTS = {"methods": ["MS", "SS", "DC"], "intgs": ["rk", "expl_euler"], "N_max": 4, "M_max": 2, "deg_max": 3,
        "p_freeT": 0.85, "p_paramT": 0.0, "p_freet0": 0.5, "nc_min": 1, "nc_max": 3, "no_min": 1, "no_max": 2,
        "grids": ("Uniform", "Geometric", "Function", "Free"), "p_localize": 0.3, "p_minmax": 0.2, "intc": True}
OPTS_T = dict(OPTS, N_max=6, M_max=3)


def nontrivial(case, mrows):
    return "free" in case.get("T", {}) or "free" in case.get("t0", {})


def extra_judge(case, mvals, r):
    ex = r["extra"]
    for p, (hv, mv) in enumerate(zip(ex["horizon"], mvals)):
        cg = mv[4][0]
        T, t0 = cg[-1] - cg[0], cg[0]
        g = case["method"].get("grid") or {}
        if g.get("localize_t0") or g.get("localize_T") or g.get("class") == "Free":
            continue   # the grid end point is a separate variable there; T itself is compared below
        if not (engine.close(hv[0], T) and engine.close(hv[1], t0) and engine.close(hv[2], t0 + T)):
            return [{"what": "ocp.value(ocp.T|t0|tf) differs from the horizon of the decision point",
                     "rockit": hv, "model": [T, t0, t0 + T], "point": p}]
    for nm in ("T", "t0"):
        if "free" in case.get(nm, {}):
            guess = float(Fr((case.get("horizon_guess") or {}).get(nm, case[nm]["free"])))
            if nm in ex["init"] and not engine.close(ex["init"][nm], guess):
                return [{"what": "starting value of the free %s is not the FreeTime guess" % nm,
                         "rockit": ex["init"][nm], "guess": guess}]
    return []


def fix_case(case, pt):
    c = copy.deepcopy(case)
    for nm in ("T", "t0"):
        if "free" in c.get(nm, {}):
            c[nm] = {"fixed": pt[nm]}
    c["id"] = case.get("id", "") + "-fixed"
    return c


def build(rng, opts):
    from .nlpprop import default_build
    from ..common import jq, dyadic
    from fractions import Fraction
    c = default_build(rng, opts)
    # an explicit guess given with set_initial replaces the FreeTime guess (and changes nothing else)
    hg = {}
    if "free" in c.get("T", {}) and rng.random() < 0.35:
        hg["T"] = jq(rng.choice([Fraction(1, 2), 1, Fraction(5, 4), 3]))
    if "free" in c.get("t0", {}) and rng.random() < 0.5:
        hg["t0"] = jq(dyadic(rng, -1, 1, 2))
    if hg:
        c["horizon_guess"] = hg
    return c


def clones_worker(cfg):
    """stages cloned from one template with a FreeTime horizon: every clone owns its guess — a new guess for ONE clone (given
    through set_initial(stage.T / stage.t0, v)) leaves the others, the template and later clones at the declared guess"""
    from ..common import setup_rockit_path
    rockit = setup_rockit_path()
    import io, contextlib
    import casadi as ca
    out = {}
    try:
        with contextlib.redirect_stdout(io.StringIO()), contextlib.redirect_stderr(io.StringIO()):
            ocp = rockit.Ocp()
            tpl = rockit.Stage(t0=rockit.FreeTime(0.25), T=rockit.FreeTime(1.5))
            x = tpl.state(); u = tpl.control()
            tpl.set_der(x, u)
            tpl.add_objective(tpl.integral(u ** 2) + tpl.T)
            tpl.subject_to(tpl.at_t0(x) == 0); tpl.subject_to(tpl.at_tf(x) == 1)
            Meth = {"MS": lambda: rockit.MultipleShooting(N=2, intg="rk"), "DC": lambda: rockit.DirectCollocation(N=2, degree=2)}[cfg["method"]]
            tpl.method(Meth())
            sts = [ocp.stage(tpl) for _ in range(3)]
            k = cfg["edited"]
            if cfg["when"] == "after_transcription":
                ocp.solver("ipopt", {"ipopt.print_level": 0, "print_time": False, "ipopt.max_iter": 0})
                sts[0].sample(sts[0].t, grid="control")
            sts[k].set_initial(sts[k].T, 4.0)
            sts[k].set_initial(sts[k].t0, 3.0)
            sts.append(ocp.stage(tpl))          # a clone made after the edit
            ocp.solver("ipopt", {"ipopt.print_level": 0, "print_time": False, "ipopt.max_iter": 0})
            try:
                sol = ocp.solve_limited()
            except Exception:
                sol = ocp.non_converged_solution
            out["starts"] = [[float(sol(st).value(st.t0)), float(sol(st).value(st.T))] for st in sts]
            out["expected"] = [[3.0, 4.0] if i == k else [0.25, 1.5] for i in range(len(sts))]
    except Exception as e_:
        out["error"] = "%s: %s" % (type(e_).__name__, str(e_)[:300])
    return out


class C11Prop(NlpProp):
    def run(self, tier="quick", seed=0, jobs=16):
        res = NlpProp.run(self, tier, seed, jobs)
        import multiprocessing as mp_
        ccf = [{"method": m, "edited": k, "when": w} for m in ("MS", "DC") for k in (0, 2) for w in ("before_transcription", "after_transcription")]
        with mp_.get_context("fork").Pool(min(jobs, len(ccf))) as pool:
            rc = pool.map(clones_worker, ccf, chunksize=1)
        for cfg, r in zip(ccf, rc):
            res["distribution"]["clones-free-horizon"] = res["distribution"].get("clones-free-horizon", 0) + 1
            bad = "error" in r or any(abs(a - b) > 1e-9 for s_, e_ in zip(r.get("starts", []), r.get("expected", [])) for a, b in zip(s_, e_))
            if bad:
                res["disagreements"].append({"property": "C11", "finding_key": None, "case": dict(cfg, _clones=True), "points": [],
                                             "what": [{"what": "clones of a template with a FreeTime horizon: the starting values (t0, T) of the stages are not their own guesses "
                                                               "(a new guess for one clone leaked to another stage, or got lost)",
                                                       "start (t0, T) per stage": r.get("starts"), "expected": r.get("expected"), "error": r.get("error")}]})
        res["evaluations"] += len(ccf)
        # metamorphic oracle on rockit alone: free horizon restricted to the point's value vs the fixed OCP
        n = 60 if tier == "quick" else 600
        cps = self.gen_cases(seed + 23, n, self.opts_q if tier == "quick" else self.opts_t, 3)
        pairs = []
        for c, pts in cps:
            g = c["method"].get("grid") or {}
            if not nontrivial(c, None) or g.get("localize_t0") or g.get("localize_T") or g.get("class") == "Free":
                continue
            # all points share one horizon value so that the fixed OCP is one OCP
            pts = [dict(p, T=pts[0]["T"], t0=pts[0]["t0"]) for p in pts]
            pairs.append(((c, pts), (fix_case(c, pts[0]), pts)))
        ra = engine.run_rockit([a for a, b in pairs], jobs=jobs)
        rb = engine.run_rockit([b for a, b in pairs], jobs=jobs)
        ncmp = 0
        for ((c, pts), _), a, b in zip(pairs, ra, rb):
            if any(k in a or k in b for k in ("error", "mismatch")) or engine.pair_unjudgeable(a, b):
                continue
            ncmp += 1
            ub, ua = engine.match_rows_factor(b["rows"], a["rows"])   # fixed rows into free rows
            T = float(Fr(pts[0]["T"]))
            # leftovers of the free problem: T >= 0 and rows of the grid object, all constant under the restriction
            bad = [r for r in ua if max(r[1]) - min(r[1]) > 1e-12]
            has_T0 = ("free" not in c.get("T", {})) or any(r[0] == 1 and abs(r[1][0] + T) <= 1e-12 for r in ua)
            objbad = [(x, y) for x, y in zip(a["objs"], b["objs"]) if not engine.close(x, y, scale=abs(y))]
            if ub or bad or objbad or not has_T0:
                res["disagreements"].append({"property": "C11", "finding_key": None, "case": c, "points": pts,
                                             "what": [{"what": "free-time NLP restricted to the horizon value differs from the fixed-time NLP",
                                                       "fixed_rows_missing_in_free": ub[:3], "extra_nonconstant_rows_in_free": bad[:3],
                                                       "T>=0 present": has_T0, "objective": objbad[:2]}]})
        res["evaluations"] += len(pairs)
        res["extra"]["pairs_compared"] = ncmp
        return res


P = C11Prop("C11", OPTS, OPTS_T, build=build, judge_kinds=None, judge_obj=True, nontrivial=nontrivial,
            extra=(engine.extras_horizon, engine.extra_horizon), extra_judge=extra_judge,
            rule="random OCPs with T and/or t0 declared FreeTime(guess), T/t0/t/DT symbols in constraints and "
                 "objective, x {MS,SS,DC} x N,M x grids {Uniform, Geometric, Function, Free, localized}: (1) all rows and "
                 "the objective against the model at several horizon values; ocp.value(T|t0|tf); starting value = guess (FreeTime guess, or an explicit set_initial(ocp.T|t0, v) which must change nothing else); "
                 "(2) metamorphic on rockit: the free problem at T=c, t0=c0 against the same OCP declared with those "
                 "numbers (fixed rows must all occur, leftovers must be T>=0 and constant grid rows, same objective).  "
                 "non-trivial = has a free horizon; distinct by hash of the case")
run = P.run


def replay(path):
    import json
    d = json.load(open(path))
    if d.get("case", {}).get("_clones"):
        print(json.dumps(clones_worker(d["case"]), indent=1))
        return 0
    return P.replay(path)
