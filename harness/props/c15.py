"""C15 — grid='inf' constraints guarantee satisfaction between grid points."""
import os, json, math, random, traceback
import multiprocessing as mp
import numpy as np
from fractions import Fraction
from ..common import VERIF, sha, Fr, jq, dyadic, dyadic_nz
from .. import gen, engine, coqrun, cases as CS
from .nlpprop import ASSUMPTIONS as _A

TRUSTED = [
    "Rocq models Mech/Inf.v (rescaling, literal power-to-Bernstein matrix, affine relay) and Mech/Bern.v (Bernstein-form "
    "sum / product / degree elevation / derivative, re-interpretation of polynomial constraint expressions), tied to /repo "
    "by comparing the NLP rows rockit generates for every constraint kind with the model's coefficients (vm_compute, "
    "binary64, rtol 1e-7)",
    "independent oracle on rockit: at decision points where the rows hold with equality in at least one row the refined "
    "sample (refine=30) of the constrained expression stays on the right side of the bound, and the rows equal the "
    "Bernstein coefficients fitted (numpy polyfit) through the refined samples",
    "rejection of non-polynomial expressions and of schemes without a degree-4 step polynomial is tested, not proved",
]
ASSUMPTIONS = ["the bound is a parameter whose value is chosen per decision point so that the rows are tight"]
OPTS = {"methods": ["MS", "SS", "DC"], "intgs": ["rk"], "N_max": 3, "M_max": 3, "constraints": False, "objective": False,
        "grids": ("Uniform", "Geometric", "Free"), "p_param": 0.0, "p_var": 0.0, "p_freeT": 0.3, "p_paramT": 0.0,
        "p_freet0": 0.0, "nx_max": 2, "nu_max": 1, "p_quad": 0.0, "p_dae": 0.0, "maxdeg": 2}


def CS_mentions_state(e):
    return isinstance(e, list) and (e[0] in ("s", "der") or any(CS_mentions_state(a) for a in e[1:] if isinstance(a, list)))


def pdegree(e):
    """degree of the expression as a polynomial in the states"""
    op = e[0]
    if op == "c":
        return 0
    if op in ("s", "der"):
        return 1
    if op in ("+", "-"):
        return max(pdegree(e[1]), pdegree(e[2]))
    if op == "*":
        return pdegree(e[1]) + pdegree(e[2])
    if op == "neg":
        return pdegree(e[1])
    raise ValueError("not a polynomial constraint expression: %r" % (e,))


def expand(e, nx):
    """the expression as a polynomial {exponent tuple: Fraction} in the states (der j counts as a variable too)"""
    op = e[0]
    zero = (0,) * (2 * nx)
    if op == "c":
        v = Fraction(e[1], e[2])
        return {zero: v} if v else {}
    if op in ("s", "der"):
        j = e[2] if op == "s" else nx + e[1]
        return {tuple(1 if i == j else 0 for i in range(2 * nx)): Fraction(1)}
    if op == "neg":
        return {k: -v for k, v in expand(e[1], nx).items()}
    a, b = expand(e[1], nx), expand(e[2], nx)
    out = {}
    if op in ("+", "-"):
        for k, v in a.items():
            out[k] = out.get(k, 0) + v
        for k, v in b.items():
            out[k] = out.get(k, 0) + (v if op == "+" else -v)
    else:
        for k1, v1 in a.items():
            for k2, v2 in b.items():
                k = tuple(x + y for x, y in zip(k1, k2))
                out[k] = out.get(k, 0) + v1 * v2
    return {k: v for k, v in out.items() if v != 0}


def true_degree(e, nx):
    return max([sum(k) for k in expand(e, nx)] or [-1])


def bexpr_coq(e):
    """the case's constraint expression as a Mech/Bern.v pexpr (fail-closed)"""
    op = e[0]
    if op == "c":
        return "(BC %s)" % CS.cq(Fraction(e[1], e[2]))
    if op == "s" and e[1] == "x":
        return "(BX %d%%nat)" % e[2]
    if op == "der":
        return "(BDer %d%%nat)" % e[1]
    if op in ("+", "-", "*"):
        return "(%s %s %s)" % ({"+": "BAdd", "-": "BSub", "*": "BMul"}[op], bexpr_coq(e[1]), bexpr_coq(e[2]))
    if op == "neg":
        return "(BNeg %s)" % bexpr_coq(e[1])
    raise ValueError("not a polynomial constraint expression: %r" % (e,))


def rockit_expr(B, ocp, e, dercache):
    """the constraint expression on rockit's symbols; ["der", j] is ocp.inf_der(x_j)"""
    import casadi as ca
    op = e[0]
    if op == "c":
        return float(Fraction(e[1], e[2]))
    if op == "s":
        return B.ex(e)
    if op == "der":
        if e[1] not in dercache:
            dercache[e[1]] = ocp.inf_der(B.ex(["s", "x", e[1]]))
        return dercache[e[1]]
    if op == "neg":
        return -rockit_expr(B, ocp, e[1], dercache)
    a, b = rockit_expr(B, ocp, e[1], dercache), rockit_expr(B, ocp, e[2], dercache)
    return a + b if op == "+" else a - b if op == "-" else a * b


def gen_case(rng):
    c = gen.gen_base(rng, OPTS)
    if c["method"]["kind"] == "DC":
        c["method"]["degree"] = 4
    # scalar states only
    from ..cases import nslots
    nx = nslots(c["states"])
    c["states"] = [{"rows": 1, "cols": 1} for _ in range(nx)]
    # sometimes an unrelated VECTOR state is declared in front of the scalar ones (it takes slots 0..1 and stays out of
    # the constraint: the certificate must still pair every scalar state with its own step polynomial)
    off = 0
    if nx > 0 and rng.random() < 0.3:
        off = 2
        c["states"] = [{"rows": 2, "cols": 1}] + c["states"]
        syms0 = gen.sym_list(dict(c, states=c["states"]), ["x", "u"])
        c["ode"] = [gen.rand_poly(rng, syms0, 2) for _ in range(2)] + c["ode"]
        c["_decoy_vector_state"] = True
    idx = list(range(off, off + nx))
    # the bound is the last global parameter
    c["params"] = [{"rows": 1, "cols": 1, "grid": ""}]
    c["param_values"] = {"p": [jq(0)], "pc": [[] for _ in range(c["method"]["N"])], "pp": [[] for _ in range(c["method"]["N"] + 1)]}
    xs = [["s", "x", i] for i in range(off + nx)]
    kind = rng.choice(["affine", "affine", "quadratic", "product", "twosided", "infder", "cubic", "dermix", "poly"])
    if kind == "affine" or nx == 0:
        terms = [(dyadic_nz(rng, -2, 2, 1), i) for i in idx if rng.random() < 0.8] or [(Fraction(1), off)]
        const = dyadic(rng, -1, 1, 1)
        e = gen.C(const)
        for a, i in terms:
            e = ["+", e, ["*", gen.C(a), xs[i]]]
        c["inf"] = {"kind": "affine", "terms": [[jq(a), i] for a, i in terms], "const": jq(const), "expr": e}
    elif kind == "twosided":
        # both sides depend on the states:  e1 <= e2 + bound  (rows certify e1 - e2 <= bound)
        i, j = rng.choice(idx), rng.choice(idx)
        e1 = ["+", ["*", gen.C(dyadic_nz(rng, -2, 2, 1)), xs[i]], gen.C(dyadic(rng, -1, 1, 1))]
        e2 = ["*", xs[j], xs[j]] if rng.random() < 0.5 else ["*", gen.C(dyadic_nz(rng, -2, 2, 1)), xs[j]]
        while true_degree(["-", e1, e2], off + nx) < 1:
            # the state must not cancel between the two sides (CasADi would hand rockit a constant relation)
            e2 = ["*", gen.C(dyadic_nz(rng, -2, 2, 1)), xs[j]]
        c["inf"] = {"kind": "twosided", "lhs": e1, "rhs": e2, "expr": ["-", e1, e2],
                    "deg": 8 if e2[0] == "*" and e2[1] == xs[j] else 4}
    elif kind == "infder":
        # the derivative of a state polynomial in physical time
        i = rng.choice(idx)
        c["inf"] = {"kind": "infder", "state": i, "expr": xs[i], "model_expr": ["der", i]}
    elif kind == "quadratic":
        i = rng.choice(idx)
        e = ["+", ["*", xs[i], xs[i]], ["*", gen.C(dyadic(rng, -1, 1, 1)), xs[rng.choice(idx)]]]
        c["inf"] = {"kind": "quadratic", "expr": e}
    elif kind == "cubic":
        i, j, k = rng.choice(idx), rng.choice(idx), rng.choice(idx)
        e = ["+", ["*", ["*", xs[i], xs[j]], ["-", xs[k], gen.C(dyadic(rng, -1, 1, 1))]], ["*", gen.C(dyadic_nz(rng, -1, 1, 1)), xs[i]]]
        c["inf"] = {"kind": "cubic", "expr": e, "deg": 12}
    elif kind == "dermix":
        # a state, its time derivative and a product with a derivative in one expression (no refined-sample oracle:
        # inf_der symbols cannot be sampled; rows against the model only)
        i, j = rng.choice(idx), rng.choice(idx)
        e = ["+", ["*", gen.C(dyadic_nz(rng, -2, 2, 1)), ["der", i]], xs[j]]
        if rng.random() < 0.5:
            e = ["-", e, ["*", ["der", j], xs[i]]]
        c["inf"] = {"kind": "dermix", "expr": e}
    elif kind == "poly":
        # a random polynomial expression tree of degree <= 3 in the states
        def tree(d):
            r = rng.random()
            if d == 0 or r < 0.25:
                return xs[rng.choice(idx)] if rng.random() < 0.75 else gen.C(dyadic_nz(rng, -2, 2, 1))
            if r < 0.5:
                return ["+", tree(d - 1), tree(d - 1)]
            if r < 0.7:
                a, b = tree(d - 1), tree(d - 1)
                # CasADi simplifies e - e to 0 at construction: rockit would see another (lower-degree) expression
                return ["-", a, b] if a != b else ["+", a, b]
            if r < 0.8:
                return ["neg", tree(d - 1)]
            return ["*", tree(d - 1), tree(d - 1)]
        e = tree(2)
        # cancellations (x - x, -x + x, ...) are simplified away by CasADi when the expression is built: rockit would see
        # another expression (lower degree, possibly a constant) than the one the model is given
        while not CS_mentions_state(e) or true_degree(e, off + nx) != pdegree(e) or pdegree(e) == 0:
            e = tree(2)
        c["inf"] = {"kind": "poly", "expr": e, "deg": 4 * pdegree(e)}
    else:
        i, j = rng.choice(idx), rng.choice(idx)
        e = ["-", ["*", xs[i], xs[j]], xs[i]]
        c["inf"] = {"kind": "product", "expr": e}
    # lower bounds (expr >= bound) as well as upper bounds
    c["inf"]["lower"] = bool(c["inf"]["kind"] != "twosided" and rng.random() < 0.35)
    c["constraints"] = [{"grid": "inf", "include_first": True, "include_last": True,
                         "rels": [{"rel": "le", "lhs": c["inf"]["expr"], "rhs": ["s", "p", 0]}]}]
    gen.touch_objective(c)
    return c


def worker(args):
    case, points = args
    from ..common import setup_rockit_path
    rockit = setup_rockit_path()
    from .. import nlp
    import io, contextlib
    import casadi as ca
    out = {}
    try:
        with contextlib.redirect_stdout(io.StringIO()):
            # build_rockit places 'inf' through subject_to(grid='inf')
            B = CS.build_rockit(dict(case, constraints=[]), rockit)
            out["inputs"] = engine.impl_inputs(B, case)
            ocp = B.ocp
            inf = case["inf"]
            lower = bool(inf.get("lower"))
            has_der = "der" in json.dumps(inf["expr"])
            # the sampled expression (the refined-sample oracle): inf_der symbols cannot be sampled, 'dermix'
            # expressions are compared with the model only
            expr = B.ex(inf["expr"]) if not has_der else B.ex(["s", "x", 0])
            if inf.get("wrap"):
                # a non-polynomial constraint: no Bernstein certificate exists, must be rejected
                expr = {"sin": ca.sin, "exp": ca.exp, "inv": lambda e: 1 / (2 + e * e), "sqrt": lambda e: ca.sqrt(e * e + 1),
                        "time": lambda e: e + 0.4 * ocp.t, "step": lambda e: e + 0.4 * ocp.DT}[inf["wrap"]](expr)
            pb = B.S["p"][0]
            rel = (lambda a, b: a >= b) if lower else (lambda a, b: a <= b)
            if inf.get("wrap") or case["method"].get("intg") == "expl_euler" or \
                    (case["method"]["kind"] == "DC" and case["method"].get("degree") != 4):
                ocp.subject_to(expr <= ocp.inf_inert(pb), grid="inf")        # must-be-rejected cases: the plain form
            elif inf["kind"] == "twosided":
                ocp.subject_to(B.ex(inf["lhs"]) <= B.ex(inf["rhs"]) + ocp.inf_inert(pb), grid="inf")
            elif inf["kind"] == "infder":
                ocp.subject_to(rel(ocp.inf_der(expr), ocp.inf_inert(pb)), grid="inf")
            else:
                ocp.subject_to(rel(rockit_expr(B, ocp, inf["expr"], {}), ocp.inf_inert(pb)), grid="inf")    # parameters must be declared inert
            R = 30

            def extras(B_, c_):
                return [ocp.sample(expr, grid="integrator", refine=R)[1], ocp.value(pb),
                        ocp.sample(ocp.t, grid="integrator", refine=R)[1]]
            ob = nlp.observe(B, case, extras)
            # which entry of the parameter vector is the bound?
            Jp = ca.Function("jp", [ob.x, ob.p], [ca.jacobian(ocp.value(pb), ob.p)])
            jp = np.array(Jp(np.zeros(ob.nx), ob.pval)).reshape(-1)
            ip = int(np.argmax(np.abs(jp)))
            res = []
            for pt in points:
                xs = nlp.solve_point(ob, nlp.flatten_point(ob, pt))
                p0 = np.array(ob.pval, dtype=float); p0[ip] = 0.0
                p1 = np.array(p0); p1[ip] = 1.0
                f0, g0, lb0, ub0 = ob.nlp(xs, p0)
                f1, g1, lb1, ub1 = ob.nlp(xs, p1)
                r0 = nlp.normal_rows(np.array(g0).reshape(-1), np.array(lb0).reshape(-1), np.array(ub0).reshape(-1))
                r1 = nlp.normal_rows(np.array(g1).reshape(-1), np.array(lb1).reshape(-1), np.array(ub1).reshape(-1))
                if lower:
                    # rows  bound - coefficient <= 0
                    coeffs = [-h0 for (s0, i0, q0, h0), (s1, i1, q1, h1) in zip(r0, r1) if s0 == 1 and abs((h1 - h0) - 1.0) < 1e-9]
                    bstar = min(coeffs) if coeffs else None
                else:
                    coeffs = [h0 for (s0, i0, q0, h0), (s1, i1, q1, h1) in zip(r0, r1) if s0 == 1 and abs((h1 - h0) + 1.0) < 1e-9]
                    bstar = max(coeffs) if coeffs else None
                fine = np.array(ob.extra_f(xs, p0)[0]).reshape(-1)
                # independent certificate: on every integrator step the expression is a polynomial in the
                # normalised step time; its Bernstein coefficients at the product degree are what the rows
                # must bound (fit through the 30 refined samples of the step)
                kind_ = case["inf"]["kind"]
                deg = 4 if kind_ in ("affine", "infder") else case["inf"].get("deg", 8)
                if kind_ == "dermix":
                    res.append({"coeffs": sorted(float(v) for v in coeffs), "bstar": None if bstar is None else float(bstar),
                                "fine_max": 0.0, "fine_min": 0.0, "no_oracle": True})
                    continue
                tfine = np.array(ob.extra_f(xs, p0)[2]).reshape(-1)
                nsteps = (len(fine) - 1) // R
                bern = []
                from math import comb
                sgrid = np.arange(R) / R       # the right end point belongs to the next step (states may jump there)
                for st in range(nsteps):
                    ys = fine[st * R: st * R + R]
                    a = np.polynomial.polynomial.polyfit(sgrid, ys, deg)
                    dg = deg
                    if kind_ == "infder":
                        # derivative in physical time of the step polynomial: d/ds divided by the step length
                        hstep = (tfine[st * R + 1] - tfine[st * R]) * R
                        a = np.array([(i + 1) * a[i + 1] for i in range(deg)]) / hstep
                        dg = deg - 1
                    for k in range(dg + 1):
                        bern.append(float(sum(comb(k, i) / comb(dg, i) * a[i] for i in range(k + 1))))
                res.append({"coeffs": sorted(float(v) for v in coeffs), "bstar": None if bstar is None else float(bstar),
                            "fine_max": float(np.max(fine)), "fine_min": float(np.min(fine)), "bern": sorted(bern)})
            out["res"] = res
    except Exception as e:
        out["error"] = "%s: %s" % (type(e).__name__, str(e)[:300])
        out["trace"] = traceback.format_exc()[-1200:]
    return out


def model_rows(items, inputs, name):
    """rows of the model: every case through Mech/Bern.v (bern_of: the BSpline operator algebra); affine cases
    also through Mech/Inf.v (the linear relay).  Returns ({i: per-point coefficient lists}, {i: same, affine model})"""
    lines, lines_aff = [], []
    for i, (case, pts) in enumerate(items):
        if inputs[i] is None:
            continue
        inf = case["inf"]
        e = inf.get("model_expr", inf["expr"])
        bc = "(mkBC 0%%nat %s %s (ES (SP 0%%nat)))" % (bexpr_coq(e), CS.cbool(bool(inf.get("lower"))))
        lines.append("Definition c%d : ocp := %s.\n" % (i, CS.case_coq(dict(case, constraints=[]), inputs[i])) +
                     "Eval vm_compute in (%d%%nat, map (run_infp_float c%d [%s]) %s).\n" % (
                         i, i, bc, CS.clist([CS.point_coq(p) for p in pts])))
        if inf["kind"] == "affine" and not inf.get("lower"):
            terms = CS.clist(["(%s, %d%%nat)" % (CS.cq(a), s) for a, s in inf["terms"]])
            ic = "(mkIC 0%%nat %s %s (ES (SP 0%%nat)))" % (terms, CS.cq(inf["const"]))
            lines_aff.append("Definition c%d : ocp := %s.\n" % (i, CS.case_coq(dict(case, constraints=[]), inputs[i])) +
                             "Eval vm_compute in (%d%%nat, map (run_inf_float c%d [%s]) %s).\n" % (
                                 i, i, ic, CS.clist([CS.point_coq(p) for p in pts])))
    hdr = coqrun.HEADER + "From RV Require Import Mech.Inf Mech.Bern.\n"
    out = []
    for ls, nm in ((lines, name), (lines_aff, name + "a")):
        if not ls:
            out.append({})
            continue
        bodies = ["".join(ls[i:i + 40]) for i in range(0, len(ls), 40)]
        res = coqrun.run_shards(nm, bodies, header=hdr)
        out.append({i: v for sh in res for i, v in sh})
    return out[0], out[1]


def vector_worker(cfg):
    """grid='inf' constraints with vector-valued ingredients: refused, or (if accepted) sufficient for every component"""
    from ..common import setup_rockit_path
    rockit = setup_rockit_path()
    import io, contextlib
    import casadi as ca
    out = {}
    try:
        with contextlib.redirect_stdout(io.StringIO()), contextlib.redirect_stderr(io.StringIO()):
            ocp = rockit.Ocp(T=1)
            n = cfg["n"]
            x = ocp.state(n); u = ocp.control(n)
            ocp.set_der(x, u - x * x)
            ocp.add_objective(ocp.integral(ca.sumsqr(u)))
            if cfg["kind"] == "square":
                ocp.subject_to(x * x <= 1, grid="inf")
            elif cfg["kind"] == "bounds":
                ocp.subject_to(-ca.DM(range(1, n + 1)) <= (x <= ca.DM(range(1, n + 1))), grid="inf")
            else:
                ocp.subject_to(ocp.inf_der(x) * ocp.inf_der(x) <= 4, grid="inf")
            M_ = {"MS": rockit.MultipleShooting, "SS": rockit.SingleShooting}.get(cfg["method"])
            ocp.method(M_(N=2, M=1, intg="rk") if M_ else rockit.DirectCollocation(N=2, M=1, degree=4))
            ocp.solver("ipopt", {"ipopt.print_level": 0, "print_time": False})
            ocp.sample(x, grid="control")
            out["accepted"] = True
            out["rows"] = int(ocp._method.opti.g.numel())
    except Exception as e_:
        out["accepted"] = False
        out["error"] = str(e_)[:100]
    return out


def pair_worker(cfg):
    """several grid='inf' constraints in one stage: the rows of the stage with constraints A and B are the rows with A alone
    together with the rows with B alone (multiset, evaluated at one decision vector) — every constraint keeps its own certificate"""
    from ..common import setup_rockit_path
    rockit = setup_rockit_path()
    import io, contextlib
    from collections import Counter
    import casadi as ca
    out = {}
    try:
        with contextlib.redirect_stdout(io.StringIO()), contextlib.redirect_stderr(io.StringIO()):
            def rows(which):
                ocp = rockit.Ocp(t0=0.5, T=2)
                p = ocp.state(); v = ocp.state(); u = ocp.control()
                ocp.set_der(p, v); ocp.set_der(v, u - 0.3 * v)
                ocp.add_objective(ocp.integral(u * u) + ocp.at_tf(p) ** 2)
                cons = {"der_p": lambda: ocp.inf_der(p) <= 1, "der_v": lambda: ocp.inf_der(v) <= 1,
                        "p": lambda: p <= 1, "v": lambda: v <= 1,
                        "der_p_inert": lambda: ocp.inf_der(p) <= ocp.inf_inert(ca.MX(1.5)), "der_v_inert": lambda: ocp.inf_der(v) <= ocp.inf_inert(ca.MX(1.5))}
                for w in which:
                    ocp.subject_to(cons[w](), grid="inf")
                grid = rockit.GeometricGrid(2) if cfg["grid"] == "geometric" else rockit.UniformGrid()
                M_ = {"MS": rockit.MultipleShooting, "SS": rockit.SingleShooting}.get(cfg["method"])
                ocp.method(M_(N=2, M=2, intg="rk", grid=grid) if M_ else rockit.DirectCollocation(N=2, M=2, degree=4, grid=grid))
                ocp.solver("ipopt", {"ipopt.print_level": 0, "print_time": False})
                ocp.sample(p, grid="control")
                opti = ocp._method.opti
                f = ca.Function("g", [opti.x], [opti.g, opti.lbg, opti.ubg])
                xs = ca.DM([0.3 + 0.37 * ((7 * i) % 11) / 11.0 for i in range(opti.nx)])
                g, lb, ub = [np.array(a).reshape(-1) for a in f(xs)]
                return Counter((round(float(a), 9), round(float(b), 9) if np.isfinite(b) else "-inf", round(float(c), 9) if np.isfinite(c) else "inf")
                               for a, b, c in zip(g, lb, ub))
            a, b = cfg["pair"]
            r0, ra, rb, rab = rows([]), rows([a]), rows([b]), rows([a, b])
            expect = ra + (rb - r0)
            out["ok"] = (rab == expect)
            out["missing"] = [list(map(str, k)) for k in (expect - rab)][:4]
            out["extra"] = [list(map(str, k)) for k in (rab - expect)][:4]
    except Exception as e_:
        out["error"] = "%s: %s" % (type(e_).__name__, str(e_)[:200])
    return out


def run(tier="quick", seed=0, jobs=16):
    rng = random.Random(seed * 1000003 + 1515)
    n = 100 if tier == "quick" else 1000
    items = []
    for _ in range(n):
        c = gen_case(rng)
        items.append((c, [gen.gen_point(rng, c) for _ in range(2)]))
    with mp.get_context("fork").Pool(min(jobs, len(items))) as pool:
        rr = pool.map(worker, items, chunksize=1)
    mv, mva = model_rows(items, [r.get("inputs") for r in rr], "C15")
    dis, nontriv, dist = [], set(), {}
    for i, ((case, pts), r) in enumerate(zip(items, rr)):
        m = case["method"]
        key = "%s/%s/%s" % (m["kind"], m["grid"]["class"], case["inf"]["kind"])
        dist[key] = dist.get(key, 0) + 1
        d = []
        if "error" in r:
            d = [{"what": "rockit raised on a grid='inf' constraint", "error": r["error"], "trace": r.get("trace")}]
        else:
            for p, rp in enumerate(r["res"]):
                if rp["bstar"] is None:
                    d = [{"what": "no NLP row was generated for the grid='inf' constraint"}]
                    break
                if abs(rp["bstar"]) > engine.BIG or not math.isfinite(rp["fine_max"]) or not math.isfinite(rp["fine_min"]) \
                        or max(abs(rp["fine_max"]), abs(rp["fine_min"])) > engine.BIG:
                    continue      # overflow: rows of magnitude > 1e7 absorb the unit change of the bound that identifies them
                lower = bool(case["inf"].get("lower"))
                ext = rp["fine_min"] if lower else rp["fine_max"]
                tol = 1e-8 * (1 + abs(rp["bstar"]) + abs(ext))
                if case["inf"]["kind"] not in ("infder", "dermix") and ((ext < rp["bstar"] - tol) if lower else (ext > rp["bstar"] + tol)):
                    d = [{"what": "the generated rows hold (tightly) at this decision point, yet the refined sample of the "
                                  "constrained expression crosses the bound between grid points",
                          "bound": rp["bstar"], "extreme_of_refined_sample": ext, "lower_bound": lower, "point": p}]
                    break
                if case["inf"]["kind"] != "affine" and "bern" in rp:
                    bc = rp["bern"]
                    if any((not math.isfinite(v)) or abs(v) > 1e4 for v in bc + rp["coeffs"]):
                        continue
                    if len(bc) != len(rp["coeffs"]) or not all(engine.close(a, b, rtol=1e-6, scale=abs(b) + max(map(abs, bc))) for a, b in zip(rp["coeffs"], bc)):
                        d = [{"what": "rows of the grid='inf' constraint are not the Bernstein coefficients (product degree per step) of the "
                                      "constrained expression's step polynomials", "n_rockit": len(rp["coeffs"]), "n_expected": len(bc),
                              "rockit": rp["coeffs"][:9], "expected": bc[:9]}]
                        break
                for mvx, label in ((mv, "Mech/Bern.v (BSpline operator algebra)"), (mva, "Mech/Inf.v (affine relay)")):
                    if i not in mvx:
                        continue
                    # model rows are  coefficient - bound  (upper) or  bound - coefficient  (lower) with bound = 0
                    mc = sorted((-v[2] if lower else v[2]) for v in mvx[i][p])
                    if any((not math.isfinite(v)) or abs(v) > 1e6 for v in mc + rp["coeffs"]):
                        continue
                    big = max([abs(v) for v in mc] + [1e-300])
                    if len(mc) != len(rp["coeffs"]) or not all(engine.close(a, b, rtol=1e-7, scale=abs(b) + 1e-2 * big) for a, b in zip(rp["coeffs"], mc)):
                        d = [{"what": "rows of the grid='inf' constraint differ from the Bernstein coefficients of the model " + label,
                              "n_rockit": len(rp["coeffs"]), "n_model": len(mc), "rockit": rp["coeffs"][:13], "model": mc[:13]}]
                        break
                if d:
                    break
        if d:
            dis.append({"property": "C15", "what": d, "case": case, "points": pts, "finding_key": None})
        else:
            nontriv.add(sha(case))
    # problems without a degree-4 dense output must be rejected
    rej = []
    for kind, intg, deg in (("MS", "expl_euler", None), ("DC", None, 2), ("SS", "expl_euler", None)):
        c = gen_case(random.Random(seed + len(rej)))
        c["method"].update({"kind": kind, "intg": intg or "rk"})
        if deg:
            c["method"]["degree"] = deg
        rej.append((c, [gen.gen_point(rng, c)]))
    for w, kind in (("sin", "MS"), ("exp", "SS"), ("inv", "DC"), ("sqrt", "MS"), ("time", "MS"), ("time", "SS"), ("time", "DC"), ("step", "MS")):
        c = gen_case(random.Random(seed + 100 + len(rej)))
        c["method"].update({"kind": kind, "intg": "rk"})
        if kind == "DC":
            c["method"]["degree"] = 4
        c["inf"]["wrap"] = w
        rej.append((c, [gen.gen_point(rng, c)]))
    with mp.get_context("fork").Pool(len(rej)) as pool:
        rj = pool.map(worker, rej, chunksize=1)
    for (c, pts), r in zip(rej, rj):
        if "error" not in r:
            dis.append({"property": "C15", "case": c, "points": pts,
                        "finding_key": None,
                        "what": [{"what": "a grid='inf' constraint was accepted although no sufficient condition can be produced "
                                          "(%s)" % (("explicit dependence on time / the step length (the certificate would freeze it at the control node): " if c["inf"].get("wrap") in ("time", "step") else "non-polynomial expression: ") + c["inf"]["wrap"] if c["inf"].get("wrap")
                                                    else "scheme without a degree-4 step polynomial")}]})
    vcfg = [{"n": n, "kind": kd, "method": m} for n in (2, 5) for kd in ("square", "bounds", "der") for m in ("MS", "SS", "DC")]
    with mp.get_context("fork").Pool(min(jobs, len(vcfg))) as pool:
        rv = pool.map(vector_worker, vcfg, chunksize=1)
    for cfg, r in zip(vcfg, rv):
        dist["vector/%s" % cfg["kind"]] = dist.get("vector/%s" % cfg["kind"], 0) + 1
        if r.get("accepted"):
            # the spline algebra of add_inf_constraints is scalar: an accepted vector-valued constraint is not a
            # certificate for all components (n components x 5 or 9 coefficients x 2 steps would be needed)
            dis.append({"property": "C15", "case": dict(cfg, _vector=True), "points": [], "finding_key": None,
                        "what": [{"what": "a grid='inf' constraint with vector-valued states was accepted (the scalar spline algebra "
                                          "constrains the wrong entries)", "nlp_rows": r.get("rows")}]})
    pcfg = [{"pair": pr_, "method": m, "grid": g} for pr_ in (("der_p", "der_v"), ("p", "v"), ("der_p_inert", "der_v_inert"), ("der_p", "v"))
            for m in ("MS", "SS", "DC") for g in ("uniform", "geometric")]
    with mp.get_context("fork").Pool(min(jobs, len(pcfg))) as pool:
        rp = pool.map(pair_worker, pcfg, chunksize=1)
    for cfg, r in zip(pcfg, rp):
        dist["pair/%s+%s" % cfg["pair"]] = dist.get("pair/%s+%s" % cfg["pair"], 0) + 1
        if "error" in r or not r.get("ok"):
            dis.append({"property": "C15", "case": dict(cfg, _pair=True), "points": [], "finding_key": None,
                        "what": [{"what": "two grid='inf' constraints in one stage: the rows are not those of each constraint alone "
                                          "(a constraint lost its own certificate or got another one's)",
                                  "rows_missing": r.get("missing"), "rows_extra": r.get("extra"), "error": r.get("error")}]})
    return {"evaluations": len(items) + len(rej) + len(vcfg) + len(pcfg), "distinct_nontrivial": len(nontriv),
            "rule": "random ODEs with 1-2 scalar states x a grid='inf' constraint (affine, quadratic, product of states, cubic, random polynomial trees, both sides "
                    "state dependent, inf_der of a state alone or mixed with states; upper or lower bound) with a "
                    "parametric bound x {MS, SS with rk, DC degree 4} x N, M x uniform, geometric and free grids x fixed / free T: rows against the "
                    "coefficients of the model (Mech/Bern.v; affine also Mech/Inf.v); at "
                    "decision points where the bound is set to the extreme generated coefficient the refined sample (30 per step) "
                    "must stay on the right side of it; euler / low-degree collocation and non-polynomial expressions (sin, exp, rational, sqrt) must be rejected.  "
                    "distinct by hash of the case",
            "samples": [{"case": items[0][0]}], "disagreements": dis, "distribution": dist, "extra": {}}


def replay(path):
    d = json.load(open(path))
    if d.get("case", {}).get("_vector"):
        r = pair_worker(d["case"]) if d["case"].get("_pair") else vector_worker(d["case"])
        print(json.dumps(r, indent=1))
        return 1 if r.get("accepted") else 0
    r = worker((d["case"], d["points"]))
    print(json.dumps(r, indent=1, default=str)[:3000])
    return 0
