"""C20 — ill-posed specifications are rejected, never silently transcribed."""
import os, json, random, glob, traceback, copy
import multiprocessing as mp
from ..common import VERIF, sha, Fr, jq
from .. import gen, engine, coqrun, cases as CS
from .nlpprop import ASSUMPTIONS as _A

TRUSTED = [
    "Rocq predicate Mech/Illposed.v abstracting the checks rockit performs before solving, tied to /repo by fault injection: "
    "every generated well-posed OCP x every applicable fault of the catalogue x every position x every method; rockit must "
    "raise (at declaration or at solve) before any call of casadi.Opti.solve, and must not raise on the fault-free OCP",
    "casadi.Opti.solve / solve_limited are replaced by counting stubs in the harness process (no NLP is actually solved)",
]
ASSUMPTIONS = ["the abstraction of a specification to the facts the checks look at is computed by the harness from the injected fault"]
OPTS = {"intgs": ["rk", "expl_euler"], "N_max": 3, "M_max": 2, "deg_max": 2, "p_param": 0.9, "p_var": 0.3,
        "p_freeT": 0.2, "p_paramT": 0.0, "nc_min": 1, "nc_max": 2, "no_min": 1, "no_max": 2,
        "grids": ("Uniform",), "nx_max": 3, "nu_max": 1, "p_dae": 0.0}
METHODS = ["MS", "SS", "DC", "Spline"]


def base_case(rng, kind):
    if kind == "Spline":
        # integrator chain x1' = x2, x2' = u (what SplineMethod can represent)
        c = {"states": [{"rows": 1, "cols": 1}, {"rows": 1, "cols": 1}], "controls": [{"rows": 1, "cols": 1}],
             "algebraics": [], "params": [{"rows": 1, "cols": 1, "grid": ""}], "vars": [], "discrete": False,
             "ode": [["s", "x", 1], ["s", "u", 0]], "quad": [], "n_explicit_quad": 0, "alg": [],
             "t0": {"fixed": [0, 1]}, "T": {"fixed": [2, 1]},
             "param_values": {"p": [[1, 1]], "pc": [], "pp": []},
             "constraints": [{"grid": "control", "include_first": True, "include_last": True,
                              "rels": [{"rel": "le", "lhs": ["s", "u", 0], "rhs": ["s", "p", 0]}]},
                             {"grid": "point", "rels": [{"rel": "eq", "lhs": ["at0", ["s", "x", 0]], "rhs": ["c", 0, 1]}]}],
             "objective": [["atf", ["*", ["s", "x", 0], ["s", "x", 0]]]],
             "method": {"kind": "Spline", "N": rng.randint(2, 4), "M": 1, "grid": {"class": "Uniform"}}}
        return c
    c = gen.gen_base(rng, dict(OPTS, methods=[kind]))
    gen.add_constraints(rng, c, dict(OPTS, roots=False, p_offset=0.0))
    gen.add_objective(rng, c, OPTS)
    return c


def faults_for(case):
    kind = case["method"]["kind"]
    out = []
    for i in range(len(case["states"])):
        out.append({"fault": "missing_rule", "pos": i})
    for i in range(len([d for d in case["params"]])):
        out.append({"fault": "missing_value", "pos": i})
    if len(case["states"]) >= 2 and not case.get("discrete") and kind in ("MS", "SS", "DC"):
        # a state without a rule while der() of ANOTHER state is requested (a der() call must not "complete" the model)
        for i in range(len(case["states"])):
            out.append({"fault": "missing_rule_der_probe", "pos": i})
    out += [{"fault": f} for f in ("no_method", "no_solver", "signal_objective", "nonscalar_objective",
                                   "set_value_nonparam", "set_initial_param", "set_initial_unknown",
                                   "bad_grid_constraint", "bad_grid_sample", "foreign_symbol_constraint",
                                   "foreign_symbol_ode", "constant_false", "horizon_in_ode", "set_value_variable",
                                   "bad_grid_integral", "bad_grid_sum", "bad_grid_variable", "bad_grid_parameter",
                                   "constant_false_two_sided")]
    if case.get("discrete"):
        out += [{"fault": "set_next_nonstate"}, {"fault": "discrete_alg"}]
    if "fixed" in case.get("T", {}) and "fixed" in case.get("t0", {}):
        # constraints on the (fixed) horizon symbols that are false: constant only after placeholder substitution
        out += [{"fault": "horizon_false_T"}, {"fault": "horizon_false_tf"}, {"fault": "horizon_false_t"}]
    if kind in ("MS", "SS", "DC"):
        # two stages cloned from a template with a parameter; only one clone (or only the template) gets a value
        out += [{"fault": "missing_value_clone", "which": w} for w in ("second", "first", "template_only_ok")]
    if kind in ("MS", "SS", "DC"):
        # a state declared without a rule AFTER a first solve
        out += [{"fault": "late_state_no_rule", "which": w} for w in ("state", "quad")]
    if kind in ("MS", "SS", "DC"):
        # a sub-stage with dynamics but without a method under a parent that has one: nothing may be inherited silently
        out += [{"fault": "substage_no_method", "which": w} for w in ("parent_with_dynamics", "bare_parent", "second_of_two")]
    if kind in ("MS", "SS", "DC"):
        # a constraint on the (method-less) master that depends on the master's time: it cannot be placed
        out += [{"fault": "master_path_constraint"}]
    if kind == "Spline":
        out += [{"fault": "roots_shooting"}]
    if kind in ("MS", "SS"):
        out += [{"fault": "alg_explicit"}, {"fault": "roots_shooting"}, {"fault": "alg_eq_no_var"}]
    if kind == "Spline":
        out += [{"fault": "spline_nonlinear"}, {"fault": "spline_time_varying"}, {"fault": "spline_affine_number"},
                {"fault": "spline_affine_parameter"}, {"fault": "spline_state_without_chain"}]
    return out


def ispec_coq(case, f):
    """abstraction of (case + fault) to the facts Mech/Illposed.v looks at"""
    kind = case["method"]["kind"]
    ns, npar = len(case["states"]), len(case["params"])
    b = lambda l: "[" + "; ".join("true" if x else "false" for x in l) + "]"
    fl = f.get("fault") if f else None
    rule = [not (fl in ("missing_rule", "missing_rule_der_probe") and f["pos"] == i) for i in range(ns)] + ([False] if fl == "late_state_no_rule" else [])
    val = [not (fl == "missing_value" and f["pos"] == i) for i in range(npar)]
    if fl == "missing_value_clone":
        # the multi-stage OCP has one parameter instance per clone
        val = {"second": [True, False], "first": [False, True], "template_only_ok": [True, True]}[f["which"]]
    meth = "None" if fl in ("no_method", "substage_no_method") else "(Some %s)" % {"MS": "KMS", "SS": "KSS", "DC": "KDC", "Spline": "KSpline"}[kind]
    nobj = len(case["objective"])
    nalg = len(case.get("alg", [])) + (1 if fl in ("alg_explicit", "alg_eq_no_var", "discrete_alg") else 0)
    return "(mkI %s %s true %s %s %s %s %s %s %s %s %s %d%%nat %s %s %d%%nat %s)" % (
        b(rule), b(val), meth, "false" if fl == "no_solver" else "true",
        b([True] * nobj + ([False] if fl == "signal_objective" else [])),
        b([True] * nobj + ([False] if fl == "nonscalar_objective" else [])),
        b([False] if fl in ("set_value_nonparam", "set_value_variable") else []),
        b([False] if fl in ("set_initial_param", "set_initial_unknown") else []),
        b([True] + ([False] if fl in ("bad_grid_constraint", "bad_grid_sample", "bad_grid_integral", "bad_grid_sum",
                                       "bad_grid_variable", "bad_grid_parameter", "master_path_constraint") else [])),
        b([True] + ([False] if fl in ("foreign_symbol_constraint", "foreign_symbol_ode", "set_next_nonstate") else [])),
        b([True] + ([False] if fl in ("constant_false", "horizon_false_T", "horizon_false_tf", "horizon_false_t", "constant_false_two_sided") else [])),
        nalg, "true" if kind in ("MS", "SS") else "false",
        "false" if fl == "horizon_in_ode" else "true",
        1 if fl == "roots_shooting" else 0,
        "false" if fl in ("spline_nonlinear", "spline_time_varying", "spline_affine_number", "spline_affine_parameter",
                           "spline_state_without_chain") else "true")


def worker(args):
    case, f = args
    from ..common import setup_rockit_path
    rockit = setup_rockit_path()
    import io, contextlib
    import casadi as ca
    calls = {"n": 0}
    o_solve, o_lim = ca.Opti.solve, ca.Opti.solve_limited

    class Reached(Exception):
        pass

    def stub(self, *a, **k):
        calls["n"] += 1
        raise Reached()
    ca.Opti.solve = stub
    ca.Opti.solve_limited = stub
    out = {"phase": None}
    fl = f.get("fault") if f else None
    try:
        with contextlib.redirect_stdout(io.StringIO()), contextlib.redirect_stderr(io.StringIO()):
            try:
                c = copy.deepcopy(case)
                if fl in ("alg_explicit", "discrete_alg"):
                    c["algebraics"] = [{"rows": 1, "cols": 1}]
                    c["alg"] = [["-", ["s", "z", 0], ["s", "x", 0]]]
                if fl == "roots_shooting":
                    c["constraints"].append({"grid": "integrator_roots", "include_first": True, "include_last": True,
                                             "rels": [{"rel": "le", "lhs": ["s", "x", 0], "rhs": ["c", 5, 1]}]})
                if fl == "horizon_in_ode":
                    c["ode"][0] = ["+", c["ode"][0], ["s", "T"]]
                if fl == "spline_nonlinear":
                    c["ode"][1] = ["*", ["s", "u", 0], ["s", "x", 0]]
                if fl == "spline_time_varying":
                    c["ode"][1] = ["+", ["s", "u", 0], ["s", "t"]]
                if fl == "spline_affine_number":
                    c["ode"][0] = ["+", ["s", "x", 1], ["c", 1, 1]]
                if fl == "spline_affine_parameter":
                    c["ode"][0] = ["+", ["s", "x", 1], ["s", "p", 0]]
                if fl == "spline_state_without_chain":
                    c["states"] = c["states"] + [{"rows": 1, "cols": 1}]
                    c["ode"] = c["ode"] + [["c", 0, 1]]
                c["_fault"] = f
                out["phase"] = "declaration"
                if fl == "master_path_constraint":
                    ocp = rockit.Ocp(t0=0, T=1)
                    st = ocp.stage(t0=0, T=1)
                    x_ = st.state(); u_ = st.control()
                    st.set_der(x_, u_)
                    st.add_objective(st.integral(u_ ** 2) - st.at_tf(x_))
                    st.subject_to(st.at_t0(x_) == 0)
                    st.method(CS.make_method(dict(c["method"], grid={"class": "Uniform"}), rockit, c))
                    ocp.subject_to(st.at_tf(x_) <= 3 - ocp.t)
                    ocp.solver("ipopt", {"ipopt.print_level": 0, "print_time": False})
                    out["phase"] = "solve"
                    ocp.solve()
                    out["raised"] = False
                    raise Reached()
                if fl == "late_state_no_rule":
                    # a well-posed OCP is solved; then a state is declared without a rule and solved again: the second solve
                    # must refuse (the declaration is ill-posed whatever was transcribed before)
                    B = build_with_fault(c, rockit, {})
                    out["phase"] = "first solve"
                    try:
                        B.ocp.solve()
                    except Reached:
                        pass              # the well-posed OCP reached the solver (stubbed): it is transcribed now
                    calls["n"] = 0
                    out["phase"] = "declaration"
                    if f["which"] == "quad":
                        B.ocp.state(quad=True)
                    else:
                        B.ocp.state()
                    out["phase"] = "solve"
                    B.ocp.solve()
                    out["raised"] = False
                    raise Reached()
                if fl == "substage_no_method":
                    # the parent stage has a method (and dynamics of its own in one variant), a sub-stage with dynamics has none
                    ocp = rockit.Ocp(t0=0, T=1)
                    if f["which"] != "bare_parent":
                        y_ = ocp.state(); w_ = ocp.control()
                        ocp.set_der(y_, w_)
                        ocp.add_objective(ocp.integral(w_ ** 2))
                        ocp.subject_to(ocp.at_t0(y_) == 0)
                    ocp.method(CS.make_method(dict(c["method"], grid={"class": "Uniform"}), rockit, c))
                    sts = []
                    for q in range(2 if f["which"] == "second_of_two" else 1):
                        st = ocp.stage(t0=q, T=1)
                        x_ = st.state(); u_ = st.control()
                        st.set_der(x_, u_)
                        st.add_objective(st.integral(u_ ** 2) - st.at_tf(x_))
                        st.subject_to(st.at_t0(x_) == 0)
                        sts.append(st)
                    if f["which"] == "second_of_two":
                        sts[0].method(CS.make_method(dict(c["method"], grid={"class": "Uniform"}), rockit, c))
                    ocp.solver("ipopt", {"ipopt.print_level": 0, "print_time": False})
                    out["phase"] = "solve"
                    ocp.solve()
                    out["raised"] = False
                    raise Reached()
                if fl == "missing_value_clone":
                    ocp = rockit.Ocp()
                    tpl = rockit.Stage(T=1)
                    x_ = tpl.state(); u_ = tpl.control(); q_ = tpl.parameter()
                    tpl.set_der(x_, u_ * q_)
                    tpl.add_objective(tpl.integral(u_ ** 2) + tpl.at_tf(x_) ** 2)
                    tpl.subject_to(tpl.at_t0(x_) == 1)
                    tpl.method(CS.make_method(dict(c["method"], grid={"class": "Uniform"}), rockit, c))
                    if f["which"] == "template_only_ok":
                        tpl.set_value(q_, 2.0)          # a value on the template is inherited by every clone
                    s1 = ocp.stage(tpl, t0=0)
                    s2 = ocp.stage(tpl, t0=1)
                    if f["which"] == "second":
                        s1.set_value(q_, 0.5)
                    elif f["which"] == "first":
                        s2.set_value(q_, 0.5)
                    ocp.solver("ipopt", {"ipopt.print_level": 0, "print_time": False})
                    out["phase"] = "solve"
                    ocp.solve()
                    out["raised"] = False
                    raise Reached()
                B = build_with_fault(c, rockit, f)
                out["phase"] = "solve"
                if fl == "bad_grid_sample":
                    B.ocp.sample(B.S["x"][0], grid="foo")
                B.ocp.solve()
                out["raised"] = False
            except Reached:
                out["raised"] = False
                out["reached_solver"] = True
            except Exception as e:
                out["raised"] = True
                out["error"] = "%s: %s" % (type(e).__name__, str(e)[:200])
    finally:
        ca.Opti.solve, ca.Opti.solve_limited = o_solve, o_lim
    out["solver_calls"] = calls["n"]
    return out


def build_with_fault(c, rockit, f):
    """build_rockit with the declaration-level faults injected"""
    import casadi as ca
    fl = f.get("fault") if f else None
    skip_der = f["pos"] if fl in ("missing_rule", "missing_rule_der_probe") else None
    skip_val = f["pos"] if fl == "missing_value" else None
    # use the normal builder, intercepting set_der / set_value by position
    orig_state, orig_param = rockit.Ocp.set_der, rockit.Ocp.set_value
    if c.get("discrete"):
        orig_state = rockit.Ocp.set_next
    cnt = {"der": 0, "val": 0}

    def set_der(self, st, rhs, *a, **k):
        i = cnt["der"]; cnt["der"] += 1
        if i == skip_der:
            return
        return orig_state(self, st, rhs, *a, **k)

    def set_value(self, p, v):
        i = cnt["val"]; cnt["val"] += 1
        if i == skip_val:
            return
        return orig_param(self, p, v)
    if c.get("discrete"):
        rockit.Ocp.set_next = set_der
    else:
        rockit.Ocp.set_der = set_der
    rockit.Ocp.set_value = set_value
    try:
        B = CS.build_rockit(c, rockit, with_method=(fl != "no_method"), with_solver=(fl != "no_solver"))
    finally:
        rockit.Ocp.set_der = orig_state if not c.get("discrete") else rockit.Ocp.set_der
        if c.get("discrete"):
            rockit.Ocp.set_next = orig_state
        rockit.Ocp.set_value = orig_param
    ocp = B.ocp
    x0 = B.S["x"][0]
    if fl == "signal_objective":
        ocp.add_objective(x0)
    elif fl == "nonscalar_objective":
        ocp.add_objective(ca.vertcat(ocp.at_tf(x0), ocp.at_t0(x0)))
    elif fl == "missing_rule_der_probe":
        xs = B.S["x"]
        ocp.subject_to(ocp.der(xs[(f["pos"] + 1) % len(xs)]) <= 1000)
    elif fl == "set_value_nonparam":
        ocp.set_value(B.objs["x"][0], 1)
    elif fl == "set_initial_param":
        ocp.set_initial(B.objs["p"][0], 1) if B.objs["p"] else ocp.set_initial(ca.MX.sym("nope"), 1)
    elif fl == "set_initial_unknown":
        ocp.set_initial(ca.MX.sym("stranger"), 1)
    elif fl == "bad_grid_constraint":
        ocp.subject_to(x0 <= 100, grid="foo")
    elif fl == "foreign_symbol_constraint":
        ocp.subject_to(x0 + ca.MX.sym("alien") <= 100)
    elif fl == "constant_false":
        ocp.subject_to(ca.MX(2) <= ca.MX(1))
    elif fl == "set_value_variable":
        v_ = B.objs["v"][0] if B.objs["v"] else ocp.variable()
        ocp.set_value(v_, 1)
    elif fl == "set_next_nonstate":
        # an update rule for something that is not a state (discrete-time cases only)
        ocp.set_next(B.objs["u"][0] if B.objs["u"] else ca.MX.sym("stranger"), 1)
    elif fl == "constant_false_two_sided":
        ocp.subject_to(-1 <= (ca.MX(3) <= 2))
    elif fl == "bad_grid_integral":
        ocp.add_objective(ocp.integral(x0 ** 2, grid="foo"))
    elif fl == "bad_grid_sum":
        ocp.add_objective(ocp.sum(x0 ** 2, grid="foo"))
    elif fl == "bad_grid_variable":
        w_ = ocp.variable(grid="foo")
        ocp.add_objective(ocp.at_tf(x0) * w_ if False else w_ ** 2)
    elif fl == "bad_grid_parameter":
        q_ = ocp.parameter(grid="foo")
        ocp.set_value(q_, 1)
        ocp.add_objective(q_ * ocp.at_tf(x0))
    elif fl == "alg_eq_no_var":
        # an algebraic equation without any algebraic variable, with an explicit scheme
        ocp.add_alg(x0 - 5)
    elif fl == "horizon_false_T":
        ocp.subject_to(ocp.T >= float(Fr(c["T"]["fixed"])) + 4)
    elif fl == "horizon_false_tf":
        ocp.subject_to(ocp.tf <= float(Fr(c["t0"]["fixed"])) - 1)
    elif fl == "horizon_false_t":
        ocp.subject_to(ocp.at_tf(ocp.t) <= float(Fr(c["t0"]["fixed"])) - 1)
    return B


def model_accepts(items):
    body = "".join("Eval vm_compute in (accepts %s).\n" % ispec_coq(c, f) for c, f in items)
    hdr = coqrun.HEADER + "From RV Require Import Mech.Illposed.\n"
    return coqrun.run_shards("C20", [body], header=hdr)[0]


def run(tier="quick", seed=0, jobs=16):
    rng = random.Random(seed * 1000003 + 2020)
    nbase = 3 if tier == "quick" else 12
    items = []
    for kind in METHODS:
        for _ in range(nbase):
            c = base_case(rng, kind)
            if not c["params"]:
                c["params"] = [{"rows": 1, "cols": 1, "grid": ""}]
                c["param_values"]["p"] = [[1, 1]]
            items.append((c, {}))
            for f in faults_for(c):
                if f["fault"] == "foreign_symbol_ode":
                    continue
                items.append((c, f))
    with mp.get_context("fork").Pool(min(jobs, len(items))) as pool:
        rr = pool.map(worker, items, chunksize=2)
    acc = model_accepts(items)
    dis, nontriv, dist = [], set(), {}
    for (c, f), r, a in zip(items, rr, acc):
        key = "%s/%s" % (c["method"]["kind"], f.get("fault", "none"))
        dist[key] = dist.get(key, 0) + 1
        d = []
        if bool(a) and r.get("raised"):
            d = [{"what": "rockit raised on a specification the model accepts (fault-free OCP)", "error": r.get("error")}]
        if not bool(a) and not r.get("raised"):
            d = [{"what": "ill-posed specification was not rejected: no exception at declaration or at solve",
                  "fault": f, "reached_solver": r.get("reached_solver", False)}]
        if not bool(a) and r.get("solver_calls", 0) > 0:
            d = [{"what": "an NLP of an ill-posed specification was handed to the solver", "fault": f}]
        if d:
            dis.append({"property": "C20", "what": d, "case": dict(c, _fault=f), "points": [],
                        "finding_key": "F65-two-sided-constant-false-dropped" if f.get("fault") == "constant_false_two_sided" else None})
        else:
            nontriv.add(sha([c, f]))
    return {"evaluations": len(items), "distinct_nontrivial": len(nontriv),
            "rule": "for each method in {MS, SS, DC, SplineMethod}: generated well-posed OCPs, each alone (must reach the "
                    "solver without raising) and with every applicable single fault of the catalogue at every position "
                    "(missing set_der/set_next per state, missing value per parameter, no method, no solver, signal / "
                    "non-scalar objective, set_value on a non-parameter or on a variable, set_initial on a parameter / unknown symbol, unknown "
                    "grid in subject_to / sample, foreign symbol, constant-false constraint (literal, or false only after the fixed horizon is substituted), horizon symbol in the ODE, "
                    "algebraic equation with an explicit scheme, integrator_roots constraint under shooting, nonlinear / "
                    "time-varying dynamics under SplineMethod): rockit raises iff Mech/Illposed.accepts is false, and "
                    "casadi.Opti.solve is never reached for a rejected specification.  distinct by hash of (case, fault)",
            "samples": [{"fault": items[1][1], "method": items[1][0]["method"]}], "disagreements": dis,
            "distribution": dist, "extra": {"exhaustive_over_catalogue": True}}


def replay(path):
    d = json.load(open(path))
    c = d["case"]
    f = c.pop("_fault", {})
    r = worker((c, f))
    print(json.dumps(r, indent=1))
    return 0 if r.get("raised") == bool(f) else 1
