"""C13 — the transcription depends only on the final specification, not on its history."""
import os, json, math, random, glob, traceback, copy
import multiprocessing as mp
import numpy as np
from fractions import Fraction
from ..common import VERIF, sha, Fr, jq, dyadic
from .. import gen, engine, coqrun, cases as CS
from .nlpprop import ASSUMPTIONS
from . import c10

TRUSTED = [
    "one third of the histories run on a sub-stage hosted by a master Ocp (edits on the stage, queries on the master)",
    "generic Rocq state machine Mech/History.v (specification, flag, cached NLP) with its invariant; tied to /repo by "
    "(a) the transcription flag ocp.is_transcribed after every operation of generated histories and (b) the NLP of the "
    "evolved OCP against the NLP of a freshly written OCP with the final specification (both transcribed by rockit)",
    "CasADi Opti; IPOPT only as the target of solve_limited with max_iter 1",
]
OPTS = {"methods": ["MS", "SS", "DC"], "intgs": ["rk", "expl_euler"], "N_max": 3, "M_max": 2, "deg_max": 2,
        "p_param": 0.7, "p_var": 0.3, "p_freeT": 0.2, "p_paramT": 0.0, "nc_min": 1, "nc_max": 2,
        "no_min": 1, "no_max": 2, "grids": ("Uniform", "Geometric"), "nx_max": 2, "nu_max": 1}
SOLVER0 = ["ipopt", {"ipopt.print_level": 0, "print_time": False, "ipopt.sb": "yes", "ipopt.max_iter": 1}]


def scalar_param_slots(c):
    out, off = [], 0
    for d in c.get("params", []):
        if d.get("grid", "") == "":
            n = d["rows"] * d["cols"]
            if n == 1:
                out.append(off)
            off += n
    return out


def global_param_decls(c):
    """(first slot, size) of every global parameter declaration, in declaration order"""
    out, off = [], 0
    for d in c.get("params", []):
        if d.get("grid", "") == "":
            n = d["rows"] * d["cols"]
            out.append((off, n))
            off += n
    return out


def gen_history(rng, case, maxlen):
    ops = []
    c = copy.deepcopy(case)   # running final specification
    N = c["method"]["N"]
    nsteps = rng.randint(2, maxlen)
    npre = rng.choice([0, 1, 2, nsteps - 1, nsteps - 1])      # often the last operations: no later edit re-transcribes
    ncat = rng.choice([0, 1, nsteps - 1, nsteps])
    for step in range(nsteps):
        r = rng.random()
        gvs0 = [o_ for o_ in c10.objects(c) if o_["g"] == "GV" and o_["len"] == 1]
        objs0 = [o_ for o_ in c10.objects(c) if o_["g"] in (("GU",) if c["method"]["kind"] == "SS" else ("GX", "GU")) and o_["len"] == 1]
        if step == npre and gvs0 and objs0 and rng.random() < 0.6:
            # a guess that mentions a global variable, a query, then a new guess for that variable
            gv, o = rng.choice(gvs0), rng.choice(objs0)
            call = {"obj": [o["kind"], o["idx"]], "g": o["g"], "slot": o["slot"], "len": 1, "form": "dep",
                    "coef": jq(gen.dyadic_nz(rng, -2, 2, 1)), "var": [gv["kind"], gv["idx"]], "after": False}
            call2 = {"obj": [gv["kind"], gv["idx"]], "g": "GV", "slot": gv["slot"], "len": 1, "form": "const",
                     "value": jq(dyadic(rng, -3, 3, 2)), "after": False}
            ops += [["set_initial", call], [rng.choice(["sample", "solve", "value"])], ["set_initial", call2]]
            c.setdefault("calls", []).extend([call, call2])
            continue
        ctl = c.get("controls", [])
        same = [(a_, b_) for a_ in range(len(ctl)) for b_ in range(len(ctl)) if a_ < b_ and ctl[a_] == ctl[b_] and ctl[a_].get("cols", 1) == 1]
        if step == npre and same and not c.get("discrete") and rng.random() < 0.9:
            # a rule re-declared after a query with two same-shaped controls exchanged (rockit names every control 'u': the printed
            # rule is unchanged, the rule is not)
            from ..cases import nslots
            a_, b_ = rng.choice(same)
            sa, sb, nn = nslots(ctl[:a_]), nslots(ctl[:b_]), nslots([ctl[a_]])

            def swap(e):
                if not isinstance(e, list):
                    return e
                if e[0] == "s" and e[1] == "u" and len(e) > 2:
                    if sa <= e[2] < sa + nn:
                        return ["s", "u", e[2] - sa + sb]
                    if sb <= e[2] < sb + nn:
                        return ["s", "u", e[2] - sb + sa]
                    return e
                return [swap(x_) if isinstance(x_, list) else x_ for x_ in e]
            j = rng.randrange(len(c["states"]))
            off = nslots(c["states"][:j]); nj = nslots([c["states"][j]])
            new = [swap(e_) for e_ in c["ode"][off:off + nj]]
            if new != c["ode"][off:off + nj] and c["states"][j].get("cols", 1) == 1:
                ops += [[rng.choice(["sample", "solve", "value"])], ["set_der", j, new]]
                c["ode"] = c["ode"][:off] + new + c["ode"][off + nj:]
                continue
        if step == npre and "free" in c.get("T", {}) and rng.random() < 0.6:
            # a new guess for the free horizon given to a transcribed (solved) OCP
            v = jq(rng.choice([1, 2, Fraction(3, 2), Fraction(5, 2)]))
            ops += [[rng.choice(["solve", "sample", "solve"])], ["set_initial_T", v]]
            c["T"] = {"free": v}
            continue
        if step == npre and objs0 and scalar_param_slots(c) and rng.random() < 0.5:
            # a query first (no guess mentions a parameter yet), then a guess that is an expression of a global
            # parameter given to the transcribed OCP, then a new value for that parameter: the start point follows
            o = rng.choice(objs0)
            tp = c.get("T", {}).get("param")
            sl = [i_ for i_ in scalar_param_slots(c) if i_ != tp]
            if sl:
                i = rng.choice(sl)
                call = {"obj": [o["kind"], o["idx"]], "g": o["g"], "slot": o["slot"], "len": 1, "form": "pdep",
                        "coef": jq(gen.dyadic_nz(rng, -2, 2, 1)), "pslot": i, "after": False}
                v = jq(gen.dyadic_nz(rng, -2, 2, 2))
                pre_ = [[rng.choice(["sample", "solve", "value"])]]
                if rng.random() < 0.5:
                    # a value for the parameter is given to the transcribed OCP BEFORE any guess mentions it
                    pre_.append(["set_value", i, jq(gen.dyadic_nz(rng, -2, 2, 2))])
                ops += pre_ + [["set_initial", call], ["set_value", i, v]]
                if rng.random() < 0.5:
                    ops.append([rng.choice(["sample", "solve", "value"])])
                    v = jq(gen.dyadic_nz(rng, -2, 2, 2))
                    ops.append(["set_value", i, v])
                c["param_values"]["p"][i] = v
                c.setdefault("calls", []).append(call)
                continue
        zs0 = [o_ for o_ in c10.objects(c) if o_["g"] == "GZ"] if c["method"]["kind"] == "DC" else []
        xs0 = [o_ for o_ in c10.objects(c) if o_["g"] in ("GX", "GU")]
        if step == npre and zs0 and xs0 and rng.random() < 0.6:
            # a guess for an algebraic variable, a query, a guess for something else given to the transcribed OCP,
            # and an edit that leads to a new transcription: the stored guesses must all survive
            oz, ox = rng.choice(zs0), rng.choice(xs0)
            cz = {"obj": [oz["kind"], oz["idx"]], "g": "GZ", "slot": oz["slot"], "len": oz["len"], "form": "const",
                  "value": jq(gen.dyadic_nz(rng, -3, 3, 2)), "after": False}
            cx = {"obj": [ox["kind"], ox["idx"]], "g": ox["g"], "slot": ox["slot"], "len": ox["len"], "form": "const",
                  "value": jq(dyadic(rng, -3, 3, 2)), "after": False}
            sv = ["ipopt", {"ipopt.print_level": 0, "print_time": False, "ipopt.sb": "yes",
                            "ipopt.max_iter": rng.choice([1, 2, 3]), "ipopt.tol": rng.choice([1e-6, 1e-4])}]
            ops += [["set_initial", cz], [rng.choice(["sample", "solve", "value"])], ["set_initial", cx], ["solver", sv]]
            c.setdefault("calls", []).extend([cz, cx])
            c["solver"] = sv
            continue
        if r < 0.25:
            # 'sol_sample': a query on the solution object of an earlier solve (not an operation on the OCP: the
            # next solve must honour the edits made since, whether or not the old solution can still be read)
            ops.append([rng.choice(["sample", "value", "jacobian", "solve", "sample", "solve", "sol_sample", "sol_sample"])])
        elif (r < 0.30 or step == ncat) and len(global_param_decls(c)) >= 2:
            # two global parameters set through one concatenated symbol
            if step == ncat:
                ops.append([rng.choice(["sample", "solve", "value"])])      # given to the transcribed OCP ...
            gd = global_param_decls(c)
            i, j = rng.sample(range(len(gd)), 2)
            vals = [jq(dyadic(rng, -2, 2, 2)) for _ in range(gd[i][1] + gd[j][1])]
            # the horizon parameter (if any) keeps a positive value
            tp = c.get("T", {}).get("param")
            off = 0
            for (slot, n) in (gd[i], gd[j]):
                for q in range(n):
                    if tp is not None and slot + q == tp:
                        vals[off + q] = jq(rng.choice([1, 2, Fraction(3, 2)]))
                    c["param_values"]["p"][slot + q] = vals[off + q]
                off += n
            ops.append(["set_value_cat", i, j, vals])
            if step == ncat:
                # ... and followed by an edit that leads to a new transcription: the values must survive it
                sv = ["ipopt", {"ipopt.print_level": 0, "print_time": False, "ipopt.sb": "yes",
                               "ipopt.max_iter": rng.choice([1, 2, 3]), "ipopt.tol": rng.choice([1e-6, 1e-4])}]
                ops.append(["solver", sv])
                c["solver"] = sv
        elif r < 0.33 and "free" in c.get("T", {}):
            v = jq(rng.choice([1, 2, Fraction(3, 2), Fraction(5, 2)]))
            ops.append(["set_initial_T", v])
            c["T"] = {"free": v}
        elif r < 0.40 and scalar_param_slots(c):
            i = rng.choice(scalar_param_slots(c))
            v = jq(dyadic(rng, -2, 2, 2))
            if rng.random() < 0.4 and c.get("T", {}).get("param") != i:
                # the value is handed over in ONE numpy array that the user keeps and updates in place (an MPC loop):
                # first call, a query, the buffer overwritten, the same object passed again
                v0 = jq(dyadic(rng, -2, 2, 2))
                ops += [["set_value_np", i, v0], [rng.choice(["sample", "solve", "value"])], ["set_value_np", i, v]]
            else:
                ops.append(["set_value", i, v])
            c["param_values"]["p"][i] = v
        elif r < 0.52:
            con = gen.gen_point_constraint(rng, c, {"p_cscale": 0}) if rng.random() < 0.3 else gen.gen_path_constraint(rng, c, {"p_offset": 0.2, "roots": False, "p_cscale": 0.2})
            ops.append(["subject_to", con])
            c["constraints"].append(con)
        elif r < 0.57:
            ops.append(["clear_constraints"])
            c["constraints"] = []
        elif r < 0.67:
            t = gen.pterm(rng, c, {"intc": False})
            ops.append(["add_objective", t])
            c["objective"].append(t)
        elif r < 0.75:
            m = copy.deepcopy(c["method"])
            m["N"] = rng.randint(1, 3)
            m["M"] = rng.randint(1, 2)
            if m["kind"] != "DC" and not c.get("algebraics"):
                m["kind"] = rng.choice(["MS", "SS"])
                m["intg"] = rng.choice(["rk", "expl_euler"])
            if m["N"] != c["method"]["N"] and (c["param_values"]["pc"] and c["param_values"]["pc"][0] or c["param_values"]["pp"] and c["param_values"]["pp"][0]):
                m["N"] = c["method"]["N"]     # per-interval parameter values are declared for this N
            if m.get("grid", {}).get("class") == "Function":
                m["grid"] = {"class": "Uniform"}
            ops.append(["method", m])
            c["method"] = m
            if rng.random() < 0.5:
                # the user goes on modifying the method object they passed: the OCP holds its own copy
                ops.append(["poke_method"])
        elif r < 0.82:
            s = ["ipopt", {"ipopt.print_level": 0, "print_time": False, "ipopt.sb": "yes",
                           "ipopt.max_iter": rng.choice([1, 2, 3]), "ipopt.tol": rng.choice([1e-6, 1e-4])}]
            ops.append(["solver", s])
            c["solver"] = s
        elif r < 0.88 and "fixed" in c.get("T", {}):
            v = jq(rng.choice([1, 2, Fraction(3, 2), Fraction(5, 2)]))
            ops.append(["set_T", v])
            c["T"] = {"fixed": v}
        elif r < 0.92 and "fixed" in c.get("t0", {}):
            v = jq(dyadic(rng, -1, 2, 1))
            ops.append(["set_t0", v])
            c["t0"] = {"fixed": v}
        else:
            objs = [o for o in c10.objects(c) if o["g"] in ("GX", "GU")]
            if c["method"]["kind"] == "SS":
                objs = [o for o in objs if o["g"] == "GU"] or objs
            if not objs:
                continue
            o = rng.choice(objs)
            call = {"obj": [o["kind"], o["idx"]], "g": o["g"], "slot": o["slot"], "len": o["len"], "form": "const",
                    "value": jq(dyadic(rng, -3, 3, 2)), "after": False}
            # guesses that depend on a global variable, and new guesses for that variable: every stored guess is
            # an expression that the next solve evaluates with the current guesses of the symbols it mentions
            gvs = [o_ for o_ in c10.objects(c) if o_["g"] == "GV" and o_["len"] == 1]
            if gvs and rng.random() < 0.5:
                gv = rng.choice(gvs)
                if rng.random() < 0.5:
                    call = {"obj": [gv["kind"], gv["idx"]], "g": "GV", "slot": gv["slot"], "len": 1, "form": "const",
                            "value": jq(dyadic(rng, -3, 3, 2)), "after": False}
                elif o["len"] == 1:      # (a scalar expression is not broadcast over a vector state by DirectCollocation: raises)
                    call = dict(call, form="dep", coef=jq(gen.dyadic_nz(rng, -2, 2, 1)), var=[gv["kind"], gv["idx"]])
            ops.append(["set_initial", call])
            c.setdefault("calls", []).append(call)
            if call["form"] == "dep" and rng.random() < 0.7:
                # ... and, after a query, a new guess for the variable the stored guess mentions
                ops.append([rng.choice(["sample", "solve", "value"])])
                call2 = {"obj": list(call["var"]), "g": "GV", "slot": gv["slot"], "len": 1, "form": "const",
                         "value": jq(dyadic(rng, -3, 3, 2)), "after": False}
                ops.append(["set_initial", call2])
                c["calls"].append(call2)
    if rng.random() < 0.15:
        # the options are withdrawn: solver('ipopt') without an options argument (last operation: no solve follows)
        ops.append(["solver", ["ipopt"]])
        c["solver"] = ["ipopt", {}]
    return ops, c


def apply_call(B, ocp, call):
    kind, idx = call["obj"]
    if call.get("form") == "pdep":
        ocp.set_initial(B.objs[kind][idx], float(Fr(call["coef"])) * B.S["p"][call["pslot"]])
    elif call.get("form") == "dep":
        vk, vi = call["var"]
        ocp.set_initial(B.objs[kind][idx], float(Fr(call["coef"])) * B.objs[vk][vi])
    else:
        ocp.set_initial(B.objs[kind][idx], float(Fr(call["value"])))


def observe_nlp(B, case, points, rockit):
    from .. import nlp
    ob = nlp.observe(B, case)
    targets = [nlp.flatten_point(ob, pt) for pt in points]
    objs, rows = nlp.rockit_rows(ob, targets)
    init = np.array(ob.Phi(ob.x0, ob.pval)).reshape(-1).tolist() if ob.nx else []
    return {"objs": objs, "rows": [(s, list(map(float, hs))) for s, key, hs in rows], "init": init,
            "pval": sorted(float(v) for v in ob.pval), "opti_id": id(ob.opti)}


def worker(args):
    case0, ops, case_final, points = args
    from ..common import setup_rockit_path
    rockit = setup_rockit_path()
    import io, contextlib
    import casadi as ca
    out = {}
    rec = {}
    orig = ca.Opti.solver

    def spy(self, name, *a):
        rec[id(self)] = (name, dict(a[0]) if a else {})
        return orig(self, name, *a)
    ca.Opti.solver = spy
    try:
        from ..common import time_limit
        with time_limit(120), contextlib.redirect_stdout(io.StringIO()), contextlib.redirect_stderr(io.StringIO()):
            case0 = dict(case0, quad=list(case_final.get("quad", [])))   # integrands of later add_objective calls
            hosted = bool(case0.get("hosted"))

            def build(case):
                # hosted: the OCP under test is a sub-stage of a master Ocp (edits go to the stage,
                # solver / solve / jacobian to the master)
                if hosted:
                    master = rockit.Ocp()
                    Bx = CS.build_rockit(case, rockit, with_solver=False, factory=master.stage)
                    Bx.master = master
                    return Bx, master
                Bx = CS.build_rockit(case, rockit, with_solver=False)
                return Bx, Bx.ocp
            B, master = build(case0)
            ocp = B.ocp
            master.solver(*SOLVER0)
            out["inputs"] = engine.impl_inputs(B, case_final) if False else None
            flags = []
            decl0 = None
            last_sol = None
            for op in ops:
                k = op[0]
                if k == "sample":
                    ocp.sample(B.S["x"][0], grid="control")
                elif k == "value":
                    ocp.value(ocp.T)
                elif k == "jacobian":
                    master.jacobian()
                elif k == "solve":
                    try:
                        last_sol = master.solve_limited()
                    except RuntimeError as e_:
                        if "Solver failed" not in str(e_) and "return_success" not in str(e_):
                            raise
                elif k == "sol_sample":
                    if last_sol is not None:
                        try:
                            (last_sol(ocp) if hosted else last_sol).sample(B.S["x"][0], grid="control")
                        except Exception:
                            pass      # an outdated solution may refuse to be read
                elif k == "set_value":
                    ocp.set_value(B.S["p"][op[1]], float(Fr(op[2])))
                elif k == "set_der":
                    xo = B.objs["x"][op[1]]
                    rhs = ca.vertcat(*[B.ex(e_) for e_ in op[2]])
                    ocp.set_der(xo, ca.reshape(rhs, xo.shape[0], xo.shape[1]))
                elif k == "set_value_np":
                    buf = rec.setdefault("np_buffers", {})
                    if op[1] in buf:
                        buf[op[1]][...] = float(Fr(op[2]))          # in place: the same object is passed again
                    else:
                        buf[op[1]] = np.array([float(Fr(op[2]))])
                    ocp.set_value(B.S["p"][op[1]], buf[op[1]])
                elif k == "set_value_cat":
                    gl = [p_ for g_, p_, d_ in B.pdecl if g_ == ""]
                    ocp.set_value(ca.vertcat(gl[op[1]], gl[op[2]]), ca.DM([float(Fr(v)) for v in op[3]]))
                elif k == "set_initial_T":
                    ocp.set_initial(ocp.T, float(Fr(op[1])))
                elif k == "subject_to":
                    con = op[1]
                    sub = dict(case0, constraints=[con], objective=[])
                    # declare through the same builder code path as a fresh OCP
                    pt = con["grid"] == "point"
                    f = B.pex if pt else B.ex
                    kw = {}
                    if not pt:
                        kw = {"grid": con["grid"], "include_first": con.get("include_first", True),
                              "include_last": con.get("include_last", True)}
                    if Fr(con.get("scale", 1)) != 1:
                        kw["scale"] = float(Fr(con["scale"]))
                    expr = CS.constraint_expr(con, f)
                    ocp.subject_to(expr, **kw)
                elif k == "clear_constraints":
                    ocp.clear_constraints()
                elif k == "add_objective":
                    ocp.add_objective(B.pex(op[1]))
                elif k == "method":
                    last_meth = CS.make_method(op[1], rockit, case_final)
                    ocp.method(last_meth)
                elif k == "poke_method":
                    last_meth.N += 2
                    last_meth.M += 1
                elif k == "solver":
                    master.solver(*op[1])
                elif k == "set_T":
                    ocp.set_T(float(Fr(op[1])))
                elif k == "set_t0":
                    ocp.set_t0(float(Fr(op[1])))
                elif k == "set_initial":
                    apply_call(B, ocp, op[1])
                flags.append(bool(ocp.is_transcribed))
            out["flags"] = flags
            decl = {"states": len(ocp.states), "qstates": len(ocp.qstates), "vars": len(ocp.variables[""]),
                    "constraints": sum(len(v) for v in ocp._constraints.values()),
                    "T_is_freetime": type(ocp._T).__name__ == "FreeTime"}
            ev = observe_nlp(B, case_final, points, rockit)
            ev["solver"] = rec.get(ev.pop("opti_id"))
            decl2 = {"states": len(ocp.states), "qstates": len(ocp.qstates), "vars": len(ocp.variables[""]),
                     "constraints": sum(len(v) for v in ocp._constraints.values()),
                     "T_is_freetime": type(ocp._T).__name__ == "FreeTime"}
            ev2 = observe_nlp(B, case_final, points, rockit)      # querying twice changes nothing
            ev2.pop("opti_id")
            out["evolved"], out["evolved_again"] = ev, ev2
            out["decl"] = [decl, decl2]
            # a freshly written OCP with the final specification
            Bf, masterf = build(case_final)
            masterf.solver(*case_final.get("solver", SOLVER0))
            for call in case_final.get("calls", []):
                apply_call(Bf, Bf.ocp, call)
            fr = observe_nlp(Bf, case_final, points, rockit)
            fr["solver"] = rec.get(fr.pop("opti_id"))
            out["fresh"] = fr
            out["fresh_decl"] = {"states": len(Bf.ocp.states), "qstates": len(Bf.ocp.qstates), "vars": len(Bf.ocp.variables[""]),
                                 "constraints": sum(len(v) for v in Bf.ocp._constraints.values()),
                                 "T_is_freetime": type(Bf.ocp._T).__name__ == "FreeTime"}
    except Exception as e:
        out["error"] = "%s: %s" % (type(e).__name__, str(e)[:400])
        out["trace"] = traceback.format_exc()[-1500:]
    finally:
        ca.Opti.solver = orig
    return out


def model_flags(all_ops):
    lines = []
    cls = {"sample": "HQuery unit unit", "value": "HQuery unit unit", "jacobian": "HQuery unit unit", "solve": "HQuery unit unit",
           "set_value": "HUpd unit unit tt", "set_value_np": "HUpd unit unit tt", "set_value_cat": "HUpd unit unit tt", "set_initial": "HUpd unit unit tt"}
    for ops in all_ops:
        o = "[" + "; ".join(cls.get(op[0], "HEdit unit unit tt") for op in ops if op[0] not in ("poke_method", "sol_sample")) + "]"
        lines.append("Eval vm_compute in (flags_of %s).\n" % o)
    hdr = coqrun.HEADER + """From RV Require Import Mech.History.
Definition st := hstep unit unit unit unit (fun s _ => s) (fun s _ => s) (fun s => s) (fun n _ => n).
Fixpoint flags_from (s : hstate unit unit) (ops : list (hop unit unit)) : list bool :=
  match ops with [] => [] | o :: r => h_flag unit unit (st s o) :: flags_from (st s o) r end.
Definition flags_of ops := flags_from (hinit unit unit tt) ops.
"""
    return coqrun.run_shards("C13flags", ["".join(lines)], header=hdr)[0]


def cmp_nlp(a, b, what):
    if engine.pair_unjudgeable(a, b):
        return []
    ua, ub = engine.match_rows_factor(a["rows"], b["rows"])
    objbad = [(x, y) for x, y in zip(a["objs"], b["objs"]) if not engine.close(x, y, scale=abs(y))]
    initbad = len(a["init"]) != len(b["init"]) or any(not engine.close(x, y, scale=abs(y)) for x, y in zip(a["init"], b["init"]))
    pbad = len(a["pval"]) != len(b["pval"]) or any(not engine.close(x, y) for x, y in zip(a["pval"], b["pval"]))
    sbad = ("solver" in a and "solver" in b and a["solver"] != b["solver"])
    if ua or ub or objbad or initbad or pbad or sbad:
        return [{"what": what, "rows_only_first": ua[:3], "rows_only_second": ub[:3], "objective": objbad[:2],
                 "start_point_differs": initbad, "parameter_values_differ": pbad,
                 "solver": [a.get("solver"), b.get("solver")] if sbad else None}]
    return []


def gen_cases(seed, n, maxlen):
    rng = random.Random(seed * 1000003 + 1313)
    out = []
    for i in range(n):
        c = gen.gen_base(rng, OPTS)
        if i % 4 == 1 and c.get("controls") == [{"rows": 1, "cols": 1}] and not c.get("discrete"):
            # a second control of the same shape that enters the first rule (two symbols that rockit both names 'u')
            c["controls"] = c["controls"] + [{"rows": 1, "cols": 1}]
            c["ode"][0] = ["+", c["ode"][0], ["*", gen.C(gen.dyadic_nz(random.Random(seed * 31 + i), -2, 2, 1)), ["s", "u", 1]]]
        gen.add_constraints(rng, c, dict(OPTS, roots=False))
        gen.add_objective(rng, c, OPTS)
        gen.touch_objective(c)
        c["id"] = "C13-%d-%d" % (seed, i)
        if i % 3 == 2:
            c["hosted"] = True      # the OCP is a sub-stage of a master Ocp
        ops, cf = gen_history(rng, c, maxlen)
        pts = [gen.gen_point(rng, cf) for _ in range(2)]
        out.append((c, ops, cf, pts))
    return out


def run_items(items, name, jobs=16):
    with mp.get_context("fork").Pool(min(jobs, max(1, len(items)))) as pool:
        rr = pool.map(worker, items, chunksize=1)
    mflags = model_flags([it[1] for it in items])
    dis, nontriv, dist = [], set(), {}
    for (c0, ops, cf, pts), r, mf in zip(items, rr, mflags):
        for op in ops:
            dist[op[0]] = dist.get(op[0], 0) + 1
        d = []
        if "error" in r:
            if not any(s in r["error"] for s in ("You passed a constant", "never statisfied", "Constraint must contain decision variables", "MX symbol 'offset'")):
                d = [{"what": "rockit raised on a history whose final specification a fresh OCP might transcribe",
                      "error": r["error"], "trace": r.get("trace")}]
        else:
            rflags = [f for f, op in zip(r["flags"], ops) if op[0] not in ("poke_method", "sol_sample")]
            if [bool(x) for x in mf] != rflags:
                d = [{"what": "transcription flag after each operation differs from the lazy-cache automaton",
                      "rockit": rflags, "model": [bool(x) for x in mf], "ops": [o[0] for o in ops]}]
            if not d:
                d = cmp_nlp(r["evolved"], r["fresh"], "NLP / start point / parameter values / solver of the evolved OCP differ from a freshly written OCP with the final specification")
            if not d:
                d = cmp_nlp(r["evolved"], r["evolved_again"], "querying twice changed the NLP")
            if not d and (r["decl"][0] != r["decl"][1] or r["decl"][0] != r["fresh_decl"]):
                d = [{"what": "transcribing altered the declaration (states / quadrature states / variables / constraints / horizon)",
                      "before": r["decl"][0], "after": r["decl"][1], "fresh": r["fresh_decl"]}]
            if not d:
                nontriv.add(sha([c0, ops]))
        if d:
            dis.append({"property": "C13", "what": d[:2], "case": {"initial": c0, "history": ops, "final": cf}, "points": pts,
                        "finding_key": None})
    return dis, nontriv, dist


def late_horizon_worker(cfg):
    """the horizon is a variable (of the stage, or of the master for a sub-stage); its guess is changed after a
    transcription: the starting point must be that of a freshly written OCP with the final guesses (node times of
    localized / free grids, time-dependent state guesses)"""
    from ..common import setup_rockit_path
    rockit = setup_rockit_path()
    import io, contextlib
    import casadi as ca
    out = {}
    try:
        with contextlib.redirect_stdout(io.StringIO()), contextlib.redirect_stderr(io.StringIO()):
            def grid():
                return {"uni_T": rockit.UniformGrid(localize_T=True), "uni_t0": rockit.UniformGrid(localize_t0=True),
                        "geo_T": rockit.GeometricGrid(2, localize_T=True), "free": rockit.FreeGrid(), "plain": rockit.UniformGrid()}[cfg["grid"]]

            def build(history):
                if cfg["hosted"]:
                    ocp = rockit.Ocp()
                    Tv = ocp.variable()
                    st = ocp.stage(t0=1, T=Tv)
                else:
                    ocp = rockit.Ocp(t0=1)
                    Tv = ocp.variable()
                    ocp.set_T(Tv)
                    st = ocp
                x = st.state(); u = st.control()
                st.set_der(x, u)
                st.add_objective(st.integral(u ** 2) + st.at_tf(x) ** 2)
                ocp.subject_to(Tv >= 0.5)
                M_ = rockit.MultipleShooting(N=4, grid=grid()) if cfg["method"] == "MS" else rockit.DirectCollocation(N=4, grid=grid())
                st.method(M_)
                ocp.solver("ipopt", {"ipopt.print_level": 0, "print_time": False})
                st.set_initial(x, st.t)
                if history:
                    ocp.set_initial(Tv, 1.0)
                    st.sample(x, grid="control")          # a query: transcribes
                ocp.set_initial(Tv, 2.0)
                tt, xx = st.sample(x, grid="control")
                return [float(v) for v in np.array(ocp.initial_value(tt)).reshape(-1)], [float(v) for v in np.array(ocp.initial_value(xx)).reshape(-1)]
            out["history"] = build(True)
            out["fresh"] = build(False)
    except Exception as e_:
        out["error"] = "%s: %s" % (type(e_).__name__, str(e_)[:200])
    return out


def run(tier="quick", seed=0, jobs=16):
    n = 70 if tier == "quick" else 700
    items = gen_cases(seed, n, 10 if tier == "quick" else 30)
    dis, nontriv, dist = run_items(items, "C13", jobs)
    lcfg = [{"grid": g, "method": m, "hosted": h} for g in ("uni_T", "uni_t0", "geo_T", "free", "plain") for m in ("MS", "DC") for h in (False, True)]
    with mp.get_context("fork").Pool(min(jobs, len(lcfg))) as pool:
        rl = pool.map(late_horizon_worker, lcfg, chunksize=1)
    for cfg, r in zip(lcfg, rl):
        dist["late-horizon/%s" % cfg["grid"]] = dist.get("late-horizon/%s" % cfg["grid"], 0) + 1
        if "error" in r:
            dis.append({"property": "C13", "case": dict(cfg, _late=True), "points": [], "finding_key": None,
                        "what": [{"what": "rockit raised on a horizon-variable history", "error": r["error"]}]})
        elif not all(len(a) == len(b) and all(engine.close(x, y, scale=abs(y)) for x, y in zip(a, b)) for a, b in zip(r["history"], r["fresh"])):
            dis.append({"property": "C13", "case": dict(cfg, _late=True), "points": [], "finding_key": None,
                        "what": [{"what": "horizon variable guessed again after a query: the starting point (node times, time-dependent state guess) "
                                          "differs from a freshly written OCP with the final guesses", "history (t, x)": r["history"], "fresh (t, x)": r["fresh"]}]})
    return {"evaluations": len(items) + len(lcfg), "distinct_nontrivial": len(nontriv),
            "rule": "random OCPs x random histories (length 2..10, thorough ..30) over set_value (single and concatenated parameters), set_initial (incl. the guess of a free horizon), subject_to, "
                    "clear_constraints, add_objective, method, solver, set_T, set_t0, sample, value, jacobian, solve_limited.  "
                    "Compared: is_transcribed after every operation against the lazy-cache automaton; rows, objective, "
                    "parameter vector, starting point and solver name/options of the evolved OCP against a freshly "
                    "written OCP with the final specification; the evolved OCP queried twice; declaration counts before "
                    "and after.  distinct by hash of (initial case, history)",
            "samples": [{"history": items[0][1]}], "disagreements": dis, "distribution": dist, "extra": {}}


def replay(path):
    d = json.load(open(path))
    if d.get("case", {}).get("_late"):
        print(json.dumps(late_horizon_worker(d["case"]), indent=1))
        return 1
    c = d["case"]
    dis, _, _ = run_items([(c["initial"], c["history"], c["final"], d["points"])], "C13r", 1)
    print(json.dumps(dis[:1], indent=1, default=str)[:4000] if dis else "replay: agrees")
    return 1 if dis else 0
