"""C14 — scaling arguments never change the meaning of the problem."""
import copy
import numpy as np
from .nlpprop import NlpProp, TRUSTED, ASSUMPTIONS
from .. import engine, cases as CS
from ..common import Fr

OPTS = {"methods": ["MS", "SS", "DC"], "intgs": ["rk", "expl_euler"], "N_max": 3, "M_max": 2, "deg_max": 3,
        "p_scale": 1.0, "p_cscale": 0.7, "nc_min": 1, "nc_max": 3, "no_min": 1, "no_max": 2, "p_var": 0.6,
        "p_freeT": 0.3}
OPTS_T = dict(OPTS, N_max=5, M_max=3)


def expected_scales(case, qnames):
    """declared scale of every entry of the decision quantities, in stacking order"""
    sx = [float(v) for v in CS.flat_scales(case["states"])]
    su = [float(v) for v in CS.flat_scales(case.get("controls", []))]
    sz = [float(v) for v in CS.flat_scales(case.get("algebraics", []))]
    sv = {g: [float(v) for v in CS.flat_scales([d for d in case.get("vars", []) if d.get("grid", "") == g])]
          for g in ("", "control", "control+")}
    out = []
    for name, shape in qnames:
        n, cols = shape
        per = {"X": sx, "Xi": sx, "Xc": sx, "U": su, "Zc": sz, "V": sv[""], "VC": sv["control"],
               "VP": sv["control+"]}.get(name)
        if per is None:
            out += [1.0] * (n * cols)
        elif name == "V":
            out += per
        else:
            out += per * cols
    return out


def extra_scale(B, case, ob, points, targets):
    J = ob.J
    rows = []
    for i in range(J.shape[0]):
        nz = np.nonzero(np.abs(J[i]) > 1e-13)[0]
        rows.append((int(len(nz)), float(J[i, nz[0]]) if len(nz) else 0.0))
    init = np.array(ob.Phi(ob.x0, ob.pval)).reshape(-1).tolist() if ob.nx else []
    return {"jac": rows, "qnames": [(n, list(s)) for n, s in ob.qnames], "init": init}


def extra_judge(case, mvals, r):
    ex = r["extra"]
    exp = expected_scales(case, [(n, tuple(s)) for n, s in ex["qnames"]])
    if len(exp) != len(ex["jac"]):
        return [{"what": "decision quantities differ in number from the declared ones"}]
    for i, ((nnz, val), s) in enumerate(zip(ex["jac"], exp)):
        if nnz != 1 or not engine.close(val, s):
            return [{"what": "a physical quantity is not (solver variable) x (declared scale)",
                     "entry": i, "nonzeros": nnz, "factor": val, "declared_scale": s}]
    return []


def unscaled(case):
    c = copy.deepcopy(case)
    for key in ("states", "controls", "algebraics", "vars"):
        for d in c.get(key, []):
            d.pop("scale", None)
    c.pop("scale_der", None)
    for con in c.get("constraints", []):
        con.pop("scale", None)
    c["id"] = case.get("id", "") + "-unscaled"
    return c


def has_scales(case):
    return any("scale" in d for key in ("states", "controls", "algebraics", "vars") for d in case.get(key, [])) \
        or "scale_der" in case or any("scale" in c for c in case.get("constraints", []))


class C14Prop(NlpProp):
    def run(self, tier="quick", seed=0, jobs=16):
        res = NlpProp.run(self, tier, seed, jobs)
        n = 60 if tier == "quick" else 600
        cps = [cp for cp in self.gen_cases(seed + 41, n, self.opts_q if tier == "quick" else self.opts_t, 3)
               if has_scales(cp[0])]
        ra = engine.run_rockit(cps, jobs=jobs)
        rb = engine.run_rockit([(unscaled(c), p) for c, p in cps], jobs=jobs)
        ncmp = 0
        for (c, pts), a, b in zip(cps, ra, rb):
            if any(k in a or k in b for k in ("error", "mismatch")) or engine.pair_unjudgeable(a, b):
                continue
            ncmp += 1
            ua, ub = engine.match_rows_factor(a["rows"], b["rows"], up_to_factor=True)
            objbad = [(x, y) for x, y in zip(a["objs"], b["objs"]) if not engine.close(x, y, scale=abs(y))]
            if ua or ub or objbad:
                res["disagreements"].append({"property": "C14", "finding_key": None, "case": c, "points": pts,
                                             "what": [{"what": "scaled and unscaled OCP differ by more than positive row factors",
                                                       "rows_only_scaled": ua[:3], "rows_only_unscaled": ub[:3], "objective": objbad[:2]}]})
        res["evaluations"] += len(cps)
        res["extra"]["pairs_compared"] = ncmp
        return res


P = C14Prop("C14", OPTS, OPTS_T, judge_kinds=None, judge_obj=True, nontrivial=lambda c, m: has_scales(c),
            extra=(None, extra_scale), extra_judge=extra_judge,
            rule="random OCPs with scale= on states (scalar and element-wise), controls, algebraic variables, variables of "
                 "every grid kind, set_der(scale=) and constraints, x {MS,SS,DC} x N,M: (1) every NLP row (divided by its "
                 "scale) and the objective against the model at physical decision points; every physical quantity = solver "
                 "variable x declared scale (Jacobian of the read-back); "
                 "(2) metamorphic on rockit: scaled vs unscaled OCP agree row by row up to a positive factor, same "
                 "objective.  non-trivial = the case declares a scale; distinct by hash of the case")
run, replay = P.run, P.replay
