"""C14 — scaling arguments never change the meaning of the problem."""
import copy
import numpy as np
from .nlpprop import NlpProp, TRUSTED, ASSUMPTIONS
from .. import engine, cases as CS
from ..common import Fr

OPTS = {"methods": ["MS", "SS", "DC"], "intgs": ["rk", "expl_euler"], "N_max": 3, "M_max": 2, "deg_max": 3,
        "p_scale": 1.0, "p_cscale": 0.7, "nc_min": 1, "nc_max": 3, "no_min": 1, "no_max": 2, "p_var": 0.6,
        "p_freeT": 0.3}
OPTS_T = dict(OPTS, N_max=5, M_max=3)


def expected_scales(case, qnames):
    """declared scale of every entry of the decision quantities, in stacking order"""
    sx = [float(v) for v in CS.flat_scales(case["states"])]
    su = [float(v) for v in CS.flat_scales(case.get("controls", []))]
    sz = [float(v) for v in CS.flat_scales(case.get("algebraics", []))]
    sv = {g: [float(v) for v in CS.flat_scales([d for d in case.get("vars", []) if d.get("grid", "") == g])]
          for g in ("", "control", "control+")}
    out = []
    for name, shape in qnames:
        n, cols = shape
        per = {"X": sx, "Xi": sx, "Xc": sx, "U": su, "Zc": sz, "V": sv[""], "VC": sv["control"],
               "VP": sv["control+"]}.get(name)
        if per is None:
            out += [1.0] * (n * cols)
        elif name == "V":
            out += per
        else:
            out += per * cols
    return out


def extra_scale(B, case, ob, points, targets):
    J = ob.J
    rows = []
    for i in range(J.shape[0]):
        nz = np.nonzero(np.abs(J[i]) > 1e-13)[0]
        rows.append((int(len(nz)), float(J[i, nz[0]]) if len(nz) else 0.0))
    init = np.array(ob.Phi(ob.x0, ob.pval)).reshape(-1).tolist() if ob.nx else []
    return {"jac": rows, "qnames": [(n, list(s)) for n, s in ob.qnames], "init": init}


def extra_judge(case, mvals, r):
    ex = r["extra"]
    exp = expected_scales(case, [(n, tuple(s)) for n, s in ex["qnames"]])
    if len(exp) != len(ex["jac"]):
        return [{"what": "decision quantities differ in number from the declared ones"}]
    for i, ((nnz, val), s) in enumerate(zip(ex["jac"], exp)):
        if nnz != 1 or not engine.close(val, s):
            return [{"what": "a physical quantity is not (solver variable) x (declared scale)",
                     "entry": i, "nonzeros": nnz, "factor": val, "declared_scale": s}]
    return []


def unscaled(case):
    c = copy.deepcopy(case)
    for key in ("states", "controls", "algebraics", "vars"):
        for d in c.get(key, []):
            d.pop("scale", None)
    c.pop("scale_der", None)
    for con in c.get("constraints", []):
        con.pop("scale", None)
    c["id"] = case.get("id", "") + "-unscaled"
    return c


def has_scales(case):
    return any("scale" in d for key in ("states", "controls", "algebraics", "vars") for d in case.get(key, [])) \
        or "scale_der" in case or any("scale" in c for c in case.get("constraints", []))


def scale_probe_worker(cfg):
    """places where a declared scale is easily lost: grid='inf' constraints, constraints on a method-less master,
    bspline variables, integer variables"""
    from ..common import setup_rockit_path
    rockit = setup_rockit_path()
    import io, contextlib
    import numpy as np
    import casadi as ca
    from .. import nlp
    out = {}
    try:
        with contextlib.redirect_stdout(io.StringIO()), contextlib.redirect_stderr(io.StringIO()):
            kind, sc = cfg["kind"], cfg["scale"]

            def rows_of(ocp, xv=None):
                opti = ocp._method.opti
                f = ca.Function("f", [opti.x, opti.p], [opti.g, opti.lbg, opti.ubg])
                xv = np.linspace(0.25, 1.5, opti.x.numel()) if xv is None else xv
                g, lb, ub = [np.array(v).reshape(-1) for v in f(xv, opti.debug.value(opti.p, opti.initial()))]
                return sorted(float(h) for s_, i_, q_, h in nlp.normal_rows(g, lb, ub) if s_ == 1)
            M_ = {"MS": rockit.MultipleShooting, "SS": rockit.SingleShooting}.get(cfg.get("method"))
            meth = lambda: (M_(N=2, M=1, intg="rk") if M_ else rockit.DirectCollocation(N=2, M=1, degree=4))
            if kind == "inf":
                res = []
                for s_ in (1, sc):
                    ocp = rockit.Ocp(T=1); x = ocp.state(); u = ocp.control()
                    ocp.set_der(x, u); ocp.add_objective(ocp.integral(u ** 2))
                    ocp.subject_to(x <= 4, grid="inf", scale=s_)
                    ocp.method(meth()); ocp.solver("ipopt", {"ipopt.print_level": 0, "print_time": False})
                    ocp.sample(x, grid="control")
                    res.append(rows_of(ocp))
                out["rows_unscaled"], out["rows_scaled"] = res
            elif kind == "master":
                res = []
                for s_ in (1, sc):
                    ocp = rockit.Ocp(); st = ocp.stage(t0=0, T=1); x = st.state(); u = st.control()
                    st.set_der(x, u); st.add_objective(st.integral(u ** 2)); st.method(meth())
                    ocp.subject_to(st.at_tf(x) <= 4, scale=s_)
                    ocp.solver("ipopt", {"ipopt.print_level": 0, "print_time": False})
                    st.sample(x, grid="control")
                    res.append(rows_of(ocp))
                out["rows_unscaled"], out["rows_scaled"] = res
            elif kind == "bspline":
                ocp = rockit.Ocp(T=1); x = ocp.state(); w = ocp.variable(grid="bspline", order=2, scale=sc)
                ocp.set_der(x, w); ocp.add_objective(ocp.at_tf(x) ** 2 + ocp.sum(w ** 2))
                ocp.method(meth()); ocp.solver("ipopt", {"ipopt.print_level": 0, "print_time": False})
                _, ws = ocp.sample(w, grid="control")
                opti = ocp._method.opti
                J = np.array(ca.Function("j", [opti.x], [ca.jacobian(ws[0], opti.x)])(np.zeros(opti.x.numel()))).reshape(-1)
                out["dphysical_dsolver_sum"] = float(J.sum())       # partition of unity: the sum is the scale
            else:
                ocp = rockit.Ocp(T=1); x = ocp.state(); n = ocp.variable(domain="integer", scale=sc)
                ocp.set_der(x, n); ocp.add_objective(ocp.at_tf(x) ** 2 + (n - 7) ** 2)
                ocp.method(meth()); ocp.solver("ipopt", {"ipopt.print_level": 0, "print_time": False})
                nv = ocp.value(n)
                opti = ocp._method.opti
                out["integer_scaled_accepted"] = float(np.abs(np.array(ca.Function("j", [opti.x], [ca.jacobian(nv, opti.x)])(np.zeros(opti.x.numel())))).max())
    except Exception as e_:
        out["error"] = "%s: %s" % (type(e_).__name__, str(e_)[:150])
    return out


def judge_scale_probe(cfg, r):
    sc = cfg["scale"]
    if cfg["kind"] == "integer":
        if "integer_scaled_accepted" in r and abs(r["integer_scaled_accepted"] - 1.0) > 1e-9:
            return [{"what": "an integer variable with scale=%s was accepted: the integer solver variable is the physical value / scale, "
                             "the physical variable lives on scale*Z" % sc, "d_physical_d_solver": r["integer_scaled_accepted"]}]
        return []
    if "error" in r:
        return [{"what": "rockit raised in a scale probe", "error": r["error"]}]
    if cfg["kind"] == "bspline":
        if not engine.close(r["dphysical_dsolver_sum"], sc):
            return [{"what": "variable(grid='bspline', scale=s): the spline value is not s times the solver coefficients",
                     "sum of d value / d coefficients": r["dphysical_dsolver_sum"], "scale": sc}]
        return []
    a, b = r["rows_unscaled"], r["rows_scaled"]
    if len(a) != len(b) or not all(engine.close(y * sc, x, scale=abs(x)) for x, y in zip(a, b)):
        return [{"what": "%s constraint with scale=%s: rows are not the unscaled rows divided by the scale" %
                         ("grid='inf'" if cfg["kind"] == "inf" else "point (method-less master)", sc), "unscaled": a[:6], "scaled": b[:6]}]
    return []


def build(rng, opts):
    """default cases; with a numeric horizon, one in three gets a constraint on the horizon that is TRUE only once the
    placeholders are filled in (rockit drops it at transcription) in front of the scaled constraints"""
    from .nlpprop import default_build
    from .. import gen
    c = default_build(rng, opts)
    if "fixed" in c.get("T", {}) and rng.random() < 0.35:
        T = Fr(c["T"]["fixed"])
        con = {"grid": "point", "rels": [{"rel": "le", "lhs": ["g", "T"], "rhs": gen.C(T + rng.choice([1, 5]))}]}
        c["constraints"].insert(rng.randrange(0, max(1, len(c["constraints"]))), con)
        c["_true_after_substitution"] = True
    return c


class C14Prop(NlpProp):
    def run(self, tier="quick", seed=0, jobs=16):
        res = NlpProp.run(self, tier, seed, jobs)
        import multiprocessing as mp
        pcfg = [{"kind": k, "scale": s, "method": m} for k in ("inf", "master", "bspline", "integer") for s in (5.0, 0.25)
                for m in ("MS", "SS", "DC")]
        with mp.get_context("fork").Pool(min(jobs, len(pcfg))) as pool:
            rp = pool.map(scale_probe_worker, pcfg, chunksize=1)
        for cfg, r in zip(pcfg, rp):
            d = judge_scale_probe(cfg, r)
            if d:
                res["disagreements"].append({"property": "C14", "finding_key": None, "case": dict(cfg, _probe=True), "points": [], "what": d})
        res["evaluations"] += len(pcfg)
        n = 60 if tier == "quick" else 600
        cps = [cp for cp in self.gen_cases(seed + 41, n, self.opts_q if tier == "quick" else self.opts_t, 3)
               if has_scales(cp[0])]
        ra = engine.run_rockit(cps, jobs=jobs)
        rb = engine.run_rockit([(unscaled(c), p) for c, p in cps], jobs=jobs)
        ncmp = 0
        for (c, pts), a, b in zip(cps, ra, rb):
            if any(k in a or k in b for k in ("error", "mismatch")) or engine.pair_unjudgeable(a, b):
                continue
            ncmp += 1
            ua, ub = engine.match_rows_factor(a["rows"], b["rows"], up_to_factor=True)
            objbad = [(x, y) for x, y in zip(a["objs"], b["objs"]) if not engine.close(x, y, scale=abs(y))]
            if ua or ub or objbad:
                res["disagreements"].append({"property": "C14", "finding_key": None, "case": c, "points": pts,
                                             "what": [{"what": "scaled and unscaled OCP differ by more than positive row factors",
                                                       "rows_only_scaled": ua[:3], "rows_only_unscaled": ub[:3], "objective": objbad[:2]}]})
        res["evaluations"] += len(cps)
        res["extra"]["pairs_compared"] = ncmp
        return res


P = C14Prop("C14", OPTS, OPTS_T, build=build, judge_kinds=None, judge_obj=True, nontrivial=lambda c, m: has_scales(c),
            extra=(None, extra_scale), extra_judge=extra_judge,
            rule="random OCPs with scale= on states (scalar and element-wise), controls, algebraic variables, variables of "
                 "every grid kind, set_der(scale=) and constraints (a third of the fixed-horizon cases with a horizon bound in front that is dropped as true at transcription), x {MS,SS,DC} x N,M: (1) every NLP row (divided by its "
                 "scale) and the objective against the model at physical decision points; every physical quantity = solver "
                 "variable x declared scale (Jacobian of the read-back); "
                 "(2) metamorphic on rockit: scaled vs unscaled OCP agree row by row up to a positive factor, same "
                 "objective.  non-trivial = the case declares a scale; distinct by hash of the case")
run = P.run


def replay(path):
    d = json.load(open(path)) if False else __import__("json").load(open(path))
    if d.get("case", {}).get("_probe"):
        dd = judge_scale_probe(d["case"], scale_probe_worker(d["case"]))
        print(__import__("json").dumps(dd, indent=1, default=str) if dd else "replay: agrees")
        return 1 if dd else 0
    return P.replay(path)
