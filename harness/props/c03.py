"""C03 — discretised dynamics and integrals converge to the continuous-time model.

Proof part: Props/C03.v (order conditions of the tableaux, exactness on polynomial integrands for
every M, stability polynomials, discrete Gronwall => global order, rescaling chain rule).
Numerical part (supports the theorems' hypotheses and ties them to /repo; not a proof): for
generated smooth ODEs / index-1 DAEs, the end state and ocp.integral obtained through every
transcription method for M in {1,2,4,8} are compared with a high-accuracy reference flow
(scipy DOP853, rtol 1e-13); the observed order between M=4 and M=8 must reach the classical order,
CasADi integrators must meet their tolerance, sys_simulator and discrete_system must describe the
reference flow."""
import os, json, math, random, traceback, glob, multiprocessing as mp
import numpy as np
from fractions import Fraction
from ..common import VERIF, sha

PID = "C03"
TRUSTED = [
    "Rocq theorems about Mech/Intg.v step maps (tied to /repo by the C01/C02 correspondence) and about one-step error recursions over R",
    "numerical part: scipy.integrate.solve_ivp (DOP853, rtol 1e-13, atol 1e-14) as the reference flow; IPOPT (tol 1e-13) to solve the square "
    "feasibility NLP of each transcription with the controls fixed; CasADi integrators cvodes/idas/collocation",
]
ASSUMPTIONS = [
    "the local error bound C h^(p+1) of RK4 / collocation for a general smooth right-hand side is a hypothesis of C03_global_error_partial (not proved); it is measured: best observed order towards M=8 (pairs (4,8),(2,8),(1,8)) within 0.6 of the classical order while the error is above 1e-10",
    "generated problems are smooth and non-stiff on the horizon (coefficients in [-1, 1], T <= 1.5)",
]
MS_ = (1, 2, 4, 8)
NOISE = 1e-10


# ------------------------------------------------------------------ problems
def templates():
    """each template: nx, f(m, t, x, u, p, c) -> list, L(m, t, x, u, p, c), optional dae"""
    def lin(m, t, x, u, p, c):
        return [c[0] * x[0] + c[1] * x[1] + u + c[2] * t, c[3] * x[0] - abs(c[4]) * x[1] + p * t * t]

    def logistic(m, t, x, u, p, c):
        return [(0.5 + abs(c[0])) * x[0] * (1 - x[0]) + 0.3 * u + 0.2 * c[1] * t * p]

    def pend(m, t, x, u, p, c):
        return [x[1], -(1 + abs(c[0])) * m.sin(x[0]) - 0.2 * x[1] + u + 0.3 * p * m.cos(t)]

    def vdp(m, t, x, u, p, c):
        return [x[1], (0.3 + abs(c[0])) * (1 - x[0] * x[0]) * x[1] - x[0] + u + 0.2 * p * t]

    def rat(m, t, x, u, p, c):
        return [-x[0] / (1 + x[0] * x[0]) + t * u + c[0] * p, c[1] * x[0] - x[1] + m.sin(t)]

    def L1(m, t, x, u, p, c):
        return x[0] * x[0] + 0.1 * u * u + t * x[-1] + p

    def L2(m, t, x, u, p, c):
        return m.cos(x[0]) + t * t * u

    return {"lin": (2, lin, L1), "logistic": (1, logistic, L2), "pend": (2, pend, L1), "vdp": (2, vdp, L1), "rat": (2, rat, L2)}


def gen_problem(rng, dae=False, bsp=False):
    name = rng.choice(sorted(templates()))
    nx = templates()[name][0]
    N = rng.randint(1, 3)
    pr = {"template": name, "c": [round(rng.uniform(-1.0, 1.0), 3) for _ in range(5)],
          "x0": [round(rng.uniform(-1, 1), 3) if name != "logistic" else round(rng.uniform(0.1, 0.9), 3) for _ in range(nx)],
          "us": [round(rng.uniform(-1, 1), 3) for _ in range(N)], "p": round(rng.uniform(-1, 1), 3),
          "t0": round(rng.uniform(-1, 1), 2), "T": round(rng.uniform(0.5, 1.5), 2), "N": N,
          "grid": rng.choice(["uniform", "uniform", "geometric"]), "dae": bool(dae)}
    if bsp:
        # a grid='bspline' parameter of order d forces the first state and enters the integrand (a polynomial inside
        # every control interval: collocation keeps its order; shooting holds signals constant over an interval by design)
        d = rng.randint(1, 3)
        pr["bsp"] = {"order": d, "coef": [round(rng.uniform(-1, 1), 3) for _ in range(N + d)]}
    return pr


def grid_nodes(pr):
    N, t0, T = pr["N"], pr["t0"], pr["T"]
    if pr["grid"] == "geometric" and N > 1:
        g = 2.0 ** (1.0 / (N - 1))
        w = np.array([g ** k for k in range(N)])
        w = np.concatenate([[0], np.cumsum(w)]) / np.sum(w)
        return t0 + T * w
    return np.linspace(t0, t0 + T, N + 1)


def zfun(m, t, x, u, p, c):
    """algebraic variable of the DAE variants: (2 + x0^2) z = x0 + u + cos(t)"""
    return (x[0] + u + m.cos(t)) / (2 + x[0] * x[0])


def reference(pr):
    from scipy.integrate import solve_ivp
    nx, f, L = templates()[pr["template"]]
    ts = grid_nodes(pr)
    y = np.array(list(pr["x0"]) + [0.0])
    c, p = pr["c"], pr["p"]

    sig = None
    if pr.get("bsp"):
        from scipy.interpolate import BSpline
        d_ = pr["bsp"]["order"]
        sig = BSpline(np.concatenate([[ts[0]] * d_, ts, [ts[-1]] * d_]), np.array(pr["bsp"]["coef"]), d_, extrapolate=True)

    def rhs(t, y, u):
        x = y[:nx]
        fx = list(f(np, t, x, u, p, c))
        Lx = L(np, t, x, u, p, c)
        if sig is not None:
            sv = float(sig(t))
            fx[0] = fx[0] + 0.5 * sv * (1 + 0.3 * x[0])
            Lx = Lx + sv * x[0]
        if pr["dae"]:
            z = zfun(np, t, x, u, p, c)
            fx[0] = fx[0] + 0.5 * z
            Lx = Lx + z * z
        return np.array(fx + [Lx])
    for k in range(pr["N"]):
        r = solve_ivp(lambda t, y: rhs(t, y, pr["us"][k]), (ts[k], ts[k + 1]), y, method="DOP853", rtol=1e-13, atol=1e-14)
        y = r.y[:, -1]
    return y[:nx], y[nx]


def build(pr, rockit, method, control_as_parameter=True):
    import casadi as ca
    nx, f, L = templates()[pr["template"]]
    ocp = rockit.Ocp(t0=pr["t0"], T=pr["T"])
    x = ocp.state(nx)
    u = ocp.parameter(grid="control") if control_as_parameter else ocp.control()
    p = ocp.parameter()
    xs = [x[i] for i in range(nx)]
    fx = list(f(ca, ocp.t, xs, u, p, pr["c"]))
    Lx = L(ca, ocp.t, xs, u, p, pr["c"])
    if pr["dae"]:
        z = ocp.algebraic()
        ocp.add_alg((2 + xs[0] * xs[0]) * z - (xs[0] + u + ca.cos(ocp.t)))
        fx[0] = fx[0] + 0.5 * z
        Lx = Lx + z * z
    if pr.get("bsp"):
        sg = ocp.parameter(grid="bspline", order=pr["bsp"]["order"])
        ocp.set_value(sg, ca.DM(pr["bsp"]["coef"]).T)
        fx[0] = fx[0] + 0.5 * sg * (1 + 0.3 * xs[0])
        Lx = Lx + sg * xs[0]
    ocp.set_der(x, ca.vertcat(*fx))
    I = ocp.integral(Lx)
    ocp.set_value(p, pr["p"])
    if control_as_parameter:
        ocp.set_value(u, np.array(pr["us"]).reshape(1, -1))
    if method is not None:
        ocp.method(method)
    return ocp, x, u, p, I


def make_method(rockit, spec, pr, M):
    grid = rockit.GeometricGrid(2.0) if (pr["grid"] == "geometric" and pr["N"] > 1) else rockit.UniformGrid()
    kind = spec["kind"]
    if kind == "DC":
        return rockit.DirectCollocation(N=pr["N"], M=M, degree=spec["degree"], scheme=spec["scheme"], grid=grid)
    cls = rockit.MultipleShooting if kind == "MS" else rockit.SingleShooting
    kw = {}
    if spec["intg"] in ("cvodes", "idas"):
        # quadratures are outside CVODES/IDAS error control unless asked for
        kw["intg_options"] = {"reltol": 1e-10, "abstol": 1e-12, "quad_err_con": True}
    return cls(N=pr["N"], M=M, intg=spec["intg"], grid=grid, **kw)


def expected_order(spec):
    if spec["kind"] == "DC":
        return 2 * spec["degree"] - 1 if spec["scheme"] == "radau" else 2 * spec["degree"]
    return {"rk": 4, "expl_euler": 1}.get(spec["intg"])


def flow_through_transcription(pr, rockit, spec, M):
    import casadi as ca
    ocp, x, u, p, I = build(pr, rockit, make_method(rockit, spec, pr, M))
    ocp.subject_to(ocp.at_t0(x) == ca.DM(pr["x0"]))
    ocp.add_objective(0 * ocp.at_tf(x[0]))
    ocp.solver("ipopt", {"ipopt.print_level": 0, "print_time": False, "ipopt.sb": "yes", "ipopt.tol": 1e-13,
                         "ipopt.constr_viol_tol": 1e-13, "ipopt.max_iter": 200})
    ocp.set_initial(x, ca.DM(pr["x0"]))
    try:
        sol = ocp.solve()
    except RuntimeError as e_:
        # IPOPT may stop short of tol=1e-13 (e.g. Search_Direction_Becomes_Too_Small) at a point that solves the
        # square system to rounding accuracy: accept it when the constraint violation is below 1e-10
        if "Solver failed" not in str(e_):
            raise
        opti = ocp._method.opti
        g = np.array(opti.debug.value(opti.g)).reshape(-1)
        lb = np.array(opti.debug.value(opti.lbg)).reshape(-1)
        ub = np.array(opti.debug.value(opti.ubg)).reshape(-1)
        viol = float(np.max(np.maximum(np.maximum(lb - g, g - ub), 0.0))) if g.size else 0.0
        if not viol <= 1e-10:
            raise
        sol = ocp.non_converged_solution
    xs = sol.sample(x, grid="control")[1]
    xf = np.array(xs[-1]).reshape(-1)
    return xf, float(sol.value(I))


def worker(args):
    pr, spec = args
    from ..common import setup_rockit_path, time_limit
    rockit = setup_rockit_path()
    import io, contextlib
    out = {}
    try:
        with time_limit(300), contextlib.redirect_stdout(io.StringIO()), contextlib.redirect_stderr(io.StringIO()):
            xr, Ir = reference(pr)
            out["ref"] = [xr.tolist(), Ir]
            if spec["kind"] == "SIM":
                out.update(simulators(pr, rockit, xr))
            else:
                ex, ei = [], []
                for M in MS_:
                    try:
                        xf, I = flow_through_transcription(pr, rockit, spec, M)
                    except RuntimeError as e_:
                        if M <= 2 and "Solver failed" in str(e_):   # (not accepted by the violation test either)
                            # the equations of an implicit scheme need not have a solution on a very
                            # coarse step: the case says nothing about convergence
                            out["skipped"] = "no solution of the scheme's equations at M=%d" % M
                            break
                        raise
                    ex.append(float(np.max(np.abs(xf - xr))))
                    ei.append(abs(I - Ir))
                out["err_x"], out["err_I"] = ex, ei
    except Exception as e:
        out["error"] = "%s: %s" % (type(e).__name__, str(e)[:300])
        out["trace"] = traceback.format_exc()[-1500:]
    return out


def simulators(pr, rockit, xr):
    """ocp.sys_simulator (cvodes) and ocp.discrete_system (rk, M=8) chained over the control intervals"""
    import casadi as ca
    ts = grid_nodes(pr)
    ocp, x, u, p, I = build(pr, rockit, rockit.MultipleShooting(N=pr["N"], M=8, intg="rk"), control_as_parameter=False)
    ocp.solver("ipopt")
    sim = ocp.sys_simulator(intg="idas" if pr["dae"] else "cvodes", intg_options={"reltol": 1e-11, "abstol": 1e-13})
    xs = np.array(pr["x0"], dtype=float)
    zg = 0.0
    for k in range(pr["N"]):
        r = sim(x=xs, u=pr["us"][k], p=pr["p"], t0=ts[k], dt=ts[k + 1] - ts[k], z_initial_guess=zg if pr["dae"] else ca.DM(0, 1))
        xs = np.array(r["xf"]).reshape(-1)
    out = {"err_sim": float(np.max(np.abs(xs - xr)))}
    if not pr["dae"]:
        F = ocp.discrete_system()
        xd = np.array(pr["x0"], dtype=float)
        for k in range(pr["N"]):
            r = F(x0=xd, u=pr["us"][k], T=ts[k + 1] - ts[k], t0=ts[k], p=pr["p"], z0=ca.DM(0, 1))
            xd = np.array(r["xf"]).reshape(-1)
        xt, _ = flow_through_transcription(pr, rockit, {"kind": "MS", "intg": "rk"}, 8)
        out["err_ds_vs_transcription"] = float(np.max(np.abs(xd - xt)))
        out["err_ds"] = float(np.max(np.abs(xd - xr)))
    out["scale"] = float(1 + np.max(np.abs(xr)))
    return out


def observed(errs):
    """best observed order towards M=8 over the pairs (4,8), (2,8), (1,8) (None when below the noise
    floor).  A single pair is not used alone: the error of a low-order scheme can change sign between
    two values of M, which makes that pair's ratio meaningless."""
    e8 = errs[3]
    if e8 < NOISE:
        return None
    best = None
    for i, k in ((2, 1), (1, 2), (0, 3)):
        if errs[i] < NOISE:
            continue
        o = math.log2(errs[i] / e8) / k
        best = o if best is None else max(best, o)
    return best


def judge_one(pr, spec, r):
    if "skipped" in r:
        return [], None
    if "error" in r:
        return [{"what": "rockit/solver failed on a smooth problem", "error": r["error"], "trace": r.get("trace")}], None
    if spec["kind"] == "SIM":
        d = []
        if r["err_sim"] > 1e-6 * r["scale"]:
            d.append({"what": "sys_simulator(cvodes/idas, reltol 1e-11) does not reproduce the reference flow", "error_inf": r["err_sim"]})
        if "err_ds_vs_transcription" in r and r["err_ds_vs_transcription"] > 1e-9 * r["scale"]:
            d.append({"what": "discrete_system (rk, M=8) is not the state transition of the MultipleShooting(rk, M=8) transcription "
                              "(whose convergence to the reference flow is measured separately)", "difference": r["err_ds_vs_transcription"]})
        if "err_ds" in r and r["err_ds"] > 0.05 * r["scale"]:
            d.append({"what": "discrete_system (rk, M=8) is far from the reference flow", "error_inf": r["err_ds"]})
        return d, None
    p = expected_order(spec)
    d = []
    for what, errs in (("state transition", r["err_x"]), ("ocp.integral", r["err_I"])):
        if p is None:
            tol = 1e-6 if spec["intg"] in ("cvodes", "idas") else None
            if tol is not None and max(errs) > tol:
                d.append({"what": "%s through intg=%s exceeds the requested tolerance" % (what, spec["intg"]), "errors": errs})
            if tol is None and not (errs[3] < 1e-9 or errs[3] < errs[0] / 50):
                d.append({"what": "%s through intg=%s does not converge as M grows" % (what, spec["intg"]), "errors": errs})
            continue
        o = observed(errs)
        if o is not None and o < p - 0.6:
            d.append({"what": "%s: observed order %.2f towards M=8, classical order %d" % (what, o, p), "errors": errs})
        if not (errs[3] < NOISE or errs[3] < max(errs[:3])):
            d.append({"what": "%s: error at M=8 is not below the errors at M=1,2,4" % what, "errors": errs})
    orders = [observed(r["err_x"]), observed(r["err_I"])]
    return d, orders


def specs_for(pr):
    if pr.get("bsp"):
        return [{"kind": "DC", "degree": 2, "scheme": "radau"}, {"kind": "DC", "degree": 2, "scheme": "legendre"},
                {"kind": "DC", "degree": 3, "scheme": "radau"}]
    if pr["dae"]:
        return [{"kind": "DC", "degree": 2, "scheme": "radau"}, {"kind": "DC", "degree": 2, "scheme": "legendre"},
                {"kind": "DC", "degree": 3, "scheme": "radau"}, {"kind": "MS", "intg": "idas"}, {"kind": "SS", "intg": "collocation"},
                {"kind": "SIM"}]
    return [{"kind": "MS", "intg": "rk"}, {"kind": "SS", "intg": "rk"}, {"kind": "MS", "intg": "expl_euler"}, {"kind": "SS", "intg": "expl_euler"},
            {"kind": "DC", "degree": 1, "scheme": "radau"}, {"kind": "DC", "degree": 1, "scheme": "legendre"},
            {"kind": "DC", "degree": 2, "scheme": "radau"}, {"kind": "DC", "degree": 2, "scheme": "legendre"},
            {"kind": "DC", "degree": 3, "scheme": "radau"}, {"kind": "DC", "degree": 3, "scheme": "legendre"},
            {"kind": "MS", "intg": "cvodes"}, {"kind": "SS", "intg": "collocation"}, {"kind": "SIM"}]


def classify(pr, spec, d):
    if spec.get("kind") == "DC" and spec.get("degree") == 1 and spec.get("scheme") == "radau" and d and all("ocp.integral" in x["what"] for x in d):
        return "F4-radau-degree1-quadrature-weights"
    return None


def run_items(items, jobs=16):
    with mp.get_context("fork").Pool(min(jobs, max(1, len(items)))) as pool:
        rr = pool.map(worker, items, chunksize=1)
    dis, nontriv, dist, orders = [], set(), {}, {}
    for (pr, spec), r in zip(items, rr):
        key = spec["kind"] + "/" + (spec.get("intg") or ("%s%d" % (spec.get("scheme", "sim"), spec.get("degree", 0))))
        dist[key] = dist.get(key, 0) + 1
        d, o = judge_one(pr, spec, r)
        if o:
            orders.setdefault(key, []).append([None if v is None else round(v, 2) for v in o])
        if d:
            dis.append({"property": PID, "what": d[:3], "case": {"problem": pr, "method": spec}, "finding_key": classify(pr, spec, d)})
        else:
            nontriv.add(sha([pr, spec]))
    return dis, nontriv, dist, orders


def gen_items(seed, n):
    rng = random.Random(seed * 1000003 + 303)
    items = []
    for i in range(n):
        pr = gen_problem(rng, dae=(i % 4 == 3), bsp=(i % 4 == 1))
        for spec in specs_for(pr):
            items.append((pr, spec))
    return items


def corpus():
    out = []
    for p in sorted(glob.glob(os.path.join(VERIF, "corpus", PID, "*.json"))):
        d = json.load(open(p))
        out.append((d["case"]["problem"], d["case"]["method"]))
    return out


def run(tier="quick", seed=0, jobs=16):
    n = 8 if tier == "quick" else 40
    items = corpus() + gen_items(seed, n)
    dis, nontriv, dist, orders = run_items(items, jobs)
    summary = {k: {"min_state": min([o[0] for o in v if o[0] is not None], default=None),
                   "min_integral": min([o[1] for o in v if o[1] is not None], default=None)} for k, v in orders.items()}
    return {"evaluations": len(items), "distinct_nontrivial": len(nontriv),
            "rule": "generated smooth ODEs (linear time-varying, logistic, pendulum, Van der Pol, rational; every fourth an index-1 DAE) with random "
                    "coefficients, initial state, piecewise-constant control sequence, parameter, (t0,T), N in 1..3, uniform|geometric grid "
                    "x {MS,SS} x {rk, expl_euler, cvodes, idas, collocation} and DC radau|legendre degree 1..3 x M in {1,2,4,8}; end state and "
                    "ocp.integral against scipy DOP853 (rtol 1e-13); best observed order towards M=8 over the pairs (4,8),(2,8),(1,8) >= classical order - 0.6 while the error "
                    "is above 1e-10, error decreasing, CasADi integrators within 1e-6 at reltol 1e-10; sys_simulator(cvodes|idas) chained over the intervals against the same "
                    "reference, discrete_system(rk, M=8) against the MultipleShooting(rk, M=8) transcription.  distinct by hash of (problem, method)",
            "samples": [{"problem": items[-1][0], "method": items[-1][1]}], "disagreements": dis, "distribution": dist,
            "extra": {"observed_orders_min": summary}}


def replay(path):
    d = json.load(open(path))
    c = d["case"]
    dis, _, _, orders = run_items([(c["problem"], c["method"])], 1)
    print(json.dumps(dis[:1], indent=1, default=str)[:3000] if dis else "replay: agrees")
    return 1 if dis else 0
