"""C07 — sampling commutes with expression evaluation on every grid."""
import os, json, math, random, glob, traceback
import multiprocessing as mp
import numpy as np
from ..common import VERIF, sha, Fr
from .. import gen, engine, coqrun, cases as CS
from .nlpprop import TRUSTED as _T, ASSUMPTIONS as _A

TRUSTED = _T + ["numeric read-back is exercised through rockit's OcpSolution wrapped around a stand-in for the CasADi solution object that evaluates expressions at the chosen decision vector"]
ASSUMPTIONS = _A
GRIDS = ["control", "control-", "integrator", "integrator-", "integrator_roots"]
# 'integrator-' is the integrator grid without its last point: the model's integrator sample minus its last entry
GCODE = {"control": 0, "control-": 1, "integrator": 2, "integrator-": 2, "integrator_roots": 3}

OPTS = {"methods": ["MS", "SS", "DC"], "intgs": ["rk", "expl_euler"], "N_max": 4, "M_max": 3, "deg_max": 3,
        "constraints": False, "objective": False, "p_quad": 0.5, "p_freeT": 0.3, "p_freet0": 0.2,
        "grids": ("Uniform", "Geometric", "Function"), "p_dae": 0.5}


def gen_specs(rng, case):
    specs = []
    kind = case["method"]["kind"]
    for _ in range(rng.randint(2, 4)):
        grid = rng.choice(GRIDS if kind == "DC" else GRIDS[:4])
        kinds = ["x", "u", "p", "pc", "pp", "v", "vc", "vp", "t", "T", "t0"]
        if case.get("algebraics"):
            kinds.append("z")
        if grid != "integrator_roots" and case.get("quad"):
            kinds.append("q")
        if grid in ("control", "control-") and rng.random() < 0.3:
            kinds += ["DT", "DTc"]
        r, c = rng.choice([(1, 1), (1, 1), (2, 1), (3, 1), (1, 2), (1, 3), (2, 2), (2, 3)])
        exprs = []
        for _ in range(r * c):
            e = gen.signal_expr(rng, case, [k for k in kinds if k not in ("DT", "DTc")], 2)
            if "DT" in kinds and rng.random() < 0.5:
                e = ["+", e, ["*", ["s", rng.choice(["DT", "DTc"])], gen.C(2)]]
            if grid in ("control", "control-") and rng.random() < 0.15:
                e = [e[0], e[1], gen.add_offsets(rng, e[2], p=0.5, offs=(-1, 1, 2), extra=("DT", "DTc", "t"))]
            exprs.append(e)
        specs.append({"grid": grid, "rows": r, "cols": c, "exprs": exprs})
    if case["method"]["N"] >= 2 and (case["method"].get("grid") or {}).get("class", "Uniform") != "Uniform" and rng.random() < 0.7:
        # step lengths seen THROUGH an offset (next(DT_control), prev(DT), next(t)): on a non-uniform grid they are those of
        # the shifted node, not of the node the sample is taken at
        x0 = ["s", "x", 0]
        specs.append({"grid": "control", "rows": 1, "cols": 1,
                      "exprs": [["+", ["+", x0, ["off", 1, ["s", "DTc"], "next"]],
                                 ["*", ["+", ["off", -1, ["s", "DT"], "prev"], ["off", 1, ["s", "t"], "next"]], gen.C(2)]]]})
    if case.get("algebraics"):
        # algebraic variables on every grid (their values at integrator points come from the step's own helper values)
        from ..cases import nslots
        nz = nslots(case["algebraics"])
        for grid in ("integrator", rng.choice(["control", "integrator_roots"])):
            j = rng.randrange(nz)
            e = ["+", ["s", "z", j], ["*", gen.C(gen.dyadic_nz(rng, -2, 2, 1)), ["s", "x", 0]]]
            specs.append({"grid": grid, "rows": 1, "cols": 1, "exprs": [e]})
    vals = []
    for _ in range(rng.randint(1, 2)):
        syms = [["g", s[1], s[2]] for s in gen.sym_list(case, ["p", "v"])] + [["g", s[1]] for s in gen.sym_list(case, ["T", "t0"])]
        e = gen.C(gen.dyadic(rng, -2, 2, 1))
        for _ in range(rng.randint(1, 3)):
            if syms:
                e = [rng.choice(["+", "*", "-"]), e, rng.choice(syms)]
        vals.append(e)
    return specs, vals


def worker(args):
    case, points = args
    from ..common import setup_rockit_path
    rockit = setup_rockit_path()
    from .. import nlp
    import io, contextlib
    import casadi as ca
    out = {}
    try:
        with contextlib.redirect_stdout(io.StringIO()):
            B = CS.build_rockit(case, rockit)
            out["inputs"] = engine.impl_inputs(B, case)
            ocp = B.ocp
            mats = []
            for sp in case["samples"]:
                m = ca.vertcat(*[B.ex(e) for e in sp["exprs"]])
                mats.append(ca.reshape(m, sp["rows"], sp["cols"]))

            def extras(B_, case_):
                ex = []
                for sp, m in zip(case["samples"], mats):
                    t, v = ocp.sample(m, grid=sp["grid"])
                    ex += [ca.vec(t), v]
                for e in case["values"]:
                    ex.append(ocp.value(B.pex(e)))
                return ex
            ob = nlp.observe(B, case, extras)
            from rockit.solution import OcpSolution

            class FakeSol:
                """stand-in for the CasADi solution: value(expr) at the chosen decision vector"""
                def __init__(self, xs):
                    self.xs = xs

                def value(self, expr, *a, **k):
                    expr = ocp.placeholders_transcribed(expr) if hasattr(ocp, "placeholders_transcribed") else expr
                    f = ca.Function("v", [ob.x, ob.p], [expr])
                    r = f(self.xs, ob.pval)
                    return float(r) if r.numel() == 1 else np.array(r)
            res = []
            for pt in points:
                xs = nlp.solve_point(ob, nlp.flatten_point(ob, pt))
                vals = ob.extra_f(xs, ob.pval)
                vals = vals if isinstance(vals, (list, tuple)) else [vals]
                per = []
                sol = OcpSolution(FakeSol(xs), ocp)
                for i, (sp, m) in enumerate(zip(case["samples"], mats)):
                    t = np.array(vals[2 * i]).reshape(-1).tolist()
                    v = np.array(vals[2 * i + 1])
                    try:
                        tn, vn = sol.sample(m, grid=sp["grid"])
                        num = {"shape": list(np.shape(vn)), "flat": np.array(vn, dtype=float).reshape(-1).tolist(),
                               "t": np.array(tn, dtype=float).reshape(-1).tolist()}
                    except Exception as e:
                        num = {"error": "%s: %s" % (type(e).__name__, str(e)[:200])}
                    per.append({"t": t, "v": v.tolist(), "num": num})
                nv = len(case["values"])
                vv = [float(x) for x in vals[2 * len(mats):2 * len(mats) + nv]]
                solv = []
                for e in case["values"]:
                    try:
                        solv.append(float(sol.value(B.pex(e))))
                    except Exception as ex_:
                        solv.append("%s" % ex_)
                res.append({"samples": per, "values": vv, "sol_values": solv})
            out["res"] = res
    except Exception as e:
        out["error"] = "%s: %s" % (type(e).__name__, str(e)[:400])
        out["trace"] = traceback.format_exc()[-1200:]
    return out


def model_run(cps, inputs, name):
    bodies, shard = [], 30
    for s in range(0, len(cps), shard):
        chunk = []
        for i in range(s, min(s + shard, len(cps))):
            case, pts = cps[i]
            if inputs[i] is None:
                continue
            specs = CS.clist(["(%d%%nat, %s)" % (GCODE[sp["grid"]], CS.clist([CS.expr_coq(e) for e in sp["exprs"]]))
                              for sp in case["samples"]])
            vals = CS.clist([CS.pexpr_coq(e) for e in case["values"]])
            chunk.append("Definition c%d : ocp := %s.\n" % (i, CS.case_coq(case, inputs[i])))
            chunk.append("Eval vm_compute in (%d%%nat, map (run_samples_float c%d %s %s) %s).\n" % (
                i, i, specs, vals, CS.clist([CS.point_coq(p) for p in pts])))
        if chunk:
            bodies.append("".join(chunk))
    res = coqrun.run_shards(name, bodies)
    out = {}
    for sv in res:
        for i, vals in sv:
            out[i] = vals
    return out


def cmp_val(a, b):
    """a: rockit float (nan allowed), b: model float or None"""
    if b is None:
        return isinstance(a, float) and math.isnan(a)
    if isinstance(a, float) and math.isnan(a):
        return False
    return engine.close(a, b, scale=abs(b))


def judge_case(case, pts, r, mv):
    if "error" in r:
        return [{"what": "rockit raised while sampling", "error": r["error"], "trace": r.get("trace")}]
    for p, (rp, mp_) in enumerate(zip(r["res"], mv)):
        msamples, mvals = mp_
        flatvals = [v for sp in msamples for row in sp[1] for v in row if v is not None] + list(mvals)
        if any((not math.isfinite(v)) or abs(v) > engine.BIG for v in flatvals):
            return []
        for si, (sp, rs, ms) in enumerate(zip(case["samples"], rp["samples"], msamples)):
            mt, mrows = ms
            if sp["grid"] == "integrator-":
                mt, mrows = mt[:-1], mrows[:-1]
            R, Cc = sp["rows"], sp["cols"]
            if len(rs["t"]) != len(mt) or not all(engine.close(a, b) for a, b in zip(rs["t"], mt)):
                return [{"what": "time vector of the sample differs", "grid": sp["grid"], "rockit": rs["t"], "model": mt, "point": p}]
            v = np.array(rs["v"]).reshape(R, -1)
            if v.shape[1] != len(mrows) * Cc:
                return [{"what": "number of sampled points differs from the grid", "grid": sp["grid"],
                         "rockit_columns": int(v.shape[1]), "model_points": len(mrows), "cols": Cc}]
            for ti, row in enumerate(mrows):
                for b in range(Cc):
                    for a in range(R):
                        if not cmp_val(float(v[a, ti * Cc + b]), row[b * R + a]):
                            return [{"what": "sampled value differs from the expression evaluated at the sampled ingredients",
                                     "grid": sp["grid"], "time_index": ti, "element": [a, b],
                                     "rockit": float(v[a, ti * Cc + b]), "model": row[b * R + a], "point": p}]
            num = rs["num"]
            if "error" in num:
                return [{"what": "numeric read-back (sol.sample) raised", "grid": sp["grid"], "error": num["error"]}]
            exp_shape = [len(mrows)] + [e for e in (R, Cc) if e != 1]
            if num["shape"] != exp_shape:
                return [{"what": "shape of sol.sample differs from (time,) + shape without singletons",
                         "grid": sp["grid"], "rockit": num["shape"], "expected": exp_shape}]
            arr = np.array(num["flat"]).reshape(len(mrows), R, Cc)
            for ti, row in enumerate(mrows):
                for a in range(R):
                    for b in range(Cc):
                        if not cmp_val(float(arr[ti, a, b]), row[b * R + a]):
                            return [{"what": "sol.sample entry [i,r,c] is not element (r,c) at time i", "grid": sp["grid"],
                                     "index": [ti, a, b], "rockit": float(arr[ti, a, b]), "model": row[b * R + a]}]
            if len(num["t"]) != len(mt):
                return [{"what": "sol.sample time vector length differs from the values", "grid": sp["grid"],
                         "times": len(num["t"]), "values": len(mt)}]
        for a, b, c in zip(rp["values"], mvals, rp["sol_values"]):
            if not engine.close(a, b, scale=abs(b)) or not (isinstance(c, float) and engine.close(c, b, scale=abs(b))):
                return [{"what": "value() of a non-signal expression differs", "rockit": a, "sol.value": c, "model": b}]
    return []


def gen_cases(seed, n, opts, npts):
    rng = random.Random(seed * 1000003 + 707)
    out = []
    for i in range(n):
        c = gen.gen_base(rng, opts)
        c["samples"], c["values"] = gen_specs(rng, c)
        c["id"] = "C07-%d-%d" % (seed, i)
        out.append((c, [gen.gen_point(rng, c) for _ in range(npts)]))
    return out


def corpus():
    out = []
    for p in sorted(glob.glob(os.path.join(VERIF, "corpus", "C07", "*.json"))):
        d = json.load(open(p))
        out.append((d["case"], d["points"]))
    return out


def run_cases(cps, name, jobs=16):
    with mp.get_context("fork").Pool(min(jobs, max(1, len(cps)))) as pool:
        rr = pool.map(worker, cps, chunksize=1)
    mv = model_run(cps, [r.get("inputs") for r in rr], name)
    dis, nontriv, dist = [], set(), {}
    for i, (case, pts) in enumerate(cps):
        for sp in case["samples"]:
            key = "%s/%s/%dx%d" % (case["method"]["kind"], sp["grid"], sp["rows"], sp["cols"])
            dist[key] = dist.get(key, 0) + 1
        if i not in mv:
            d = [{"what": "rockit side failed before the model could run", "error": rr[i].get("error"), "trace": rr[i].get("trace")}]
        else:
            d = judge_case(case, pts, rr[i], mv[i])
            if not d:
                nontriv.add(sha(case))
        if d:
            dis.append({"property": "C07", "what": d[:3], "case": case, "points": pts, "finding_key": None})
    return dis, nontriv, dist


def dm2numpy_check(seed, n):
    """rockit's DM2numpy on index-labelled arrays against the model's dm2numpy"""
    from ..common import setup_rockit_path
    setup_rockit_path()
    import casadi as ca
    from rockit.casadi_helpers import DM2numpy
    rng = random.Random(seed + 5)
    shapes = [(rng.randint(1, 4), rng.randint(1, 5), rng.randint(1, 4)) for _ in range(n)]
    body = "".join("Eval vm_compute in (dm2numpy 0%%Z (map Z.of_nat (seq 0 %d)) %d %d %d).\n" % (r * t * c, r, t, c)
                   for r, t, c in shapes)
    hdr = coqrun.HEADER + "From RV Require Import Mech.Sample.\n"
    mod = coqrun.run_shards("C07dm", [body], header=hdr)[0]
    dis = []
    for (r, t, c), m in zip(shapes, mod):
        lab = np.arange(r * t * c, dtype=float).reshape(r, t * c)
        out = DM2numpy(ca.DM(lab), (r, c), t)
        exp_shape = tuple([t] + [e for e in (r, c) if e != 1])
        if tuple(np.shape(out)) != exp_shape or [int(v) for v in np.array(out).reshape(-1)] != [int(v) for v in m]:
            dis.append({"property": "C07", "finding_key": None, "case": {"dm2numpy": [r, t, c]}, "points": [],
                        "what": [{"what": "DM2numpy layout differs from entry [i,r,c] = element (r,c) at time i",
                                  "shape": list(np.shape(out)), "expected_shape": list(exp_shape)}]})
    return dis, len(shapes)


def dae_shooting_worker(cfg):
    """shooting with a CasADi integrator and a DAE  0 = z - x (1+t):  the algebraic variable sampled at a grid point is
    determined by the state and time sampled at that point"""
    from ..common import setup_rockit_path
    rockit = setup_rockit_path()
    import io, contextlib
    import casadi as ca
    out = {}
    try:
        with contextlib.redirect_stdout(io.StringIO()), contextlib.redirect_stderr(io.StringIO()):
            ocp = rockit.Ocp(T=1.5)
            x = ocp.state(); z = ocp.algebraic(); u = ocp.control()
            ocp.set_der(x, -z + u)
            ocp.add_alg(z - x * (1 + ocp.t))
            ocp.subject_to(ocp.at_t0(x) == 1)
            ocp.add_objective(ocp.integral(u ** 2))
            M_ = rockit.MultipleShooting if cfg["method"] == "MS" else rockit.SingleShooting
            ocp.method(M_(N=cfg["N"], M=cfg["M"], intg=cfg["intg"]))
            ocp.solver("ipopt", {"ipopt.print_level": 0, "print_time": False})
            _, res = ocp.sample(z - x * (1 + ocp.t), grid=cfg["grid"])
            opti = ocp._method.opti
            xv = 1.0 + 0.125 * np.arange(opti.x.numel())
            val = np.array(ca.Function("f", [opti.x, opti.p], [res])(xv, opti.debug.value(opti.p, opti.initial()))).reshape(-1)
            out["residual"] = [float(a) for a in val]
    except Exception as e_:
        out["error"] = "%s: %s" % (type(e_).__name__, str(e_)[:200])
    return out


def solsample_worker(cfg):
    """the solution read-back: sol.sample(e) of expressions BUILT INLINE (temporaries that are freed after the call, in sequence)
    and of named expressions equals e evaluated on the separately sampled ingredients — also through sol(stage) for two stages"""
    from ..common import setup_rockit_path
    rockit = setup_rockit_path()
    import io, contextlib
    import numpy as np
    import casadi as ca
    out = {}
    try:
        with contextlib.redirect_stdout(io.StringIO()), contextlib.redirect_stderr(io.StringIO()):
            ocp = rockit.Ocp(t0=0.5, T=2)
            x = ocp.state(); y = ocp.state(); u1 = ocp.control(); u2 = ocp.control()
            ocp.set_der(x, u1 - 0.3 * x); ocp.set_der(y, u2 + 0.2 * x)
            ocp.add_objective(ocp.integral(u1 ** 2 + 2 * u2 ** 2) + ocp.at_tf(x - 1) ** 2 + ocp.at_tf(y + 1) ** 2)
            ocp.subject_to(ocp.at_t0(x) == 0.2); ocp.subject_to(ocp.at_t0(y) == -0.4)
            grid = rockit.GeometricGrid(2) if cfg["grid"] == "geometric" else rockit.UniformGrid()
            M_ = {"MS": rockit.MultipleShooting, "SS": rockit.SingleShooting}.get(cfg["method"])
            ocp.method(M_(N=4, M=2, intg="rk", grid=grid) if M_ else rockit.DirectCollocation(N=4, M=2, degree=2, grid=grid))
            ocp.solver("ipopt", {"ipopt.print_level": 0, "print_time": False, "ipopt.max_iter": 5})
            try:
                sol = ocp.solve()
            except Exception:
                sol = ocp.non_converged_solution
            g = cfg["sgrid"]
            base = {n_: np.array(sol.sample(s_, grid=g)[1]).reshape(-1) for n_, s_ in (("x", x), ("y", y), ("u1", u1), ("u2", u2))}
            worst = 0.0
            # inline temporaries, one after the other (each is freed when its call returns)
            for rep in range(3):
                for build, ev in ((lambda: x * u1, lambda b: b["x"] * b["u1"]), (lambda: x + u1, lambda b: b["x"] + b["u1"]),
                                  (lambda: u1 * u2, lambda b: b["u1"] * b["u2"]), (lambda: y - u2, lambda b: b["y"] - b["u2"]),
                                  (lambda: x * y, lambda b: b["x"] * b["y"]), (lambda: y + 2 * u1, lambda b: b["y"] + 2 * b["u1"])):
                    got = np.array(sol.sample(build(), grid=g)[1]).reshape(-1)
                    worst = max(worst, float(np.nanmax(np.abs(got - ev(base)))))
            out["worst"] = worst
    except Exception as e_:
        out["error"] = "%s: %s" % (type(e_).__name__, str(e_)[:300])
    return out


def run(tier="quick", seed=0, jobs=16):
    n = 100 if tier == "quick" else 1200
    cps = corpus() + gen_cases(seed, n, OPTS if tier == "quick" else dict(OPTS, N_max=6), 2 if tier == "quick" else 4)
    dis, nontriv, dist = run_cases(cps, "C07", jobs)
    d2, n2 = dm2numpy_check(seed, 30 if tier == "quick" else 200)
    dis += d2
    dcfg = [{"method": m, "intg": i, "N": 2 + (k % 2), "M": 1 + (k % 3), "grid": g}
            for k, (m, i, g) in enumerate([(m, i, g) for m in ("MS", "SS") for i in ("collocation", "idas") for g in ("integrator", "control")])]
    with mp.get_context("fork").Pool(min(jobs, len(dcfg))) as pool:
        rd = pool.map(dae_shooting_worker, dcfg, chunksize=1)
    for cfg, r in zip(dcfg, rd):
        dist["dae-shooting/%s/%s" % (cfg["intg"], cfg["grid"])] = dist.get("dae-shooting/%s/%s" % (cfg["intg"], cfg["grid"]), 0) + 1
        if "error" in r:
            dis.append({"property": "C07", "case": dict(cfg, _dae=True), "points": [], "finding_key": None,
                        "what": [{"what": "rockit raised while sampling a DAE under shooting", "error": r["error"]}]})
        elif any((not math.isfinite(a)) or abs(a) > 1e-6 for a in r["residual"][:-1]):
            # (the last point is taken from the control grid's final node)
            dis.append({"property": "C07", "case": dict(cfg, _dae=True), "points": [], "finding_key": "F34-shooting-dae-z-one-step-late",
                        "what": [{"what": "shooting with a CasADi integrator: sample(z - x*(1+t)) of the DAE 0 = z - x*(1+t) does not vanish: "
                                          "the sampled algebraic variable does not belong to the sampled state and time", "residual": r["residual"]}]})
    scf = [{"method": m, "grid": g, "sgrid": sg} for m in ("MS", "SS", "DC") for g in ("uniform", "geometric") for sg in ("control", "integrator")]
    with mp.get_context("fork").Pool(min(jobs, len(scf))) as pool:
        rs = pool.map(solsample_worker, scf, chunksize=1)
    for cfg, r in zip(scf, rs):
        dist["sol.sample/inline"] = dist.get("sol.sample/inline", 0) + 1
        if "error" in r or not (r.get("worst", 1.0) < 1e-9):
            dis.append({"property": "C07", "case": dict(cfg, _solsample=True), "points": [], "finding_key": None,
                        "what": [{"what": "sol.sample of expressions built inline (x*u1, x+u1, u1*u2, ... one after the other) is not the expression "
                                          "evaluated on the separately sampled x, y, u1, u2", "max deviation": r.get("worst"), "error": r.get("error")}]})
    dist["DM2numpy shapes"] = n2
    return {"evaluations": len(cps) + n2 + len(scf), "distinct_nontrivial": len(nontriv),
            "rule": "random OCPs x 2-4 expressions each (scalar, column, row and matrix shaped; built from states, controls, "
                    "algebraic variables, quadrature states, time, global / per-interval parameters and variables, T, t0, DT, "
                    "DT_control, next/prev operands) sampled on grid control | control- | integrator | integrator_roots, plus "
                    "value() of non-signal expressions, x {MS,SS,DC} x N,M x grids, at dyadic decision points.  Compared with "
                    "the model: symbolic samples, their time vectors, sol.sample / sol.value through OcpSolution (shape and "
                    "every entry [i,r,c]).  distinct by hash of the case",
            "samples": [{"case": cps[-1][0], "points": cps[-1][1][:1]}], "disagreements": dis,
            "distribution": dist, "extra": {}}


def replay(path):
    d = json.load(open(path))
    if d.get("case", {}).get("_solsample"):
        print(json.dumps(solsample_worker(d["case"]), indent=1))
        return 0
    if d.get("case", {}).get("_dae"):
        print(json.dumps(dae_shooting_worker(d["case"]), indent=1))
        return 1
    dis, _, _ = run_cases([(d["case"], d["points"])], "C07r", 1)
    print(json.dumps(dis[:1], indent=1, default=str)[:4000] if dis else "replay: agrees")
    return 1 if dis else 0
