"""C05 — the NLP objective is the sum of the declared Mayer, sum and integral terms."""
from fractions import Fraction
from .nlpprop import NlpProp, TRUSTED, ASSUMPTIONS
from .. import engine

OPTS = {"methods": ["MS", "SS", "DC"], "deg_max": 4, "intgs": ["rk", "expl_euler"], "N_max": 4, "M_max": 3,
        "constraints": False, "no_min": 1, "no_max": 4, "intc": True, "p_quad": 0.3}
OPTS_T = dict(OPTS, N_max=6, M_max=4)


def build(rng, opts):
    """default cases; one in four gets TWIN terms: integrals / sums of the same expression shape over two different
    symbol objects of the same kind (rockit gives every state the name 'x', every control 'u': the printed forms of the
    two integrands coincide, the integrands do not)"""
    from ..cases import nslots
    from .nlpprop import default_build
    from .. import gen
    c = default_build(rng, opts)
    if rng.random() < 0.5 and not c.get("discrete"):
        for kind, key in (("x", "states"), ("u", "controls")):
            objs = c.get(key, [])
            shp = lambda d: (d.get("rows", 1), d.get("cols", 1))
            pairs = [(i, j) for i in range(len(objs)) for j in range(len(objs)) if i != j and shp(objs[i]) == shp(objs[j])]
            if pairs:
                firsts = [nslots(objs[:j]) for j in range(len(objs))]
                a, b = rng.choice(pairs)
                form = rng.choice(["sq", "lin"])
                for j in (a, b):
                    sym = ["s", kind, firsts[j]]
                    e = ["*", sym, sym] if form == "sq" else ["*", gen.C(3), sym]
                    c.setdefault("quad", []).append(e)
                    c["objective"].append(["int", len(c["quad"]) - 1])
                c["_twin"] = kind
                break
    if c.get("algebraics") and rng.random() < 0.6:
        # an integrand that varies inside an interval only through an ALGEBRAIC variable (no state, no time): z^2 + w*u^2
        zs = gen.sym_list(c, ["z"])
        us = gen.sym_list(c, ["u"])
        z = rng.choice(zs)
        e = ["*", z, z]
        if us:
            u = rng.choice(us)
            e = ["+", e, ["*", gen.C(rng.choice([2, 3, Fraction(1, 2)])), ["*", u, u]]]
        c.setdefault("quad", []).append(e)
        c["objective"].append(["int", len(c["quad"]) - 1])
        c["_alg_integrand"] = True
    return c


def nontrivial(case, mrows):
    return len(case.get("objective", [])) > 0


def extra_judge(case, mvals, r):
    objs, _, _ = engine.model_rows(mvals)
    for a, b in zip(r["extra"]["objvalue"], objs):
        if not engine.close(a, b, scale=abs(b)):
            return [{"what": "ocp.value(ocp.objective) differs from the sum of the declared terms",
                     "rockit": a, "model": b}]
    return []


def const_integral_cases():
    """integral of the constant 1 must be T for every collocation scheme (quadrature weights
    integrate constants exactly)"""
    out = []
    for d in range(1, 6):
        for sch in ("radau", "legendre"):
            c = {"id": "C05-const-%s-%d" % (sch, d), "states": [{"rows": 1, "cols": 1}], "controls": [],
                 "algebraics": [], "params": [], "vars": [], "discrete": False,
                 "ode": [["c", 0, 1]], "quad": [["+", ["c", 1, 1], ["*", ["c", 0, 1], ["s", "x", 0]]]],
                 "n_explicit_quad": 0, "alg": [],
                 "t0": {"fixed": [0, 1]}, "T": {"fixed": [3, 2]}, "param_values": {"p": [], "pc": [[], []], "pp": [[], [], []]},
                 "constraints": [], "objective": [["int", 0]],
                 "method": {"kind": "DC", "N": 2, "M": 2, "intg": "rk", "degree": d, "scheme": sch,
                            "grid": {"class": "Uniform"}}, "_const_integral": True}
            pt = {"X": [[[1, 1]], [[1, 2]], [[0, 1]]], "U": [[], []], "V": [], "VC": [[], []], "VP": [[], [], []],
                  "P": [], "PC": [[], []], "PP": [[], [], []], "T": [3, 2], "t0": [0, 1],
                  "Xi": [[[[1, 4]]], [[[1, 4]]]],
                  "Xc": [[[[[1, 8]] for _ in range(d)] for _ in range(2)] for _ in range(2)],
                  "Zc": [[[[] for _ in range(d)] for _ in range(2)] for _ in range(2)]}
            out.append((c, [pt, pt, pt]))
    return out


def classify(case, d):
    m = case["method"]
    if case.get("_const_integral") and m.get("scheme") == "radau" and m.get("degree") == 1:
        return "F4-radau-degree1-quadrature-weights"
    return None


class C05Prop(NlpProp):
    def corpus(self):
        return NlpProp.corpus(self) + const_integral_cases()

    def judge(self, cps, rr, mv):
        dis, nontriv, dist, skipped = NlpProp.judge(self, cps, rr, mv)
        for i, (case, pts) in enumerate(cps):
            if case.get("_const_integral") and "objs" in rr[i]:
                T = 1.5
                if abs(rr[i]["objs"][0] - T) > 1e-9:
                    dis.append({"property": "C05", "case": case, "points": pts[:1],
                                "what": [{"what": "the collocation quadrature does not integrate the constant 1 exactly",
                                          "integral_of_1": rr[i]["objs"][0], "horizon_T": T}],
                                "finding_key": classify(case, None)})
        return dis, nontriv, dist, skipped


P = C05Prop("C05", OPTS, OPTS_T, build=build, classify=classify, judge_kinds=[], judge_obj=True, nontrivial=nontrivial,
            extra=(engine.extras_objvalue, engine.extra_objvalue), extra_judge=extra_judge,
            rule="random OCPs with 1-4 objective terms drawn from at_t0, at_tf, integral, sum, sum(include_last), "
                 "integral(grid='control'), each optionally multiplied/added with global parameters, variables, T, t0 or "
                 "squared; in a quarter of the cases two integral terms of the same printed form over two different state / control objects; integrands/summands nonlinear in x,u,t,p,v (per-interval too); explicit quadrature states; "
                 "x {MS,SS} x {rk,expl_euler} and DirectCollocation degree 1..4 radau|legendre x N,M x grids x fixed/free/parametric horizon; plus, for every (degree 1..5, scheme), integral(1) must equal T.  Compared: opti.f and "
                 "ocp.value(ocp.objective) against the model's objective at every decision point.  non-trivial = has "
                 "objective terms; distinct by hash of the case")


def nested_worker(cfg):
    """stages nested two and three levels deep (inner = outer.stage(...)): sol.value(ocp.objective) is the cost the solver works on
    and equals the sum of the declared terms evaluated by hand on the sampled solution"""
    from ..common import setup_rockit_path
    rockit = setup_rockit_path()
    import io, contextlib
    import numpy as np
    import casadi as ca
    out = {}
    try:
        with contextlib.redirect_stdout(io.StringIO()), contextlib.redirect_stderr(io.StringIO()):
            ocp = rockit.Ocp()
            w = ocp.variable()
            ocp.add_objective(3 * (w - 1) ** 2)
            Meth = {"MS": lambda: rockit.MultipleShooting(N=2, M=1, intg="rk"), "SS": lambda: rockit.SingleShooting(N=2, M=1, intg="rk"),
                    "DC": lambda: rockit.DirectCollocation(N=2, M=1, degree=2)}[cfg["method"]]
            parent, stages = ocp, []
            for lvl in range(cfg["depth"]):
                st = parent.stage(t0=lvl, T=1)
                x = st.state(); u = st.control()
                st.set_der(x, u - 0.5 * x)
                st.subject_to(st.at_t0(x) == 0.5 + lvl)
                st.add_objective((lvl + 1) * st.integral(u ** 2) + st.at_tf(x) ** 2)
                st.method(Meth())
                stages.append((st, x, u))
                if cfg["shape"] == "chain":
                    parent = st           # the next stage is created BELOW this one
            ocp.solver("ipopt", {"ipopt.print_level": 0, "print_time": False, "ipopt.max_iter": 4})
            try:
                sol = ocp.solve()
            except Exception:
                sol = ocp.non_converged_solution
            out["readback"] = float(sol.value(ocp.objective))
            out["solver_f"] = float(sol.sol.value(ocp._method.opti.f))
    except Exception as e_:
        out["error"] = "%s: %s" % (type(e_).__name__, str(e_)[:300])
    return out


def run(tier="quick", seed=0, jobs=16):
    res = P.run(tier, seed, jobs)
    import multiprocessing as mp_
    ncf = [{"method": m, "depth": d, "shape": sh} for m in ("MS", "SS", "DC") for d in (2, 3) for sh in ("chain", "flat")]
    with mp_.get_context("fork").Pool(min(jobs, len(ncf))) as pool:
        rn = pool.map(nested_worker, ncf, chunksize=1)
    for cfg, r in zip(ncf, rn):
        res["distribution"]["nested/%s" % cfg["shape"]] = res["distribution"].get("nested/%s" % cfg["shape"], 0) + 1
        if "error" in r:
            if cfg["shape"] == "flat":
                res["disagreements"].append({"property": "C05", "case": dict(cfg, _nested=True), "points": [], "finding_key": None,
                                             "what": [{"what": "a flat multi-stage OCP could not be solved / read back", "error": r["error"]}]})
            continue      # nesting below a stage with a method may be refused: loud
        if not engine.close(r["readback"], r["solver_f"], scale=abs(r["solver_f"])):
            res["disagreements"].append({"property": "C05", "case": dict(cfg, _nested=True), "points": [], "finding_key": None,
                                         "what": [{"what": "stages nested %d deep (%s): sol.value(ocp.objective) is not the cost the solver minimised" % (cfg["depth"], cfg["shape"]),
                                                   "sol.value(ocp.objective)": r["readback"], "opti.f at the solution": r["solver_f"]}]})
    res["evaluations"] += len(ncf)
    # multi-stage: the total objective is the sum of all stage objectives and the master's terms
    # (engine of C12; only the objective is judged here)
    from . import c12
    n = 24 if tier == "quick" else 240
    cps = c12.gen_cases(seed + 55, n, c12.OPTS, 2)
    rr = c12.run_rockit(cps, jobs)
    mv = c12.model_multi(cps, [r.get("inputs") for r in rr], "C05multi")
    nm = 0
    for i, (mc, pts) in enumerate(cps):
        r = rr[i]
        if i not in mv or "error" in r or "mismatch" in r:
            continue      # structural problems of multi-stage cases are C12's business
        objs, mrows, _ = engine.model_rows(mv[i])
        if engine.unjudgeable(objs, mrows, r):
            continue
        nm += 1
        bad = [(a, b) for a, b in zip(r["objs"], objs) if not engine.close(a, b, scale=abs(b))]
        if bad:
            res["disagreements"].append({"property": "C05", "case": mc, "points": pts, "finding_key": None, "_multi": True,
                                         "what": [{"what": "multi-stage OCP: the NLP objective is not the sum of the stage objectives and the master's terms",
                                                   "rockit_vs_model": bad[:3]}]})
        orb = r.get("objective_readback")
        if not bad and orb and all(abs(v) < engine.BIG for v in orb) and not engine.close(orb[0], orb[1], scale=abs(orb[1])):
            # clones of one template share their symbols: a master-level expression cannot tell their values apart
            shared = mc.get("template") is not None and len(mc.get("stages", [])) >= 2
            res["disagreements"].append({"property": "C05", "case": mc, "points": pts, "_multi": True,
                                         "finding_key": "F45-objective-readback-clones-shared-symbols" if shared else None,
                                         "what": [{"what": "multi-stage OCP: sol.value(ocp.objective) is not the cost the solver minimised",
                                                   "sol.value(ocp.objective)": orb[0], "opti.f at the solution": orb[1]}]})
    res["evaluations"] += len(cps)
    res["distinct_nontrivial"] += nm
    res["extra"]["multi_stage_objectives_compared"] = nm
    res["rule"] += "  Plus multi-stage OCPs (1-3 stages, clones, master terms): total objective against the sum."
    return res


def replay(path):
    import json
    d = json.load(open(path))
    if d.get("case", {}).get("_nested"):
        print(json.dumps(nested_worker(d["case"]), indent=1))
        return 0
    if d.get("_multi"):
        from . import c12
        return c12.replay(path)
    return P.replay(path)

