"""C05 — the NLP objective is the sum of the declared Mayer, sum and integral terms."""
from .nlpprop import NlpProp, TRUSTED, ASSUMPTIONS
from .. import engine

OPTS = {"methods": ["MS", "SS"], "intgs": ["rk", "expl_euler"], "N_max": 4, "M_max": 3,
        "constraints": False, "no_min": 1, "no_max": 4, "intc": True, "p_quad": 0.3}
OPTS_T = dict(OPTS, N_max=6, M_max=4)


def nontrivial(case, mrows):
    return len(case.get("objective", [])) > 0


def extra_judge(case, mvals, r):
    objs, _, _ = engine.model_rows(mvals)
    for a, b in zip(r["extra"]["objvalue"], objs):
        if not engine.close(a, b, scale=abs(b)):
            return [{"what": "ocp.value(ocp.objective) differs from the sum of the declared terms",
                     "rockit": a, "model": b}]
    return []


P = NlpProp("C05", OPTS, OPTS_T, judge_kinds=[], judge_obj=True, nontrivial=nontrivial,
            extra=(engine.extras_objvalue, engine.extra_objvalue), extra_judge=extra_judge,
            rule="random OCPs with 1-4 objective terms drawn from at_t0, at_tf, integral, sum, sum(include_last), "
                 "integral(grid='control'), each optionally multiplied/added with global parameters, variables, T, t0 or "
                 "squared; integrands/summands nonlinear in x,u,t,p,v (per-interval too); explicit quadrature states; "
                 "x {MS,SS} x {rk,expl_euler} x N,M x grids x fixed/free/parametric horizon.  Compared: opti.f and "
                 "ocp.value(ocp.objective) against the model's objective at every decision point.  non-trivial = has "
                 "objective terms; distinct by hash of the case")
run, replay = P.run, P.replay
