"""C02 — direct collocation constraints characterise the collocation polynomial."""
import numpy as np
from .nlpprop import NlpProp, TRUSTED, ASSUMPTIONS
from .. import engine

OPTS = {"methods": ["DC"], "N_max": 3, "M_max": 3, "deg_max": 5, "constraints": False, "objective": False,
        "grids": ("Uniform", "Geometric", "Function"), "p_dae": 0.45}
OPTS_T = dict(OPTS, N_max=4)


def nontrivial(case, mrows):
    return any(r[0] in (6, 7, 8) for r in mrows)


def extras_coeff(B, case):
    import casadi as ca
    m = B.ocp._method
    return [ca.MX(ca.DM(m.C)), ca.MX(ca.DM(m.D)), ca.MX(ca.DM(m.B))]


def extra_coeff(B, case, ob, points, targets):
    m = B.ocp._method
    import casadi as ca
    return {"C": np.array(ca.DM(m.C)).tolist(), "D": np.array(ca.DM(m.D)).reshape(-1).tolist(),
            "B": np.array(ca.DM(m.B)).reshape(-1).tolist()}


class C02Prop(NlpProp):
    def run(self, tier="quick", seed=0, jobs=16):
        res = NlpProp.run(self, tier, seed, jobs)
        # collocation coefficients of the model vs CasADi's, for every (degree, scheme)
        from ..common import setup_rockit_path
        rockit = setup_rockit_path()
        import casadi as ca
        from fractions import Fraction
        from ..common import jq
        cfg = [(d, s) for d in range(1, 6) for s in ("radau", "legendre")]
        meths = [rockit.DirectCollocation(N=1, degree=d, scheme=s) for d, s in cfg]     # the coefficients rockit uses
        taus = [[jq(Fraction(float(v))) for v in m.tau] for m in meths]
        mod = engine.model_coeffs(taus, "C02coeffs")
        worst = 0.0
        for (d, s), m, (C, D, B) in zip(cfg, meths, mod):
            Cr, Dr, Br = np.array(ca.DM(m.C)), np.array(ca.DM(m.D)).reshape(-1), np.array(ca.DM(m.B)).reshape(-1)
            err = max(np.abs(np.array(C) - Cr).max(), np.abs(np.array(D) - Dr).max(), np.abs(np.array(B) - Br).max())
            worst = max(worst, float(err))
            if err > 1e-9:
                res["disagreements"].append({"property": "C02", "finding_key": None,
                                             "what": [{"what": "collocation coefficients C/D/B of DirectCollocation differ from the Lagrange-polynomial definition of the model",
                                                       "degree": d, "scheme": s, "max_abs_err": float(err)}],
                                             "case": {"degree": d, "scheme": s}, "points": []})
        res["extra"]["coeff_configs"] = len(cfg)
        res["extra"]["coeff_max_abs_err"] = worst
        return res


P = C02Prop("C02", OPTS, OPTS_T, judge_kinds=[6, 7, 8], judge_obj=False, nontrivial=nontrivial,
            rule="random ODE/DAE OCPs (1-3 state slots, 0-2 algebraic slots with index-1 equations, controls, global and "
                 "per-interval parameters/variables, time-dependent polynomial right-hand sides) x DirectCollocation degree "
                 "1..5 x {radau, legendre} x N, M x {Uniform, Geometric, Function} grids x fixed/free/parametric horizon, "
                 "at several dyadic decision points (node states, interval start states, helper states, algebraic values).  "
                 "Compared: all rows of kinds colloc/alg/cont, and C, D, B for every (degree, scheme).  non-trivial = NLP "
                 "has collocation rows; distinct by hash of the case")
run, replay = P.run, P.replay
