"""C06 — the time grid is the declared partition of [t0, t0+T]."""
from .nlpprop import NlpProp, TRUSTED, ASSUMPTIONS, density_nodes, fixed_horizon_bound_violation
from .. import engine

OPTS = {"methods": ["MS", "SS", "DC"], "deg_max": 2, "intgs": ["rk", "expl_euler"], "N_min": 1, "N_max": 6, "M_max": 4,
        "constraints": False, "objective": False, "grids": ("Uniform", "Geometric", "Function", "Free", "Density"),
        "p_localize": 0.45, "p_minmax": 0.5, "p_freeT": 0.45, "p_paramT": 0.15, "p_freet0": 0.3,
        "nx_max": 2, "nu_max": 1, "p_param": 0.15, "p_var": 0.15, "maxdeg": 1}
OPTS_T = dict(OPTS, N_max=8)


def nontrivial(case, mrows):
    return True


def probe_points(rng, case, pts):
    """for non-localized grids with a free horizon and min/max: two extra decision points whose every
    control interval is longer than max / shorter than min — the NLP must object to them"""
    from fractions import Fraction
    from ..common import Fr, jq
    m = case["method"]
    g = m.get("grid") or {}
    if "free" not in case.get("T", {}) or g.get("localize_t0") or g.get("localize_T") or g.get("class") == "Free":
        return pts, {}
    N = m["N"]
    probes = {}
    if g.get("max") is not None:
        p = dict(pts[0]); p["T"] = jq(Fr(g["max"]) * 64 * N); pts = pts + [p]; probes["max"] = len(pts) - 1
    if g.get("min") is not None and Fr(g["min"]) > 0:
        p = dict(pts[0]); p["T"] = jq(Fr(g["min"]) / 4); pts = pts + [p]; probes["min"] = len(pts) - 1
    return pts, probes


def extra_judge(case, mvals, r):
    d = engine.compare_time(mvals, r["extra"]["time"])
    if d:
        return d
    g = case["method"].get("grid") or {}
    if g.get("class") == "Density" and r.get("inputs", {}).get("nodes"):
        # the nodes are read from the implementation as inputs of the model: check them independently
        from ..common import Fr
        a, b = float(Fr(g["dens"][0])), float(Fr(g["dens"][1]))
        exp = density_nodes(a, b, case["method"]["N"])
        got = [float(Fr(v)) for v in r["inputs"]["nodes"]]
        if len(exp) != len(got) or any(abs(x - y) > 1e-6 for x, y in zip(got, exp)):
            return [{"what": "DensityGrid nodes do not equidistribute the declared density", "density": [a, b],
                     "rockit_nodes": got, "expected": exp}]
    for which, idx in (case.get("_probes") or {}).items():
        violated = any(s_ == 1 and hs[idx] > 1e-9 for s_, hs in r["rows"])
        if not violated:
            return [{"what": "minmax: every control interval violates the declared %s bound at this decision "
                             "point, yet no NLP constraint is violated" % which, "probe_point": idx}]
    return []


def classify(case, d):
    g = case["method"].get("grid") or {}
    if g.get("class") in ("Function", "Density") and (g.get("min") is not None or g.get("max") is not None):
        if any("minmax" in str(x.get("what", "")) for x in d):
            return "F3c-function-grid-minmax-ignored"
    return None


class C06Prop(NlpProp):
    def judge(self, cps, rr, mv):
        # a numeric control grid that violates the declared min/max must be refused (and only then)
        keep, extra_dis, refused = [], [], 0
        for i, (case, pts) in enumerate(cps):
            r = rr[i]
            viol = fixed_horizon_bound_violation(case)
            raised = "error" in r and "min/max bounds of the time grid" in str(r.get("error"))
            if viol and raised:
                refused += 1
                continue
            if not viol and fixed_horizon_bound_violation(case, parametric=True) and "error" not in r:
                # the horizon is a parameter: its value is only known when it is set; recorded finding
                extra_dis.append({"property": self.pid, "case": case, "points": pts, "finding_key": "F56-grid-bounds-parametric-horizon",
                                  "what": [{"what": "horizon given by a parameter: a control interval violates the grid's declared min/max at the "
                                                    "parameter's value, yet no NLP constraint exists and nothing is raised"}]})
                continue
            if viol and not raised and "error" not in r:
                extra_dis.append({"property": self.pid, "case": case, "points": pts, "finding_key": None,
                                  "what": [{"what": "fixed horizon: a control interval violates the grid's declared min/max, yet the "
                                                    "problem was transcribed (the bound is silently dropped)"}]})
                continue
            keep.append(i)
        sub = [cps[i] for i in keep]
        dis, nontriv, dist, skipped = NlpProp.judge(self, sub, [rr[i] for i in keep], {j: mv[i] for j, i in enumerate(keep) if i in mv})
        dist["refused: min/max violated by a fixed horizon"] = refused
        return dis + extra_dis, nontriv, dist, skipped

    def gen_cases(self, seed, n, opts, npts):
        import random
        out = []
        rng = random.Random(seed * 7919 + 6)
        for c, pts in NlpProp.gen_cases(self, seed, n, opts, npts):
            pts, probes = probe_points(rng, c, pts)
            c["_probes"] = probes
            out.append((c, pts))
        return out


P = C06Prop("C06", OPTS, OPTS_T, judge_kinds=[2, 5], judge_obj=False, nontrivial=nontrivial,
            extra=(engine.extras_time, engine.extra_time), extra_judge=extra_judge, classify=classify,
            rule="random small OCPs x grid class in {Uniform, Geometric local/global, Function, Density, Free} x "
                 "localize_t0 / localize_T x min / max x N in 1..6(8), M in 1..4 x fixed / FreeTime / parametric T, "
                 "fixed / free t0 x {MS, SS, DC}.  Compared: control and integrator time vectors, sample(ocp.t), "
                 "sample(ocp.DT), sample(ocp.DT_control) and all NLP rows generated by the grid object (kind grid) "
                 "and T>=0.  distinct by hash of the case")
run, replay = P.run, P.replay
