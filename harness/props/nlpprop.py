"""Generic NLP-engine property check: generated cases -> rockit NLP vs Rocq model rows."""
import os, json, random, glob
from ..common import VERIF, sha
from .. import gen, engine

TRUSTED = [
    "hand-written Rocq model Mech/{Grid,Intg,Sampling,Shooting,Colloc}.v of rockit's transcription, tied to /repo by the sampled correspondence of this run (generated OCPs x semantic decision points, NLP rows compared as multisets of normal rows, objective values, rtol 1e-9)",
    "model executed at the binary64 instance FloatOps (PrimFloat primitives) by vm_compute; theorems hold over every field of characteristic 0 (instance Qc proved)",
    "CasADi (symbolics, Opti canonical form, Function evaluation), numpy lstsq for realising semantic points",
]
ASSUMPTIONS = [
    "rockit read-back (ocp.sample / ocp.value) addresses decision variables; a consistent relabelling of read-back and rows is the same NLP",
    "expressions are rational functions over the stage symbols; constants are dyadic rationals",
    "cases whose values overflow (|v| > 1e7 or non-finite) or whose relations CasADi folds to constants are skipped",
]


class NlpProp:
    def __init__(self, pid, opts_q, opts_t, judge_kinds=None, judge_obj=True, n_q=120, n_t=1500,
                 build=None, nontrivial=None, classify=None, rule="", post=None, extra=None,
                 extra_judge=None):
        self.pid = pid
        self.opts_q, self.opts_t = opts_q, opts_t
        self.judge_kinds, self.judge_obj = judge_kinds, judge_obj
        self.n_q, self.n_t = n_q, n_t
        self.build = build or default_build
        self.nontrivial = nontrivial or (lambda case, mrows: True)
        self.classify = classify or (lambda case, d: None)
        self.rule = rule
        self.extra = extra
        self.extra_judge = extra_judge

    def gen_cases(self, seed, n, opts, npts):
        rng = random.Random(seed * 1000003 + sum(map(ord, self.pid)))
        out = []
        for i in range(n):
            c = self.build(rng, opts)
            c["id"] = "%s-%d-%d" % (self.pid, seed, i)
            pts = [gen.gen_point(rng, c) for _ in range(npts)]
            out.append((c, pts))
        return out

    def corpus(self):
        out = []
        for p in sorted(glob.glob(os.path.join(VERIF, "corpus", self.pid, "*.json"))):
            d = json.load(open(p))
            out.append((d["case"], d["points"]))
        return out

    def judge(self, cps, rr, mv):
        dis, nontriv, dist, skipped = [], set(), {}, 0
        for i, (case, pts) in enumerate(cps):
            m = case["method"]
            key = "%s/%s/%s" % (m["kind"], "next" if case.get("discrete") else m.get("intg", "-"),
                                (m.get("grid") or {}).get("class", "Uniform"))
            dist[key] = dist.get(key, 0) + 1
            r = rr[i]
            if i not in mv:
                d = [{"what": "rockit side failed before the model could run", "error": r.get("error"),
                      "mismatch": r.get("mismatch"), "trace": r.get("trace")}]
            else:
                d = engine.compare_case(case, mv[i], r, judge_kinds=self.judge_kinds, judge_obj=self.judge_obj)
                objs, mrows, mXs = engine.model_rows(mv[i])
                if "error" in r or engine.unjudgeable(objs, mrows, r):
                    skipped += 1
                elif not d:
                    if self.extra_judge and "extra" in r:
                        d = self.extra_judge(case, mv[i], r)
                    if self.nontrivial(case, mrows):
                        nontriv.add(sha(case))
            if d:
                dis.append({"property": self.pid, "what": d[:4], "case": case, "points": pts,
                            "finding_key": self.classify(case, d)})
        return dis, nontriv, dist, skipped

    def run(self, tier="quick", seed=0, jobs=16):
        n = self.n_q if tier == "quick" else self.n_t
        npts = 3 if tier == "quick" else 5
        cps = self.corpus() + self.gen_cases(seed, n, self.opts_q if tier == "quick" else self.opts_t, npts)
        rr = engine.run_rockit(cps, extra=self.extra, jobs=jobs)
        mv = engine.model_shooting(cps, [r.get("inputs") for r in rr], self.pid)
        dis, nontriv, dist, skipped = self.judge(cps, rr, mv)
        return {"evaluations": len(cps), "distinct_nontrivial": len(nontriv), "rule": self.rule,
                "samples": [{"case": cps[-1][0], "points": cps[-1][1][:1]}],
                "disagreements": dis, "distribution": dist,
                "extra": {"points_per_case": npts, "skipped_unjudgeable": skipped}}

    def replay(self, path):
        d = json.load(open(path))
        cps = [(d["case"], d["points"])]
        rr = engine.run_rockit(cps, extra=self.extra, jobs=1)
        mv = engine.model_shooting(cps, [r.get("inputs") for r in rr], self.pid + "r")
        dis, _, _, _ = self.judge(cps, rr, mv)
        print(json.dumps(dis[:1], indent=1, default=str)[:4000] if dis else "replay: agrees")
        return 1 if dis else 0


def default_build(rng, opts):
    c = gen.gen_base(rng, opts)
    if opts.get("constraints", True):
        gen.add_constraints(rng, c, opts)
    if opts.get("objective", True):
        gen.add_objective(rng, c, opts)
    return c
