"""Generic NLP-engine property check: generated cases -> rockit NLP vs Rocq model rows."""
import os, json, random, glob
from ..common import VERIF, sha
from .. import gen, engine

TRUSTED = [
    "hand-written Rocq model Mech/{Grid,Intg,Sampling,Shooting,Colloc}.v of rockit's transcription, tied to /repo by the sampled correspondence of this run (generated OCPs x semantic decision points, NLP rows compared as multisets of normal rows, objective values, rtol 1e-9)",
    "model executed at the binary64 instance FloatOps (PrimFloat primitives) by vm_compute; theorems hold over every field of characteristic 0 (instance Qc proved)",
    "CasADi (symbolics, Opti canonical form, Function evaluation), numpy lstsq for realising semantic points",
]
ASSUMPTIONS = [
    "rockit read-back (ocp.sample / ocp.value) addresses decision variables; a consistent relabelling of read-back and rows is the same NLP",
    "expressions are rational functions over the stage symbols; constants are dyadic rationals",
    "cases whose values overflow (|v| > 1e7 or non-finite) or whose relations CasADi folds to constants are skipped",
]


def density_nodes(a, b, N):
    """nodes tau_i with E(tau_i) = i/N for the density a + b*tau on [0,1] (closed form)"""
    import math
    I = a + b / 2.0
    return [(-a + math.sqrt(a * a + 2.0 * b * (i / N) * I)) / b for i in range(N + 1)]



def fixed_horizon_bound_violation(case, parametric=False):
    """True if the interval lengths are numeric (fixed T, grid not localized, not free) and one of the intervals is
    shorter than min / longer than max: no NLP constraint can enforce the bound, the problem must be refused"""
    from ..common import Fr
    m = case["method"]
    g = m.get("grid") or {}
    Th = case.get("T", {})
    if "fixed" not in Th and not (parametric and "param" in Th):
        return False          # (the interval lengths do not depend on t0)
    if g.get("class", "Uniform") == "Free":
        return False          # (localized Uniform / Geometric / Function grids on a numeric horizon have numeric intervals too)
    lo = float(Fr(g["min"])) if g.get("min") is not None else 0.0
    hi = float(Fr(g["max"])) if g.get("max") is not None else float("inf")
    N = m["N"]
    T = float(Fr(Th["fixed"])) if "fixed" in Th else float(Fr(case["param_values"]["p"][Th["param"]]))
    cls = g.get("class", "Uniform")
    if cls == "Uniform":
        nodes = [i / N for i in range(N + 1)]
    elif cls == "Geometric":
        gr = float(Fr(g.get("growth", 1)))
        if not g.get("local") and N > 1:
            gr = gr ** (1.0 / (N - 1))
        w, acc = 1.0, [0.0]
        for _ in range(N):
            acc.append(acc[-1] + w)
            w *= gr
        nodes = [a / acc[-1] for a in acc]
    elif cls == "Function":
        nodes = [float(Fr(v)) for v in g["nodes"]]
    elif cls == "Density":
        nodes = density_nodes(float(Fr(g["dens"][0])), float(Fr(g["dens"][1])), N)
    else:
        return False
    lens = [T * (b - a) for a, b in zip(nodes, nodes[1:])]
    tol = 1e-9
    return any(L < lo - tol for L in lens) or any(L > hi + tol for L in lens)



class NlpProp:
    def __init__(self, pid, opts_q, opts_t, judge_kinds=None, judge_obj=True, n_q=120, n_t=1500,
                 build=None, nontrivial=None, classify=None, rule="", post=None, extra=None,
                 extra_judge=None):
        self.pid = pid
        self.opts_q, self.opts_t = opts_q, opts_t
        self.judge_kinds, self.judge_obj = judge_kinds, judge_obj
        self.n_q, self.n_t = n_q, n_t
        self.build = build or default_build
        self.nontrivial = nontrivial or (lambda case, mrows: True)
        self.classify = classify or (lambda case, d: None)
        self.rule = rule
        self.extra = extra
        self.extra_judge = extra_judge

    def gen_cases(self, seed, n, opts, npts):
        rng = random.Random(seed * 1000003 + sum(map(ord, self.pid)))
        out = []
        for i in range(n):
            c = self.build(rng, opts)
            c["id"] = "%s-%d-%d" % (self.pid, seed, i)
            pts = [gen.gen_point(rng, c) for _ in range(npts)]
            out.append((c, pts))
        return out

    def corpus(self):
        out = []
        for p in sorted(glob.glob(os.path.join(VERIF, "corpus", self.pid, "*.json"))):
            d = json.load(open(p))
            out.append((d["case"], d["points"]))
        return out

    def judge(self, cps, rr, mv):
        dis, nontriv, dist, skipped = [], set(), {}, 0
        for i, (case, pts) in enumerate(cps):
            m = case["method"]
            key = "%s/%s/%s" % (m["kind"], "next" if case.get("discrete") else m.get("intg", "-"),
                                (m.get("grid") or {}).get("class", "Uniform"))
            dist[key] = dist.get(key, 0) + 1
            r = rr[i]
            if "error" in r and "min/max bounds of the time grid" in str(r.get("error")) and fixed_horizon_bound_violation(case):
                # a numeric horizon whose control intervals violate the grid's min/max is refused (no NLP constraint could enforce it)
                dist["refused: min/max violated by a fixed horizon"] = dist.get("refused: min/max violated by a fixed horizon", 0) + 1
                continue
            if i not in mv:
                d = [{"what": "rockit side failed before the model could run", "error": r.get("error"),
                      "mismatch": r.get("mismatch"), "trace": r.get("trace")}]
            else:
                d = engine.compare_case(case, mv[i], r, judge_kinds=self.judge_kinds, judge_obj=self.judge_obj)
                objs, mrows, mXs = engine.model_rows(mv[i])
                if "error" in r or engine.unjudgeable(objs, mrows, r):
                    skipped += 1
                elif not d:
                    if self.extra_judge and "extra" in r:
                        d = self.extra_judge(case, mv[i], r)
                    if self.nontrivial(case, mrows):
                        nontriv.add(sha(case))
            if d:
                dis.append({"property": self.pid, "what": d[:4], "case": case, "points": pts,
                            "finding_key": self.classify(case, d)})
        return dis, nontriv, dist, skipped

    def run(self, tier="quick", seed=0, jobs=16):
        n = self.n_q if tier == "quick" else self.n_t
        npts = 3 if tier == "quick" else 5
        cps = self.corpus() + self.gen_cases(seed, n, self.opts_q if tier == "quick" else self.opts_t, npts)
        rr = engine.run_rockit(cps, extra=self.extra, jobs=jobs)
        mv = engine.model_shooting(cps, [r.get("inputs") for r in rr], self.pid)
        dis, nontriv, dist, skipped = self.judge(cps, rr, mv)
        return {"evaluations": len(cps), "distinct_nontrivial": len(nontriv), "rule": self.rule,
                "samples": [{"case": cps[-1][0], "points": cps[-1][1][:1]}],
                "disagreements": dis, "distribution": dist,
                "extra": {"points_per_case": npts, "skipped_unjudgeable": skipped}}

    def replay(self, path):
        d = json.load(open(path))
        cps = [(d["case"], d["points"])]
        rr = engine.run_rockit(cps, extra=self.extra, jobs=1)
        mv = engine.model_shooting(cps, [r.get("inputs") for r in rr], self.pid + "r")
        dis, _, _, _ = self.judge(cps, rr, mv)
        print(json.dumps(dis[:1], indent=1, default=str)[:4000] if dis else "replay: agrees")
        return 1 if dis else 0


def default_build(rng, opts):
    c = gen.gen_base(rng, opts)
    if opts.get("constraints", True):
        gen.add_constraints(rng, c, opts)
    if opts.get("objective", True):
        gen.add_objective(rng, c, opts)
    return c
