"""C17 — B-spline signals and SplineMethod trajectories are exact splines of the model."""
import os, json, math, random, traceback
import multiprocessing as mp
import numpy as np
from fractions import Fraction
from ..common import VERIF, sha, Fr, jq, dyadic
from .. import gen, engine, coqrun, cases as CS

TRUSTED = [
    "Rocq model Mech/Spline.v (Cox-de Boor recursion on clamped knots, derivative-coefficient and Greville formulas) tied "
    "to /repo by comparing rockit's kernels eval_on_knots / bspline_derivative / get_greville_points, the samples of "
    "grid='bspline' parameters and SplineMethod trajectories with the model at random knots, coefficients and refinements",
    "scipy.interpolate.BSpline as an independent second opinion for spline values and derivatives",
]
ASSUMPTIONS = ["knots are strictly increasing dyadic rationals; coefficients dyadic"]


def gen_kernel(rng):
    N = rng.randint(1, 8)
    d = rng.randint(0, 4)
    if rng.random() < 0.5:
        xi = [Fraction(i, N) for i in range(N + 1)]
    else:
        pts = sorted(rng.sample(range(1, 64), N - 1)) if N > 1 else []
        xi = [Fraction(0)] + [Fraction(p, 64) for p in pts] + [Fraction(1)]
    r = rng.randint(1, 5)
    taus = [Fraction(i, r) for i in range(1, r)]           # subsamples = r-1
    c = [dyadic(rng, -3, 3, 2) for _ in range(N + d)]
    return {"N": N, "d": d, "xi": [jq(v) for v in xi], "taus": [jq(v) for v in taus], "refine": r,
            "edges": rng.random() < 0.8, "c": [jq(v) for v in c]}


def kernel_worker(k):
    from ..common import setup_rockit_path
    setup_rockit_path()
    import casadi as ca
    from rockit.splines.micro_spline import eval_on_knots, bspline_derivative, get_greville_points
    out = {}
    try:
        xi = ca.DM([float(Fr(v)) for v in k["xi"]]).T
        d = k["d"]
        kk, B = eval_on_knots(xi, d, subsamples=len(k["taus"]), include_edges=k["edges"]) if k["taus"] or k["edges"] else (ca.DM(1, 0), ca.DM(k["N"] + d, 0))
        out["k"] = np.array(ca.DM(kk)).reshape(-1).tolist()
        out["B"] = np.array(ca.DM(B)).T.tolist() if ca.DM(B).numel() else []
        c = ca.DM([float(Fr(v)) for v in k["c"]]).T
        out["dc"] = np.array(ca.DM(bspline_derivative(c, xi, d))).reshape(-1).tolist() if d >= 1 else []
        out["g"] = np.array(ca.DM(get_greville_points(xi, d))).reshape(-1).tolist()
        # second opinion: scipy
        from scipy.interpolate import BSpline
        knots = [float(Fr(k["xi"][0]))] * d + [float(Fr(v)) for v in k["xi"]] + [float(Fr(k["xi"][-1]))] * d
        sp = BSpline(np.array(knots), np.array([float(Fr(v)) for v in k["c"]]), d, extrapolate=False)
        xs = np.array(out["k"])
        out["scipy_vals"] = [float(v) for v in sp(np.minimum(xs, knots[-1] - 0.0))]
        if d >= 1:
            out["scipy_der"] = [float(v) for v in sp.derivative()(xs)]
    except Exception as e:
        out["error"] = "%s: %s" % (type(e).__name__, str(e)[:300])
        out["trace"] = traceback.format_exc()[-1000:]
    return out


def model_kernels(ks):
    lines = ["Eval vm_compute in (run_spline_float %s %d%%nat %s %s %s).\n" % (
        CS.cqlist(k["xi"]), k["d"], CS.cqlist(k["taus"]), CS.cbool(k["edges"]), CS.cqlist(k["c"])) for k in ks]
    bodies = ["".join(lines[i:i + 80]) for i in range(0, len(lines), 80)]
    res = coqrun.run_shards("C17k", bodies)
    return [v for sh in res for v in sh]


def cdb_value(knots, d, c, x):
    """pure-python Cox-de Boor (used for the semantic derivative check and SplineMethod)"""
    n = len(knots) - d - 1
    for q in knots:
        if abs(x - q) < 1e-9:
            x = q        # snap to the knot: evaluation is right-continuous there, as in rockit
    j = None
    for t in range(d, len(knots) - d - 1):
        if knots[t] <= x < knots[t + 1]:
            j = t
    if j is None:
        j = len(knots) - d - 2
    B = [1.0 if i == j else 0.0 for i in range(len(knots) - 1)]
    for e in range(1, d + 1):
        Bn = []
        for i in range(len(knots) - e - 1):
            v = 0.0
            if B[i] != 0.0:
                v += (x - knots[i]) / (knots[i + e] - knots[i]) * B[i]
            if B[i + 1] != 0.0:
                v += (knots[i + e + 1] - x) / (knots[i + e + 1] - knots[i + 1]) * B[i + 1]
            Bn.append(v)
        B = Bn
    return sum(ci * bi for ci, bi in zip(c, B[:n]))


def judge_kernel(k, r, m):
    if "error" in r:
        return [{"what": "rockit kernel raised", "error": r["error"], "trace": r.get("trace")}]
    mk, mB, mdc, mg = m
    if len(mk) != len(r["k"]) or not all(engine.close(a, b) for a, b in zip(r["k"], mk)):
        return [{"what": "evaluation points of eval_on_knots differ", "rockit": r["k"], "model": mk}]
    d = k["d"]
    for col, (rb, mb) in enumerate(zip(r["B"], mB)):
        if len(rb) != len(mb) or not all(engine.close(a, b, rtol=1e-8) for a, b in zip(rb, mb)):
            return [{"what": "basis matrix of eval_on_knots differs from the Cox-de Boor recursion", "column": col,
                     "point": mk[col], "rockit": rb, "model": mb}]
    if d >= 1 and (len(r["dc"]) != len(mdc) or not all(engine.close(a, b, scale=abs(b)) for a, b in zip(r["dc"], mdc))):
        return [{"what": "bspline_derivative coefficients differ", "rockit": r["dc"], "model": mdc}]
    if len(r["g"]) != len(mg) or not all(engine.close(a, b) for a, b in zip(r["g"], mg)):
        return [{"what": "Greville points are not the knot averages", "rockit": r["g"], "model": mg}]
    # semantic: spline of the derivative coefficients is the derivative of the spline (second opinion)
    c = [float(Fr(v)) for v in k["c"]]
    for col, x in enumerate(mk):
        val = sum(ci * bi for ci, bi in zip(c, mB[col]))
        sv = r["scipy_vals"][col]
        if not math.isnan(sv) and not engine.close(val, sv, rtol=1e-8, scale=abs(sv)) and x < float(Fr(k["xi"][-1])):
            return [{"what": "model spline value differs from scipy BSpline", "x": x, "model": val, "scipy": sv}]
    if d >= 1:
        knots1 = [float(Fr(k["xi"][0]))] * (d - 1) + [float(Fr(v)) for v in k["xi"]] + [float(Fr(k["xi"][-1]))] * (d - 1)
        xi_f = [float(Fr(v)) for v in k["xi"]]
        for col, x in enumerate(mk):
            if any(abs(x - t) < 1e-12 for t in xi_f):
                continue    # derivative may jump at knots for low degree
            dv = cdb_value(knots1, d - 1, mdc, x)
            sd = r["scipy_der"][col]
            if not math.isnan(sd) and not engine.close(dv, sd, rtol=1e-7, scale=abs(sd)):
                return [{"what": "spline of the derivative coefficients is not the derivative of the spline", "x": x,
                         "from_coefficients": dv, "scipy_derivative": sd}]
    return []


# ---------------------------------------------------------------- bspline parameters and SplineMethod
def signal_worker(k):
    """a grid='bspline' parameter of order d under MultipleShooting, and a SplineMethod chain: samples at refinement r
    against Cox-de Boor of the coefficients"""
    from ..common import setup_rockit_path
    rockit = setup_rockit_path()
    import io, contextlib
    import casadi as ca
    out = {}
    try:
        with contextlib.redirect_stdout(io.StringIO()):
            N, d, r = k["N"], k["d"], k["refine"]
            t0, T = 0.5, 2.0
            coeffs = [float(Fr(v)) for v in k["c"]]
            # (a) bspline parameter under MultipleShooting (sampling on the control and refined integrator grids)
            ocp = rockit.Ocp(t0=t0, T=T)
            x = ocp.state(); u = ocp.control()
            p = ocp.parameter(grid="bspline", order=d)
            ocp.set_der(x, u)
            ocp.add_objective(ocp.at_tf(x) ** 2 + ocp.integral(u ** 2))
            ocp.subject_to(x <= p + 100)
            ocp.set_value(p, ca.DM(coeffs).T)
            ocp.method(rockit.MultipleShooting(N=N, intg="rk"))
            ocp.solver("ipopt", {"ipopt.print_level": 0, "print_time": False})
            ts, ps = ocp.sample(p, grid="control")
            opti = ocp._method.opti
            out["par_t"] = np.array(opti.debug.value(ts, opti.initial())).reshape(-1).tolist()
            out["par_v"] = np.array(opti.debug.value(ps, opti.initial())).reshape(-1).tolist()
            ts2, ps2 = ocp.sample(p, grid="integrator", refine=r)
            out["par_t_fine"] = np.array(opti.debug.value(ts2, opti.initial())).reshape(-1).tolist()
            out["par_v_fine"] = np.array(opti.debug.value(ps2, opti.initial())).reshape(-1).tolist()
            # (a') der() of the bspline parameter, hosted by SplineMethod
            if d >= 1:
                ocp3 = rockit.Ocp(t0=t0, T=T)
                xc = ocp3.control(order=2)
                p3 = ocp3.parameter(grid="bspline", order=d)
                dp = ocp3.der(p3)
                dp2 = ocp3.der(dp) if d >= 2 else None    # declared before the first transcription
                # a second signal, used before the first one inside the differentiated expression
                q3 = ocp3.parameter(grid="bspline", order=d)
                dmix = ocp3.der(2 * q3 - 3 * p3 + ocp3.t * q3)
                ocp3.add_objective(ocp3.sum((xc - p3) ** 2, include_last=True))
                ocp3.set_value(p3, ca.DM(coeffs).T)
                ocp3.set_value(q3, ca.DM(coeffs[::-1]).T)
                ocp3.method(rockit.SplineMethod(N=N))
                ocp3.solver("ipopt", {"ipopt.print_level": 0, "print_time": False})
                td, pd = ocp3.sample(dp, grid="control", refine=r)
                o3 = ocp3._method.opti
                out["der_t"] = np.array(o3.debug.value(td, o3.initial())).reshape(-1).tolist()
                out["der_v"] = np.array(o3.debug.value(pd, o3.initial())).reshape(-1).tolist()
                tm, pm = ocp3.sample(dmix, grid="control", refine=r)
                out["mix_t"] = np.array(o3.debug.value(tm, o3.initial())).reshape(-1).tolist()
                out["mix_v"] = np.array(o3.debug.value(pm, o3.initial())).reshape(-1).tolist()
                if d >= 2:
                    # higher derivatives: der(der(p)) is the second derivative in physical time
                    td2, pd2 = ocp3.sample(dp2, grid="control", refine=r)
                    out["der2_t"] = np.array(o3.debug.value(td2, o3.initial())).reshape(-1).tolist()
                    out["der2_v"] = np.array(o3.debug.value(pd2, o3.initial())).reshape(-1).tolist()
            # (b) SplineMethod: chain of length L = d+1 (x_1' = x_2, ..., x_d' = u) -> degree-d spline for x_1
            L = max(d, 1)
            ocp2 = rockit.Ocp(t0=t0, T=T)
            xs = [ocp2.state() for _ in range(L)]
            uu = ocp2.control()
            for i in range(L - 1):
                ocp2.set_der(xs[i], xs[i + 1])
            ocp2.set_der(xs[-1], uu)
            ocp2.add_objective(ocp2.at_tf(xs[0]) ** 2)
            ocp2.subject_to(-100 <= (uu <= 100))
            # an affine grid='inf' constraint with a constant offset: bounds on the spline coefficients
            ocp2.subject_to(-7 <= (2 * xs[0] + 0.5 <= 9), grid="inf")
            ocp2.method(rockit.SplineMethod(N=N, grid=rockit.GeometricGrid(2.0)) if k.get("geo") else rockit.SplineMethod(N=N))
            ocp2.solver("ipopt", {"ipopt.print_level": 0, "print_time": False})
            tcn = ocp2.sample(xs[0], grid="control")[0]
            tg, cg = ocp2.sample(xs[0], grid="gist")
            tt, vv = ocp2.sample(xs[0], grid="control", refine=r)
            tu, vu = ocp2.sample(uu, grid="control", refine=r)
            tgu, cgu = ocp2.sample(uu, grid="gist")
            opti2 = ocp2._method.opti
            xsym = opti2.x
            f = ca.Function("f", [xsym], [ca.vec(tg), ca.vec(cg), ca.vec(tt), ca.vec(vv), ca.vec(vu), ca.vec(cgu), ca.vec(tcn)])
            rng = np.random.RandomState(k["N"] * 7 + k["d"])
            xval = np.round(rng.uniform(-2, 2, xsym.numel()) * 8) / 8
            vals = [np.array(v).reshape(-1).tolist() for v in f(xval)]
            from .. import nlp as _nlp
            gf = ca.Function("gf", [xsym], [opti2.g, opti2.lbg, opti2.ubg])
            gv, lbv, ubv = [np.array(v).reshape(-1) for v in gf(xval)]
            inf_rows = sorted(float(h) for s_, i_, q_, h in _nlp.normal_rows(gv, lbv, ubv) if s_ == 1)
            out["sm"] = {"L": L, "gist_t": vals[0], "gist_c": vals[1], "t": vals[2], "v": vals[3], "u": vals[4], "gist_u": vals[5], "tc": vals[6],
                         "rows": int(opti2.g.numel()), "ineq_rows": inf_rows}
            # (c) SplineMethod, chain of length >= 2: path constraints that leave out the first / last grid point, and
            #     a grid='inf' constraint on a sum of chain members of different spline degree
            if L >= 2:
                def chain():
                    o = rockit.Ocp(t0=t0, T=T)
                    ys = [o.state() for _ in range(L)]
                    w = o.control()
                    for i in range(L - 1):
                        o.set_der(ys[i], ys[i + 1])
                    o.set_der(ys[-1], w)
                    o.add_objective(o.at_tf(ys[0]) ** 2)
                    return o, ys, w
                incl = (bool(k["N"] % 2), bool(k["d"] % 2))          # (include_first, include_last)
                o4, ys, w = chain()
                o4.subject_to(ys[0] <= 3, include_first=incl[0], include_last=incl[1])
                o4.method(rockit.SplineMethod(N=N, grid=rockit.GeometricGrid(2.0)) if k.get("geo") else rockit.SplineMethod(N=N))
                o4.solver("ipopt", {"ipopt.print_level": 0, "print_time": False})
                tv4, vv4 = o4.sample(ys[0], grid="control")
                op4 = o4._method.opti
                f4 = ca.Function("f4", [op4.x], [ca.vec(vv4), op4.g, op4.lbg, op4.ubg])
                rng4 = np.random.RandomState(k["N"] * 11 + k["d"])
                x4 = np.round(rng4.uniform(-2, 2, op4.x.numel()) * 8) / 8
                v4, g4, lb4, ub4 = [np.array(v).reshape(-1) for v in f4(x4)]
                out["incl"] = {"include": list(incl), "values": v4.tolist(),
                               "ineq_rows": sorted(float(h) for s_, i_, q_, h in _nlp.normal_rows(g4, lb4, ub4) if s_ == 1)}
                # mixed degrees: either rejected, or sufficient (rows hold, tightest with equality => refined sample below the bound)
                o5, ys5, w5 = chain()
                o5.subject_to(ys5[0] + ys5[1] <= 5, grid="inf")
                o5.method(rockit.SplineMethod(N=N))
                o5.solver("ipopt", {"ipopt.print_level": 0, "print_time": False})
                try:
                    t5, e5 = o5.sample(ys5[0] + ys5[1], grid="control", refine=8)
                    op5 = o5._method.opti
                    f5 = ca.Function("f5", [op5.x], [ca.vec(e5), op5.g, op5.lbg, op5.ubg])
                    x5 = np.abs(np.round(np.random.RandomState(k["N"] * 13 + k["d"]).uniform(0.2, 2, op5.x.numel()) * 8) / 8)
                    _, g5, lb5, ub5 = [np.array(v).reshape(-1) for v in f5(x5)]
                    # the rows are affine in the decision vector: a.x - 5 <= 0; scale x so that the tightest holds with equality
                    ax = np.array([h + 5.0 for s_, i_, q_, h in _nlp.normal_rows(g5, lb5, ub5) if s_ == 1])
                    if len(ax) and ax.max() > 1e-9:
                        alpha = 5.0 / ax.max()
                        e5v = np.array(f5(alpha * x5)[0]).reshape(-1)
                        out["mixed_inf"] = {"accepted": True, "max_refined": float(e5v.max()), "bound": 5.0}
                    else:
                        out["mixed_inf"] = {"accepted": True, "max_refined": None}
                except Exception as e5x:
                    out["mixed_inf"] = {"accepted": False, "error": str(e5x)[:120]}
                # the grid's min bound with a free horizon: a decision vector whose intervals are too short must violate a row
                o6, ys6, w6 = chain()
                o6.set_T(rockit.FreeTime(1.0))
                o6.method(rockit.SplineMethod(N=N, grid=rockit.UniformGrid(min=0.5)))
                o6.solver("ipopt", {"ipopt.print_level": 0, "print_time": False})
                Tv = o6.value(o6.T)
                op6 = o6._method.opti
                f6 = ca.Function("f6", [op6.x], [Tv, ca.jacobian(Tv, op6.x), op6.g, op6.lbg, op6.ubg])
                x6 = np.zeros(op6.x.numel())
                jt = np.array(f6(x6)[1]).reshape(-1)
                x6[int(np.argmax(np.abs(jt)))] = 0.25 * N / float(jt[int(np.argmax(np.abs(jt)))])      # T = N/4: intervals of 1/4 < 1/2
                T6, _, g6, lb6, ub6 = [np.array(v).reshape(-1) for v in f6(x6)]
                out["grid_min"] = {"T": float(T6[0]), "N": N,
                                   "violated": bool(any(h > 1e-9 for s_, i_, q_, h in _nlp.normal_rows(g6, lb6, ub6) if s_ == 1))}
                # ocp.integral under SplineMethod: refused, or it contributes to the objective
                o7, ys7, w7 = chain()
                o7.add_objective(o7.integral(ys7[0] ** 2 + 1))
                o7.method(rockit.SplineMethod(N=N))
                o7.solver("ipopt", {"ipopt.print_level": 0, "print_time": False})
                try:
                    o7.sample(ys7[0], grid="control")
                    op7 = o7._method.opti
                    x7 = np.round(np.random.RandomState(k["N"] * 17 + k["d"]).uniform(-2, 2, op7.x.numel()) * 8) / 8
                    tf7 = o7.sample(ys7[0], grid="control")[1][-1]
                    fv, xf = [float(v) for v in ca.Function("f7", [op7.x], [op7.f, tf7])(x7)]
                    out["integral"] = {"accepted": True, "objective": fv, "mayer_part": xf ** 2, "T": T}
                except Exception as e7x:
                    out["integral"] = {"accepted": False, "error": str(e7x)[:100]}
                # several path constraints, some with next/prev, one with include_first=False: each at its own grid points
                o9, ys9, w9 = chain()
                o9.subject_to(ys9[1] <= 1)
                o9.subject_to(o9.next(ys9[0]) - ys9[0] <= 3)
                o9.subject_to(ys9[0] - o9.prev(ys9[0]) <= 2, include_first=False)
                o9.method(rockit.SplineMethod(N=N))
                o9.solver("ipopt", {"ipopt.print_level": 0, "print_time": False})
                _, p9 = o9.sample(ys9[0], grid="control")
                _, v9 = o9.sample(ys9[1], grid="control")
                op9 = o9._method.opti
                f9 = ca.Function("f9", [op9.x], [ca.vec(p9), ca.vec(v9), op9.g, op9.lbg, op9.ubg])
                x9 = np.round(np.random.RandomState(k["N"] * 19 + k["d"]).uniform(-2, 2, op9.x.numel()) * 8) / 8
                pv, vv9, g9, lb9, ub9 = [np.array(v).reshape(-1) for v in f9(x9)]
                out["stacked"] = {"p": pv.tolist(), "v": vv9.tolist(),
                                  "ineq_rows": sorted(float(h) for s_, i_, q_, h in _nlp.normal_rows(g9, lb9, ub9) if s_ == 1)}
                # 'control-' has N points; an offset of time is the shifted time (or is refused)
                o8, ys8, w8 = chain()
                o8.method(rockit.SplineMethod(N=N))
                o8.solver("ipopt", {"ipopt.print_level": 0, "print_time": False})
                tcm, vcm = o8.sample(ys8[0], grid="control-")
                out["control_minus"] = [int(tcm.numel()), int(vcm.shape[1]), N]
                try:
                    _, dtn = o8.sample(o8.next(o8.t) - o8.t, grid="control")
                    op8 = o8._method.opti
                    out["next_t"] = {"accepted": True, "values": np.array(ca.Function("f8", [op8.x], [dtn])(np.zeros(op8.x.numel()))).reshape(-1).tolist(), "dt": T / N}
                except Exception as e8x:
                    out["next_t"] = {"accepted": False, "error": str(e8x)[:100]}
    except Exception as e:
        out["error"] = "%s: %s" % (type(e).__name__, str(e)[:300])
        out["trace"] = traceback.format_exc()[-1500:]
    return out


def judge_integral(k, r):
    """SplineMethod and ocp.integral (judged on its own: a recorded finding must not hide the other checks of the case)"""
    it = r.get("integral")
    if it and it.get("accepted") and not it["objective"] > it["mayer_part"] + 0.5 * it["T"]:
        return [{"what": "SplineMethod: ocp.integral(x**2 + 1) was accepted but does not contribute (at least T) to the objective",
                 "objective": it["objective"], "mayer_term": it["mayer_part"], "T": it["T"]}]
    return []


def judge_signal(k, r):
    if "error" in r:
        return [{"what": "rockit raised on a bspline signal / SplineMethod case", "error": r["error"], "trace": r.get("trace")}]
    N, d, rf = k["N"], k["d"], k["refine"]
    t0, T = 0.5, 2.0
    xi = [float(Fr(v)) for v in k["xi"]]
    if xi != [i / N for i in range(N + 1)]:
        xi = [i / N for i in range(N + 1)]     # the methods use a uniform grid here
    c = [float(Fr(v)) for v in k["c"]]
    knots = [xi[0]] * d + xi + [xi[-1]] * d
    for t, v in zip(r["par_t"], r["par_v"]):
        m = cdb_value(knots, d, c, (t - t0) / T)
        if not engine.close(v, m, rtol=1e-8, scale=abs(m)):
            return [{"what": "sample of a grid='bspline' parameter is not the Cox-de Boor value of its coefficients", "t": t, "rockit": v, "model": m}]
    for t, v in zip(r["par_t_fine"], r["par_v_fine"]):
        m = cdb_value(knots, d, c, (t - t0) / T)
        if not engine.close(v, m, rtol=1e-8, scale=abs(m)):
            return [{"what": "refined sample of a grid='bspline' parameter is not the Cox-de Boor value", "t": t, "rockit": v, "model": m, "refine": rf}]
    if d >= 1 and "der_v" in r:
        K = knots
        dc = [d * (c[i + 1] - c[i]) / (K[i + d + 1] - K[i + 1]) / T for i in range(len(c) - 1)]
        k1 = [xi[0]] * (d - 1) + xi + [xi[-1]] * (d - 1)
        for t, v in zip(r["der_t"], r["der_v"]):
            sn = (t - t0) / T
            m = cdb_value(k1, d - 1, dc, sn)
            if not engine.close(v, m, rtol=1e-8, scale=abs(m)):
                return [{"what": "der() of a bspline signal is not the analytic derivative in physical time", "t": t, "rockit": v, "model": m}]
        if "mix_v" in r:
            # d/dt (2 q - 3 p + t q) = 2 q' - 3 p' + q + t q'   with q's coefficients = reversed(c)
            cq = c[::-1]
            dq = [d * (cq[i + 1] - cq[i]) / (K[i + d + 1] - K[i + 1]) / T for i in range(len(cq) - 1)]
            for t, v in zip(r["mix_t"], r["mix_v"]):
                sn = (t - t0) / T
                m = 2 * cdb_value(k1, d - 1, dq, sn) - 3 * cdb_value(k1, d - 1, dc, sn) + cdb_value(knots, d, cq, sn) \
                    + t * cdb_value(k1, d - 1, dq, sn)
                if not engine.close(v, m, rtol=1e-8, scale=abs(m) + 10):
                    return [{"what": "der() of an expression with two bspline signals is not its derivative in physical time", "t": t, "rockit": v, "model": m}]
        if d >= 2 and "der2_v" in r:
            dc2 = [(d - 1) * (dc[i + 1] - dc[i]) / (k1[i + d] - k1[i + 1]) / T for i in range(len(dc) - 1)]
            k2 = [xi[0]] * (d - 2) + xi + [xi[-1]] * (d - 2)
            for t, v in zip(r["der2_t"], r["der2_v"]):
                m = cdb_value(k2, d - 2, dc2, (t - t0) / T)
                if not engine.close(v, m, rtol=1e-8, scale=abs(m)):
                    return [{"what": "der(der()) of a bspline signal is not the second derivative in physical time", "t": t, "rockit": v, "model": m}]
    sm = r["sm"]
    L = sm["L"]
    dd = L
    # knots of the SplineMethod trajectory: the (possibly non-uniform) control grid, normalised
    xi = [(t - t0) / T for t in sm["tc"]]
    if len(xi) != N + 1 or abs(xi[0]) > 1e-12 or abs(xi[-1] - 1) > 1e-12 or any(b <= a for a, b in zip(xi, xi[1:])):
        return [{"what": "SplineMethod: the control grid is not an increasing partition of [t0, t0+T] with N intervals", "times": sm["tc"]}]
    xi[0], xi[-1] = 0.0, 1.0
    kn = [xi[0]] * dd + xi + [xi[-1]] * dd
    cg = sm["gist_c"]
    if len(cg) != N + dd:
        return [{"what": "SplineMethod: number of gist coefficients is not N + degree", "got": len(cg), "N": N, "degree": dd}]
    # coefficients sit at the Greville points
    gre = [t0 + T * sum(kn[i + 1 + q] for q in range(dd)) / dd for i in range(N + dd)]
    if not all(engine.close(a, b) for a, b in zip(sm["gist_t"], gre)):
        return [{"what": "SplineMethod: gist times are not the Greville points", "rockit": sm["gist_t"], "model": gre}]
    for t, v in zip(sm["t"], sm["v"]):
        m = cdb_value(kn, dd, cg, (t - t0) / T)
        if not engine.close(v, m, rtol=1e-8, scale=abs(m)):
            return [{"what": "SplineMethod: refined sample of a state is not the Cox-de Boor value of its gist coefficients", "t": t, "rockit": v, "model": m}]
    # grid='inf' on 2*x + 0.5 in [-7, 9]: for every coefficient c_j of x the rows 2 c_j + 0.5 - 9 <= 0 and
    # -7 - (2 c_j + 0.5) <= 0 must be among the inequality rows
    rows = list(sm.get("ineq_rows", []))
    for cj in cg:
        for h in (2 * cj + 0.5 - 9, -7 - (2 * cj + 0.5)):
            hit = next((k_ for k_, v_ in enumerate(rows) if abs(v_ - h) <= 1e-9 * (1 + abs(h))), None)
            if hit is None:
                return [{"what": "SplineMethod: the grid='inf' bound on an affine expression with a constant offset is not imposed "
                                 "on the spline coefficients", "coefficient": cj, "expected_row_value": h}]
            rows.pop(hit)
    # path constraints leaving out the first / last grid point
    if "incl" in r:
        inc = r["incl"]
        vals = inc["values"][(0 if inc["include"][0] else 1):(len(inc["values"]) if inc["include"][1] else len(inc["values"]) - 1)]
        exp = sorted(v - 3.0 for v in vals)
        got = inc["ineq_rows"]
        if len(exp) != len(got) or not all(engine.close(a, b, scale=abs(b)) for a, b in zip(got, exp)):
            return [{"what": "SplineMethod: a path constraint with include_first=%s, include_last=%s is not imposed at exactly the "
                             "declared grid points" % tuple(inc["include"]), "rows_rockit": got, "rows_expected": exp}]
    # grid='inf' on a sum of chain members of different degree: rejected, or a sufficient condition
    mi = r.get("mixed_inf")
    if mi and mi.get("accepted") and mi.get("max_refined") is not None and mi["max_refined"] > mi["bound"] * (1 + 1e-9):
        return [{"what": "SplineMethod: grid='inf' constraint on a sum of splines of different degree: all generated rows hold "
                         "(tightest with equality) yet the refined sample exceeds the bound", "max_refined": mi["max_refined"], "bound": mi["bound"]}]
    gm = r.get("grid_min")
    if gm and not gm["violated"]:
        return [{"what": "SplineMethod: UniformGrid(min=0.5) with a free horizon: a decision vector with T = N/4 (control intervals of "
                         "1/4) violates no NLP constraint", "T": gm["T"], "N": gm["N"]}]
    st = r.get("stacked")
    if st:
        pp, vv = st["p"], st["v"]
        exp = sorted([v_ - 1.0 for v_ in vv] + [pp[i + 1] - pp[i] - 3.0 for i in range(len(pp) - 1)]
                     + [pp[i] - pp[i - 1] - 2.0 for i in range(1, len(pp))])
        got = st["ineq_rows"]
        if len(exp) != len(got) or not all(engine.close(a, b, scale=abs(b)) for a, b in zip(got, exp)):
            return [{"what": "SplineMethod: path constraints v<=1, next(p)-p<=3, p-prev(p)<=2 (include_first=False) are not imposed at "
                             "N+1, N and N grid points respectively", "n_rows_rockit": len(got), "n_rows_expected": len(exp),
                     "rockit": got[:12], "expected": exp[:12]}]
    cm = r.get("control_minus")
    if cm and not (cm[0] == cm[2] and cm[1] == cm[2]):
        return [{"what": "SplineMethod: sample(x, grid='control-') does not return N time points and N values", "times_values_N": cm}]
    nt = r.get("next_t")
    if nt and nt.get("accepted") and not all((v != v) or engine.close(v, nt["dt"]) for v in nt["values"]):
        return [{"what": "SplineMethod: sample(next(t) - t, grid='control') is not the interval length", "rockit": nt["values"], "dt": nt["dt"]}]
    # the control is the L-th derivative in physical time: chain dynamics hold identically
    co = list(cg)
    for q in range(dd):
        deg = dd - q
        K = [xi[0]] * deg + xi + [xi[-1]] * deg
        co = [deg * (co[i + 1] - co[i]) / (K[i + deg + 1] - K[i + 1]) / T for i in range(len(co) - 1)]
    if len(co) != len(sm["gist_u"]) or not all(engine.close(a, b, rtol=1e-7, scale=abs(b)) for a, b in zip(sm["gist_u"], co)):
        return [{"what": "SplineMethod: control coefficients are not the L-fold derivative coefficients of the state", "rockit": sm["gist_u"], "model": co}]
    return []


def probe_worker(cfg):
    """a grid='bspline' parameter inside the dynamics of a shooting method: the gap-closing residual at the zero
    decision vector must be -h * p(t_k) (explicit Euler, x' = p(t) + 100 v)"""
    from ..common import setup_rockit_path
    rockit = setup_rockit_path()
    import io, contextlib
    import casadi as ca
    out = {}
    try:
        with contextlib.redirect_stdout(io.StringIO()):
            N, d, c, with_var = cfg["N"], cfg["d"], cfg["c"], cfg["with_var"]
            ocp = rockit.Ocp(T=1)
            x = ocp.state()
            p = ocp.parameter(grid="bspline", order=d)
            rhs = p
            if with_var:
                v = ocp.variable()
                rhs = rhs + 100 * v
                ocp.add_objective(v ** 2)
            if cfg.get("with_bsvar"):
                w = ocp.variable(grid="bspline", order=1)
                rhs = rhs + 10 * w
                ocp.add_objective(ocp.sum(w ** 2))
            if cfg.get("pc"):
                pc = ocp.parameter(grid="control")
                rhs = rhs + 1000 * pc
            if cfg.get("g") is not None:
                gg = ocp.parameter()
                rhs = rhs + 10000 * gg
            ocp.set_der(x, rhs)
            ocp.add_objective(ocp.at_tf(x) ** 2)
            ocp.subject_to(ocp.at_t0(x) == 0)
            ocp.set_value(p, ca.DM(c).T)
            if cfg.get("pc"):
                ocp.set_value(pc, ca.DM(cfg["pc"]).T)
            if cfg.get("g") is not None:
                ocp.set_value(gg, cfg["g"])
            if cfg.get("method") == "DC" and cfg.get("with_bsvar"):
                ocp.set_initial(w, 0.75)        # a constant guess for a bspline variable
            if cfg.get("method") == "DC":
                ocp.method(rockit.DirectCollocation(N=N, M=1, degree=1, scheme="legendre"))
            else:
                ocp.method(rockit.MultipleShooting(N=N, intg="expl_euler"))
            ocp.solver("ipopt", {"ipopt.print_level": 0, "print_time": False})
            ocp.sample(x, grid="control")
            # the parameter itself on the refined integrator grid (the system-function parameter vector is assembled
            # a second time there)
            _, pref = ocp.sample(p, grid="integrator", refine=2)
            opti = ocp._method.opti
            f = ca.Function("g", [opti.x, opti.p], [opti.g, pref])
            g, pr = f(np.zeros(opti.x.numel()), opti.debug.value(opti.p, opti.initial()))
            g = np.array(g).reshape(-1)
            out["g"] = sorted(float(v_) for v_ in g)
            out["p_refined"] = np.array(pr).reshape(-1).tolist()
            if cfg.get("method") == "DC" and cfg.get("with_bsvar"):
                out["w_guess"] = np.array(ocp.initial_value(ocp.sample(w, grid="control")[1])).reshape(-1).tolist()
    except Exception as e:
        out["error"] = "%s: %s" % (type(e).__name__, str(e)[:300])
    return out


def probe_cases(rng, n):
    out = []
    for _ in range(n):
        N = rng.randint(1, 4)
        d = rng.randint(0, 3)
        cfg = {"N": N, "d": d, "c": [float(dyadic(rng, 1, 3, 2)) for _ in range(N + d)], "with_var": rng.random() < 0.5,
               "with_bsvar": rng.random() < 0.4}
        if rng.random() < 0.4:
            cfg["pc"] = [float(dyadic(rng, 1, 3, 2)) for _ in range(N)]
        if rng.random() < 0.4:
            cfg["g"] = float(dyadic(rng, 1, 3, 2))
        cfg["method"] = rng.choice(["MS", "DC"])
        out.append(cfg)
    return out


def judge_probe(cfg, r):
    if "error" in r:
        return [{"what": "rockit raised on a bspline parameter inside the dynamics", "error": r["error"]}]
    N, d, c = cfg["N"], cfg["d"], cfg["c"]
    xi = [i / N for i in range(N + 1)]
    knots = [xi[0]] * d + xi + [xi[-1]] * d
    pcv = cfg.get("pc") or [0.0] * N
    gv = cfg.get("g") or 0.0
    if cfg.get("method") == "DC":
        # degree 1, legendre: one collocation point at the interval midpoint; collocation rows  slope - rhs,  continuity rows 0
        exp = sorted([-(cdb_value(knots, d, c, 0.5 * (xi[k] + xi[k + 1])) + 1000 * pcv[k] + 10000 * gv) for k in range(N)] + [0.0] * (N + 1))
    else:
        exp = sorted([-(1.0 / N) * (cdb_value(knots, d, c, xi[k]) + 1000 * pcv[k] + 10000 * gv) for k in range(N)] + [0.0])
    if len(exp) != len(r["g"]) or not all(engine.close(a, b, rtol=1e-8) for a, b in zip(r["g"], exp)):
        return [{"what": "a grid='bspline' parameter inside the dynamics does not enter the gap-closing / collocation constraints with "
                         "its own value at the interval start / collocation time", "residuals": r["g"], "expected": exp}]
    if "w_guess" in r and not all(engine.close(v, 0.75) for v in r["w_guess"]):
        return [{"what": "DirectCollocation: set_initial(w, 0.75) for a grid='bspline' variable is not the starting value of w",
                 "start values of w on the control grid": r["w_guess"]}]
    tref = [k / N + q / (2.0 * N) for k in range(N) for q in range(2)] + [1.0]
    pexp = [cdb_value(knots, d, c, t) for t in tref]
    if len(pexp) != len(r["p_refined"]) or not all(engine.close(a, b, rtol=1e-8) for a, b in zip(r["p_refined"], pexp)):
        return [{"what": "sample(p, grid='integrator', refine=2) of a grid='bspline' parameter is not the spline at the refined times "
                         "(other symbols of the stage: %s)" % ", ".join(k_ for k_ in ("with_var", "with_bsvar", "pc", "g") if cfg.get(k_)),
                 "rockit": r["p_refined"], "expected": pexp}]
    return []


def vector_signal_worker(cfg):
    """a VECTOR-valued grid='bspline' parameter (n rows, coefficient matrix n x (N+order), incl. the square case n = N+order with a
    non-symmetric matrix): row i of every sample is the spline of row i of the coefficients — before transcription, and after
    set_value on the transcribed problem"""
    from ..common import setup_rockit_path
    rockit = setup_rockit_path()
    import io, contextlib
    import numpy as np
    import casadi as ca
    from scipy.interpolate import BSpline
    out = {}
    try:
        with contextlib.redirect_stdout(io.StringIO()), contextlib.redirect_stderr(io.StringIO()):
            N, d, n = cfg["N"], cfg["order"], cfg["n"]
            t0, T = 0.5, 2.0
            ocp = rockit.Ocp(t0=t0, T=T)
            x = ocp.state(); u = ocp.control()
            p = ocp.parameter(n, grid="bspline", order=d)
            ocp.set_der(x, u + 0.1 * ca.sum1(p))
            ocp.add_objective(ocp.integral(u ** 2) + ocp.at_tf(x) ** 2)
            grid = rockit.GeometricGrid(2) if cfg["grid"] == "geometric" else rockit.UniformGrid()
            ocp.method(rockit.MultipleShooting(N=N, M=2, intg="rk", grid=grid) if cfg["method"] == "MS"
                       else rockit.DirectCollocation(N=N, M=2, degree=2, grid=grid))
            ocp.solver("ipopt", {"ipopt.print_level": 0, "print_time": False, "ipopt.max_iter": 0})
            devs = []
            for rep in range(2):
                C = np.array([[((3 * i + 5 * j + 7 * rep) % 11) / 4.0 - 1.0 for j in range(N + d)] for i in range(n)])
                ocp.set_value(p, C)
                ts, ps = ocp.sample(p, grid="integrator", refine=2)
                opti = ocp._method.opti
                tv = np.array(opti.debug.value(ts, opti.initial())).reshape(-1)
                pv = np.array(opti.debug.value(ps, opti.initial())).reshape(n, -1)
                tc = np.array(opti.debug.value(ocp.sample(ocp.t, grid="control")[1], opti.initial())).reshape(-1)
                kn = np.concatenate([[tc[0]] * d, tc, [tc[-1]] * d])
                for i in range(n):
                    ref = BSpline(kn, C[i], d, extrapolate=True)(np.clip(tv, tc[0], tc[-1]))
                    devs.append(float(np.max(np.abs(pv[i] - ref))))
            out["devs"] = devs
    except Exception as e_:
        out["error"] = "%s: %s" % (type(e_).__name__, str(e_)[:300])
    return out


def run(tier="quick", seed=0, jobs=16):
    rng = random.Random(seed * 1000003 + 1717)
    n = 160 if tier == "quick" else 2000
    ks = [gen_kernel(rng) for _ in range(n)]
    with mp.get_context("fork").Pool(min(jobs, len(ks))) as pool:
        rr = pool.map(kernel_worker, ks, chunksize=4)
    mm = model_kernels(ks)
    dis, nontriv, dist = [], set(), {}
    for k, r, m in zip(ks, rr, mm):
        dist["d=%d" % k["d"]] = dist.get("d=%d" % k["d"], 0) + 1
        d = judge_kernel(k, r, m)
        if d:
            dis.append({"property": "C17", "what": d, "case": k, "points": [], "finding_key": None})
        else:
            nontriv.add(sha(k))
    nsig = 24 if tier == "quick" else 200
    sig = [dict(k, xi=[jq(Fraction(i, k["N"])) for i in range(k["N"] + 1)], geo=(j % 2 == 1)) for j, k in enumerate(ks[:nsig])]
    with mp.get_context("fork").Pool(min(jobs, len(sig))) as pool:
        rs = pool.map(signal_worker, sig, chunksize=1)
    for k, r in zip(sig, rs):
        di = judge_integral(k, r)
        if di:
            dis.append({"property": "C17", "what": di, "case": dict(k, _signal=True, _integral=True), "points": [],
                        "finding_key": "F33-splinemethod-integral-zero"})
        d = judge_signal(k, r)
        if d:
            dis.append({"property": "C17", "what": d, "case": dict(k, _signal=True), "points": [], "finding_key": None})
        else:
            nontriv.add(sha([k, "signal"]))
    probes = probe_cases(rng, 12 if tier == "quick" else 100)
    with mp.get_context("fork").Pool(min(jobs, len(probes))) as pool:
        rp = pool.map(probe_worker, probes, chunksize=1)
    for cfg, r in zip(probes, rp):
        d = judge_probe(cfg, r)
        if d:
            dis.append({"property": "C17", "what": d, "case": dict(cfg, _probe=True), "points": [],
                        "finding_key": "F19-bspline-parameter-misplaced-in-system-function" if cfg["with_var"] else None})
        else:
            nontriv.add(sha([cfg, "probe"]))
    vcf = [{"method": m, "grid": g, "N": N_, "order": d_, "n": n_} for m in ("MS", "DC") for g in ("uniform", "geometric")
           for N_, d_, n_ in ((2, 1, 3), (2, 2, 4), (3, 1, 2), (2, 1, 2))]
    with mp.get_context("fork").Pool(min(jobs, len(vcf))) as pool:
        rv = pool.map(vector_signal_worker, vcf, chunksize=1)
    for cfg, r in zip(vcf, rv):
        dist["vector-signal/%s" % ("square" if cfg["n"] == cfg["N"] + cfg["order"] else "rect")] = dist.get("vector-signal/%s" % ("square" if cfg["n"] == cfg["N"] + cfg["order"] else "rect"), 0) + 1
        if "error" in r or any(not (v < 1e-9) for v in r.get("devs", [1.0])):
            dis.append({"property": "C17", "what": [{"what": "vector-valued grid='bspline' parameter: a row of the sampled signal is not the spline of that row of the coefficients "
                                                             "(before transcription / after set_value on the transcribed problem)", "max deviations per row": r.get("devs"), "error": r.get("error")}],
                        "case": dict(cfg, _vector_signal=True), "points": [], "finding_key": None})
    return {"evaluations": len(ks) + len(sig) + len(probes) + len(vcf), "distinct_nontrivial": len(nontriv),
            "rule": "kernels: degree 0..4 x N 1..8 x uniform and non-uniform dyadic knots x refinement 1..5 x include_edges x "
                    "random coefficients: eval_on_knots basis matrices, bspline_derivative, get_greville_points against the "
                    "model; spline values and derivatives against scipy.  Signals: grid='bspline' parameter of order d under "
                    "MultipleShooting (control samples, refined integrator samples, der()) and SplineMethod chains of length "
                    "1..4 (gist coefficients at Greville points, refined samples, control = derivative coefficients) against "
                    "Cox-de Boor of the coefficients.  distinct by hash of the case",
            "samples": [ks[0]], "disagreements": dis, "distribution": dist, "extra": {"signal_cases": len(sig)}}


def replay(path):
    d = json.load(open(path))
    k = d["case"]
    if k.pop("_probe", False):
        r = probe_worker(k); dd = judge_probe(k, r)
    elif k.pop("_signal", False):
        only_integral = k.pop("_integral", False)
        r = signal_worker(k); dd = judge_integral(k, r) if only_integral else judge_signal(k, r)
    else:
        r = kernel_worker(k); dd = judge_kernel(k, r, model_kernels([k])[0])
    print(json.dumps(dd, indent=1, default=str)[:3000] if dd else "replay: agrees")
    return 1 if dd else 0
