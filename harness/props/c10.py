"""C10 — the solver starts from exactly the user's initial guess."""
import os, json, math, random, glob, traceback
import multiprocessing as mp
import numpy as np
from fractions import Fraction
from ..common import VERIF, sha, Fr, jq, dyadic
from .. import gen, engine, coqrun, cases as CS
from .nlpprop import TRUSTED, ASSUMPTIONS

OPTS = {"methods": ["MS", "SS", "DC"], "intgs": ["rk", "expl_euler"], "N_max": 4, "M_max": 3, "deg_max": 3,
        "constraints": False, "objective": False, "p_freeT": 0.4, "p_freet0": 0.3, "p_paramT": 0.1,
        "p_var": 0.6, "grids": ("Uniform", "Geometric", "Function", "Free"), "p_scale": 0.3, "p_dae": 0.4,
        "p_localize": 0.3}

KINDS = {"x": ("states", "GX"), "u": ("controls", "GU"), "z": ("algebraics", "GZ")}


def objects(case):
    """(kind, index within kind, first slot, length, gkind, var grid)"""
    out = []
    for kind, (key, gk) in KINDS.items():
        off = 0
        for i, d in enumerate(case.get(key, [])):
            n = d["rows"] * d["cols"]
            if d["cols"] == 1:
                out.append({"kind": kind, "idx": i, "slot": off, "len": n, "g": gk})
            off += n
    offs = {"": 0, "control": 0, "control+": 0}
    gk = {"": "GV", "control": "GVC", "control+": "GVP"}
    cnt = {"": 0, "control": 0, "control+": 0}
    for i, d in enumerate(case.get("vars", [])):
        g = d.get("grid", "")
        n = d["rows"] * d["cols"]
        if d["cols"] == 1:
            out.append({"kind": "v", "idx": i, "slot": offs[g], "len": n, "g": gk[g], "grid": g})
        offs[g] += n
    return out


def time_expr(rng):
    e = gen.C(dyadic(rng, -2, 2, 1))
    e = ["+", e, ["*", gen.C(gen.dyadic_nz(rng, -2, 2, 1)), ["s", "t"]]]
    if rng.random() < 0.4:
        e = ["+", e, ["*", gen.C(gen.dyadic_nz(rng, -1, 1, 1)), ["*", ["s", "t"], ["s", "t"]]]]
    return e


def gen_calls(rng, case):
    m = case["method"]
    N = m["N"]
    objs = objects(case)
    calls = []
    for _ in range(rng.randint(1, 6)):
        if not objs:
            break         # only matrix-valued symbols: no guess is generated for them
        o = rng.choice(objs)
        n = o["len"]
        forms = ["const", "vec", "time", "cols"]
        if o["g"] == "GV":
            forms = ["const", "vec"]
        if o["g"] == "GZ":
            forms = ["const", "vec", "time"]
        if m["kind"] == "SS" and o["g"] == "GX":
            forms = ["const", "vec"]      # only X[0] is a decision quantity
        form = rng.choice(forms)
        c = {"obj": [o["kind"], o["idx"]], "g": o["g"], "slot": o["slot"], "len": n, "form": form,
             "after": rng.random() < 0.3}
        if form == "const":
            v = dyadic(rng, -3, 3, 2)
            c["value"] = jq(v)
        elif form == "vec":
            c["value"] = [jq(dyadic(rng, -3, 3, 2)) for _ in range(n)]
        elif form == "time":
            c["value"] = [time_expr(rng) for _ in range(n)]
        else:
            ncols = N + 1 if (o["g"] in ("GX", "GVP") and rng.random() < 0.5) else N
            if n * N == n or n * (N + 1) == n:
                pass
            c["value"] = [[jq(dyadic(rng, -3, 3, 2)) for _ in range(n)] for _ in range(ncols)]
        calls.append(c)
    # explicit guesses for a free horizon
    for nm, g in (("T", "GbigT"), ("t0", "Gt0")):
        if "free" in case.get(nm, {}) and rng.random() < 0.25:
            v = rng.choice([Fraction(1, 2), 1, 2, Fraction(5, 2)]) if nm == "T" else dyadic(rng, -1, 1, 1)
            calls.insert(rng.randint(0, len(calls)), {"obj": [nm, 0], "g": g, "slot": 0, "len": 1, "form": "const",
                                                        "value": jq(v), "after": rng.random() < 0.3})
    # calls after transcription come last (transcription happens once)
    calls.sort(key=lambda c: c["after"])
    return calls


def call_coq(c):
    if c["form"] == "const":
        f = "(GFconst %s)" % CS.cqlist([c["value"]] * c["len"])
    elif c["form"] == "vec":
        f = "(GFconst %s)" % CS.cqlist(c["value"])
    elif c["form"] == "cols":
        f = "(GFcols %s)" % CS.cqll(c["value"])
    else:
        f = "(GFtime %s)" % CS.clist([CS.expr_coq(e) for e in c["value"]])
    return "(mkCall %s %d%%nat %d%%nat %s)" % (c["g"], c["slot"], c["len"], f)


def worker(args):
    case, _ = args
    from ..common import setup_rockit_path
    rockit = setup_rockit_path()
    from .. import nlp
    import io, contextlib
    import casadi as ca
    out = {}
    try:
        with contextlib.redirect_stdout(io.StringIO()):
            B = CS.build_rockit(case, rockit)
            out["inputs"] = engine.impl_inputs(B, case)
            ocp = B.ocp
            transcribed = False
            for c in case["calls"]:
                if c["after"] and not transcribed:
                    ocp.sample(ocp.t, grid="control")
                    transcribed = True
                kind, idx = c["obj"]
                if kind in ("T", "t0"):
                    sym = ocp.T if kind == "T" else ocp.t0
                else:
                    sym = B.objs[kind][idx]
                n = c["len"]
                if c["form"] == "const":
                    val = float(Fr(c["value"]))
                elif c["form"] == "vec":
                    val = ca.DM([float(Fr(v)) for v in c["value"]]) if n > 1 else float(Fr(c["value"][0]))
                    if n > 1 and c["slot"] % 2 == 0:
                        val = ca.sparsify(val)          # a DM whose zeros are structural is the same guess
                elif c["form"] == "cols":
                    arr = np.array([[float(Fr(v)) for v in col] for col in c["value"]]).T   # n x ncols
                    val = arr[0] if n == 1 else arr
                    if n > 1 and c["slot"] % 2 == 0:
                        val = ca.sparsify(ca.DM(arr))
                else:
                    es = [B.ex(e) for e in c["value"]]
                    val = ca.vertcat(*es) if n > 1 else es[0]
                ocp.set_initial(sym, val)
            ob = nlp.observe(B, case)
            init = np.array(ob.Phi(ob.x0, ob.pval)).reshape(-1).tolist() if ob.nx else []
            out["init"] = init
            out["qnames"] = [(nm, list(sh)) for nm, sh in ob.qnames]
            # the NLP functions at a fixed decision vector (must not depend on the guesses)
            xt = 0.3 + 0.01 * np.arange(ob.nx)
            f0, g0, lb, ub = nlp.eval_nlp(ob, xt)
            out["fg"] = [f0] + sorted(float(v) for v in g0) + sorted(float(v) for v in lb if math.isfinite(v)) \
                + sorted(float(v) for v in ub if math.isfinite(v))
    except Exception as e:
        out["error"] = "%s: %s" % (type(e).__name__, str(e)[:400])
        out["trace"] = traceback.format_exc()[-1500:]
    return out


def model_run(cps, inputs, name):
    from ..cases import nslots
    bodies, shard = [], 40
    for s in range(0, len(cps), shard):
        chunk = []
        for i in range(s, min(s + shard, len(cps))):
            case, _ = cps[i]
            if inputs[i] is None:
                continue
            nv = {g: nslots([d for d in case.get("vars", []) if d.get("grid", "") == g]) for g in ("", "control", "control+")}
            chunk.append("Definition c%d : ocp := %s.\n" % (i, CS.case_coq(case, inputs[i])))
            chunk.append("Eval vm_compute in (%d%%nat, run_initial_float c%d %d%%nat %d%%nat %d%%nat %s %s).\n" % (
                i, i, nv[""], nv["control"], nv["control+"], CS.clist([call_coq(c) for c in case["calls"]]),
                CS.cqlist(case["param_values"]["p"])))
        if chunk:
            bodies.append("".join(chunk))
    hdr = coqrun.HEADER + "From RV Require Import Mech.Initial.\n"
    res = coqrun.run_shards(name, bodies, header=hdr)
    out = {}
    for sv in res:
        for i, vals in sv:
            out[i] = vals
    return out


def flat_model(mv, qnames):
    X, U, V, VC, VP, (T, t0), (Xi, Xc, Zc), (t0loc, Tloc) = mv
    out = []
    for nm, sh in qnames:
        if nm == "t0loc":
            out += list(t0loc)
            continue
        if nm == "Tloc":
            out += list(Tloc)
            continue
        if nm == "X":
            out += [v for col in X for v in col]
        elif nm == "U":
            out += [v for col in U for v in col]
        elif nm == "V":
            out += list(V)
        elif nm == "VC":
            out += [v for col in VC for v in col]
        elif nm == "VP":
            out += [v for col in VP for v in col]
        elif nm == "T":
            out.append(T)
        elif nm == "t0":
            out.append(t0)
        elif nm == "Xi":
            out += [v for k in Xi for col in k for v in col]
        elif nm == "Xc":
            out += [v for k in Xc for i in k for col in i for v in col]
        elif nm == "Zc":
            out += [v for k in Zc for i in k for col in i for v in col]
        else:
            return None
    return out


def classify(case, d):
    has_explicit_T = any(c["g"] in ("GbigT", "Gt0") for c in case["calls"])
    has_time = any(c["form"] == "time" for c in case["calls"])
    if has_explicit_T and has_time:
        return "F14-freetime-and-explicit-horizon-guess-order"
    return None


def judge_case(case, r, mv):
    if "error" in r:
        return [{"what": "rockit raised while applying the initial guesses", "error": r["error"], "trace": r.get("trace")}]
    exp = flat_model(mv, [(n, tuple(s)) for n, s in r["qnames"]])
    if exp is None or len(exp) != len(r["init"]):
        return [{"what": "decision quantities differ from the model's", "qnames": r["qnames"]}]
    names = []
    for nm, sh in r["qnames"]:
        names += ["%s[%d]" % (nm, j) for j in range(sh[0] * sh[1])]
    if any((not math.isfinite(v)) or abs(v) > engine.BIG for v in exp):
        return []
    for nm, a, b in zip(names, r["init"], exp):
        if not engine.close(a, b, scale=abs(b)):
            return [{"what": "starting value differs from the guess", "quantity": nm, "rockit": a, "guess": b}]
    return []


def gen_cases(seed, n, opts):
    rng = random.Random(seed * 1000003 + 1010)
    out = []
    for i in range(n):
        c = gen.gen_base(rng, opts)
        gen.touch_objective(c)
        c["calls"] = gen_calls(rng, c)
        c["id"] = "C10-%d-%d" % (seed, i)
        if i % 3 == 2 and "fixed" in c.get("T", {}):
            # the horizon is a user-declared variable (ocp.set_T(ocp.variable())) with a positive guess given at a random
            # position among the guesses declared before transcription (own random stream: the other cases stay as they were)
            rng2 = random.Random(seed * 7919 + i)
            if rng2.random() < 0.6:
                # no guess after the first transcription (a later guess re-applies every guess and would hide what the first
                # application did)
                for cc in c["calls"]:
                    cc["after"] = False
            gslots = sum(d["rows"] * d["cols"] for d in c["vars"] if d.get("grid", "") == "")
            c["vars"] = c["vars"] + [{"rows": 1, "cols": 1, "grid": ""}]
            c["T"] = {"var": gslots}
            before = [k for k, cc in enumerate(c["calls"]) if not cc["after"]]
            pos = rng2.randint(0, len(before))
            c["calls"].insert(pos, {"obj": ["v", len(c["vars"]) - 1], "g": "GV", "slot": gslots, "len": 1, "form": "const",
                                    "value": jq(rng2.choice([1, 2, Fraction(3, 2), Fraction(5, 2)])), "after": False})
            if rng2.random() < 0.8:
                # ... and a time-dependent guess declared AFTER it (evaluated on the grid of the guessed horizon)
                xs = [o_ for o_ in objects(c) if o_["g"] in (("GU",) if c["method"]["kind"] == "SS" else ("GX", "GU"))]
                if xs:
                    o_ = rng2.choice(xs)
                    c["calls"].insert(pos + 1, {"obj": [o_["kind"], o_["idx"]], "g": o_["g"], "slot": o_["slot"], "len": o_["len"],
                                                "form": "time", "value": [time_expr(rng2) for _ in range(o_["len"])], "after": False})
        out.append((c, []))
    return out


def corpus():
    out = []
    for p in sorted(glob.glob(os.path.join(VERIF, "corpus", "C10", "*.json"))):
        d = json.load(open(p))
        out.append((d["case"], []))
    return out


def run_cases(cps, name, jobs=16):
    with mp.get_context("fork").Pool(min(jobs, max(1, len(cps)))) as pool:
        rr = pool.map(worker, cps, chunksize=1)
    mv = model_run(cps, [r.get("inputs") for r in rr], name)
    dis, nontriv, dist = [], set(), {}
    # metamorphic: the same OCP without any guess has the same objective and constraints
    bare = [(dict(c, calls=[]), p) for c, p in cps]
    with mp.get_context("fork").Pool(min(jobs, max(1, len(cps)))) as pool:
        rb = pool.map(worker, bare, chunksize=1)
    for (case, _), a, b in zip(cps, rr, rb):
        if "fg" in a and "fg" in b:
            if any((not math.isfinite(v)) or abs(v) > engine.BIG for v in a["fg"] + b["fg"]):
                continue      # the probe vector overflows the propagated dynamics: no information
            if len(a["fg"]) != len(b["fg"]) or not all(engine.close(x, y, scale=abs(y)) for x, y in zip(a["fg"], b["fg"])):
                dis.append({"property": "C10", "case": case, "points": [], "finding_key": None,
                            "what": [{"what": "initial guesses changed the objective or the constraints of the NLP"}]})
    for i, (case, _) in enumerate(cps):
        for c in case["calls"]:
            key = "%s/%s/%s%s" % (case["method"]["kind"], c["g"], c["form"], "/after" if c["after"] else "")
            dist[key] = dist.get(key, 0) + 1
        if i not in mv:
            d = [{"what": "rockit side failed before the model could run", "error": rr[i].get("error"), "trace": rr[i].get("trace")}]
        else:
            d = judge_case(case, rr[i], mv[i])
            if not d:
                nontriv.add(sha(case))
        if d:
            dis.append({"property": "C10", "what": d[:3], "case": case, "points": [], "finding_key": classify(case, d)})
    return dis, nontriv, dist


def run(tier="quick", seed=0, jobs=16):
    n = 150 if tier == "quick" else 1500
    cps = corpus() + gen_cases(seed, n, OPTS if tier == "quick" else dict(OPTS, N_max=6))
    dis, nontriv, dist = run_cases(cps, "C10", jobs)
    return {"evaluations": len(cps), "distinct_nontrivial": len(nontriv),
            "rule": "random OCPs x 1-6 set_initial calls in random order (repeated symbols: last wins) on states, controls, "
                    "algebraic variables, global / per-interval / per-interval+last variables and free T, t0; forms scalar, "
                    "vector, n-by-N and n-by-(N+1) column arrays, polynomial expressions of time; some calls after the first "
                    "transcription; x {MS, SS, DC} x N, M, degree x grids x scaled symbols.  Compared: the starting value of "
                    "every decision quantity in physical units (node states, controls, variables, horizon, collocation "
                    "helper and algebraic values) against the guess map.  distinct by hash of the case",
            "samples": [{"case": cps[-1][0]}], "disagreements": dis, "distribution": dist, "extra": {}}


def replay(path):
    d = json.load(open(path))
    dis, _, _ = run_cases([(d["case"], [])], "C10r", 1)
    print(json.dumps(dis[:1], indent=1, default=str)[:4000] if dis else "replay: agrees")
    return 1 if dis else 0
