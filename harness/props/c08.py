"""C08 — refined sampling and samplers interpolate the discrete solution consistently."""
import os, json, math, random, glob, traceback
import multiprocessing as mp
import numpy as np
from fractions import Fraction
from ..common import VERIF, sha, Fr, jq
from .. import gen, engine, coqrun, cases as CS
from .nlpprop import TRUSTED, ASSUMPTIONS

OPTS = {"methods": ["MS", "SS", "DC"], "intgs": ["rk", "expl_euler"], "N_max": 3, "M_max": 3, "deg_max": 4,
        "constraints": False, "objective": False, "p_quad": 0.5, "p_freeT": 0.3, "p_freet0": 0.2,
        "grids": ("Uniform", "Geometric", "Function", "Free"), "p_localize": 0.25}


def gen_specs(rng, case):
    kind = case["method"]["kind"]
    fine, samp = [], []
    for _ in range(rng.randint(1, 3)):
        kinds = ["x", "u", "p", "pc", "pp", "v", "vc", "vp", "t", "T", "t0"]
        if case.get("algebraics"):
            kinds.append("z")
        if kind != "DC" and case.get("quad"):
            kinds.append("q")
        n = rng.choice([1, 1, 2, 3])
        fine.append({"refine": rng.randint(1, 7), "exprs": [gen.signal_expr(rng, case, kinds, 2) for _ in range(n)]})
    # sampler: expressions of t, x, z, u; query times as fractions of the horizon
    kinds = ["x", "u", "t"] + (["z"] if case.get("algebraics") else [])
    samp.append({"exprs": [gen.signal_expr(rng, case, kinds, 2) for _ in range(rng.choice([1, 2]))],
                 "fracs": [jq(Fraction(rng.randint(0, 64), 64)) for _ in range(5)] + [jq(0), jq(1)]})
    return fine, samp


def query_times(case, pt, fracs):
    t0, T = Fr(pt["t0"]), Fr(pt["T"])
    return [t0 + Fr(f) * T for f in fracs]


def worker(args):
    case, points = args
    from ..common import setup_rockit_path
    rockit = setup_rockit_path()
    from .. import nlp
    import io, contextlib
    import casadi as ca
    out = {}
    try:
        with contextlib.redirect_stdout(io.StringIO()):
            B = CS.build_rockit(case, rockit)
            out["inputs"] = engine.impl_inputs(B, case)
            ocp = B.ocp
            mats = [ca.vertcat(*[B.ex(e) for e in sp["exprs"]]) for sp in case["fine"]]
            smats = [[B.ex(e) for e in sp["exprs"]] for sp in case["samplers"]]

            def extras(B_, case_):
                ex = []
                for sp, m in zip(case["fine"], mats):
                    t, v = ocp.sample(m, grid="integrator", refine=sp["refine"])
                    ex += [ca.vec(t), v]
                ex.append(ocp.gist)
                return ex
            ob = nlp.observe(B, case, extras)
            samplers = [ocp.sampler(es) for es in smats]
            res = []
            for pt in points:
                xs = nlp.solve_point(ob, nlp.flatten_point(ob, pt))
                vals = ob.extra_f(xs, ob.pval)
                per = []
                for i in range(len(mats)):
                    per.append({"t": np.array(vals[2 * i]).reshape(-1).tolist(), "v": np.array(vals[2 * i + 1]).tolist()})
                gist = np.array(vals[-1]).reshape(-1)
                sv = []
                for sp, f in zip(case["samplers"], samplers):
                    ts = [float(t) for t in query_times(case, pt, sp["fracs"])]
                    r = f(gist, np.array(ts))
                    sv.append([np.array(a, dtype=float).reshape(len(ts), -1).tolist() for a in r])
                res.append({"fine": per, "sampler": sv})
            out["res"] = res
    except Exception as e:
        out["error"] = "%s: %s" % (type(e).__name__, str(e)[:400])
        out["trace"] = traceback.format_exc()[-1500:]
    return out


def model_run(cps, inputs, name):
    bodies, shard = [], 25
    for s in range(0, len(cps), shard):
        chunk = []
        for i in range(s, min(s + shard, len(cps))):
            case, pts = cps[i]
            if inputs[i] is None:
                continue
            specs = CS.clist(["(%d%%nat, %s)" % (sp["refine"], CS.clist([CS.expr_coq(e) for e in sp["exprs"]])) for sp in case["fine"]])
            chunk.append("Definition c%d : ocp := %s.\n" % (i, CS.case_coq(case, inputs[i])))
            runs = []
            for p in pts:
                ss = CS.clist(["(%s, %s)" % (CS.clist([CS.expr_coq(e) for e in sp["exprs"]]),
                                             CS.cqlist(query_times(case, p, sp["fracs"]))) for sp in case["samplers"]])
                runs.append("run_fine_float c%d %s %s %s" % (i, specs, ss, CS.point_coq(p)))
            chunk.append("Eval vm_compute in (%d%%nat, %s).\n" % (i, CS.clist(runs)))
        if chunk:
            bodies.append("".join(chunk))
    res = coqrun.run_shards(name, bodies)
    out = {}
    for sv in res:
        for i, vals in sv:
            out[i] = vals
    return out


def judge_case(case, pts, r, mv):
    if "error" in r:
        return [{"what": "rockit raised on refined sampling / sampler", "error": r["error"], "trace": r.get("trace")}]
    for p, (rp, mp_) in enumerate(zip(r["res"], mv)):
        mfine, msamp = mp_
        flat = [v for sp in mfine for row in sp[1] for v in row] + [v for sp in msamp for row in sp for v in row]
        if any((not math.isfinite(v)) or abs(v) > engine.BIG for v in flat):
            return []
        for sp, rs, ms in zip(case["fine"], rp["fine"], mfine):
            mt, mrows = ms
            if len(rs["t"]) != len(mt) or not all(engine.close(a, b) for a, b in zip(rs["t"], mt)):
                return [{"what": "refined time vector differs", "refine": sp["refine"], "rockit": rs["t"], "model": mt}]
            v = np.array(rs["v"]).reshape(len(sp["exprs"]), -1)
            if v.shape[1] != len(mrows):
                return [{"what": "number of refined samples differs", "rockit": int(v.shape[1]), "model": len(mrows)}]
            for ti, row in enumerate(mrows):
                for a, mval in enumerate(row):
                    if not engine.close(float(v[a, ti]), mval, scale=abs(mval)):
                        return [{"what": "refined sample differs from the step polynomial", "refine": sp["refine"],
                                 "time_index": ti, "entry": a, "rockit": float(v[a, ti]), "model": mval, "point": p}]
        for sp, rs, ms in zip(case["samplers"], rp["sampler"], msamp):
            for ei in range(len(sp["exprs"])):
                for ti, mrow in enumerate(ms):
                    a = rs[ei][ti][0]
                    if not engine.close(a, mrow[ei], scale=abs(mrow[ei])):
                        return [{"what": "sampler value differs from the step polynomial at the query time",
                                 "query_index": ti, "entry": ei, "rockit": a, "model": mrow[ei], "point": p}]
    return []


def gen_cases(seed, n, opts, npts):
    rng = random.Random(seed * 1000003 + 808)
    out = []
    for i in range(n):
        c = gen.gen_base(rng, opts)
        gen.touch_objective(c)
        c["fine"], c["samplers"] = gen_specs(rng, c)
        c["id"] = "C08-%d-%d" % (seed, i)
        out.append((c, [gen.gen_point(rng, c) for _ in range(npts)]))
    return out


def corpus():
    out = []
    for p in sorted(glob.glob(os.path.join(VERIF, "corpus", "C08", "*.json"))):
        d = json.load(open(p))
        out.append((d["case"], d["points"]))
    return out


def run_cases(cps, name, jobs=16):
    with mp.get_context("fork").Pool(min(jobs, max(1, len(cps)))) as pool:
        rr = pool.map(worker, cps, chunksize=1)
    mv = model_run(cps, [r.get("inputs") for r in rr], name)
    dis, nontriv, dist = [], set(), {}
    for i, (case, pts) in enumerate(cps):
        m = case["method"]
        key = "%s/%s" % (m["kind"], m["intg"] if m["kind"] != "DC" else "%s%d" % (m["scheme"], m["degree"]))
        dist[key] = dist.get(key, 0) + 1
        if i not in mv:
            d = [{"what": "rockit side failed before the model could run", "error": rr[i].get("error"), "trace": rr[i].get("trace")}]
        else:
            d = judge_case(case, pts, rr[i], mv[i])
            if not d:
                nontriv.add(sha(case))
        if d:
            dis.append({"property": "C08", "what": d[:3], "case": case, "points": pts, "finding_key": None})
    return dis, nontriv, dist


def nodense_worker(cfg):
    """shooting with a CasADi integrator has no dense output: refined sampling must raise, never return made-up
    (NaN) values"""
    from ..common import setup_rockit_path
    rockit = setup_rockit_path()
    import io, contextlib
    import casadi as ca
    out = {}
    try:
        with contextlib.redirect_stdout(io.StringIO()), contextlib.redirect_stderr(io.StringIO()):
            ocp = rockit.Ocp(T=1)
            x = ocp.state(); z = ocp.algebraic(); u = ocp.control()
            ocp.set_der(x, -x + z + u)
            ocp.add_alg(z - 2 * x)
            ocp.add_objective(ocp.integral(u ** 2))
            ocp.subject_to(ocp.at_t0(x) == 1)
            M_ = rockit.MultipleShooting if cfg["method"] == "MS" else rockit.SingleShooting
            ocp.method(M_(N=2, M=cfg["M"], intg=cfg["intg"]))
            ocp.solver("ipopt", {"ipopt.print_level": 0, "print_time": False})
            e = {"z": z, "x": x, "zx": z * x}[cfg["what"]]
            _, v = ocp.sample(e, grid="integrator", refine=cfg["refine"])
            opti = ocp._method.opti
            val = np.array(ca.Function("f", [opti.x, opti.p], [v])(np.ones(opti.x.numel()), opti.debug.value(opti.p, opti.initial()))).reshape(-1)
            out["values"] = [float(a) for a in val]
    except Exception as e_:
        out["raised"] = "%s: %s" % (type(e_).__name__, str(e_)[:120])
    return out


def resample_worker(cfg):
    """sampler and refined sample agree with each other at the refined grid times — also after the horizon was edited and
    the problem solved again on the same OCP object (a sampler requested for the same expression object must be rebuilt)"""
    from ..common import setup_rockit_path
    rockit = setup_rockit_path()
    import io, contextlib
    import casadi as ca
    out = {}
    try:
        with contextlib.redirect_stdout(io.StringIO()), contextlib.redirect_stderr(io.StringIO()):
            ocp = rockit.Ocp(t0=0.5, T=2)
            x = ocp.state(2); u = ocp.control()
            ocp.set_der(x, ca.vertcat(x[1], u - 0.5 * x[0] + 0.2 * ocp.t))
            ocp.add_objective(ocp.integral(u * u) + ocp.at_tf(x[0] - 1) ** 2)
            ocp.subject_to(ocp.at_t0(x) == ca.vertcat(0.2, -0.1))
            grid = rockit.GeometricGrid(2) if cfg["grid"] == "geometric" else rockit.UniformGrid()
            M_ = {"MS": rockit.MultipleShooting, "SS": rockit.SingleShooting}.get(cfg["method"])
            ocp.method(M_(N=3, M=2, intg="rk", grid=grid) if M_ else rockit.DirectCollocation(N=3, M=2, degree=3, grid=grid))
            ocp.solver("ipopt", {"ipopt.print_level": 0, "print_time": False, "ipopt.max_iter": 3})
            e = x[0] * x[1] + u
            devs = []
            for step, edit in enumerate([None, "horizon", "constraint"]):
                if edit == "horizon":
                    ocp.set_t0(1.0); ocp.set_T(3.5)
                elif edit == "constraint":
                    ocp.subject_to(u <= 5)
                try:
                    sol = ocp.solve()
                except Exception:
                    sol = ocp.non_converged_solution
                ts, es = sol.sample(e, grid="integrator", refine=3)
                f = sol.sampler(e)
                vals = np.array([float(np.array(f(t)).reshape(-1)[0]) for t in np.array(ts).reshape(-1)[:-1]])
                devs.append(float(np.max(np.abs(vals - np.array(es).reshape(-1)[:-1]))))
            out["devs"] = devs
    except Exception as e_:
        out["error"] = "%s: %s" % (type(e_).__name__, str(e_)[:300])
    return out


def run(tier="quick", seed=0, jobs=16):
    n = 100 if tier == "quick" else 1000
    cps = corpus() + gen_cases(seed, n, OPTS if tier == "quick" else dict(OPTS, N_max=5, M_max=4, deg_max=5), 2 if tier == "quick" else 4)
    dis, nontriv, dist = run_cases(cps, "C08", jobs)
    nod = [{"method": m, "intg": i, "what": w, "M": 1 + (k % 2), "refine": 2 + k % 3}
           for k, (m, i, w) in enumerate([(m, i, w) for m in ("MS", "SS") for i in ("collocation", "idas") for w in ("z", "x", "zx")])]
    with mp.get_context("fork").Pool(min(jobs, len(nod))) as pool:
        rn = pool.map(nodense_worker, nod, chunksize=1)
    for cfg, r in zip(nod, rn):
        dist["no-dense-output/%s" % cfg["intg"]] = dist.get("no-dense-output/%s" % cfg["intg"], 0) + 1
        if "values" in r and any(not math.isfinite(a) for a in r["values"]):
            dis.append({"property": "C08", "case": cfg, "points": [], "finding_key": None,
                        "what": [{"what": "refined sampling without a dense output returned non-finite values instead of raising", "values": r["values"][:8]}]})
    rcf = [{"method": m, "grid": g} for m in ("MS", "SS", "DC") for g in ("uniform", "geometric")]
    with mp.get_context("fork").Pool(min(jobs, len(rcf))) as pool:
        rs = pool.map(resample_worker, rcf, chunksize=1)
    for cfg, r in zip(rcf, rs):
        dist["sampler-after-edit/%s" % cfg["method"]] = dist.get("sampler-after-edit/%s" % cfg["method"], 0) + 1
        if "error" in r or any(not (v < 1e-8) for v in r.get("devs", [])):
            dis.append({"property": "C08", "case": dict(cfg, _resample=True), "points": [], "finding_key": None,
                        "what": [{"what": "sampler(e) and sample(e, grid='integrator', refine=3) disagree at the refined grid times "
                                          "[first solve, after set_t0/set_T and a second solve, after a further constraint and a third solve]",
                                  "max deviations": r.get("devs"), "error": r.get("error")}]})
    return {"evaluations": len(cps) + len(rcf), "distinct_nontrivial": len(nontriv),
            "rule": "random OCPs x {MS,SS with rk / expl_euler, DC degree 1..4(5) radau|legendre} x N,M x uniform and "
                    "non-uniform grids; sample(e, grid='integrator', refine=1..7) for 1-3 (vector) expressions of states, "
                    "quadrature states, algebraic states, controls, parameters, variables, t, T, t0; sampler(e)(gist, t) at "
                    "7 query times incl. t0 and tf.  Compared with the model's evaluation of the per-step dense-output "
                    "polynomials at decision points (time vectors and all values).  distinct by hash of the case",
            "samples": [{"case": cps[-1][0], "points": cps[-1][1][:1]}], "disagreements": dis,
            "distribution": dist, "extra": {}}


def replay(path):
    d = json.load(open(path))
    if d.get("case", {}).get("_resample"):
        print(json.dumps(resample_worker(d["case"]), indent=1))
        return 0
    if "what" in d.get("case", {}) and "intg" in d.get("case", {}):
        r = nodense_worker(d["case"])
        print(json.dumps(r, indent=1))
        return 1 if "values" in r and any(not math.isfinite(a) for a in r["values"]) else 0
    dis, _, _ = run_cases([(d["case"], d["points"])], "C08r", 1)
    print(json.dumps(dis[:1], indent=1, default=str)[:4000] if dis else "replay: agrees")
    return 1 if dis else 0
