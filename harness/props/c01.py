"""C01 — shooting transcription encodes exactly the chosen integration scheme."""
import os, json, random, glob
from ..common import VERIF, sha
from .. import gen, engine

TRUSTED = [
    "hand-written Rocq model Mech/{Intg,Grid,Sampling,Shooting}.v of rockit's shooting transcription, tied to /repo by the sampled correspondence of this run (generated OCPs x semantic decision points, rows compared as multisets, rtol 1e-9)",
    "model executed at the binary64 instance FloatOps (PrimFloat primitives) by vm_compute; theorems are about every field of characteristic 0 (instance Qc proved)",
    "CasADi (symbolics, Opti canonical form, Function evaluation), numpy lstsq for realising semantic points",
]
ASSUMPTIONS = [
    "rockit read-back (ocp.sample / ocp.value) is used to address decision variables; a consistent relabelling of read-back and rows is the same NLP",
    "right-hand sides are polynomial expressions over the stage symbols (theorems quantify over arbitrary functions)",
]
OPTS = {"methods": ["MS", "SS"], "intgs": ["rk", "expl_euler", "next"], "N_max": 4, "M_max": 3,
        "grids": ("Uniform", "Geometric", "Function")}
OPTS_T = dict(OPTS, N_max=6, M_max=4, maxdeg=2)


def gen_cases(seed, n, opts, npts):
    rng = random.Random(seed * 1000003 + 101)
    out = []
    for i in range(n):
        c = gen.gen_base(rng, opts)
        c["id"] = "C01-%d-%d" % (seed, i)
        pts = [gen.gen_point(rng, c) for _ in range(npts)]
        out.append((c, pts))
    return out


def corpus():
    out = []
    for p in sorted(glob.glob(os.path.join(VERIF, "corpus", "C01", "*.json"))):
        d = json.load(open(p))
        out.append((d["case"], d["points"]))
    return out


def judge(cps, rr, mv):
    dis = []
    nontriv = set()
    dist = {}
    for i, (case, pts) in enumerate(cps):
        m = case["method"]
        key = "%s/%s/%s" % (m["kind"], "next" if case.get("discrete") else m["intg"], m["grid"]["class"])
        dist[key] = dist.get(key, 0) + 1
        r = rr[i]
        if i not in mv:
            d = [{"what": "rockit side failed before the model could run", "error": r.get("error"),
                  "mismatch": r.get("mismatch"), "trace": r.get("trace")}]
        else:
            d = engine.compare_case(case, mv[i], r, judge_kinds=[1], judge_obj=False)
            if not d and "extra" in r:
                _, mrows, mXs = engine.model_rows(mv[i])
                d = engine.compare_Xs(mXs, r["extra"]["Xs"])
                if any(row[0] == 1 for row in mrows) or m["kind"] == "SS":
                    nontriv.add(sha(case))
        if d:
            dis.append({"property": "C01", "what": d[:4], "case": case, "points": pts,
                        "finding_key": None})
    return dis, nontriv, dist


def run(tier="quick", seed=0, jobs=16):
    n = 120 if tier == "quick" else 1500
    npts = 3 if tier == "quick" else 6
    cps = corpus() + gen_cases(seed, n, OPTS if tier == "quick" else OPTS_T, npts)
    rr = engine.run_rockit(cps, extra=(engine.extras_Xs, engine.extra_Xs), jobs=jobs)
    mv = engine.model_shooting(cps, [r.get("inputs") for r in rr], "C01")
    dis, nontriv, dist = judge(cps, rr, mv)
    return {"evaluations": len(cps), "distinct_nontrivial": len(nontriv),
            "rule": "random OCPs (1-3 state slots incl. vector/matrix states, 0-2 controls, global / per-interval / "
                    "per-interval+last parameters and variables, polynomial right-hand sides of degree <=2 in x,u,p,v,t, "
                    "optional quadrature state, t0 != 0, fixed/free/parametric T, free t0) x {MS,SS} x {rk, expl_euler, set_next} "
                    "x N,M x {Uniform, Geometric local/global, Function} grids, each at several dyadic decision points; "
                    "non-trivial = the NLP has gap-closing rows (MS) or the case is SingleShooting (state recursion compared), "
                    "distinct by hash of the case",
            "samples": [{"case": cps[0][0], "points": cps[0][1][:1]}],
            "disagreements": dis, "distribution": dist, "extra": {"points_per_case": npts}}


def replay(path):
    d = json.load(open(path))
    cps = [(d["case"], d["points"])]
    rr = engine.run_rockit(cps, extra=(engine.extras_Xs, engine.extra_Xs), jobs=1)
    mv = engine.model_shooting(cps, [r.get("inputs") for r in rr], "C01r")
    dis, _, _ = judge(cps, rr, mv)
    print(json.dumps(dis[:1], indent=1, default=str)[:4000] if dis else "replay: agrees")
    return 1 if dis else 0
