"""C19 — to_function reproduces the set_value / set_initial / solve / sample pipeline.

(a) exact part: IPOPT with max_iter=0 returns its starting point, so the outputs of the function
    reveal the (x0, p) mapping without solver noise: f(args) is compared with the imperative pipeline
    (same values through set_value / set_initial, solve, sol.sample / sol.value) and with the Rocq
    model of the starting point (run_initial_float on current guesses ++ argument calls).
(b) numerical part: strongly convex LQ problems solved to optimality both ways, agreement 1e-6."""
import os, json, math, random, glob, traceback, copy, multiprocessing as mp
import numpy as np
from fractions import Fraction
from ..common import VERIF, sha, Fr, jq, dyadic
from .. import gen, engine, coqrun, cases as CS
from .nlpprop import ASSUMPTIONS as A0
from . import c10

PID = "C19"
TRUSTED = [
    "hand-written Rocq model Mech/Initial.v + Mech/ToFunc.v of the starting point handed to the solver, tied to /repo by this run's "
    "correspondence (outputs of to_function with max_iter=0 against the model's start values and against the imperative pipeline)",
    "the solver is an oracle in the theorem; IPOPT is exercised with max_iter=0 (returns its starting point) and on convex LQ problems",
    "CasADi Opti.to_function",
]
ASSUMPTIONS = A0 + ["arguments are values of parameters and sampled/valued decision quantities of column-vector symbols; the horizon and the "
                    "special \"z\" argument are not generated; symbols are unscaled (a scaled sampled quantity is not a valid Opti.to_function argument)"]
OPTS = {"methods": ["MS", "SS", "DC"], "intgs": ["rk", "expl_euler"], "N_max": 3, "M_max": 2, "deg_max": 3, "p_param": 0.7, "p_var": 0.5,
        "p_freeT": 0.25, "p_freet0": 0.1, "p_paramT": 0.1, "p_scale": 0.0, "p_dae": 0.3, "nx_max": 3, "nu_max": 2,
        "grids": ("Uniform", "Geometric", "Function")}
SOLVER = ["ipopt", {"ipopt.print_level": 0, "print_time": False, "ipopt.sb": "yes", "ipopt.max_iter": 0, "error_on_fail": False}]


def param_objects(case):
    out, offs = [], {"": 0, "control": 0, "control+": 0}
    for i, d in enumerate(case.get("params", [])):
        g = d.get("grid", "")
        n = d["rows"] * d["cols"]
        if d["cols"] == 1:
            out.append({"idx": i, "grid": g, "slot": offs[g], "len": n})
        offs[g] += n
    return out


def gen_args(rng, case):
    m = case["method"]
    N = m["N"]
    objs = [o for o in c10.objects(case) if o["g"] in ("GX", "GU", "GV", "GVC", "GVP")]
    if m["kind"] == "SS":
        objs = [o for o in objs if o["g"] != "GX"]
    # the variable that carries a free/parametric horizon is left alone
    tv = [case.get(k, {}).get("var") for k in ("T", "t0")]
    objs = [o for o in objs if not (o["g"] == "GV" and any(v is not None and o["slot"] <= v < o["slot"] + o["len"] for v in tv))]
    # node states / controls are passed as the whole sampled vector (a sampled sub-vector of the
    # state is vertsplit(X_k){i}, which CasADi does not accept as a function input)
    from ..cases import nslots
    whole = []
    if m["kind"] != "SS" and all(d["cols"] == 1 for d in case["states"]):
        whole.append({"kind": "xall", "idx": 0, "slot": 0, "len": nslots(case["states"]), "g": "GX"})
    if case.get("controls") and all(d["cols"] == 1 for d in case["controls"]):
        whole.append({"kind": "uall", "idx": 0, "slot": 0, "len": nslots(case["controls"]), "g": "GU"})
    objs = [o for o in objs if o["g"] not in ("GX", "GU")] + whole
    args = []
    rng.shuffle(objs)
    for o in objs[:rng.randint(0, min(3, len(objs)))]:
        ncols = {"GX": N + 1, "GU": N, "GV": 1, "GVC": N, "GVP": N + 1}[o["g"]]
        a_ = {"what": "guess", "obj": [o["kind"], o["idx"]], "g": o["g"], "slot": o["slot"], "len": o["len"],
              "cols": [[jq(dyadic(rng, -3, 3, 2)) for _ in range(o["len"])] for _ in range(ncols)]}
        if o["kind"] == "xall" and not case.get("hosted") and rng.random() < 0.35:
            # the state guess sampled on grid='control-' (N interval start nodes, a shifted warm start): the final node
            # keeps its current value; outside the Rocq start-point model, compared with the imperative pipeline only
            a_["cols"] = a_["cols"][:N]
            a_["minus"] = True
        args.append(a_)
    pobjs = param_objects(case)
    tp = [case.get(k, {}).get("param") for k in ("T", "t0")]
    pobjs = [o for o in pobjs if not (o["grid"] == "" and any(v is not None and o["slot"] <= v < o["slot"] + o["len"] for v in tp))]
    rng.shuffle(pobjs)
    for o in pobjs[:rng.randint(0, min(2, len(pobjs)))]:
        ncols = {"": 1, "control": N, "control+": N + 1}[o["grid"]]
        args.append({"what": "param", "idx": o["idx"], "grid": o["grid"], "slot": o["slot"], "len": o["len"],
                     "cols": [[jq(dyadic(rng, -2, 2, 2)) for _ in range(o["len"])] for _ in range(ncols)]})
    # two global parameters (or variables) passed as one concatenated argument
    used_p = set(a["idx"] for a in args if a["what"] == "param")
    gp = [o for o in pobjs if o["grid"] == "" and o["idx"] not in used_p]
    if len(gp) >= 2 and rng.random() < 0.7:
        a_, b_ = gp[0], gp[1]
        args.append({"what": "pcat", "idxs": [a_["idx"], b_["idx"]], "slots": [a_["slot"], b_["slot"]], "lens": [a_["len"], b_["len"]],
                     "vals": [jq(dyadic(rng, -2, 2, 2)) for _ in range(a_["len"] + b_["len"])]})
    used_v = set(tuple(a["obj"]) for a in args if a["what"] == "guess")
    gv = [o for o in c10.objects(case) if o["g"] == "GV" and (o["kind"], o["idx"]) not in used_v
          and not any(v is not None and o["slot"] <= v < o["slot"] + o["len"] for v in tv)]
    if len(gv) >= 2 and rng.random() < 0.7:
        a_, b_ = gv[0], gv[1]
        args.append({"what": "vcat", "objs": [[a_["kind"], a_["idx"]], [b_["kind"], b_["idx"]]], "slots": [a_["slot"], b_["slot"]],
                     "lens": [a_["len"], b_["len"]], "vals": [jq(dyadic(rng, -3, 3, 2)) for _ in range(a_["len"] + b_["len"])]})
    rng.shuffle(args)
    return args


def arg_matrix(a):
    arr = np.array([[float(Fr(v)) for v in col] for col in a["cols"]]).T     # len x ncols
    return arr


def engine_param_value(B, case, idx):
    """declared value (column-major list) of the idx-th parameter declaration (a global one)"""
    off = 0
    for k, d in enumerate(case["params"]):
        if d.get("grid", "") != "":
            continue
        n = d["rows"] * d["cols"]
        if k == idx:
            return [float(Fr(v)) for v in case["param_values"]["p"][off:off + n]]
        off += n
    raise KeyError(idx)


def apply_calls0(B, ocp, case, ca):
    transcribed = False
    for c in case["calls"]:
        if c.get("after") and not transcribed:
            ocp.sample(ocp.t, grid="control")      # later guesses are given to the transcribed OCP
            transcribed = True
        kind, idx = c["obj"]
        sym = B.objs[kind][idx]
        n = c["len"]
        if c["form"] == "const":
            val = float(Fr(c["value"]))
        elif c["form"] == "vec":
            val = ca.DM([float(Fr(v)) for v in c["value"]]) if n > 1 else float(Fr(c["value"][0]))
        elif c["form"] == "cols":
            arr = np.array([[float(Fr(v)) for v in col] for col in c["value"]]).T
            val = arr[0] if n == 1 else arr
        else:
            es = [B.ex(e) for e in c["value"]]
            val = ca.vertcat(*es) if n > 1 else es[0]
        ocp.set_initial(sym, val)


def result_exprs(B, case, ca, sampler, valuer):
    """(name, value) of the result quantities, through `sampler(expr, grid)` / `valuer(expr)`"""
    ocp = B.ocp
    m = case["method"]
    out = []
    if B.objs["x"]:
        out.append(("X", sampler(ocp.x, "control")))
    if B.objs["u"]:
        out.append(("U", sampler(ocp.u, "control-")))
    for g, v, d in B.vdecl:
        if g == "":
            out.append(("V", valuer(v)))
        elif g == "control":
            out.append(("VC", sampler(v, "control-")))
        else:
            out.append(("VP", sampler(v, "control")))
    for g, p, d in B.pdecl:
        if g == "":
            out.append(("P", valuer(p)))
        elif g == "control":
            out.append(("PC", sampler(p, "control-")))
    if m["kind"] == "DC" and B.objs["x"]:
        out.append(("Xc", sampler(ocp.x, "integrator_roots")))
        out.append(("Xint", sampler(ocp.x, "integrator")))
    return out


def worker(args_):
    case, _ = args_
    from ..common import setup_rockit_path, time_limit
    rockit = setup_rockit_path()
    import io, contextlib
    import casadi as ca
    out = {}
    try:
        with time_limit(200), contextlib.redirect_stdout(io.StringIO()), contextlib.redirect_stderr(io.StringIO()):
            # --- path A: to_function
            hosted = bool(case.get("hosted"))

            def build():
                # hosted: the OCP is a sub-stage of a master Ocp; to_function / solver / solve go through the master
                if hosted:
                    master_ = rockit.Ocp()
                    B_ = CS.build_rockit(case, rockit, with_solver=False, factory=master_.stage)
                    return B_, master_
                B_ = CS.build_rockit(case, rockit, with_solver=False)
                return B_, B_.ocp
            B, master = build()
            ocp = B.ocp
            master.solver(*SOLVER)
            apply_calls0(B, ocp, case, ca)
            out["inputs"] = engine.impl_inputs(B, case)
            fargs, fvals = [], []
            for a in case["args"]:
                if a["what"] in ("pcat", "vcat"):
                    syms = [B.objs["p"][i] for i in a["idxs"]] if a["what"] == "pcat" else [B.objs[k_][i] for k_, i in a["objs"]]
                    fargs.append(ocp.value(ca.vertcat(*syms)))
                    fvals.append(ca.DM([float(Fr(v)) for v in a["vals"]]))
                    continue
                M_ = arg_matrix(a)
                if a["what"] == "param":
                    p = B.objs["p"][a["idx"]]
                    e = ocp.value(p) if a["grid"] == "" else ocp.sample(p, grid="control-" if a["grid"] == "control" else "control")[1]
                else:
                    kind, idx = a["obj"]
                    s = ocp.x if kind == "xall" else ocp.u if kind == "uall" else B.objs[kind][idx]
                    e = {"GX": lambda: ocp.sample(s, grid="control-" if a.get("minus") else "control")[1], "GU": lambda: ocp.sample(s, grid="control-")[1],
                         "GV": lambda: ocp.value(s), "GVC": lambda: ocp.sample(s, grid="control-")[1],
                         "GVP": lambda: ocp.sample(s, grid="control")[1]}[a["g"]]()
                fargs.append(e)
                fvals.append(ca.DM(M_))
            res = result_exprs(B, case, ca, lambda e, g: ocp.sample(e, grid=g)[1], lambda e: ocp.value(e))
            if case.get("refetch"):
                pr = B.objs["p"][case["refetch"]["idx"]]
                declared = ca.DM(engine_param_value(B, case, case["refetch"]["idx"])).reshape(pr.shape)
                ocp.set_value(pr, ca.DM([float(Fr(v)) for v in case["refetch"]["old"]]).reshape(pr.shape))
                master.to_function("f", fargs, [r for _, r in res])       # first request (discarded)
                ocp.set_value(pr, declared)
            f = master.to_function("f", fargs, [r for _, r in res])
            fo = f.call(fvals)
            out["tf"] = [(nm, np.array(v).reshape(-1, order="F").tolist()) for (nm, _), v in zip(res, fo)]
            out["shapes"] = [(nm, list(np.atleast_2d(np.array(v)).shape)) for (nm, _), v in zip(res, fo)]
            # --- path B: imperative pipeline on a fresh OCP with the same current values
            B2, master2 = build()
            o2 = B2.ocp
            master2.solver(*SOLVER)
            apply_calls0(B2, o2, case, ca)
            for a in case["args"]:
                if a["what"] == "pcat":
                    o2.set_value(ca.vertcat(*[B2.objs["p"][i] for i in a["idxs"]]), ca.DM([float(Fr(v)) for v in a["vals"]]))
                    continue
                if a["what"] == "vcat":
                    o2.set_initial(ca.vertcat(*[B2.objs[k_][i] for k_, i in a["objs"]]), ca.DM([float(Fr(v)) for v in a["vals"]]))
                    continue
                M_ = arg_matrix(a)
                val = M_[:, 0] if M_.shape[1] == 1 and a.get("g") == "GV" or (a["what"] == "param" and a["grid"] == "") else M_
                if a["what"] == "param":
                    o2.set_value(B2.objs["p"][a["idx"]], ca.DM(val) if a["grid"] == "" else val)
                else:
                    kind, idx = a["obj"]
                    if kind in ("xall", "uall"):
                        # the imperative user assigns each declared symbol its rows of the array
                        off = 0
                        for s in B2.objs["x" if kind == "xall" else "u"]:
                            n_ = s.numel()
                            rows = val[off:off + n_, :]
                            if a.get("minus"):
                                # the imperative user keeps the current guess of the final node
                                cur = np.array(o2.initial_value(o2.sample(s, grid="control")[1])).reshape(n_, -1)
                                rows = np.hstack([rows, cur[:, -1:]])
                            o2.set_initial(s, rows[0] if n_ == 1 else rows)
                            off += n_
                        continue
                    s = B2.objs[kind][idx]
                    if a["g"] == "GV":
                        o2.set_initial(s, ca.DM(val) if a["len"] > 1 else float(val[0]))
                    else:
                        o2.set_initial(s, val[0] if a["len"] == 1 else val)
            try:
                sol = master2.solve()
            except Exception:
                sol = master2.non_converged_solution
            if hosted:
                sol = sol(o2)
            res2 = result_exprs(B2, case, ca, lambda e, g: sol.sample(e, grid=g)[1], lambda e: sol.value(e))
            out["pipe"] = []
            for (nm, v), (_, shp) in zip(res2, out["shapes"]):
                v = np.array(v, dtype=float)
                if nm in ("V", "P"):
                    out["pipe"].append((nm, v.reshape(-1).tolist()))
                else:
                    # sol.sample returns time-major arrays: (ncols,) or (ncols, n)
                    v = v.reshape(shp[1], -1)
                    out["pipe"].append((nm, v.reshape(-1).tolist()))
    except Exception as e:
        out["error"] = "%s: %s" % (type(e).__name__, str(e)[:400])
        out["trace"] = traceback.format_exc()[-1500:]
    return out


def model_calls(case):
    calls = list(case["calls"])
    for a in case["args"]:
        if a["what"] == "guess":
            calls.append({"g": a["g"], "slot": a["slot"], "len": a["len"], "form": "cols", "value": a["cols"]})
        if a["what"] == "vcat":
            off = 0
            for slot, n in zip(a["slots"], a["lens"]):
                calls.append({"g": "GV", "slot": slot, "len": n, "form": "cols", "value": [a["vals"][off:off + n]]})
                off += n
    return calls


def model_pvals(case):
    p = [Fr(v) for v in case["param_values"]["p"]]
    for a in case["args"]:
        if a["what"] == "param" and a["grid"] == "":
            for j in range(a["len"]):
                p[a["slot"] + j] = Fr(a["cols"][0][j])
        if a["what"] == "pcat":
            off = 0
            for slot, n in zip(a["slots"], a["lens"]):
                for j in range(n):
                    p[slot + j] = Fr(a["vals"][off + j])
                off += n
    return [jq(v) for v in p]


def model_run(cps, inputs, name):
    from ..cases import nslots
    bodies, shard = [], 40
    for s in range(0, len(cps), shard):
        chunk = []
        for i in range(s, min(s + shard, len(cps))):
            case, _ = cps[i]
            if inputs[i] is None:
                continue
            nv = {g: nslots([d for d in case.get("vars", []) if d.get("grid", "") == g]) for g in ("", "control", "control+")}
            chunk.append("Definition c%d : ocp := %s.\n" % (i, CS.case_coq(case, inputs[i])))
            chunk.append("Eval vm_compute in (%d%%nat, run_initial_float c%d %d%%nat %d%%nat %d%%nat %s %s).\n" % (
                i, i, nv[""], nv["control"], nv["control+"], CS.clist([c10.call_coq(c) for c in model_calls(case)]),
                CS.cqlist(model_pvals(case))))
        if chunk:
            bodies.append("".join(chunk))
    hdr = coqrun.HEADER + "From RV Require Import Mech.Initial.\n"
    res = coqrun.run_shards(name, bodies, header=hdr)
    out = {}
    for sv in res:
        for i, vals in sv:
            out[i] = vals
    return out


def model_expect(case, mv):
    X, U, V, VC, VP, (T, t0), (Xi, Xc, Zc) = mv[:7]
    exp = {}
    if case["method"]["kind"] != "SS":
        exp["X"] = [v for col in X for v in col]
    exp["U"] = [v for col in U for v in col]
    exp["V"] = list(V)
    exp["VC"] = [v for col in VC for v in col]
    exp["VP"] = [v for col in VP for v in col]
    if case["method"]["kind"] == "DC":
        exp["Xc"] = [v for k in Xc for i in k for col in i for v in col]
    return exp


def judge_case(case, r, mv):
    if "error" in r:
        if "purely symbolic" in r["error"]:
            return None     # CasADi rejects the argument loudly: nothing to compare (counted as skipped)
        return [{"what": "to_function or the pipeline raised", "error": r["error"], "trace": r.get("trace")}]
    d = []
    tf = {}
    for nm, v in r["tf"]:
        tf.setdefault(nm, []).extend(v)
    pipe = {}
    for nm, v in r["pipe"]:
        pipe.setdefault(nm, []).extend(v)
    for nm in tf:
        a, b = tf[nm], pipe.get(nm, [])
        if any((not math.isfinite(x)) or abs(x) > engine.BIG for x in a + b):
            return []
        if len(a) != len(b) or any(not engine.close(x, y, rtol=1e-10, scale=abs(y)) for x, y in zip(a, b)):
            d.append({"what": "to_function output differs from the imperative pipeline", "quantity": nm, "to_function": a[:12], "pipeline": b[:12]})
            break
    if not d and mv is not None:
        exp = model_expect(case, mv)
        for nm, e in exp.items():
            if nm in tf and (len(e) != len(tf[nm]) or any(not engine.close(x, y, rtol=1e-10, scale=abs(y)) for x, y in zip(tf[nm], e))):
                if any((not math.isfinite(x)) or abs(x) > engine.BIG for x in e):
                    continue
                d.append({"what": "to_function output (solver returning its starting point) differs from the Rocq model's starting point",
                          "quantity": nm, "to_function": tf[nm][:12], "model": e[:12]})
                break
    return d


# ------------------------------------------------------------------ convex LQ problems, solved
def lq_worker(spec):
    from ..common import setup_rockit_path, time_limit
    rockit = setup_rockit_path()
    import io, contextlib
    import casadi as ca
    out = {}
    try:
        with time_limit(200), contextlib.redirect_stdout(io.StringIO()), contextlib.redirect_stderr(io.StringIO()):
            def mk():
                ocp = rockit.Ocp(t0=0, T=spec["T"])
                x = ocp.state(2); u = ocp.control(); p = ocp.parameter(2); w = ocp.parameter()
                A = ca.DM(spec["A"]); Bm = ca.DM(spec["B"])
                ocp.set_der(x, A @ x + Bm * u + ca.vertcat(0, w * ocp.t))
                ocp.subject_to(ocp.at_t0(x) == p)
                ocp.subject_to(-spec["ub"] <= (u <= spec["ub"]))
                ocp.add_objective(ocp.integral(ca.sumsqr(x) + spec["r"] * u * u) + 2 * ca.sumsqr(ocp.at_tf(x)))
                ocp.set_value(p, ca.DM([0.1, 0.2])); ocp.set_value(w, 0.0)
                kind = spec["method"]
                if kind == "DC":
                    ocp.method(rockit.DirectCollocation(N=spec["N"], M=spec["M"], degree=2))
                else:
                    cls = rockit.MultipleShooting if kind == "MS" else rockit.SingleShooting
                    ocp.method(cls(N=spec["N"], M=spec["M"], intg="rk"))
                ocp.solver("ipopt", {"ipopt.print_level": 0, "print_time": False, "ipopt.sb": "yes", "ipopt.tol": 1e-10})
                return ocp, x, u, p, w
            ocp, x, u, p, w = mk()
            Us = ocp.sample(u, grid="control-")[1]
            f = ocp.to_function("f", [ocp.value(p), ocp.value(w), Us],
                                [ocp.sample(x, grid="control")[1], Us, ocp.value(ocp.objective) if hasattr(ocp, "objective") else Us])
            u0 = np.array(spec["u0"]).reshape(1, -1)
            fo = f(ca.DM(spec["p"]), spec["w"], ca.DM(u0))
            o2, x2, u2, p2, w2 = mk()
            o2.set_value(p2, ca.DM(spec["p"])); o2.set_value(w2, spec["w"]); o2.set_initial(u2, u0[0])
            sol = o2.solve()
            out["tf"] = [np.array(fo[0]).reshape(-1, order="F").tolist(), np.array(fo[1]).reshape(-1).tolist()]
            out["pipe"] = [np.array(sol.sample(x2, grid="control")[1]).reshape(-1).tolist(),
                           np.array(sol.sample(u2, grid="control-")[1]).reshape(-1).tolist()]
    except Exception as e:
        out["error"] = "%s: %s" % (type(e).__name__, str(e)[:400])
        out["trace"] = traceback.format_exc()[-1200:]
    return out


def gen_lq(rng):
    N = rng.randint(2, 5)
    return {"T": rng.choice([1.0, 1.5, 2.0]), "A": [[0, 1], [round(rng.uniform(-2, 0), 2), round(rng.uniform(-1, 0), 2)]],
            "B": [0, 1], "r": rng.choice([0.1, 0.5, 1.0]), "ub": rng.choice([0.5, 2.0, 10.0]), "N": N, "M": rng.randint(1, 2),
            "method": rng.choice(["MS", "SS", "DC"]), "p": [round(rng.uniform(-1, 1), 2), round(rng.uniform(-1, 1), 2)],
            "w": round(rng.uniform(-1, 1), 2), "u0": [round(rng.uniform(-0.4, 0.4), 2) for _ in range(N)]}


def gen_cases(seed, n, opts):
    rng = random.Random(seed * 1000003 + 1919)
    out = []
    for i in range(n):
        c = gen.gen_base(rng, opts)
        gen.touch_objective(c)
        calls = [cc for cc in c10.gen_calls(rng, c) if cc["g"] not in ("GbigT", "Gt0")][:3]
        calls.sort(key=lambda cc: cc["after"])
        c["calls"] = calls
        if i % 4 == 1:
            c["hosted"] = True
        c["args"] = gen_args(rng, c)
        c["id"] = "C19-%d-%d" % (seed, i)
        # every third case asks for the same Function twice: an unlisted global parameter has another value at the
        # first request, and gets its declared value before the second one ("arguments not listed keep their
        # current values": the values at the time of the request)
        listed = set()
        for a in c["args"]:
            if a["what"] == "param":
                listed.add(a["idx"])
            elif a["what"] == "pcat":
                listed.update(a["idxs"])
        free = [k for k, d in enumerate(c["params"]) if d.get("grid", "") == "" and k not in listed]
        if i % 3 == 0 and free and "param" not in c.get("T", {}) and "param" not in c.get("t0", {}):
            k = rng.choice(free)
            d = c["params"][k]
            c["refetch"] = {"idx": k, "old": [jq(dyadic(rng, -2, 2, 2)) for _ in range(d["rows"] * d["cols"])]}
        out.append((c, []))
    return out


def corpus():
    out = []
    for p in sorted(glob.glob(os.path.join(VERIF, "corpus", PID, "*.json"))):
        d = json.load(open(p))
        if "args" in d.get("case", {}):
            out.append((d["case"], []))
    return out


def run_cases(cps, lqs, name, jobs=16):
    with mp.get_context("fork").Pool(min(jobs, max(1, len(cps)))) as pool:
        rr = pool.map(worker, cps, chunksize=1)
        rl = pool.map(lq_worker, lqs, chunksize=1) if lqs else []
    mv = model_run(cps, [r.get("inputs") for r in rr], name)
    dis, nontriv, dist = [], set(), {}
    for i, (case, _) in enumerate(cps):
        for a in case["args"]:
            key = "%s/%s" % (case["method"]["kind"], a.get("g") or (a["what"] if a["what"] in ("pcat", "vcat") else "P" + a["grid"]))
            dist[key] = dist.get(key, 0) + 1
        d = judge_case(case, rr[i], None if any(a.get("minus") for a in case["args"]) else mv.get(i))
        if d is None:
            dist["skipped/not-a-valid-input"] = dist.get("skipped/not-a-valid-input", 0) + 1
            continue
        if d:
            dis.append({"property": PID, "what": d[:2], "case": case, "points": [], "finding_key": None})
        elif case["args"]:
            nontriv.add(sha(case))
    for spec, r in zip(lqs, rl):
        dist["LQ/" + spec["method"]] = dist.get("LQ/" + spec["method"], 0) + 1
        if "error" in r:
            dis.append({"property": PID, "what": [{"what": "LQ problem: to_function or the pipeline failed", "error": r["error"], "trace": r.get("trace")}],
                        "case": {"lq": spec}, "points": [], "finding_key": None})
            continue
        bad = [(a, b) for A_, B_ in zip(r["tf"], r["pipe"]) for a, b in zip(A_, B_) if abs(a - b) > 1e-6 * (1 + abs(b))]
        if bad or any(len(a) != len(b) for a, b in zip(r["tf"], r["pipe"])):
            dis.append({"property": PID, "what": [{"what": "LQ problem solved through to_function differs from the imperative pipeline", "pairs": bad[:5]}],
                        "case": {"lq": spec}, "points": [], "finding_key": None})
        else:
            nontriv.add(sha(spec))
    return dis, nontriv, dist


def run(tier="quick", seed=0, jobs=16):
    n = 120 if tier == "quick" else 1200
    cps = corpus() + gen_cases(seed, n, OPTS if tier == "quick" else dict(OPTS, N_max=5))
    rng = random.Random(seed * 7 + 19)
    lqs = [gen_lq(rng) for _ in range(16 if tier == "quick" else 120)]
    dis, nontriv, dist = run_cases(cps, lqs, PID, jobs)
    return {"evaluations": len(cps) + len(lqs), "distinct_nontrivial": len(nontriv),
            "rule": "random OCPs (MS|SS|DC, DAEs, grids, free/parametric horizon) with 0-3 current set_initial calls (some given after the first transcription) x 0-5 to_function arguments "
                    "(node states, controls, global / per-interval / per-interval+last variables as initial values; global and per-interval "
                    "parameters as values) with random values; results: states and controls on the control grid, variables, parameters, "
                    "collocation helper states and integrator-grid states.  IPOPT max_iter=0 (returns the start point): f(args) against "
                    "the imperative pipeline and against the Rocq start-point model.  Plus convex LQ problems (MS|SS|DC) solved to "
                    "tolerance 1e-10 through both paths, agreement 1e-6.  distinct by hash of the case",
            "samples": [{"case": cps[-1][0]}], "disagreements": dis, "distribution": dist, "extra": {"lq_problems": len(lqs)}}


def replay(path):
    d = json.load(open(path))
    c = d["case"]
    if "lq" in c:
        dis, _, _ = run_cases([], [c["lq"]], PID + "r", 1)
    else:
        dis, _, _ = run_cases([(c, [])], [], PID + "r", 1)
    print(json.dumps(dis[:1], indent=1, default=str)[:4000] if dis else "replay: agrees")
    return 1 if dis else 0
