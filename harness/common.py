"""Shared paths, environment and small utilities for the verification harness."""
import os, sys, json, time, hashlib, random
from fractions import Fraction

VERIF = os.path.dirname(os.path.dirname(os.path.abspath(__file__)))
REPO = os.environ.get("ROCKIT_REPO", "/repo")
COQ = os.path.join(VERIF, "coq")
WORK = os.path.join(VERIF, "work")
PY = "/venv/bin/python"
GUARD = "ROCKIT_VERIF"


def setup_rockit_path():
    """Force import of rockit from the working tree of /repo (never an installed copy)."""
    for p in (os.path.join(VERIF, "pydeps"), REPO):
        if p in sys.path:
            sys.path.remove(p)
        sys.path.insert(0, p)
    os.environ[GUARD] = "1"
    import rockit
    rp = os.path.dirname(os.path.abspath(rockit.__file__))
    assert rp.startswith(REPO), "rockit imported from %s, expected %s" % (rp, REPO)
    return rockit


def seed_of():
    try:
        return int(os.environ.get("VERIF_SEED", "20260930"))
    except ValueError:
        return 20260930


def tier_of(argv_tier=None):
    t = argv_tier or os.environ.get("VERIF_TIER") or "quick"
    return t if t in ("quick", "thorough") else "quick"


def Fr(x):
    """Fraction from [num, den] | int | Fraction | float (exact)."""
    if isinstance(x, Fraction):
        return x
    if isinstance(x, (list, tuple)):
        return Fraction(int(x[0]), int(x[1]))
    if isinstance(x, int):
        return Fraction(x)
    if isinstance(x, float):
        return Fraction(x)
    raise TypeError(x)


def jq(x):
    """JSON form of an exact rational."""
    f = Fr(x)
    return [f.numerator, f.denominator]


def dyadic(rng, lo=-2, hi=2, bits=3):
    """random dyadic rational in [lo, hi] with `bits` fractional bits"""
    s = 1 << bits
    return Fraction(rng.randint(lo * s, hi * s), s)


def dyadic_nz(rng, lo=-2, hi=2, bits=3):
    while True:
        v = dyadic(rng, lo, hi, bits)
        if v != 0:
            return v


def sha(obj):
    return hashlib.sha1(json.dumps(obj, sort_keys=True).encode()).hexdigest()[:12]


class Timer:
    def __init__(self):
        self.t0 = time.time()

    def s(self):
        return round(time.time() - self.t0, 3)


class WorkerTimeout(Exception):
    pass


class time_limit:
    """raise WorkerTimeout inside a worker that does not finish (e.g. a non-terminating loop in the
    code under test); reported as a disagreement, never a hang of the check"""
    def __init__(self, seconds):
        self.seconds = seconds

    def __enter__(self):
        import signal

        def handler(signum, frame):
            raise WorkerTimeout("no result within %d s" % self.seconds)
        self.old = signal.signal(signal.SIGALRM, handler)
        signal.alarm(self.seconds)

    def __exit__(self, *a):
        import signal
        signal.alarm(0)
        signal.signal(signal.SIGALRM, self.old)
        return False
