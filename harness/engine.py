"""The NLP engine: run generated cases on rockit (worker processes) and on the Rocq
model (coqc/vm_compute), bring both to normal rows and compare them as multisets."""
import os, json, math, traceback
import multiprocessing as mp
import numpy as np
from fractions import Fraction
from .common import Fr, jq, WORK
from . import cases as CS
from . import coqrun

RTOL = 1e-9      # agreement
KIND_NAMES = {1: "dyn", 2: "grid", 3: "path", 4: "point", 5: "freetime", 6: "colloc", 7: "alg",
              8: "cont", 9: "inf"}


def float_exact(x):
    return jq(Fraction(float(x)))


def impl_inputs(B, case):
    """numbers rockit computes itself and the model takes as inputs"""
    m = case["method"]
    meth = B.ocp._method
    inp = {}
    g = m.get("grid") or {}
    cls = g.get("class", "Uniform")
    if cls == "Geometric":
        inp["growth_factor"] = float_exact(meth.time_grid.growth_factor(m["N"]))
    if cls in ("Function", "Density"):
        inp["nodes"] = [float_exact(v) for v in meth.time_grid.normalized(m["N"])]
    if m["kind"] == "DC":
        inp["tau"] = [float_exact(v) for v in meth.tau]
    return inp


def rockit_side(args):
    """worker: build the case on the real rockit, observe the NLP at the points"""
    case, points, extra = args
    extras_fn, extra_fn = extra if extra else (None, None)
    from .common import setup_rockit_path
    rockit = setup_rockit_path()
    from . import nlp
    import io, contextlib
    out = {"id": case.get("id")}
    try:
        buf = io.StringIO()
        from .common import time_limit
        with time_limit(180), contextlib.redirect_stdout(buf):
            B = CS.build_rockit(case, rockit)
            out["inputs"] = impl_inputs(B, case)
            ob = nlp.observe(B, case, extras_fn)
            targets = [nlp.flatten_point(ob, pt) for pt in points]
            objs, rows = nlp.rockit_rows(ob, targets)
            out["objs"] = objs
            out["rows"] = [(s, list(map(float, hs))) for s, key, hs in rows]
            out["nx_opti"] = ob.nx
            out["ng"] = int(ob.opti.g.numel())
            if extra_fn:
                out["extra"] = extra_fn(B, case, ob, points, targets)
    except nlp.Mismatch as e:
        out["mismatch"] = str(e)
    except Exception as e:
        out["error"] = "%s: %s" % (type(e).__name__, e)
        out["trace"] = traceback.format_exc()[-1500:]
    return out


def run_rockit(cases_points, extra=None, jobs=16):
    args = [(c, p, extra) for c, p in cases_points]
    if jobs <= 1 or len(args) <= 1:
        return [rockit_side(a) for a in args]
    ctx = mp.get_context("fork")
    with ctx.Pool(min(jobs, len(args))) as pool:
        return pool.map(rockit_side, args, chunksize=1)


def model_shooting(cases_points, inputs_list, name, shard=40, runner="run_shooting_float"):
    """evaluate Runner.run_shooting at every point of every case"""
    bodies = []
    idx = []
    for s in range(0, len(cases_points), shard):
        chunk = []
        for i in range(s, min(s + shard, len(cases_points))):
            case, points = cases_points[i]
            if inputs_list[i] is None:
                continue
            chunk.append("Definition c%d : ocp := %s.\n" % (i, CS.case_coq(case, inputs_list[i])))
            chunk.append("Eval vm_compute in (%d%%nat, map (%s c%d) %s).\n" % (
                i, runner, i, CS.clist([CS.point_coq(p) for p in points])))
        if chunk:
            bodies.append("".join(chunk))
    res = coqrun.run_shards(name, bodies)
    out = {}
    for shard_vals in res:
        for i, vals in shard_vals:
            out[i] = vals
    return out


def model_rows(vals):
    """vals: per point (obj, rows, X).  Returns objs, rows[(kind,id,pt,sense,[h...])], Xs"""
    objs = [v[0] for v in vals]
    n = len(vals[0][1])
    rows = []
    for j in range(n):
        k, cid, pt, sense, _ = vals[0][1][j]
        hs = [v[1][j][4] for v in vals]
        rows.append((int(k), int(cid), int(pt), int(sense), hs))
    Xs = [v[2] for v in vals]
    return objs, rows, Xs


def close(a, b, rtol=RTOL, scale=0.0):
    if math.isnan(a) or math.isnan(b):
        return False
    return abs(a - b) <= rtol * (1.0 + abs(b) + scale)


def vec_close(a, b, sign=1.0, scale=0.0):
    return all(close(sign * x, y, scale=scale) for x, y in zip(a, b))


def match_rows(mrows, rrows):
    """greedy multiset matching of model rows against rockit rows.
    Returns (unmatched_model, unmatched_rockit)."""
    used = [False] * len(rrows)
    um = []
    for mr in mrows:
        k, cid, pt, sense, hs = mr
        mag = max([abs(h) for h in hs] + [0.0])
        found = False
        for j, (rs, rhs) in enumerate(rrows):
            if used[j] or rs != sense:
                continue
            if vec_close(rhs, hs, 1.0, mag) or (sense == 0 and vec_close(rhs, hs, -1.0, mag)):
                used[j] = True
                found = True
                break
        if not found:
            um.append(mr)
    ur = [rrows[j] for j in range(len(rrows)) if not used[j]]
    return um, ur


BIG = 1e7


def unjudgeable(objs, mrows, rres):
    """values that overflowed or are so large that float64 cancellation noise exceeds the
    tolerance: the case carries no information (counted as skipped, never as an alarm)"""
    vals = list(objs) + list(rres.get("objs", []))
    for r in mrows:
        vals += r[4]
    for s_, hs in rres.get("rows", []):
        vals += hs
    return any((not math.isfinite(v)) or abs(v) > BIG for v in vals)


def model_accepts(mvals):
    v = mvals[0]
    return v[3] if (isinstance(v, tuple) and len(v) >= 4 and isinstance(v[3], bool)) else True


def compare_case(case, mvals, rres, judge_kinds=None, judge_obj=True):
    """returns list of disagreement dicts (empty = agree)"""
    dis = []
    if not model_accepts(mvals):
        if "error" in rres:
            return []
        return [{"what": "the specification is rejected by the model (constraint that cannot be placed) "
                         "but rockit transcribed it without raising"}]
    if "error" in rres and ("You passed a constant" in rres["error"] or "never statisfied" in rres["error"]
                            or "Constraint must contain decision variables" in rres["error"]
                            or "MX symbol 'offset'" in rres["error"]):
        # a generated relation folded to a constant / parameter-only / offset-only expression inside
        # CasADi (rockit then rejects it loudly): the model has no symbolic simplifier, the case is
        # skipped (counted, never an alarm)
        return []
    if "error" in rres:
        return [{"what": "rockit raised on a case the model transcribes", "error": rres["error"],
                 "trace": rres.get("trace")}]
    if "mismatch" in rres:
        return [{"what": "structural mismatch", "detail": rres["mismatch"]}]
    objs, mrows, Xs = model_rows(mvals)
    if unjudgeable(objs, mrows, rres):
        return []
    if judge_obj:
        for a, b in zip(rres["objs"], objs):
            if not close(a, b, scale=abs(b)):
                dis.append({"what": "objective differs", "rockit": a, "model": b})
                break
    um, ur = match_rows(mrows, rres["rows"])
    def const_true(mr):
        # a row that is constant over all sample points and satisfied: CasADi folds such rows to a
        # constant and rockit drops constant-true constraints (direct_method.py:259-261, 312-313)
        hs = mr[4]
        if max(hs) - min(hs) > 1e-12:
            return False
        return abs(hs[0]) <= 1e-12 if mr[3] == 0 else hs[0] <= 1e-12
    um = [mr for mr in um if not const_true(mr)]
    for mr in um:
        if judge_kinds is None or mr[0] in judge_kinds:
            dis.append({"what": "model row has no counterpart in rockit's NLP",
                        "kind": KIND_NAMES.get(mr[0]), "constraint": mr[1], "point": mr[2],
                        "sense": "eq" if mr[3] == 0 else "le", "model_values": mr[4]})
    if ur:
        # rows of rockit nobody in the model accounts for: attribute by elimination
        mk = set(mr[0] for mr in um)
        if judge_kinds is None or (mk & set(judge_kinds)) or not um:
            for rs, rhs in ur:
                dis.append({"what": "rockit row has no counterpart in the model",
                            "sense": "eq" if rs == 0 else "le", "rockit_values": rhs})
    return dis


def extras_Xs(B, case):
    """read-back expressions evaluated with the NLP: sample(x, grid='control')"""
    return [B.ocp.sample(B.ocp.x, grid="control")[1]]


def extra_Xs(B, case, ob, points, targets):
    """sample(x, grid='control') evaluated at every semantic point (list of columns)"""
    from . import nlp
    out = []
    for t in targets:
        xs = nlp.solve_point(ob, t)
        v = np.array(ob.extra_f(xs, ob.pval))
        out.append([[float(v[r, c]) for r in range(v.shape[0])] for c in range(v.shape[1])])
    return {"Xs": out}


def compare_Xs(mXs, rXs):
    """model node states vs rockit's sample(x,'control') at each point"""
    dis = []
    flat = [v for X in list(mXs) + list(rXs) for col in X for v in col]
    if any((not math.isfinite(v)) or abs(v) > BIG for v in flat):
        return []   # overflowed trajectory: no information
    for p, (a, b) in enumerate(zip(mXs, rXs)):
        if len(a) != len(b):
            return [{"what": "number of sampled nodes differs", "model": len(a), "rockit": len(b)}]
        for k, (ca_, cb) in enumerate(zip(a, b)):
            mag = max([abs(v) for v in ca_] + [0.0])
            if len(ca_) != len(cb) or not all(close(y, x, scale=mag) for x, y in zip(ca_, cb)):
                dis.append({"what": "sampled state differs from the propagated state",
                            "point": p, "node": k, "model": ca_, "rockit": cb})
                return dis
    return dis


def extras_objvalue(B, case):
    """ocp.value(ocp.objective): the public read-back of the cost"""
    return [B.ocp.value(B.ocp.objective)]


def extra_objvalue(B, case, ob, points, targets):
    from . import nlp
    out = []
    for t in targets:
        xs = nlp.solve_point(ob, t)
        out.append(float(ob.extra_f(xs, ob.pval)))
    return {"objvalue": out}


def extras_time(B, case):
    ocp = B.ocp
    import casadi as ca
    tc, tv = ocp.sample(ocp.t, grid="control")
    ti, _ = ocp.sample(ocp.t, grid="integrator")
    _, dt = ocp.sample(ocp.DT, grid="control")
    _, dtc = ocp.sample(ocp.DT_control, grid="control")
    return [ca.vec(tc), ca.vec(tv), ca.vec(ti), ca.vec(dt), ca.vec(dtc)]


def extra_time(B, case, ob, points, targets):
    from . import nlp
    out = []
    for t in targets:
        xs = nlp.solve_point(ob, t)
        vals = ob.extra_f(xs, ob.pval)
        out.append([[float(v) for v in np.array(a).reshape(-1)] for a in vals])
    return {"time": out}


def compare_time(mvals, rtime):
    """model (cg, ig, DT, DTc) vs rockit (control time vector, sampled t, integrator times, DT, DTc)"""
    names = ["control time vector", "sample(ocp.t) on the control grid", "integrator time vector",
             "sample(ocp.DT)", "sample(ocp.DT_control)"]
    for p, (mv, rt) in enumerate(zip(mvals, rtime)):
        cg, ig, dts, dtcs = mv[4]
        model = [cg, cg, ig, dts, dtcs]
        for nm, a, b in zip(names, model, rt):
            if len(a) != len(b):
                return [{"what": nm + ": length differs", "model": len(a), "rockit": len(b), "point": p}]
            if any((not math.isfinite(v)) or abs(v) > BIG for v in list(a) + list(b)):
                return []
            if not all(close(y, x) for x, y in zip(a, b)):
                return [{"what": nm + " differs from the declared partition", "model": a, "rockit": b, "point": p}]
    return []


def model_coeffs(taus, name="coeffs"):
    """C, D, B of the model for each list of collocation points (exact rationals of the floats)"""
    body = "".join("Eval vm_compute in (run_coeffs_float %s).\n" % CS.cqlist(t) for t in taus)
    res = coqrun.run_shards(name, [body])
    return res[0]


# ---------------------------------------------------------------- paired (metamorphic) oracles
def match_rows_factor(rows_a, rows_b, up_to_factor=False):
    """match rows of NLP a into rows of NLP b (both as (sense, [h...])); returns unmatched of a, of b.
    With up_to_factor, a row matches when b = a / s for one constant s > 0 at all points."""
    used = [False] * len(rows_b)
    ua = []
    for sa, ha in rows_a:
        mag = max([abs(h) for h in ha] + [0.0])
        found = False
        for j, (sb, hb) in enumerate(rows_b):
            if used[j] or sa != sb:
                continue
            ok = vec_close(hb, ha, 1.0, mag) or (sa == 0 and vec_close(hb, ha, -1.0, mag))
            if not ok and up_to_factor:
                # find s from the largest entry
                i = max(range(len(ha)), key=lambda t: abs(ha[t]))
                if abs(ha[i]) > 1e-12 and abs(hb[i]) > 1e-12:
                    s = ha[i] / hb[i]
                    if (s > 0 or sa == 0) and s != 0:
                        ok = all(close(x / s, y, scale=mag / abs(s)) for x, y in zip(ha, hb))
            if ok:
                used[j] = True
                found = True
                break
        if not found:
            ua.append((sa, ha))
    ub = [rows_b[j] for j in range(len(rows_b)) if not used[j]]
    return ua, ub


def pair_unjudgeable(ra, rb):
    vals = list(ra.get("objs", [])) + list(rb.get("objs", []))
    for r in (ra, rb):
        for s_, hs in r.get("rows", []):
            vals += hs
    return any((not math.isfinite(v)) or abs(v) > BIG for v in vals)


def extras_horizon(B, case):
    ocp = B.ocp
    return [ocp.value(ocp.T), ocp.value(ocp.t0), ocp.value(ocp.tf)]


def extra_horizon(B, case, ob, points, targets):
    from . import nlp
    out = []
    for t in targets:
        xs = nlp.solve_point(ob, t)
        out.append([float(v) for v in ob.extra_f(xs, ob.pval)])
    # starting values of the decision quantities (physical units)
    init = np.array(ob.Phi(ob.x0, ob.pval)).reshape(-1).tolist() if ob.nx else []
    names = []
    for name, shape in ob.qnames:
        names += [name] * (shape[0] * shape[1])
    return {"horizon": out, "init": dict((n, v) for n, v in zip(names, init) if n in ("T", "t0"))}
