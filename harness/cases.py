"""The case language and its two printers: build_rockit (drives the real API in /repo)
and to_coq (prints a term of type Ocp.ocp for the Rocq model).

Expressions (JSON lists):
  ["c", num, den] | ["s", kind, i] | ["+",a,b] | ["-",a,b] | ["*",a,b] | ["/",a,b]
  | ["neg",a] | ["pow",a,n] | ["off",n,a]
  kinds: x u z q p pc pp v vc vp t T t0 DT DTc
Non-signal expressions (objective terms, boundary constraints):
  ["c",n,d] | ["at0",e] | ["atf",e] | ["int",i] | ["sum",e] | ["sump",e] | ["intc",e]
  | ["g",kind,i] (global symbol: p v T t0) | ["+",a,b] ... | ["neg",a] | ["pow",a,n]
"""
from fractions import Fraction
from .common import Fr, jq

SYMC = {"x": "SX", "u": "SU", "z": "SZ", "q": "SQ", "p": "SP", "pc": "SPC", "pp": "SPP",
        "v": "SV", "vc": "SVC", "vp": "SVP"}
SYM0 = {"t": "St", "T": "SbigT", "t0": "St0", "DT": "SDT", "DTc": "SDTc"}
BIN = {"+": "EAdd", "-": "ESub", "*": "EMul", "/": "EDiv"}
PBIN = {"+": "PAdd", "-": "PSub", "*": "PMul", "/": "PDiv"}


# ---------------------------------------------------------------- Coq printing
def cq(x):
    f = Fr(x)
    n = "(%d)" % f.numerator if f.numerator < 0 else "%d" % f.numerator
    return "(q %s %d)" % (n, f.denominator)


def clist(items):
    return "[" + "; ".join(items) + "]"


def cqlist(l):
    return clist([cq(v) for v in l])


def cqll(l):
    return clist([cqlist(v) for v in l])


def cbool(b):
    return "true" if b else "false"


def sym_coq(kind, i):
    if kind in SYMC:
        return "(%s %d%%nat)" % (SYMC[kind], i)
    return SYM0[kind]


def expr_coq(e):
    op = e[0]
    if op == "c":
        return "(EC %s)" % cq([e[1], e[2]])
    if op == "s":
        return "(ES %s)" % sym_coq(e[1], e[2] if len(e) > 2 else 0)
    if op in BIN:
        return "(%s %s %s)" % (BIN[op], expr_coq(e[1]), expr_coq(e[2]))
    if op == "neg":
        return "(ENeg %s)" % expr_coq(e[1])
    if op == "pow":
        return "(EPow %s %d%%nat)" % (expr_coq(e[1]), e[2])
    if op == "off":
        return "(EOff (%d)%%Z %s)" % (e[1], expr_coq(e[2]))
    raise ValueError(e)


def pexpr_coq(e):
    op = e[0]
    if op == "c":
        return "(PC %s)" % cq([e[1], e[2]])
    if op == "at0":
        return "(PAt0 %s)" % expr_coq(e[1])
    if op == "atf":
        return "(PAtf %s)" % expr_coq(e[1])
    if op == "int":
        return "(PInt %d%%nat)" % e[1]
    if op == "sum":
        return "(PSum %s)" % expr_coq(e[1])
    if op == "sump":
        return "(PSumP %s)" % expr_coq(e[1])
    if op == "intc":
        return "(PIntC %s)" % expr_coq(e[1])
    if op == "g":
        return "(PSym %s)" % sym_coq(e[1], e[2] if len(e) > 2 else 0)
    if op in PBIN:
        return "(%s %s %s)" % (PBIN[op], pexpr_coq(e[1]), pexpr_coq(e[2]))
    if op == "neg":
        return "(PNeg %s)" % pexpr_coq(e[1])
    if op == "pow":
        return "(PPow %s %d%%nat)" % (pexpr_coq(e[1]), e[2])
    raise ValueError(e)


def horizon_coq(h):
    if "fixed" in h:
        return "(HFixed %s)" % cq(h["fixed"])
    if "free" in h:
        return "(HFree %s)" % cq(h["free"])
    if "param" in h:
        return "(HParam %d%%nat)" % h["param"]
    if "var" in h:
        return "(HVar %d%%nat)" % h["var"]
    raise ValueError(h)


def grid_coq(g, inputs):
    cls = g.get("class", "Uniform")
    if cls == "Uniform":
        spec = "GUniform"
    elif cls == "Geometric":
        spec = "(GGeometric %s %s)" % (cq(inputs["growth_factor"]), cbool(g.get("local", False)))
    elif cls in ("Function", "Density"):
        spec = "(GNodes %s)" % cqlist(inputs["nodes"])
    elif cls == "Free":
        spec = "GFree"
    else:
        raise ValueError(cls)
    mn = g.get("min")
    mx = g.get("max")
    return "(mkGridOpts %s %s %s %s %s)" % (
        spec, cbool(g.get("localize_t0", False)), cbool(g.get("localize_T", False)),
        "None" if mn is None or Fr(mn) == 0 else "(Some %s)" % cq(mn),
        "None" if mx is None else "(Some %s)" % cq(mx))


def flat_scales(decls):
    out = []
    for d in decls:
        n = d.get("rows", 1) * d.get("cols", 1)
        sc = d.get("scale", 1)
        if isinstance(sc, list) and sc and isinstance(sc[0], list):
            out += [Fr(s) for s in sc]
        else:
            out += [Fr(sc)] * n
    return out


def nslots(decls):
    return sum(d.get("rows", 1) * d.get("cols", 1) for d in decls)


def model_constraints(case):
    """flatten the declared constraints into scalar relations, per grid"""
    out = {"control": [], "integrator": [], "integrator_roots": [], "point": []}
    for cid, c in enumerate(case.get("constraints", [])):
        for r in c["rels"]:
            out[c["grid"]].append((cid, r, c))
    return out


def expr_offsets(e, acc=None):
    acc = [] if acc is None else acc
    if isinstance(e, list):
        if e and e[0] == "off":
            acc.append(e[1])
        for a in e[1:]:
            expr_offsets(a, acc)
    return acc


def constr_coq(cid, r, c):
    goffs = []
    for rr in c["rels"]:
        goffs += expr_offsets(rr["lhs"]) + expr_offsets(rr["rhs"])
    for e in c.get("vb", {}).get("exprs", []):
        # components without a finite bound still belong to the vector that is placed as a whole
        goffs += expr_offsets(e)
    goffs = sorted(set(goffs))
    return "(mkConstr %d%%nat %s %s %s %s %s %s %s)" % (
        cid, "REq" if r["rel"] == "eq" else "RLe", expr_coq(r["lhs"]), expr_coq(r["rhs"]),
        cq(c.get("scale", 1)), cbool(c.get("include_first", True)), cbool(c.get("include_last", True)),
        clist(["(%d)%%Z" % n for n in goffs]))


def pconstr_coq(cid, r, c):
    return "(mkPConstr %d%%nat %s %s %s %s)" % (
        cid, "REq" if r["rel"] == "eq" else "RLe", pexpr_coq(r["lhs"]), pexpr_coq(r["rhs"]),
        cq(c.get("scale", 1)))


def case_coq(case, inputs):
    m = case["method"]
    mc = model_constraints(case)
    kind = {"MS": "MS", "SS": "SS", "DC": "DC"}[m["kind"]]
    intg = {"rk": "IRK", "expl_euler": "IEuler"}.get(m.get("intg", "rk"), "IRK")
    if case.get("discrete"):
        intg = "INext"
    meth = "(mkMethod %s %d%%nat %d%%nat %s %s %s)" % (
        kind, m["N"], m.get("M", 1), intg, grid_coq(m.get("grid", {}), inputs),
        cqlist(inputs.get("tau", [])))
    sx = flat_scales(case["states"])
    sder = [Fr(s) for s in case.get("scale_der", [1] * len(sx))]
    fields = [
        "%d%%nat" % nslots(case["states"]), "%d%%nat" % nslots(case.get("controls", [])),
        "%d%%nat" % nslots(case.get("algebraics", [])),
        clist([expr_coq(e) for e in case["ode"]]),
        clist([expr_coq(e) for e in case.get("quad", [])]),
        clist([expr_coq(e) for e in case.get("alg", [])]),
        cqlist(sx), cqlist(flat_scales(case.get("controls", []))),
        cqlist(flat_scales(case.get("algebraics", []))), cqlist(sder),
        clist([constr_coq(*t) for t in mc["control"]]),
        clist([constr_coq(*t) for t in mc["integrator"]]),
        clist([constr_coq(*t) for t in mc["integrator_roots"]]),
        clist([pconstr_coq(*t) for t in mc["point"]]),
        clist([pexpr_coq(e) for e in case.get("objective", [])]),
        horizon_coq(case.get("t0", {"fixed": 0})), horizon_coq(case.get("T", {"fixed": 1})),
        meth]
    return "(mkOcp " + "\n  ".join(fields) + ")"


def point_coq(pt):
    g = lambda k, d: pt.get(k, d)
    cqlll = lambda l: clist([cqll(v) for v in l])
    cqllll = lambda l: clist([cqlll(v) for v in l])
    return "(@mkPoint Q %s %s %s %s %s %s %s %s %s %s %s %s %s %s %s)" % (
        cqll(g("X", [])), cqll(g("U", [])), cqlist(g("V", [])), cqll(g("VC", [])), cqll(g("VP", [])),
        cqlist(g("P", [])), cqll(g("PC", [])), cqll(g("PP", [])), cq(g("T", 1)), cq(g("t0", 0)),
        cqlist(g("t0loc", [])), cqlist(g("Tloc", [])),
        cqlll(g("Xi", [])), cqllll(g("Xc", [])), cqllll(g("Zc", [])))


# ---------------------------------------------------------------- rockit building
class Built:
    """a live rockit OCP together with the slot -> MX tables of the case"""
    pass


def build_rockit(case, rockit, with_method=True, with_values=True, with_solver=True, factory=None):
    """factory(**horizon kwargs) creates the stage to populate (default: a new Ocp; C12 passes
    master.stage or rockit.Stage)"""
    import casadi as ca
    ocp_cls = factory or rockit.Ocp
    B = Built()

    def hor(h):
        if "fixed" in h:
            return float(Fr(h["fixed"]))
        if "free" in h:
            return rockit.FreeTime(float(Fr(h["free"])))
        return None  # param / var: set later

    t0h = case.get("t0", {"fixed": 0})
    Th = case.get("T", {"fixed": 1})
    kw = {}
    if hor(t0h) is not None:
        kw["t0"] = hor(t0h)
    if hor(Th) is not None:
        kw["T"] = hor(Th)
    ocp = ocp_cls(**kw)
    B.ocp = ocp
    B.master = ocp if factory is None else getattr(ocp, "master", None)
    S = {k: [] for k in SYMC}
    B.objs = {k: [] for k in ("x", "u", "z", "q", "p", "v")}

    def scale_arg(d):
        sc = d.get("scale", 1)
        if isinstance(sc, list) and sc and isinstance(sc[0], list):
            r, c = d.get("rows", 1), d.get("cols", 1)
            return ca.DM([float(Fr(s)) for s in sc]).reshape((r, c))
        return float(Fr(sc))

    def slots(obj):
        if obj.numel() == 1:
            return [obj]
        return [obj[i] for i in range(obj.numel())]  # column-major linear indexing

    for d in case["states"]:
        x = ocp.state(d.get("rows", 1), d.get("cols", 1), scale=scale_arg(d))
        B.objs["x"].append(x)
        S["x"] += slots(x)
    nq_explicit = case.get("n_explicit_quad", 0)
    for i in range(nq_explicit):
        qs = ocp.state(quad=True)
        B.objs["q"].append(qs)
        S["q"].append(qs)
    for d in case.get("controls", []):
        u = ocp.control(d.get("rows", 1), d.get("cols", 1), scale=scale_arg(d))
        B.objs["u"].append(u)
        S["u"] += slots(u)
    for d in case.get("algebraics", []):
        z = ocp.algebraic(d.get("rows", 1), d.get("cols", 1), scale=scale_arg(d))
        B.objs["z"].append(z)
        S["z"] += slots(z)
    B.pdecl = []
    for d in case.get("params", []):
        g = d.get("grid", "")
        if case.get("register_list"):
            # declaration through the list form of the registration API (user-made symbols)
            p = ca.MX.sym("pl%d" % len(B.pdecl), d.get("rows", 1), d.get("cols", 1))
            ocp.register_parameter([p], grid="control" if g else "", include_last=(g == "control+"))
        else:
            p = ocp.parameter(d.get("rows", 1), d.get("cols", 1), grid="control" if g else "",
                              include_last=(g == "control+"))
        B.objs["p"].append(p)
        B.pdecl.append((g, p, d))
        S[{"": "p", "control": "pc", "control+": "pp"}[g]] += slots(p)
    B.vdecl = []
    for d in case.get("vars", []):
        g = d.get("grid", "")
        if case.get("register_list"):
            v = ca.MX.sym("vl%d" % len(B.vdecl), d.get("rows", 1), d.get("cols", 1))
            ocp.register_variable([v], grid="control" if g else "", include_last=(g == "control+"), scale=scale_arg(d))
        else:
            v = ocp.variable(d.get("rows", 1), d.get("cols", 1), grid="control" if g else "",
                             include_last=(g == "control+"), scale=scale_arg(d))
        B.objs["v"].append(v)
        B.vdecl.append((g, v, d))
        S[{"": "v", "control": "vc", "control+": "vp"}[g]] += slots(v)
    if "param" in t0h:
        ocp.set_t0(S["p"][t0h["param"]])
    if "var" in t0h:
        ocp.set_t0(S["v"][t0h["var"]])
    if "param" in Th:
        ocp.set_T(S["p"][Th["param"]])
    if "var" in Th:
        ocp.set_T(S["v"][Th["var"]])
    B.S = S

    def ex(e, st=None):
        # st: evaluate on another stage that shares the symbols (a clone of this one)
        o = st or ocp
        op = e[0]
        if op == "c":
            return ca.MX(float(Fraction(e[1], e[2])))
        if op == "s":
            k = e[1]
            if k in S:
                return S[k][e[2]]
            return {"t": o.t, "T": o.T, "t0": o.t0, "DT": o.DT, "DTc": o.DT_control}[k]
        if op == "+":
            return ex(e[1], st) + ex(e[2], st)
        if op == "-":
            return ex(e[1], st) - ex(e[2], st)
        if op == "*":
            return ex(e[1], st) * ex(e[2], st)
        if op == "/":
            return ex(e[1], st) / ex(e[2], st)
        if op == "neg":
            return -ex(e[1], st)
        if op == "pow":
            return ex(e[1], st) ** e[2]
        if op == "off":
            n = e[1]
            if n == 1 and e[3:] == ["next"]:
                return o.next(ex(e[2], st))
            if n == -1 and e[3:] == ["prev"]:
                return o.prev(ex(e[2], st))
            return o.offset(ex(e[2], st), n)
        raise ValueError(e)

    B.ex = ex
    B.integrals = {}

    def pex(e, st=None):
        o = st or ocp
        op = e[0]
        if op == "c":
            return ca.MX(float(Fraction(e[1], e[2])))
        if op == "at0":
            return o.at_t0(ex(e[1], st))
        if op == "atf":
            return o.at_tf(ex(e[1], st))
        if op == "int":
            i = e[1]
            if i < nq_explicit:
                return o.at_tf(S["q"][i])
            if st is not None:
                return st.integral(ex(case["quad"][i], st))
            if i not in B.integrals:
                B.integrals[i] = o.integral(ex(case["quad"][i]))
            return B.integrals[i]
        if op == "sum":
            return o.sum(ex(e[1], st))
        if op == "sump":
            return o.sum(ex(e[1], st), include_last=True)
        if op == "intc":
            return o.integral(ex(e[1], st), grid="control")
        if op == "g":
            k = e[1]
            if k in S:
                return S[k][e[2]]
            if k == "tf":
                return o.tf
            return {"T": o.T, "t0": o.t0}[k]
        if op == "+":
            return pex(e[1], st) + pex(e[2], st)
        if op == "-":
            return pex(e[1], st) - pex(e[2], st)
        if op == "*":
            return pex(e[1], st) * pex(e[2], st)
        if op == "/":
            return pex(e[1], st) / pex(e[2], st)
        if op == "neg":
            return -pex(e[1], st)
        if op == "pow":
            return pex(e[1], st) ** e[2]
        raise ValueError(e)

    B.pex = pex

    # dynamics
    off = 0
    sder = case.get("scale_der")
    for xi, d in zip(B.objs["x"], case["states"]):
        n = xi.numel()
        rhs = ca.vertcat(*[ex(e) for e in case["ode"][off:off + n]])
        rhs = ca.reshape(rhs, xi.shape[0], xi.shape[1])
        if case.get("discrete"):
            ocp.set_next(xi, rhs)
        elif sder is not None:
            sd = [float(Fr(s)) for s in sder[off:off + n]]
            if len(set(sd)) == 1:
                ocp.set_der(xi, rhs, scale=sd[0])
            else:
                ocp.set_der(xi, rhs, scale=ca.DM(sd).reshape(xi.shape))
        else:
            ocp.set_der(xi, rhs)
        off += n
    for i in range(nq_explicit):
        if case.get("discrete"):
            ocp.set_next(S["q"][i], ex(case["quad"][i]))
        else:
            ocp.set_der(S["q"][i], ex(case["quad"][i]))
    for e in case.get("alg", []):
        ocp.add_alg(ex(e))

    # the integrals of the case are created in slot order so that the model's
    # quadrature slots line up with rockit's (any order would be equivalent)
    used = set()

    def scan(e):
        if isinstance(e, list):
            if e and e[0] == "int":
                used.add(e[1])
            for a in e[1:]:
                scan(a)
    for t in case.get("objective", []):
        scan(t)
    for c in case.get("constraints", []):
        if c["grid"] == "point":
            for r in c["rels"]:
                scan(r["lhs"]); scan(r["rhs"])
    for i in sorted(used):
        pex(["int", i])

    # constraints
    for c in case.get("constraints", []):
        pt = c["grid"] == "point"
        f = pex if pt else ex
        kw = {}
        if not pt:
            kw["grid"] = c["grid"]
            kw["include_first"] = c.get("include_first", True)
            kw["include_last"] = c.get("include_last", True)
        if Fr(c.get("scale", 1)) != 1:
            kw["scale"] = float(Fr(c["scale"]))
        expr = constraint_expr(c, f)
        ocp.subject_to(expr, **kw)

    for t in case.get("objective", []):
        ocp.add_objective(pex(t))

    # explicit guesses for a free horizon (C11): set_initial(ocp.T, v) / set_initial(ocp.t0, v)
    for nm, v in (case.get("horizon_guess") or {}).items():
        ocp.set_initial(ocp.T if nm == "T" else ocp.t0, float(Fr(v)))
    if with_values:
        apply_param_values(B, case)
    if with_method:
        ocp.method(make_method(case["method"], rockit, case))
    if with_solver:
        ocp.solver("ipopt", {"ipopt.print_level": 0, "print_time": False, "ipopt.sb": "yes"})
    return B


def constraint_expr(c, f):
    """the CasADi relation of a declared constraint; f builds the operands (ex / pex of a stage)"""
    import casadi as ca
    form = c.get("form", "vec")
    rels = c["rels"]
    if form == "between":
        # rels = [lo <= e, e <= hi]
        mid = f(rels[0]["rhs"])
        if mid.is_constant():
            # lo <= (const <= hi) is evaluated by CasADi as a nested comparison before rockit
            # sees it: the generated relation carries no information (skipped by compare_case)
            raise ValueError("You passed a constant middle expression (generated two-sided relation folded by CasADi)")
        return f(rels[0]["lhs"]) <= (mid <= f(rels[1]["rhs"]))
    if form == "between_vec":
        # vector-valued two-sided bound with infinite entries; rels lists the finite sides only
        vb = c["vb"]
        inf = float("inf")
        lo = ca.DM([-inf if v is None else float(Fr(v)) for v in vb["lo"]])
        hi = ca.DM([inf if v is None else float(Fr(v)) for v in vb["hi"]])
        mid = ca.vertcat(*[f(e) for e in vb["exprs"]])
        return lo <= (mid <= hi)
    if form == "ge":
        # rels = [rhs <= lhs] written as lhs' >= rhs'
        return ca.vertcat(*[f(r["rhs"]) for r in rels]) >= ca.vertcat(*[f(r["lhs"]) for r in rels])
    L = ca.vertcat(*[f(r["lhs"]) for r in rels])
    R = ca.vertcat(*[f(r["rhs"]) for r in rels])
    return (L == R) if rels[0]["rel"] == "eq" else (L <= R)


def apply_param_values(B, case):
    import casadi as ca
    pv = case.get("param_values", {})
    N = case["method"]["N"]
    offs = {"": 0, "control": 0, "control+": 0}
    cat = {}      # rows -> [(symbol, value)]: global parameters set in one go through a simple concatenation
    for g, p, d in B.pdecl:
        n = p.numel()
        o = offs[g]
        if g == "":
            vals = pv.get("p", [])[o:o + n]
            if len(vals) == n:
                val = ca.DM([float(Fr(v)) for v in vals]).reshape(p.shape)
                if case.get("param_cat"):
                    cat.setdefault(p.shape[0], []).append((p, val))
                else:
                    B.ocp.set_value(p, val)
        else:
            cols = pv.get("pc" if g == "control" else "pp", [])
            if cols and len(cols[0]) >= o + n:
                if p.shape[1] == 1:
                    mat = ca.DM([[float(Fr(col[o + r])) for col in cols] for r in range(n)])
                else:
                    mat = ca.hcat([ca.DM([float(Fr(v)) for v in col[o:o + n]]).reshape(p.shape) for col in cols])
                B.ocp.set_value(p, mat)
        offs[g] += n
    for rows, grp in cat.items():
        if len(grp) == 1:
            B.ocp.set_value(grp[0][0], grp[0][1])
        else:
            B.ocp.set_value(ca.horzcat(*[p for p, v in grp]), ca.horzcat(*[v for p, v in grp]))


class NodesFn:
    """normalized grid nodes as a picklable callable (Ocp.save pickles the method's time grid)"""
    def __init__(self, nodes):
        self.nodes = list(nodes)

    def __call__(self, N):
        return list(self.nodes)


def make_grid(g, rockit, case=None):
    cls = g.get("class", "Uniform")
    kw = {}
    if g.get("min") is not None:
        kw["min"] = float(Fr(g["min"]))
    if g.get("max") is not None:
        kw["max"] = float(Fr(g["max"]))
    if cls != "Free":
        if g.get("localize_t0"):
            kw["localize_t0"] = True
        if g.get("localize_T"):
            kw["localize_T"] = True
    else:
        if g.get("localize_t0"):
            kw["localize_t0"] = True
    if cls == "Uniform":
        return rockit.UniformGrid(**kw)
    if cls == "Geometric":
        return rockit.GeometricGrid(float(Fr(g["growth"])), local=g.get("local", False), **kw)
    if cls == "Free":
        return rockit.FreeGrid(**kw)
    if cls == "Function":
        nodes = [float(Fr(v)) for v in g["nodes"]]
        from rockit.sampling_method import FunctionGrid
        return FunctionGrid(NodesFn(nodes), **kw)
    if cls == "Density":
        import casadi as ca
        from rockit.sampling_method import DensityGrid
        t = ca.MX.sym("tau")
        a, b = float(Fr(g["dens"][0])), float(Fr(g["dens"][1]))
        return DensityGrid(a + b * t, **kw)
    raise ValueError(cls)


def make_method(m, rockit, case=None):
    kw = {"N": m["N"], "M": m.get("M", 1)}
    if "grid" in m and m["grid"]:
        kw["grid"] = make_grid(m["grid"], rockit, case)
    k = m["kind"]
    if k == "MS":
        return rockit.MultipleShooting(intg=m.get("intg", "rk"), **kw)
    if k == "SS":
        return rockit.SingleShooting(intg=m.get("intg", "rk"), **kw)
    if k == "DC":
        return rockit.DirectCollocation(degree=m.get("degree", 4), scheme=m.get("scheme", "radau"), **kw)
    if k == "Spline":
        return rockit.SplineMethod(**kw)
    raise ValueError(k)
