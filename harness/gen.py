"""Random structured case generation.  Every random choice derives from one
random.Random instance, so a (seed, index) pair replays exactly."""
from fractions import Fraction
from .common import dyadic, dyadic_nz, jq, Fr

C = lambda v: ["c", Fr(v).numerator, Fr(v).denominator]


def mono(rng, syms, deg):
    """coef * product of `deg` symbols"""
    e = C(dyadic_nz(rng, -2, 2, 2))
    for _ in range(deg):
        e = ["*", e, rng.choice(syms)]
    return e


def rand_poly(rng, syms, maxdeg=2, nterms=None, const=True):
    nterms = nterms or rng.randint(1, 3)
    terms = []
    if const and rng.random() < 0.5:
        terms.append(C(dyadic(rng, -2, 2, 2)))
    for _ in range(nterms):
        d = rng.randint(1, maxdeg)
        if syms:
            terms.append(mono(rng, syms, d))
    if not terms:
        terms = [C(dyadic_nz(rng))]
    e = terms[0]
    for t in terms[1:]:
        e = [rng.choice(["+", "-"]), e, t]
    if rng.random() < 0.15 and maxdeg >= 2 and syms:
        e = ["+", e, ["pow", rng.choice(syms), 2]]
    if rng.random() < 0.1:
        e = ["neg", e]
    if rng.random() < 0.1:
        e = ["/", e, C(rng.choice([2, 4, Fraction(1, 2)]))]
    return e


def sym_list(case, kinds):
    from .cases import nslots
    out = []
    cnt = {"x": nslots(case["states"]), "u": nslots(case.get("controls", [])),
           "z": nslots(case.get("algebraics", [])),
           "p": nslots([d for d in case.get("params", []) if d.get("grid", "") == ""]),
           "pc": nslots([d for d in case.get("params", []) if d.get("grid", "") == "control"]),
           "pp": nslots([d for d in case.get("params", []) if d.get("grid", "") == "control+"]),
           "v": nslots([d for d in case.get("vars", []) if d.get("grid", "") == ""]),
           "vc": nslots([d for d in case.get("vars", []) if d.get("grid", "") == "control"]),
           "vp": nslots([d for d in case.get("vars", []) if d.get("grid", "") == "control+"]),
           "q": len(case.get("quad", []))}
    for k in kinds:
        if k in cnt:
            out += [["s", k, i] for i in range(cnt[k])]
        else:
            out.append(["s", k])
    return out


def gen_shapes(rng, nmax=3):
    """list of declarations whose slots sum to <= nmax"""
    decls = []
    left = rng.randint(1, nmax)
    while left > 0:
        r = rng.choice([1, 1, 2, 3])
        c = 1
        if r == 2 and rng.random() < 0.2 and left >= 4:
            c = 2
        n = r * c
        if n > left:
            r, c, n = left, 1, left
        decls.append({"rows": r, "cols": c})
        left -= n
    return decls


def gen_grid(rng, N, classes=("Uniform", "Geometric", "Function")):
    cls = rng.choice(classes)
    g = {"class": cls}
    if cls == "Geometric":
        g["growth"] = jq(rng.choice([Fraction(3, 2), 2, 3, Fraction(5, 4), 1]))
        g["local"] = rng.random() < 0.5
    if cls == "Function":
        # strictly increasing dyadic nodes from 0 to 1
        pts = sorted(rng.sample(range(1, 32), N - 1)) if N > 1 else []
        g["nodes"] = [jq(0)] + [jq(Fraction(p, 32)) for p in pts] + [jq(1)]
    return g


def gen_base(rng, opts):
    """an OCP with dynamics only (no constraints/objective)"""
    case = {}
    case["states"] = gen_shapes(rng, opts.get("nx_max", 3))
    case["controls"] = gen_shapes(rng, opts.get("nu_max", 2)) if rng.random() < 0.85 else []
    case["algebraics"] = []
    params, vars_ = [], []
    for g in ("", "control", "control+"):
        if rng.random() < opts.get("p_param", 0.4):
            params.append({"rows": rng.choice([1, 1, 2]), "cols": 1, "grid": g})
        if rng.random() < opts.get("p_var", 0.35):
            vars_.append({"rows": rng.choice([1, 1, 2]), "cols": 1, "grid": g})
    case["params"] = params
    case["vars"] = vars_
    N = rng.randint(opts.get("N_min", 1), opts.get("N_max", 4))
    M = rng.randint(1, opts.get("M_max", 3))
    kind = rng.choice(opts.get("methods", ["MS", "SS"]))
    intg = rng.choice(opts.get("intgs", ["rk", "expl_euler", "next"]))
    discrete = intg == "next"
    case["discrete"] = discrete
    meth = {"kind": kind, "N": N, "M": M, "intg": "rk" if discrete else intg,
            "grid": gen_grid(rng, N, opts.get("grids", ("Uniform", "Geometric", "Function")))}
    case["method"] = meth
    # horizon
    case["t0"] = {"fixed": jq(dyadic(rng, -1, 2, 1))}
    case["T"] = {"fixed": jq(rng.choice([1, 2, Fraction(3, 2), 3, Fraction(1, 2)]))}
    r = rng.random()
    if r < opts.get("p_freeT", 0.25):
        case["T"] = {"free": jq(rng.choice([1, 2, Fraction(3, 2)]))}
    elif r < opts.get("p_freeT", 0.25) + opts.get("p_paramT", 0.15):
        # horizon given by a (new) global scalar parameter
        gp = [d for d in params if d["grid"] == ""]
        slot = sum(d["rows"] * d["cols"] for d in gp)
        params.insert(len(gp), {"rows": 1, "cols": 1, "grid": ""})
        # keep global params first in declaration order for slot arithmetic
        case["params"] = [d for d in params if d["grid"] == ""] + [d for d in params if d["grid"] != ""]
        case["T"] = {"param": slot}
    if rng.random() < opts.get("p_freet0", 0.15):
        case["t0"] = {"free": jq(dyadic(rng, -1, 1, 1))}
    # dynamics
    kinds = ["x", "u", "p", "pc", "pp", "v", "vc", "vp", "t"]
    if discrete:
        kinds += ["DT", "DTc"]
    syms = sym_list(case, kinds)
    from .cases import nslots
    nx = nslots(case["states"])
    maxdeg = opts.get("maxdeg", 2)
    if M >= 3 and intg == "rk":
        maxdeg = min(maxdeg, 2)
    case["ode"] = [rand_poly(rng, syms, maxdeg) for _ in range(nx)]
    case["quad"] = []
    case["n_explicit_quad"] = 0
    if rng.random() < opts.get("p_quad", 0.4):
        case["n_explicit_quad"] = 1
        case["quad"].append(rand_poly(rng, syms, maxdeg))
    # parameter values
    pv = {"p": [], "pc": [], "pp": []}
    npg = nslots([d for d in case["params"] if d["grid"] == ""])
    npc = nslots([d for d in case["params"] if d["grid"] == "control"])
    npp = nslots([d for d in case["params"] if d["grid"] == "control+"])
    pv["p"] = [jq(dyadic(rng, -2, 2, 2)) for _ in range(npg)]
    if "param" in case["T"]:
        pv["p"][case["T"]["param"]] = jq(rng.choice([1, 2, Fraction(3, 2), Fraction(5, 2)]))
    pv["pc"] = [[jq(dyadic(rng, -2, 2, 2)) for _ in range(npc)] for _ in range(N)] if npc else []
    pv["pp"] = [[jq(dyadic(rng, -2, 2, 2)) for _ in range(npp)] for _ in range(N + 1)] if npp else []
    case["param_values"] = pv
    case["constraints"] = []
    case["objective"] = []
    return case


def gen_point(rng, case):
    """a semantic decision point for `case` (exact dyadic rationals)"""
    from .cases import nslots
    m = case["method"]
    N, M = m["N"], m.get("M", 1)
    nx = nslots(case["states"])
    nu = nslots(case.get("controls", []))
    nvg = nslots([d for d in case.get("vars", []) if d.get("grid", "") == ""])
    nvc = nslots([d for d in case.get("vars", []) if d.get("grid", "") == "control"])
    nvp = nslots([d for d in case.get("vars", []) if d.get("grid", "") == "control+"])
    d = lambda: jq(dyadic(rng, -2, 2, 3))
    pt = {}
    ncol = 1 if m["kind"] == "SS" else N + 1
    pt["X"] = [[d() for _ in range(nx)] for _ in range(ncol)]
    pt["U"] = [[d() for _ in range(nu)] for _ in range(N)] if nu else []
    pt["V"] = [d() for _ in range(nvg)]
    pt["VC"] = [[d() for _ in range(nvc)] for _ in range(N)] if nvc else []
    pt["VP"] = [[d() for _ in range(nvp)] for _ in range(N + 1)] if nvp else []
    pv = case.get("param_values", {})
    pt["P"] = pv.get("p", [])
    pt["PC"] = pv.get("pc", [])
    pt["PP"] = pv.get("pp", [])
    Th, t0h = case.get("T", {"fixed": 1}), case.get("t0", {"fixed": 0})
    if "fixed" in Th:
        pt["T"] = Th["fixed"]
    elif "free" in Th:
        pt["T"] = jq(rng.choice([Fraction(1, 2), 1, Fraction(5, 4), 2, Fraction(7, 4)]))
    elif "param" in Th:
        pt["T"] = pt["P"][Th["param"]]
    elif "var" in Th:
        pt["V"][Th["var"]] = jq(rng.choice([Fraction(1, 2), 1, Fraction(5, 4), 2]))
        pt["T"] = pt["V"][Th["var"]]
    if "fixed" in t0h:
        pt["t0"] = t0h["fixed"]
    elif "free" in t0h:
        pt["t0"] = jq(dyadic(rng, -1, 1, 2))
    elif "param" in t0h:
        pt["t0"] = pt["P"][t0h["param"]]
    elif "var" in t0h:
        pt["t0"] = pt["V"][t0h["var"]]
    g = m.get("grid") or {}
    T, t0 = Fr(pt["T"]), Fr(pt["t0"])
    if g.get("localize_t0") or g.get("localize_T") or g.get("class") == "Free":
        # random positive interval lengths (not required to sum to T)
        lens = [Fraction(rng.randint(2, 12), 8) for _ in range(N)]
        if g.get("localize_t0"):
            acc, tl = t0, []
            for L in lens:
                acc += L
                tl.append(jq(acc))
            pt["t0loc"] = tl
        else:
            pt["Tloc"] = [jq(L) for L in (lens if g.get("class") == "Free" else lens[1:])]
    return pt
