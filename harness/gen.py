"""Random structured case generation.  Every random choice derives from one
random.Random instance, so a (seed, index) pair replays exactly."""
from fractions import Fraction
from .common import dyadic, dyadic_nz, jq, Fr

C = lambda v: ["c", Fr(v).numerator, Fr(v).denominator]


def mono(rng, syms, deg):
    """coef * product of `deg` symbols"""
    e = C(dyadic_nz(rng, -2, 2, 2))
    for _ in range(deg):
        e = ["*", e, rng.choice(syms)]
    return e


def rand_poly(rng, syms, maxdeg=2, nterms=None, const=True):
    nterms = nterms or rng.randint(1, 3)
    terms = []
    if const and rng.random() < 0.5:
        terms.append(C(dyadic(rng, -2, 2, 2)))
    for _ in range(nterms):
        d = rng.randint(1, maxdeg)
        if syms:
            terms.append(mono(rng, syms, d))
    if not terms:
        terms = [C(dyadic_nz(rng))]
    e = terms[0]
    for t in terms[1:]:
        e = [rng.choice(["+", "-"]), e, t]
    if rng.random() < 0.15 and maxdeg >= 2 and syms:
        e = ["+", e, ["pow", rng.choice(syms), 2]]
    if rng.random() < 0.1:
        e = ["neg", e]
    if rng.random() < 0.1:
        e = ["/", e, C(rng.choice([2, 4, Fraction(1, 2)]))]
    return e


def sym_list(case, kinds):
    from .cases import nslots
    out = []
    cnt = {"x": nslots(case["states"]), "u": nslots(case.get("controls", [])),
           "z": nslots(case.get("algebraics", [])),
           "p": nslots([d for d in case.get("params", []) if d.get("grid", "") == ""]),
           "pc": nslots([d for d in case.get("params", []) if d.get("grid", "") == "control"]),
           "pp": nslots([d for d in case.get("params", []) if d.get("grid", "") == "control+"]),
           "v": nslots([d for d in case.get("vars", []) if d.get("grid", "") == ""]),
           "vc": nslots([d for d in case.get("vars", []) if d.get("grid", "") == "control"]),
           "vp": nslots([d for d in case.get("vars", []) if d.get("grid", "") == "control+"]),
           "q": len(case.get("quad", []))}
    for k in kinds:
        if k in cnt:
            out += [["s", k, i] for i in range(cnt[k])]
        elif k == "t0" and "fixed" in case.get("t0", {"fixed": 0}) and Fr(case.get("t0", {"fixed": 0})["fixed"]) == 0:
            continue   # a numeric zero would let CasADi fold products to constants
        else:
            out.append(["s", k])
    return out


def gen_shapes(rng, nmax=3):
    """list of declarations whose slots sum to <= nmax"""
    decls = []
    left = rng.randint(1, nmax)
    while left > 0:
        r = rng.choice([1, 1, 2, 3])
        c = 1
        if left >= 4 and rng.random() < 0.4:
            r, c = 2, 2      # matrix-valued symbol (2 x 2)
        n = r * c
        if n > left:
            r, c, n = left, 1, left
        decls.append({"rows": r, "cols": c})
        left -= n
    return decls


def gen_grid(rng, N, classes=("Uniform", "Geometric", "Function"), opts=None):
    opts = opts or {}
    cls = rng.choice(classes)
    g = {"class": cls}
    if rng.random() < opts.get("p_localize", 0.0):
        if cls in ("Uniform", "Geometric"):
            g["localize_T"] = rng.random() < 0.6
        g["localize_t0"] = rng.random() < 0.5 or not g.get("localize_T", False)
    if rng.random() < opts.get("p_minmax", 0.0):
        if rng.random() < 0.7:
            g["min"] = jq(rng.choice([Fraction(1, 8), Fraction(1, 4), Fraction(1, 16)]))
        if rng.random() < 0.7:
            g["max"] = jq(rng.choice([1, 2, 4, Fraction(3, 2)]))
    if cls == "Density":
        g["dens"] = [jq(rng.choice([1, 2, Fraction(1, 2)])), jq(rng.choice([1, 2, 3]))]
    if cls == "Geometric":
        g["growth"] = jq(rng.choice([Fraction(3, 2), 2, 3, Fraction(5, 4), 1]))
        g["local"] = rng.random() < 0.5
    if cls == "Function":
        # strictly increasing dyadic nodes from 0 to 1
        pts = sorted(rng.sample(range(1, 32), N - 1)) if N > 1 else []
        g["nodes"] = [jq(0)] + [jq(Fraction(p, 32)) for p in pts] + [jq(1)]
    return g


def gen_base(rng, opts):
    """an OCP with dynamics only (no constraints/objective)"""
    case = {}
    case["states"] = gen_shapes(rng, opts.get("nx_max", 4))
    case["controls"] = gen_shapes(rng, opts.get("nu_max", 2)) if rng.random() < 0.85 else []
    case["algebraics"] = []
    params, vars_ = [], []
    kind0 = None
    for g in ("", "control", "control+"):
        if rng.random() < opts.get("p_param", 0.4):
            params.append({"rows": rng.choice([1, 1, 2]), "cols": 1, "grid": g})
        if rng.random() < opts.get("p_var", 0.35):
            vars_.append({"rows": rng.choice([1, 1, 2]), "cols": 1, "grid": g})
        if g == "":
            # sometimes a second global parameter / variable (concatenations of symbols in set_value,
            # set_initial and to_function arguments need two of them)
            if params and rng.random() < opts.get("p_param2", 0.3):
                params.append({"rows": rng.choice([1, 2]), "cols": 1, "grid": ""})
            if vars_ and rng.random() < opts.get("p_var2", 0.25):
                vars_.append({"rows": rng.choice([1, 2]), "cols": 1, "grid": ""})
            # matrix-valued global parameter (only when asked for: the random stream of other checks is untouched)
            if opts.get("p_param_mat") and rng.random() < opts["p_param_mat"]:
                params.append({"rows": rng.choice([1, 2]), "cols": 2, "grid": ""})
    # declaration order is not tied to the grid kind (rockit keeps one table per kind)
    rng.shuffle(params)
    rng.shuffle(vars_)
    case["params"] = params
    case["vars"] = vars_
    N = rng.randint(opts.get("N_min", 1), opts.get("N_max", 4))
    M = rng.randint(1, opts.get("M_max", 3))
    kind = rng.choice(opts.get("methods", ["MS", "SS"]))
    intg = rng.choice(opts.get("intgs", ["rk", "expl_euler", "next"]))
    if kind == "DC":
        intg = "rk"
        M = rng.randint(1, min(opts.get("M_max", 3), 3))
        if rng.random() < opts.get("p_dae", 0.35):
            case["algebraics"] = gen_shapes(rng, 2)
    discrete = intg == "next"
    case["discrete"] = discrete
    meth = {"kind": kind, "N": N, "M": M, "intg": "rk" if discrete else intg,
            "degree": rng.randint(1, opts.get("deg_max", 4)), "scheme": rng.choice(["radau", "legendre"]),
            "grid": gen_grid(rng, N, opts.get("grids", ("Uniform", "Geometric", "Function")), opts)}
    case["method"] = meth
    # horizon
    case["t0"] = {"fixed": jq(dyadic(rng, -1, 2, 1))}
    case["T"] = {"fixed": jq(rng.choice([1, 2, Fraction(3, 2), 3, Fraction(1, 2)]))}
    r = rng.random()
    if r < opts.get("p_freeT", 0.25):
        case["T"] = {"free": jq(rng.choice([1, 2, Fraction(3, 2)]))}
    elif r < opts.get("p_freeT", 0.25) + opts.get("p_paramT", 0.15):
        # horizon given by a (new) global scalar parameter
        gp = [d for d in params if d["grid"] == ""]
        slot = sum(d["rows"] * d["cols"] for d in gp)
        params.insert(len(gp), {"rows": 1, "cols": 1, "grid": ""})
        # keep global params first in declaration order for slot arithmetic
        case["params"] = [d for d in params if d["grid"] == ""] + [d for d in params if d["grid"] != ""]
        case["T"] = {"param": slot}
    if rng.random() < opts.get("p_freet0", 0.15):
        case["t0"] = {"free": jq(dyadic(rng, -1, 1, 1))}
    # dynamics
    kinds = ["x", "u", "p", "pc", "pp", "v", "vc", "vp", "t"]
    if case["algebraics"]:
        kinds += ["z"]
    if discrete:
        kinds += ["DT", "DTc"]
    syms = sym_list(case, kinds)
    from .cases import nslots
    nx = nslots(case["states"])
    maxdeg = opts.get("maxdeg", 2)
    if M >= 3 and intg == "rk":
        maxdeg = min(maxdeg, 2)
    case["ode"] = [rand_poly(rng, syms, maxdeg) for _ in range(nx)]
    nz = nslots(case["algebraics"])
    # index-1 algebraic equations  z_i - g_i(x, u, p, t) = 0
    case["alg"] = [["-", ["s", "z", i], rand_poly(rng, [s_ for s_ in syms if s_[1] != "z"], 2)] for i in range(nz)]
    case["quad"] = []
    case["n_explicit_quad"] = 0
    if rng.random() < opts.get("p_quad", 0.4):
        case["n_explicit_quad"] = 1
        case["quad"].append(rand_poly(rng, syms, maxdeg))
    # scale= arguments
    if rng.random() < opts.get("p_scale", 0.0):
        svals = [2, 4, Fraction(1, 2), 8, 10, Fraction(1, 4), 3]
        for key in ("states", "controls", "algebraics", "vars"):
            for dd in case.get(key, []):
                if rng.random() < 0.6:
                    n = dd["rows"] * dd["cols"]
                    if n > 1 and rng.random() < 0.5:
                        dd["scale"] = [jq(rng.choice(svals)) for _ in range(n)]   # element-wise
                    else:
                        dd["scale"] = jq(rng.choice(svals))
        if not discrete and rng.random() < 0.5:
            # set_der(..., scale=) : one value per declared state (element-wise values need equal sizes)
            sd = []
            for dd in case["states"]:
                v = rng.choice(svals)
                sd += [jq(v)] * (dd["rows"] * dd["cols"])
            case["scale_der"] = sd
    # parameter values
    pv = {"p": [], "pc": [], "pp": []}
    npg = nslots([d for d in case["params"] if d["grid"] == ""])
    npc = nslots([d for d in case["params"] if d["grid"] == "control"])
    npp = nslots([d for d in case["params"] if d["grid"] == "control+"])
    pv["p"] = [jq(dyadic(rng, -2, 2, 2)) for _ in range(npg)]
    if "param" in case["T"]:
        pv["p"][case["T"]["param"]] = jq(rng.choice([1, 2, Fraction(3, 2), Fraction(5, 2)]))
    pv["pc"] = [[jq(dyadic(rng, -2, 2, 2)) for _ in range(npc)] for _ in range(N)]
    pv["pp"] = [[jq(dyadic(rng, -2, 2, 2)) for _ in range(npp)] for _ in range(N + 1)]
    case["param_values"] = pv
    case["constraints"] = []
    case["objective"] = []
    return case


def gen_point(rng, case):
    """a semantic decision point for `case` (exact dyadic rationals)"""
    from .cases import nslots
    m = case["method"]
    N, M = m["N"], m.get("M", 1)
    nx = nslots(case["states"])
    nu = nslots(case.get("controls", []))
    nvg = nslots([d for d in case.get("vars", []) if d.get("grid", "") == ""])
    nvc = nslots([d for d in case.get("vars", []) if d.get("grid", "") == "control"])
    nvp = nslots([d for d in case.get("vars", []) if d.get("grid", "") == "control+"])
    d = lambda: jq(dyadic(rng, -2, 2, 3))
    pt = {}
    ncol = 1 if m["kind"] == "SS" else N + 1
    pt["X"] = [[d() for _ in range(nx)] for _ in range(ncol)]
    pt["U"] = [[d() for _ in range(nu)] for _ in range(N)]
    pt["V"] = [d() for _ in range(nvg)]
    pt["VC"] = [[d() for _ in range(nvc)] for _ in range(N)]
    pt["VP"] = [[d() for _ in range(nvp)] for _ in range(N + 1)]
    pv = case.get("param_values", {})
    pt["P"] = pv.get("p", [])
    pt["PC"] = pv.get("pc") or [[] for _ in range(N)]
    pt["PP"] = pv.get("pp") or [[] for _ in range(N + 1)]
    Th, t0h = case.get("T", {"fixed": 1}), case.get("t0", {"fixed": 0})
    if "fixed" in Th:
        pt["T"] = Th["fixed"]
    elif "free" in Th:
        pt["T"] = jq(rng.choice([Fraction(1, 2), 1, Fraction(5, 4), 2, Fraction(7, 4)]))
    elif "param" in Th:
        pt["T"] = pt["P"][Th["param"]]
    elif "var" in Th:
        pt["V"][Th["var"]] = jq(rng.choice([Fraction(1, 2), 1, Fraction(5, 4), 2]))
        pt["T"] = pt["V"][Th["var"]]
    if "fixed" in t0h:
        pt["t0"] = t0h["fixed"]
    elif "free" in t0h:
        pt["t0"] = jq(dyadic(rng, -1, 1, 2))
    elif "param" in t0h:
        pt["t0"] = pt["P"][t0h["param"]]
    elif "var" in t0h:
        pt["t0"] = pt["V"][t0h["var"]]
    if m["kind"] == "DC":
        deg = m.get("degree", 4)
        nz = nslots(case.get("algebraics", []))
        pt["Xi"] = [[[d() for _ in range(nx)] for _ in range(M - 1)] for _ in range(N)]
        pt["Xc"] = [[[[d() for _ in range(nx)] for _ in range(deg)] for _ in range(M)] for _ in range(N)]
        pt["Zc"] = [[[[d() for _ in range(nz)] for _ in range(deg)] for _ in range(M)] for _ in range(N)]
    g = m.get("grid") or {}
    T, t0 = Fr(pt["T"]), Fr(pt["t0"])
    if g.get("localize_t0") or g.get("localize_T") or g.get("class") == "Free":
        # random positive interval lengths (not required to sum to T)
        lens = [Fraction(rng.randint(2, 12), 8) for _ in range(N)]
        if g.get("localize_t0"):
            acc, tl = t0, []
            for L in lens:
                acc += L
                tl.append(jq(acc))
            pt["t0loc"] = tl
            if g.get("localize_T") or g.get("class") == "Free":
                lens2 = [Fraction(rng.randint(2, 12), 8) for _ in range(N)]
                pt["Tloc"] = [jq(L) for L in (lens2 if g.get("class") == "Free" else lens2[1:])]
        else:
            pt["Tloc"] = [jq(L) for L in (lens if g.get("class") == "Free" else lens[1:])]
    return pt


# ------------------------------------------------------------------ constraints / objective
SIGNAL_KINDS = ["x", "u", "pc", "pp", "vc", "vp", "t"]


def signal_expr(rng, case, kinds, maxdeg=2, allow_dt=False):
    """a polynomial that certainly depends on time (contains a state/control/per-interval symbol)"""
    ks = list(kinds)
    if allow_dt and rng.random() < 0.2:
        ks += ["DT", "DTc"]
    syms = sym_list(case, ks)
    sig = sym_list(case, [k for k in ("x", "u") if k in kinds]) or sym_list(case, ["t"])
    core = rng.choice(sig)
    for _ in range(20):
        e = ["+", ["*", C(dyadic_nz(rng, -2, 2, 1)), core], rand_poly(rng, syms, maxdeg, nterms=rng.randint(1, 2))]
        if depends_on_symbol(e, core):
            return e
    return ["+", ["*", C(1), core], C(dyadic(rng, -2, 2, 1))]


def eval_expr(e, val):
    """exact value of an offset-free expression with symbol values val[(kind, index)]"""
    op = e[0]
    if op == "c":
        return Fraction(e[1], e[2])
    if op == "s":
        return val[tuple(e[1:])]
    if op in ("+", "-", "*"):
        a, b = eval_expr(e[1], val), eval_expr(e[2], val)
        return a + b if op == "+" else a - b if op == "-" else a * b
    if op == "/":
        return eval_expr(e[1], val) / eval_expr(e[2], val)
    if op == "neg":
        return -eval_expr(e[1], val)
    if op == "pow":
        return eval_expr(e[1], val) ** e[2]
    raise ValueError(e)


def depends_on_symbol(e, sym):
    """the leading signal term must not be cancelled by the random polynomial (u + (c - u) is folded by
    CasADi into a constant and the relation stops being a path constraint)"""
    class V(dict):
        def __missing__(self, k):
            self[k] = Fraction(3 + 2 * len(self), 7)
            return self[k]
    try:
        v1 = V(); a = eval_expr(e, v1)
        v2 = V(v1); v2[tuple(sym[1:])] = v1[tuple(sym[1:])] + Fraction(5, 3)
        return eval_expr(e, v2) != a
    except ZeroDivisionError:
        return True


def add_offsets(rng, e, p=0.5, offs=(-2, -1, 1, 2, 3), extra=()):
    """wrap some state/control leaves of e (and leaves of the kinds in `extra`: "t", "DT", "DTc") into next/prev/offset
    placeholders"""
    if not isinstance(e, list):
        return e
    if e[0] == "s" and e[1] in ("x", "u", "pc", "pp", "vc", "vp") + tuple(extra) and rng.random() < p:
        n = rng.choice(offs)
        r = ["off", n, e]
        if n == 1 and rng.random() < 0.5:
            r.append("next")
        if n == -1 and rng.random() < 0.5:
            r.append("prev")
        return r
    if e[0] in ("+", "-", "*", "/"):
        return [e[0], add_offsets(rng, e[1], p, offs, extra), add_offsets(rng, e[2], p, offs, extra)]
    if e[0] == "neg":
        return ["neg", add_offsets(rng, e[1], p, offs, extra)]
    if e[0] == "pow":
        return ["pow", add_offsets(rng, e[1], p, offs, extra), e[2]]
    return e


def gen_path_constraint(rng, case, opts):
    m = case["method"]
    grids = list(opts.get("cgrids", ["control", "control", "integrator"]))
    if m["kind"] == "DC" and opts.get("roots", True):
        grids.append("integrator_roots")
    grid = rng.choice(grids)
    kinds = ["x", "u", "p", "pc", "pp", "v", "vc", "vp", "t", "T", "t0"]
    if case.get("algebraics"):
        kinds.append("z")
    c = {"grid": grid, "include_first": rng.random() < 0.7, "include_last": rng.random() < 0.7}
    if grid == "integrator_roots":
        c["include_first"] = c["include_last"] = True
    if rng.random() < opts.get("p_cscale", 0.25):
        c["scale"] = jq(rng.choice([2, 4, Fraction(1, 2), 8]))
    form = rng.choice(["le", "le", "eq", "between", "ge", "vec", "between_vec"])
    mk = lambda: signal_expr(rng, case, kinds, 2, allow_dt=(grid == "control"))
    if grid == "control" and rng.random() < opts.get("p_offset", 0.3):
        mk0 = mk
        # the leading term keeps a plain signal symbol: a constraint whose only time dependence
        # is through next/prev/offset is classified as a point constraint by rockit and fails loudly
        def mk():
            e = mk0()
            return [e[0], e[1], add_offsets(rng, e[2])]
    bound = lambda: rand_poly(rng, sym_list(case, ["p"]), 1, nterms=1) if rng.random() < 0.3 else C(dyadic(rng, -2, 2, 1))
    if form == "between":
        lo, hi = C(dyadic(rng, -3, 0, 1)), C(dyadic(rng, 1, 3, 1))
        e = mk()
        c["form"] = "between"
        c["rels"] = [{"rel": "le", "lhs": lo, "rhs": e}, {"rel": "le", "lhs": e, "rhs": hi}]
    elif form == "between_vec":
        # DM([lo..]) <= (vertcat(e..) <= DM([hi..])) with some infinite entries
        n = rng.randint(2, 3)
        es = [mk() for _ in range(n)]
        lo = [jq(dyadic(rng, -3, 0, 1)) if rng.random() < 0.6 else None for _ in range(n)]
        hi = [jq(dyadic(rng, 1, 3, 1)) if rng.random() < 0.6 else None for _ in range(n)]
        if all(v is None for v in lo):
            lo[0] = jq(dyadic(rng, -3, 0, 1))
        if all(v is None for v in hi):
            hi[-1] = jq(dyadic(rng, 1, 3, 1))
        c["form"] = "between_vec"
        c["vb"] = {"exprs": es, "lo": lo, "hi": hi}
        c["rels"] = []
        for e, l, h in zip(es, lo, hi):
            if l is not None:
                c["rels"].append({"rel": "le", "lhs": C(Fr(l)), "rhs": e})
            if h is not None:
                c["rels"].append({"rel": "le", "lhs": e, "rhs": C(Fr(h))})
    elif form == "ge":
        c["form"] = "ge"
        c["rels"] = [{"rel": "le", "lhs": bound(), "rhs": mk()}]
    elif form == "vec":
        n = rng.randint(2, 3)
        rel = rng.choice(["le", "eq"])
        c["rels"] = [{"rel": rel, "lhs": mk(), "rhs": bound()} for _ in range(n)]
    else:
        c["rels"] = [{"rel": form, "lhs": mk(), "rhs": bound() if rng.random() < 0.7 else mk()}]
    return c


def pterm(rng, case, opts, allow_int=True):
    """a non-signal scalar term"""
    kinds = ["x", "u", "p", "pc", "pp", "v", "vc", "vp", "t", "T", "t0"]
    choices = ["at0", "atf", "atf"]
    if case.get("discrete"):
        allow_int = False       # ocp.integral needs continuous-time dynamics (rockit asserts)
    if allow_int:
        choices += ["int", "sum", "sump"] + (["intc"] if opts.get("intc", False) else [])
    k = rng.choice(choices)
    if k == "int":
        e = rand_poly(rng, sym_list(case, [k for k in kinds if k not in ("T", "t0")]), 2)
        case.setdefault("quad", []).append(e)
        t = ["int", len(case["quad"]) - 1]
    elif k in ("sum", "sump", "intc"):
        t = [k, signal_expr(rng, case, kinds, 2)]
    else:
        e = signal_expr(rng, case, ["x", "p", "pp", "v", "vp", "t", "T", "t0"] + (["u", "pc", "vc"] if rng.random() < 0.5 else []), 2)
        t = [k, e]
    r = rng.random()
    gl = [["g", s[1], s[2]] for s in sym_list(case, ["p", "v"])] + [["g", s[1]] for s in sym_list(case, ["T", "t0"])]
    if r < 0.25:
        t = ["*", t, rng.choice(gl)]
    elif r < 0.35:
        t = ["+", t, ["*", C(dyadic_nz(rng)), rng.choice(gl)]]
    elif r < 0.4:
        t = ["pow", t, 2]
    return t


def gen_point_constraint(rng, case, opts):
    c = {"grid": "point"}
    if rng.random() < opts.get("p_cscale", 0.25):
        c["scale"] = jq(rng.choice([2, 4, Fraction(1, 2)]))
    rel = rng.choice(["eq", "le"])
    lhs = pterm(rng, case, opts, allow_int=rng.random() < 0.2)
    rhs = C(dyadic(rng, -2, 2, 1)) if rng.random() < 0.6 else pterm(rng, case, opts, allow_int=False)
    c["rels"] = [{"rel": rel, "lhs": lhs, "rhs": rhs}]
    return c


def add_constraints(rng, case, opts):
    n = rng.randint(opts.get("nc_min", 1), opts.get("nc_max", 4))
    for _ in range(n):
        if rng.random() < opts.get("p_point", 0.3):
            case["constraints"].append(gen_point_constraint(rng, case, opts))
        else:
            case["constraints"].append(gen_path_constraint(rng, case, opts))


def add_objective(rng, case, opts):
    n = rng.randint(opts.get("no_min", 1), opts.get("no_max", 3))
    for _ in range(n):
        case["objective"].append(pterm(rng, case, opts))


def add_roots_constraint(rng, case):
    """a path constraint on the integrator roots (placeable only under DirectCollocation)"""
    kinds = ["x", "u", "p", "t"]
    case["constraints"].append({"grid": "integrator_roots", "include_first": True, "include_last": True,
                                "rels": [{"rel": "le", "lhs": signal_expr(rng, case, kinds, 2),
                                          "rhs": C(dyadic(rng, -2, 2, 1))}]})


def touch_objective(case):
    """an objective in which every decision variable of the transcription occurs (opti.x then lists all)"""
    terms = []
    sq = lambda e: ["*", e, e]
    for s_ in sym_list(case, ["x", "pp", "vp"]):
        terms.append(["sump", sq(s_)])
    for s_ in sym_list(case, ["u", "vc"]):
        terms.append(["sum", sq(s_)])
    for s_ in sym_list(case, ["v"]):
        terms.append(sq(["g", "v", s_[2]]))
    if case.get("algebraics"):
        for s_ in sym_list(case, ["z"]):
            terms.append(["sum", sq(s_)])
    case["objective"] = case.get("objective", []) + terms
