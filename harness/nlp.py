"""Observe the NLP rockit hands to the solver, through public read-back only.

semantic_map: the decision quantities of a method (node states, controls, variables,
free horizon, grid variables, collocation helper states) as affine functions of opti.x,
obtained with ocp.sample / ocp.value; solve_point: the opti.x realising a chosen
semantic point; eval_nlp: f, g, lbg, ubg there, as normal rows.
"""
import numpy as np
from fractions import Fraction
from .common import Fr


class Mismatch(Exception):
    """rockit and the model disagree structurally (reported as a correspondence failure)"""


def transcribe(B):
    ocp = B.ocp
    ocp.sample(ocp.t, grid="control")  # public call that forces transcription
    master = getattr(B, "master", None) or ocp
    return master._method.opti


def quantities(B, case):
    """ordered list of (name, MX matrix) of the decision quantities"""
    import casadi as ca
    ocp = B.ocp
    m = case["method"]
    N = m["N"]
    out = []
    nx = sum(x.numel() for x in B.objs["x"])
    nu = sum(u.numel() for u in B.objs["u"])
    if nx:
        Xs = ocp.sample(ocp.x, grid="control")[1]
        if m["kind"] == "SS":
            out.append(("X", Xs[:, 0]))
        else:
            out.append(("X", Xs))
    if nu:
        out.append(("U", ocp.sample(ocp.u, grid="control-")[1]))
    gv = [v for g, v, d in B.vdecl if g == ""]
    cv = [v for g, v, d in B.vdecl if g == "control"]
    pv = [v for g, v, d in B.vdecl if g == "control+"]
    if gv:
        out.append(("V", ocp.value(ca.vvcat(gv))))
    if cv:
        out.append(("VC", ocp.sample(ca.vvcat(cv), grid="control-")[1]))
    if pv:
        out.append(("VP", ocp.sample(ca.vvcat(pv), grid="control")[1]))
    if "free" in case.get("T", {}):
        out.append(("T", ocp.value(ocp.T)))
    if "free" in case.get("t0", {}):
        out.append(("t0", ocp.value(ocp.t0)))
    g = m.get("grid") or {}
    if g.get("localize_t0") or g.get("localize_T") or g.get("class") == "Free":
        ts = ocp.sample(ocp.t, grid="control")[0]
        ts = ca.vec(ts)
        if g.get("localize_t0"):
            out.append(("t0loc", ts[1:]))
            if g.get("localize_T") or g.get("class") == "Free":
                # T_local is not reachable through any public read-back when the grid itself is made of
                # t0_local variables: the method's own list is used to address these variables
                Tl = ocp._method.T_local
                Tl = Tl if g.get("class") == "Free" else Tl[1:]
                if Tl:
                    out.append(("Tloc", ca.vcat(Tl)))
        else:
            d = ts[1:] - ts[:-1]
            out.append(("Tloc", d if g.get("class") == "Free" else d[1:]))
    if m["kind"] == "DC":
        M = m.get("M", 1)
        d = m.get("degree", 4)
        Xi = ocp.sample(ocp.x, grid="integrator")[1]      # nx x (N*M+1)
        if M > 1:
            idx = [k * M + i for k in range(N) for i in range(1, M)]
            out.append(("Xi", Xi[:, idx]))
        out.append(("Xc", ocp.sample(ocp.x, grid="integrator_roots")[1]))  # nx x (N*M*d)
        nz = sum(z.numel() for z in B.objs["z"])
        if nz:
            out.append(("Zc", ocp.sample(ocp.z, grid="integrator_roots")[1]))
    return out


class Observed:
    pass


def observe(B, case, extras=None, qs_fn=None):
    """extras: optional function (B, case) -> list of MX read-back expressions that are
    evaluated together with the NLP (ob.extra_f); qs_fn: replaces `quantities` (multi-stage)"""
    import casadi as ca
    opti = transcribe(B)
    ob = Observed()
    ob.opti = opti
    qs = (qs_fn or quantities)(B, case)
    ob.qnames = [(n, e.shape) for n, e in qs]
    stack = ca.veccat(*[e for _, e in qs]) if qs else ca.MX(0, 1)
    ex = list(extras(B, case)) if extras else []
    everything = ca.veccat(opti.x, opti.p, stack, opti.f, opti.g, opti.lbg, opti.ubg, *ex)
    adv = opti.advanced
    # opti.x / opti.p list only symbols that occur in f or g: collect all that are read
    syms = adv.symvar(everything, ca.OPTI_VAR)
    pars = adv.symvar(everything, ca.OPTI_PAR)
    x = ca.vvcat(syms) if syms else ca.MX(0, 1)
    p = ca.vvcat(pars) if pars else ca.MX(0, 1)
    ob.x, ob.p = x, p
    ob.nx, ob.np = x.numel(), p.numel()
    ob.pval = np.array(opti.debug.value(p)).reshape(-1) if ob.np else np.zeros(0)
    ob.Phi = ca.Function("Phi", [x, p], [stack])
    Jf = ca.Function("J", [x, p], [ca.jacobian(stack, x)])
    z0 = np.zeros(ob.nx)
    ob.J = np.array(Jf(z0, ob.pval)).reshape(stack.numel(), ob.nx)
    J2 = np.array(Jf(z0 + 0.37, ob.pval)).reshape(stack.numel(), ob.nx)
    if ob.nx and not np.allclose(ob.J, J2, atol=1e-12):
        raise Mismatch("read-back of decision quantities is not affine in the decision variables")
    ob.c = np.array(ob.Phi(z0, ob.pval)).reshape(-1)
    if ob.nx:
        rk = np.linalg.matrix_rank(ob.J)
        if rk < ob.nx:
            raise Mismatch("NLP has %d decision variables but only %d are determined by the "
                           "method's decision quantities" % (ob.nx, rk))
        if stack.numel() != ob.nx:
            raise Mismatch("decision quantities (%d) and NLP variables (%d) differ in number"
                           % (stack.numel(), ob.nx))
    ob.nlp = ca.Function("nlp", [x, p], [opti.f, opti.g, opti.lbg, opti.ubg])
    ob.extra_f = ca.Function("extra", [x, p], ex) if ex else None
    ob.x0 = np.array(opti.debug.value(x, opti.initial())).reshape(-1) if ob.nx else np.zeros(0)
    return ob


def flatten_point(ob, point):
    """stack the semantic values of `point` in the order of ob.qnames (column major)"""
    return flatten_q(ob.qnames, point)


def flatten_q(qnames, point):
    vals = []
    for name, shape in qnames:
        v = point[name]
        if name in ("T", "t0"):
            vals.append(float(Fr(v)))
        elif name in ("V", "t0loc", "Tloc"):
            vals += [float(Fr(a)) for a in v]
        elif name == "Xi":
            vals += [float(Fr(a)) for k in v for col in k for a in col]
        elif name in ("Xc", "Zc"):
            vals += [float(Fr(a)) for k in v for i in k for col in i for a in col]
        else:
            # list of columns
            vals += [float(Fr(a)) for col in v[:shape[1]] for a in col]
    return np.array(vals)


def solve_point(ob, target):
    if ob.nx == 0:
        return np.zeros(0)
    xs, res, rk, sv = np.linalg.lstsq(ob.J, target - ob.c, rcond=None)
    back = np.array(ob.Phi(xs, ob.pval)).reshape(-1)
    if not np.allclose(back, target, atol=1e-9, rtol=1e-9):
        raise Mismatch("could not realise the semantic point in opti.x")
    return xs


def eval_nlp(ob, xs):
    f, g, lbg, ubg = ob.nlp(xs, ob.pval)
    f = float(f)
    g = np.array(g).reshape(-1)
    lbg = np.array(lbg).reshape(-1)
    ubg = np.array(ubg).reshape(-1)
    return f, g, lbg, ubg


def normal_rows(g, lbg, ubg):
    """list of (sense, rowindex, part, h) with sense 0 = equality, 1 = h<=0"""
    rows = []
    for i in range(len(g)):
        lb, ub, gi = lbg[i], ubg[i], g[i]
        if lb == ub:
            rows.append((0, i, 0, gi - lb))
        else:
            if lb > -np.inf:
                rows.append((1, i, 0, lb - gi))
            if ub < np.inf:
                rows.append((1, i, 1, gi - ub))
    return rows


def rockit_rows(ob, targets):
    """evaluate the NLP at every semantic target; returns (objs, rows) where rows is a
    list of (sense, key, [h per point])"""
    objs = []
    table = {}
    order = []
    for t in targets:
        xs = solve_point(ob, t)
        f, g, lbg, ubg = eval_nlp(ob, xs)
        objs.append(f)
        for sense, i, part, h in normal_rows(g, lbg, ubg):
            key = (sense, i, part)
            if key not in table:
                table[key] = []
                order.append(key)
            table[key].append(h)
    npts = len(targets)
    rows = []
    for key in order:
        if len(table[key]) != npts:
            raise Mismatch("row %s changes its bound structure between points" % (key,))
        rows.append((key[0], key, table[key]))
    return objs, rows
