"""Run the executable Rocq model: write Run/Cases_*.v files, evaluate them with
coqc (vm_compute) in parallel and parse the printed values."""
import os, re, subprocess, shutil, time
from concurrent.futures import ThreadPoolExecutor
from .common import COQ, WORK

HEADER = """From Coq Require Import ZArith QArith List Bool.
From RV Require Import Base.Num Expr Ocp Rows Mech.Shooting Mech.Stages Runner.
Import ListNotations.
Set Printing Depth 10000000.
Set Printing Width 100000000.
"""

_num = r"[-+]?(?:\d+\.?\d*(?:[eE][-+]?\d+)?|infinity|nan)"


def parse_value(txt):
    """parse a Coq value made of lists, tuples, Z/nat/float literals and booleans"""
    t = txt.replace("PrimFloat.", "")
    t = re.sub(r"%(float|Z|nat|positive|Q|N)\b", "", t)
    t = re.sub(r"-?0x[0-9a-fA-F.]+p[-+]?\d+", lambda m: repr(float.fromhex(m.group(0))), t)
    t = re.sub(r"Some \((-?[\w.+-]+)\)", r"(\1)", t)
    t = re.sub(r"Some (-?[\w.+-]+)", r"(\1)", t)
    t = t.replace(";", ",")
    t = re.sub(r"\bneg_infinity\b", "(-inf)", t)
    t = re.sub(r"\binfinity\b", "inf", t)
    t = re.sub(r"\btrue\b", "True", t)
    t = re.sub(r"\bfalse\b", "False", t)
    t = re.sub(r"\bNone\b", "None", t)
    return eval(t, {"__builtins__": {}}, {"inf": float("inf"), "nan": float("nan"),
                                          "True": True, "False": False, "None": None,
                                          "Some": lambda x: x})


def split_evals(out):
    """the values printed by successive Eval commands"""
    vals = []
    for m in re.finditer(r"^\s*= (.*?)\n\s*: ", out, re.S | re.M):
        vals.append(m.group(1))
    return vals


def run_file(path, timeout=600):
    t0 = time.time()
    r = subprocess.run(["coqc", "-Q", COQ, "RV", path], capture_output=True, text=True,
                       timeout=timeout, cwd=os.path.dirname(path))
    return r.returncode, r.stdout, r.stderr, time.time() - t0


def run_shards(name, bodies, header=HEADER, jobs=16, timeout=900):
    """bodies: list of Coq source fragments (one shard each).  Returns list of
    lists of parsed Eval values (one inner list per shard), or raises."""
    # one directory per process: concurrent runs of the same check must not share generated files
    d = os.path.join(WORK, "run_%s_%d" % (name, os.getpid()))
    shutil.rmtree(d, ignore_errors=True)
    os.makedirs(d, exist_ok=True)
    paths = []
    for i, b in enumerate(bodies):
        p = os.path.join(d, "Cases_%s_%d.v" % (name, i))
        with open(p, "w") as f:
            f.write(header + b)
        paths.append(p)
    with ThreadPoolExecutor(max_workers=jobs) as ex:
        res = list(ex.map(lambda p: run_file(p, timeout), paths))
    out = []
    for p, (rc, so, se, dt) in zip(paths, res):
        if rc != 0:
            raise RuntimeError("coqc failed on %s:\n%s\n%s" % (p, so[-2000:], se[-4000:]))
        out.append([parse_value(v) for v in split_evals(so)])
    shutil.rmtree(d, ignore_errors=True)      # generated sources and .vo files are not kept (failures keep them)
    return out
