"""Check driver: lint + proofs (obligations), property engine (correspondence and
property oracle on generated cases), verdict with known findings, evidence."""
import os, re, sys, json, subprocess, time, glob, importlib, traceback
from .common import VERIF, COQ, REPO, seed_of, tier_of, Timer, sha

FORBIDDEN = [r"\bAxiom\b", r"\bAxioms\b", r"\bParameter\b", r"\bParameters\b", r"\bConjecture\b",
             r"\bAdmitted\b", r"\badmit\b", r"Admit Obligations", r"Unset Guard Checking",
             r"bypass_check", r"type-in-type", r"impredicative-set", r"Unset Positivity",
             r"Unset Universe Checking", r"\bhammer\b"]


def strip_comments(src):
    out, depth, i = [], 0, 0
    while i < len(src):
        if src.startswith("(*", i):
            depth += 1; i += 2
        elif src.startswith("*)", i) and depth:
            depth -= 1; i += 2
        else:
            if depth == 0:
                out.append(src[i])
            elif src[i] == "\n":
                out.append("\n")
            i += 1
    return "".join(out)


def lint():
    """forbidden tokens anywhere in the development; Variable/Hypothesis only inside sections"""
    hits = []
    files = sorted(glob.glob(os.path.join(COQ, "**", "*.v"), recursive=True))
    files = [f for f in files if "/Run/" not in f]
    for f in files:
        try:
            src = strip_comments(open(f).read())
        except FileNotFoundError:
            continue        # a file of another, concurrently running check
        for n, line in enumerate(src.split("\n"), 1):
            for pat in FORBIDDEN:
                if re.search(pat, line):
                    hits.append("%s:%d: %s" % (os.path.relpath(f, VERIF), n, line.strip()[:100]))
        depth = 0
        for n, line in enumerate(src.split("\n"), 1):
            if re.match(r"\s*Section\s+\w+", line):
                depth += 1
            elif re.match(r"\s*End\s+\w+\s*\.", line) and depth:
                depth -= 1
            elif depth == 0 and re.match(r"\s*(Variable|Variables|Hypothesis|Hypotheses|Context)\b", line):
                hits.append("%s:%d: %s outside a section" % (os.path.relpath(f, VERIF), n, line.strip()[:80]))
    proj = open(os.path.join(COQ, "_CoqProject")).read()
    for bad in ("-type-in-type", "-impredicative-set", "-vos", "-vok"):
        if bad in proj:
            hits.append("_CoqProject: " + bad)
    return hits, len(files)


def build(jobs=16, timeout=3000):
    """full .vo build of the development (incremental)"""
    if not os.path.exists(os.path.join(COQ, "Makefile")):
        subprocess.run(["coq_makefile", "-f", "_CoqProject", "-o", "Makefile"], cwd=COQ,
                       capture_output=True, timeout=120)
    r = subprocess.run(["make", "-j%d" % jobs], cwd=COQ, capture_output=True, text=True, timeout=timeout)
    return r.returncode == 0, (r.stdout + r.stderr)[-3000:]


def check_props(pid, timeout=900):
    """recompile Props/<pid>.v, collect theorem names and their Print Assumptions"""
    src = os.path.join(COQ, "Props", pid + ".v")
    if not os.path.exists(src):
        return {"ok": False, "theorems": [], "assumptions": {}, "log": "missing " + src}
    vo = src[:-2] + ".vo"
    if os.path.exists(vo):
        os.remove(vo)
    r = subprocess.run(["coqc", "-Q", COQ, "RV", src], cwd=COQ, capture_output=True, text=True,
                       timeout=timeout)
    text = open(src).read()
    names = re.findall(r"^\s*(?:Theorem|Example)\s+(\w+)", strip_comments(text), re.M)
    printed = re.findall(r"Print Assumptions (\w+)\.", text)
    out = r.stdout
    # outputs of Print Assumptions, in order
    blocks = re.split(r"(?m)^(?=Closed under the global context|Axioms:)", out)
    blocks = [b.strip() for b in blocks if b.strip()]
    assumptions = {}
    for name, blk in zip(printed, blocks):
        assumptions[name] = "closed" if blk.startswith("Closed") else re.sub(r"\s+", " ", blk)[:600]
    return {"ok": r.returncode == 0, "theorems": names, "assumptions": assumptions,
            "log": (r.stdout[-1500:] + r.stderr[-3000:]) if r.returncode else ""}


# properties whose theorems are stated about Mech/Intg.v: on every run the kernels are re-translated from the
# source of the tree under test (harness/translate.py) and proved equal to the model (Tie/IntgTie.v)
INTG = ["tie_intg_rk", "tie_intg_expl_euler", "tie_discrete_system"]
DC = ["tie_dc_dt", "tie_dc_t_root", "tie_dc_Pidot", "tie_dc_sys_args", "tie_dc_quad", "tie_dc_x_next", "tie_dc_cont_lhs"]
SMP = ["tie_get_DT_control_at", "tie_get_DT_at", "tie_offset_target", "tie_offset_ok", "tie_env_control", "tie_env_inner",
       "tie_env_integrator", "tie_env_root"]
SHOOT = ["tie_ms_step", "tie_ss_step", "tie_gap_rows"]
LAYOUT = ["tie_layout_sites_agree", "tie_layout_order"]
TIED = {"C01": {"Intg": INTG, "Shoot": SHOOT, "Layout": LAYOUT},
        "C04": {"Smp": SMP},
        "C07": {"Smp": SMP, "Shoot": ["tie_ms_step", "tie_ss_step"]},
        "C11": {"Free": ["tie_freeT_rows", "tie_freet0_rows", "tie_free_guess"]},
        "C17": {"Spline": ["tie_spline_member_R", "tie_spline_member_width", "tie_spline_chain_dynamics_R", "tie_spline_chain_dynamics_gen_R",
                           "tie_spline_time", "tie_spline_time_inv"]},
        "C09": {"Smp": ["tie_env_control", "tie_env_inner", "tie_env_integrator", "tie_env_root"], "Layout": LAYOUT},
        "C02": {"Dc": DC, "Layout": LAYOUT},
        "C03": {"Intg": INTG + ["tie_builtin"], "Dc": DC},
        "C05": {"Intg": INTG, "Dc": ["tie_dc_dt", "tie_dc_t_root", "tie_dc_sys_args", "tie_dc_quad"], "Shoot": ["tie_ms_step", "tie_ss_step"]},
        "C08": {"Intg": ["tie_intg_rk", "tie_intg_expl_euler"]}}
TIE_SRC = {"Intg": "rockit/sampling_method.py", "Dc": "rockit/direct_collocation.py", "Smp": "rockit/sampling_method.py",
           "Shoot": "rockit/multiple_shooting.py, rockit/single_shooting.py", "Layout": "rockit/stage.py, rockit/sampling_method.py",
           "Spline": "rockit/spline_method.py", "Free": "rockit/direct_method.py"}


def check_ties(pid, chk=False):
    """{which: result} for the source ties of this property"""
    if pid not in TIED:
        return None
    from .translate import check_tie
    out = {}
    for which in TIED[pid]:
        try:
            out[which] = check_tie(REPO, which, tag=pid, chk=chk)   # one directory per property: checks may run concurrently
        except Exception as e:
            out[which] = {"ok": False, "stage": "tie machinery failed", "log": "%s: %s" % (type(e).__name__, e), "lemmas": [], "assumptions": {}}
    return out


def coqchk(pid, timeout=1800):
    r = subprocess.run(["coqchk", "-silent", "-o", "-Q", COQ, "RV", "RV.Props." + pid], cwd=COQ,
                       capture_output=True, text=True, timeout=timeout)
    return r.returncode == 0, (r.stdout + r.stderr)[-3000:]


def load_findings():
    p = os.path.join(VERIF, "known_findings.json")
    if not os.path.exists(p):
        return []
    return json.load(open(p)).get("findings", [])


def run_hunted(pid, jobs=16, tier="quick"):
    """regression corpus: the standalone scripts of the hunting round (hunted/<id>/findingN.py, each compares rockit
    with an independent computation, prints VIOLATION and exits 1 when rockit is wrong) for defects that were repaired;
    hunted/corpus.json says which scripts belong to which property"""
    import subprocess
    from concurrent.futures import ThreadPoolExecutor
    cp = os.path.join(VERIF, "hunted", "corpus.json")
    if not os.path.exists(cp):
        return [], 0
    entries = [e for e in json.load(open(cp)) if e["property"] == pid]
    # the demonstrations of the seeded breaking changes (independent oracles written by the seeding agents: each prints
    # PROPERTY HOLDS on the unchanged tree and PROPERTY VIOLATED with its change): rounds 4-6 in the quick tier, all in the thorough tier
    pats = ["%s-[mnp]" % pid] if tier != "thorough" else ["%s-*" % pid]
    for pat in pats:
        for d in sorted(glob.glob(os.path.join(VERIF, "seeded", pat, "demo.py"))):
            entries.append({"script": os.path.relpath(d, os.path.join(VERIF, "hunted")), "property": pid, "seed_demo": os.path.basename(os.path.dirname(d))})
    from .common import REPO
    env = dict(os.environ, PYTHONPATH="%s:%s" % (REPO, os.path.join(VERIF, "pydeps")), PYTHONHASHSEED="0")

    def one(e):
        path = os.path.join(VERIF, "hunted", e["script"])
        try:
            r = subprocess.run(["/venv/bin/python", path], env=env, capture_output=True, text=True, timeout=600, cwd=os.path.join(VERIF, "work"))
            return e, r.returncode, [l for l in r.stdout.splitlines() if l.startswith(("VIOLATION", "PROBLEM", "PROPERTY VIOLATED"))][:2], r.stderr[-300:]
        except subprocess.TimeoutExpired:
            return e, 0, [], "timeout"
    os.makedirs(os.path.join(VERIF, "work"), exist_ok=True)
    with ThreadPoolExecutor(max_workers=max(1, min(jobs, len(entries) or 1))) as ex:
        rs = list(ex.map(one, entries))
    dis = []
    for e, rc, lines, err in rs:
        if rc == 1 and lines:
            if e.get("seed_demo"):
                dis.append({"property": pid, "finding_key": None, "case": {"seed_demo": "seeded/%s/demo.py" % e["seed_demo"]}, "points": [],
                            "what": [{"what": "the demonstration of the seeded change %s fails on this tree: %s" % (e["seed_demo"], lines[0][:400])}]})
                continue
            dis.append({"property": pid, "finding_key": None, "case": {"hunted_script": e["script"], "repaired_by": e.get("fixed_by")}, "points": [],
                        "what": [{"what": "a repaired defect is back: " + lines[0][:400]}]})
    return dis, len(entries)


def write_replay(pid, obj):
    d = os.path.join(VERIF, "replays")
    os.makedirs(d, exist_ok=True)
    p = os.path.join(d, "%s-%s.json" % (pid, sha(obj)))
    with open(p, "w") as f:
        json.dump(obj, f, indent=1, default=str)
    return p


def validate_evidence(ev):
    """validate against the evidence schema with the tooling venv's jsonschema when present"""
    req = ["property_id", "tier", "seed", "level", "coverage", "wall_s"]
    miss = [k for k in req if k not in ev]
    if miss:
        return "missing " + ",".join(miss)
    code = ("import json,sys,jsonschema;"
            "jsonschema.validate(json.load(sys.stdin), json.load(open('/root/.vp/EVIDENCE.schema.json')))")
    try:
        r = subprocess.run(["python3-vt", "-c", code], input=json.dumps(ev, default=str),
                           capture_output=True, text=True, timeout=60)
        if r.returncode != 0 and "jsonschema" in r.stderr and "ValidationError" in r.stderr:
            return r.stderr[-500:]
    except Exception:
        pass
    return None


def main(argv=None):
    import argparse
    ap = argparse.ArgumentParser()
    ap.add_argument("pid")
    ap.add_argument("--tier", default=None)
    ap.add_argument("--replay", default=None)
    ap.add_argument("--jobs", type=int, default=16)
    a = ap.parse_args(argv)
    pid = a.pid
    tier = tier_of(a.tier)
    seed = seed_of()
    T = Timer()
    os.environ["PYTHONHASHSEED"] = "0"
    mod = importlib.import_module("harness.props." + pid.lower())

    if a.replay:
        try:
            rcase = json.load(open(a.replay)).get("case", {})
        except Exception:
            rcase = {}
        script = rcase.get("seed_demo") or (("hunted/" + rcase["hunted_script"]) if rcase.get("hunted_script") else None) if isinstance(rcase, dict) else None
        if script:
            # a regression script (hunting round) or the demonstration of a seeded change: run it against the tree under test
            env = dict(os.environ, PYTHONPATH="%s:%s" % (REPO, os.path.join(VERIF, "pydeps")), PYTHONHASHSEED="0")
            os.makedirs(os.path.join(VERIF, "work"), exist_ok=True)
            r = subprocess.run(["/venv/bin/python", os.path.join(VERIF, script)], env=env, cwd=os.path.join(VERIF, "work"))
            sys.exit(1 if r.returncode == 1 else 0)
        rc = mod.replay(a.replay)
        sys.exit(rc)

    violations = []       # (replay_obj, suffix)
    known_lines = []
    obligations_broken = []

    # 1. lint + proofs
    hits, nfiles = lint()
    if hits:
        obligations_broken.append({"what": "forbidden construct in the Rocq development", "hits": hits[:20]})
    ok, log = build(a.jobs)
    if not ok:
        obligations_broken.append({"what": "the Rocq development no longer builds", "log": log})
    pr = check_props(pid) if ok else {"ok": False, "theorems": [], "assumptions": {}, "log": "not built"}
    if ok and not pr["ok"]:
        obligations_broken.append({"what": "Props/%s.v no longer checks" % pid, "log": pr["log"]})
    tie = check_ties(pid, chk=(tier == "thorough")) if ok else None
    for which, t in (tie or {}).items():
        if not t["ok"]:
            obligations_broken.append({"what": "the kernels translated from %s are no longer proved equal to the model (%s; lemmas %s of Tie/%sTie.v)"
                                               % (TIE_SRC[which], t["stage"], ", ".join(TIED[pid][which]), which),
                                       "log": t["log"]})
    chk = None
    if tier == "thorough" and ok and pr["ok"]:
        cok, clog = coqchk(pid)
        chk = {"ok": cok, "log": clog[-1500:]}
        if not cok:
            obligations_broken.append({"what": "coqchk rejects Props/%s.vo" % pid, "log": clog})

    # 2-4. engine: corpus, correspondence, property oracle
    res = {"evaluations": 0, "distinct_nontrivial": 0, "samples": [], "disagreements": [],
           "rule": "", "distribution": {}, "extra": {}}
    if ok:
        try:
            res = mod.run(tier=tier, seed=seed, jobs=a.jobs)
            hd, nh = run_hunted(pid, a.jobs, tier)
            res["disagreements"] = list(res.get("disagreements", [])) + hd
            res.setdefault("extra", {})["hunted_regression_scripts"] = nh
        except Exception as e:
            obligations_broken.append({"what": "the correspondence engine failed to run",
                                       "error": "%s: %s" % (type(e).__name__, e),
                                       "trace": traceback.format_exc()[-2500:]})
    findings = load_findings()
    active = {f["key"]: f for f in findings if f.get("property") == pid and f.get("status") == "finding"}
    seen_known = {}
    for d in res.get("disagreements", []):
        key = d.get("finding_key")
        if key and key in active:
            seen_known.setdefault(key, d)
        else:
            violations.append(d)

    # 5. decision
    lines = []
    for key, d in seen_known.items():
        lines.append("KNOWN-FINDING: property=%s %s" % (pid, active[key]["what"]))
    rc = 0
    for d in violations[:5]:
        p = write_replay(pid, d)
        lines.append("VIOLATION property=%s replay=%s" % (pid, p))
        rc = 1
    if obligations_broken and not violations:
        p = write_replay(pid, {"property": pid, "broken": obligations_broken,
                               "note": "no input on which the property fails was found by the search "
                                       "(%d cases explored)" % res.get("evaluations", 0)})
        lines.append("VIOLATION property=%s replay=%s no-failing-input-found" % (pid, p))
        rc = 1

    # 6. evidence
    nthm = len(pr["theorems"])
    ntie = sum(len(v) for v in TIED.get(pid, {}).values())
    ntie_ok = sum(len(TIED[pid][w]) for w, t in (tie or {}).items() if t["ok"])
    ev = {
        "property_id": pid, "tier": tier, "seed": seed, "level": "proof",
        "coverage": {
            "obligations": max(nthm, 1) + ntie,
            "discharged": (nthm if (ok and pr["ok"]) else 0) + ntie_ok,
            "checker_cmd": "cd /verif/coq && make && coqc -Q . RV Props/%s.v%s" % (
                pid, " && coqchk -o -Q . RV RV.Props.%s" % pid if tier == "thorough" else ""),
            "trusted_base": mod.TRUSTED + [
                "Coq 8.16.1 kernel; vm_compute for running the model and for computational examples; no native_compute",
                "Print Assumptions: " + json.dumps(pr["assumptions"]),
            ],
            "theorems": pr["theorems"],
            "evaluations": res.get("evaluations", 0),
            "distinct_nontrivial": res.get("distinct_nontrivial", 0),
            "rule": res.get("rule", ""),
            "samples": res.get("samples", [])[:3],
            "programs": res.get("evaluations", 0),
            "disagreements_checked": len(res.get("disagreements", [])),
            "distribution": res.get("distribution", {}),
            "lint_files": nfiles, "lint_hits": len(hits),
            "coqchk": chk,
            "source_tie": ({which: {"translator": "harness/translate.py (Python ast -> Gallina, fail-closed)", "source": TIE_SRC[which],
                                    "generated": "work/gen_*/Gen/%sGen.v" % which, "tie_file": "coq/Tie/%sTie.v" % which,
                                    "ok": t["ok"], "stage": t["stage"], "lemmas": TIED[pid][which],
                                    "assumptions": t.get("assumptions", {}), "generated_sha": t.get("generated_sha"), "coqchk": t.get("coqchk")}
                            for which, t in tie.items()} if tie is not None else None),
            "known_findings_seen": sorted(seen_known.keys()),
            "extra": res.get("extra", {}),
        },
        "assumptions": mod.ASSUMPTIONS,
        "wall_s": T.s(),
        "violations": len(violations) + (1 if (obligations_broken and not violations) else 0),
    }
    err = validate_evidence(ev)
    # evidence/ holds records of runs against /repo only; runs against another tree (tools/mutate.py, ROCKIT_REPO) go to work/
    evdir = os.path.join(VERIF, "evidence") if os.path.realpath(REPO) == "/repo" else os.path.join(VERIF, "work", "evidence_other_tree")
    os.makedirs(evdir, exist_ok=True)
    with open(os.path.join(evdir, pid + ".json"), "w") as f:
        json.dump(ev, f, indent=1, default=str)
    if err:
        print("evidence does not validate: " + err)
    for b in obligations_broken:
        print("BROKEN: %s %s" % (b.get("what"), (b.get("error") or b.get("log") or "")[:300].replace("\n", " | ")))
    for l in lines:
        print(l)
    print("%s %s: %d cases, %d non-trivial, %d theorems checked, %d disagreements, %.1fs -> %s" % (
        pid, tier, ev["coverage"]["evaluations"], ev["coverage"]["distinct_nontrivial"],
        ev["coverage"]["discharged"], len(res.get("disagreements", [])), ev["wall_s"],
        "FAIL" if rc else "ok"))
    sys.exit(rc)
