"""Fail-closed translator: Python source of rockit's pure integrator kernels -> Gallina.

On every run `regenerate()` parses the *current* working tree of the repository under test with
Python's `ast`, translates

  * SamplingMethod.intg_rk            (rockit/sampling_method.py)
  * SamplingMethod.intg_expl_euler
  * the accumulator loop of SamplingMethod.discrete_system
  * the time rescaling of SamplingMethod.intg_builtin (argument of f, 'ode'/'quad'/'alg' entries)
  * the collocation loop of DirectCollocation.add_constraints (rockit/direct_collocation.py): step length, root times,
    defect Pidot, arguments of the system function, quadrature update, continuity equation  -> Gen/DcGen.v, Tie/DcTie.v

into definitions over the model's vocabulary (Base/Vec.v, Mech/Intg.v) and writes them to
work/gen_<tree>/Gen/IntgGen.v (logical name RV.Gen.IntgGen).  coq/Tie/IntgTie.v then proves (for every field of characteristic 0, every system
function, state, time, step) that the generated definitions equal the hand-written model
Mech/Intg.v about which the property theorems are stated.  Both files are compiled on every run
(outside the main `make`, so that a broken tie does not stop the engines from searching a failing
input).

The translator is fail-closed: every statement and expression form it does not know raises
`Untranslatable`, which the driver reports as a broken obligation.  It is part of the trusted base
(it is ~250 lines, and what it emits is additionally exercised by the behavioural correspondence of
the same run, because the generated definitions are proved equal to the model that is compared with
the running code).
"""
import ast, os, hashlib

from .common import COQ, REPO


class Untranslatable(Exception):
    pass


def _fail(node, why):
    raise Untranslatable("%s at line %s: %s" % (why, getattr(node, "lineno", "?"), ast.unparse(node)[:120]))


# ------------------------------------------------------------------ typed expression translation
# types: 's' scalar, 'v' vector (list F), 'cols' list of vectors, 'sys' result of a system-function call
class Ctx:
    def __init__(self, scalars, vectors, sysf="f", quiet_u="U", quiet_p="P"):
        self.ty = {}
        for s in scalars:
            self.ty[s] = "s"
        for v in vectors:
            self.ty[v] = "v"
        self.lets = []           # (coq_name, coq_term)
        self.sys = {}            # python name -> (coq ode name, coq quad name)
        self.sysf, self.u, self.p = sysf, quiet_u, quiet_p
        self.empty = set()

    def num(self, node):
        v = node.value
        if isinstance(v, bool) or not isinstance(v, (int, float)):
            _fail(node, "constant")
        if isinstance(v, int):
            return "(of_Z %d)" % v if v >= 0 else "(of_Z (%d))" % v
        from fractions import Fraction
        fr = Fraction(v)
        if fr.denominator & (fr.denominator - 1):
            _fail(node, "non-dyadic float")
        return "(of_Q (%d # %d))" % (fr.numerator, fr.denominator)

    def expr(self, e):
        """returns (type, coq term)"""
        if isinstance(e, ast.Constant):
            return "s", self.num(e)
        if isinstance(e, ast.Name):
            if e.id in self.ty:
                return self.ty[e.id], e.id
            _fail(e, "unknown name")
        if isinstance(e, ast.Subscript):
            if isinstance(e.value, ast.Name) and e.value.id in self.sys and isinstance(e.slice, ast.Constant):
                key = e.slice.value
                ode, quad = self.sys[e.value.id]
                if key == "ode":
                    return "v", ode
                if key == "quad":
                    return "v", quad
            _fail(e, "subscript")
        if isinstance(e, ast.UnaryOp) and isinstance(e.op, ast.USub):
            t, a = self.expr(e.operand)
            if t == "s":
                return "s", "(oopp %s)" % a
            return "v", "(vscale (oopp o1) %s)" % a
        if isinstance(e, ast.BinOp):
            ta, a = self.expr(e.left)
            if isinstance(e.op, ast.Pow):
                if ta == "s" and isinstance(e.right, ast.Constant) and isinstance(e.right.value, int) and e.right.value >= 0:
                    return "s", "(opow %s %d)" % (a, e.right.value)
                _fail(e, "power")
            tb, b = self.expr(e.right)
            op = type(e.op)
            if ta == "s" and tb == "s":
                sym = {ast.Add: "+!", ast.Sub: "-!", ast.Mult: "*!", ast.Div: "/!"}.get(op)
                if sym:
                    return "s", "(%s %s %s)" % (a, sym, b)
            if ta == "v" and tb == "v":
                if op is ast.Add:
                    return "v", "(vadd %s %s)" % (a, b)
                if op is ast.Sub:
                    return "v", "(vsub %s %s)" % (a, b)
            if ta == "s" and tb == "v" and op is ast.Mult:
                return "v", "(vscale %s %s)" % (a, b)
            if ta == "v" and tb == "s" and op is ast.Mult:
                return "v", "(vscale %s %s)" % (b, a)
            if ta == "v" and tb == "s" and op is ast.Div:
                return "v", "(vdivs %s %s)" % (a, b)
            _fail(e, "operator %s on (%s,%s)" % (op.__name__, ta, tb))
        if isinstance(e, ast.Call):
            fn = e.func
            # hcat([...]) : columns
            if isinstance(fn, ast.Name) and fn.id == "hcat" and len(e.args) == 1 and isinstance(e.args[0], ast.List):
                cols = []
                for c in e.args[0].elts:
                    t, x = self.expr(c)
                    if t != "v":
                        _fail(c, "hcat entry is not a vector")
                    cols.append(x)
                return "cols", "[" + "; ".join(cols) + "]"
        _fail(e, "expression")

    def sys_call(self, target, call):
        """k = f(x=<vec>, u=U, p=P, t=<scalar>)"""
        if not (isinstance(call.func, ast.Name) and call.func.id == self.sysf and not call.args):
            _fail(call, "system call")
        kw = {k.arg: k.value for k in call.keywords}
        if set(kw) != {"x", "u", "p", "t"}:
            _fail(call, "system call keywords")
        if not (isinstance(kw["u"], ast.Name) and kw["u"].id == self.u and isinstance(kw["p"], ast.Name) and kw["p"].id == self.p):
            _fail(call, "system call must pass the interval's own u and p")
        tx, x = self.expr(kw["x"])
        tt, t = self.expr(kw["t"])
        if tx != "v" or tt != "s":
            _fail(call, "system call argument types")
        ode, quad = target + "_ode", target + "_quad"
        self.lets.append((ode, "s_ode %s %s %s" % (self.sysf, x, t)))
        self.lets.append((quad, "s_quad %s %s %s" % (self.sysf, x, t)))
        self.sys[target] = (ode, quad)


def _find_method(tree, cls, name):
    for n in tree.body:
        if isinstance(n, ast.ClassDef) and n.name == cls:
            for m in n.body:
                if isinstance(m, ast.FunctionDef) and m.name == name:
                    return m
    raise Untranslatable("method %s.%s not found" % (cls, name))


def _is_call(e, name):
    return isinstance(e, ast.Call) and ((isinstance(e.func, ast.Name) and e.func.id == name) or
                                        (isinstance(e.func, ast.Attribute) and ast.unparse(e.func) == name))


OUT_NAMES = ['xf', 'poly_coeff', 'qf', 'poly_coeff_q', 'zf', 'poly_coeff_z']
IN_NAMES = ['x0', 'u', 't0', 'DT', 'DT_control', 'p', 'z0']


def translate_step(fn, coqname):
    """intg_rk / intg_expl_euler -> Definition coqname (f) (X) (t0 DT DT_control)"""
    args = [a.arg for a in fn.args.args]
    if args != ["self", "f", "X", "U", "P", "Z"]:
        _fail(fn, "signature")
    cx = Ctx(scalars=[], vectors=["X"])
    syms = {}
    ret = None
    for st in fn.body:
        if isinstance(st, ast.Expr) and isinstance(st.value, ast.Constant) and isinstance(st.value.value, str):
            continue
        if isinstance(st, ast.Assert):
            continue             # the guard on algebraic parts is C20's subject (rejection rules)
        if isinstance(st, ast.Return):
            ret = st.value
            break
        if not (isinstance(st, ast.Assign) and len(st.targets) == 1 and isinstance(st.targets[0], ast.Name)):
            _fail(st, "statement")
        tgt, val = st.targets[0].id, st.value
        if _is_call(val, "MX.sym"):
            a0 = val.args[0]
            if not isinstance(a0, ast.Constant):
                _fail(st, "symbol")
            if len(val.args) == 1:
                syms[tgt] = "s"; cx.ty[tgt] = "s"
            elif len(val.args) == 3 and isinstance(val.args[1], ast.Constant) and val.args[1].value == 0:
                syms[tgt] = "empty"; cx.empty.add(tgt)
            else:
                _fail(st, "symbol shape")
            continue
        if _is_call(val, cx.sysf):
            cx.sys_call(tgt, val)
            continue
        t, term = cx.expr(val)
        if tgt in cx.ty:
            _fail(st, 're-assignment after ssa')
        cx.lets.append((tgt, term))
        cx.ty[tgt] = t
    if ret is None or not _is_call(ret, "Function"):
        _fail(fn, "return")
    a = ret.args
    if len(a) != 5:
        _fail(ret, "Function(...) arity")
    ins = [ast.unparse(x) for x in a[1].elts]
    if ins != ["X", "U", "t0", "DT", "DT_control", "P", "Z0"]:
        _fail(ret, "input order")
    if [x.value for x in a[3].elts] != IN_NAMES or [x.value for x in a[4].elts] != OUT_NAMES:
        _fail(ret, "input/output names")
    for s in ("t0", "DT", "DT_control"):
        if syms.get(s) != "s":
            _fail(ret, "scalar symbol " + s)
    if syms.get("Z0") != "empty":
        _fail(ret, "Z0 must be empty")
    outs = a[2].elts
    if len(outs) != 6:
        _fail(ret, "outputs")
    txf, xf = cx.expr(outs[0])
    tpc, pc = cx.expr(outs[1])
    tqf, qf = cx.expr(outs[2])
    tpq, pq = cx.expr(outs[3])
    if tpq == "v":
        pq = "[%s]" % pq
        tpq = "cols"
    if (txf, tpc, tqf, tpq) != ("v", "cols", "v", "cols"):
        _fail(ret, "output types")
    if ast.unparse(outs[4]) not in ("MX(0, 1)",) or ast.unparse(outs[5]) not in ("MX()",):
        _fail(ret, "algebraic outputs must be empty")
    body = "".join("  let %s := %s in\n" % (n, t) for n, t in cx.lets)
    return ("Definition %s (f : sysfun F) (X : list F) (t0 DT DT_control : F) : step_result F :=\n%s"
            "  {| r_xf := %s;\n     r_poly := %s;\n     r_qf := %s;\n     r_polyq := %s |}.\n" % (coqname, body, xf, pc, qf, pq))


class _Renamer(ast.NodeTransformer):
    def __init__(self, m):
        self.m = m

    def visit_Name(self, n):
        if n.id in self.m:
            return ast.copy_location(ast.Name(id=self.m[n.id], ctx=n.ctx), n)
        return n


def ssa(fn):
    """make re-assigned local names unique (f0 -> f0, f0__1 ...) so that lets are well-scoped"""
    count, cur = {}, {}
    out = []
    for st in fn.body:
        st = _Renamer(dict(cur)).visit(st) if not isinstance(st, ast.Assign) else st
        if isinstance(st, ast.Assign) and len(st.targets) == 1 and isinstance(st.targets[0], ast.Name):
            st.value = _Renamer(dict(cur)).visit(st.value)
            name = st.targets[0].id
            if name in count:
                count[name] += 1
                new = "%s__%d" % (name, count[name])
                cur[name] = new
                st.targets[0] = ast.Name(id=new, ctx=ast.Store())
            else:
                count[name] = 0
        out.append(st)
    fn.body = out
    return fn


def translate_loop(fn):
    """the `for j in range(self.M)` loop of discrete_system -> one step of the accumulator record"""
    loop = [s for s in fn.body if isinstance(s, ast.For)]
    if len(loop) != 1:
        _fail(fn, "exactly one loop expected")
    lp = loop[0]
    if ast.unparse(lp.iter) != "range(self.M)" or lp.orelse:
        _fail(lp, "loop header")
    # initialisation before the loop
    init = {}
    for st in fn.body:
        if st is lp:
            break
        if isinstance(st, ast.Assign) and len(st.targets) == 1 and isinstance(st.targets[0], ast.Name):
            init[st.targets[0].id] = ast.unparse(st.value)
    want = {"X": "[X0]", "t0_local": "t0", "quad": "DM.zeros(stage.nxq)", "Q": "[]", "poly_coeffs": "[]",
            "poly_coeffs_q": "[]", "DT": "T / self.M"}
    for k, v in want.items():
        if init.get(k) != v:
            raise Untranslatable("discrete_system: initial value of %s is %r, expected %r" % (k, init.get(k), v))
    upd = {}
    call = None
    for st in lp.body:
        src = ast.unparse(st)
        if isinstance(st, ast.Assign) and _is_call(st.value, "intg") and ast.unparse(st.targets[0]) == "intg_res":
            kw = {k.arg: ast.unparse(k.value) for k in st.value.keywords}
            call = kw
        elif src == "X.append(intg_res['xf'])":
            upd["ds_X"] = "ds_X s ++ [r_xf r]"
        elif src == "poly_coeffs.append(intg_res['poly_coeff'])":
            upd["ds_poly"] = "ds_poly s ++ [r_poly r]"
        elif src == "poly_coeffs_q.append(intg_res['poly_coeff_q'])":
            upd["ds_polyq"] = "ds_polyq s ++ [r_polyq r]"
        elif src == "quad = quad + intg_res['qf']":
            upd["quad"] = "vadd (ds_quad s) (r_qf r)"
            if "ds_Q" in upd:
                raise Untranslatable("discrete_system: Q.append before the quadrature update")
        elif src == "Q.append(quad)":
            if "quad" not in upd:
                raise Untranslatable("discrete_system: Q.append(quad) before quad is updated")
            upd["ds_Q"] = "ds_Q s ++ [quad']"
        elif src == "t0_local += DT":
            upd["ds_t"] = "ds_t s +! DT"
        elif src in ("Zs.append(intg_res['zf'])", "poly_coeffs_z.append(intg_res['poly_coeff_z'])",
                     "Z0_current = intg_res['zf']"):
            pass    # algebraic bookkeeping: empty for the explicit schemes modelled here
        else:
            _fail(st, "loop statement")
    if call is None:
        raise Untranslatable("discrete_system: integrator call not found")
    wantc = {"x0": "X[-1]", "u": "U", "t0": "t0_local", "DT": "DT", "DT_control": "T", "p": "P", "z0": "Z0_current"}
    if call != wantc:
        raise Untranslatable("discrete_system: integrator call %r, expected %r" % (call, wantc))
    for k in ("ds_X", "ds_poly", "ds_polyq", "quad", "ds_Q", "ds_t"):
        if k not in upd:
            raise Untranslatable("discrete_system: missing update of " + k)
    # the time argument must be read before it is advanced: position of the call vs t0_local += DT
    order = [ast.unparse(s) for s in lp.body]
    if order.index("t0_local += DT") < [i for i, s in enumerate(order) if s.startswith("intg_res = intg(")][0]:
        raise Untranslatable("discrete_system: local time advanced before the step is taken")
    # returned outputs
    ret = [s for s in fn.body if isinstance(s, ast.Assign) and ast.unparse(s.targets[0]) == "ret"]
    if len(ret) != 1:
        _fail(fn, "ret")
    outs = [ast.unparse(x) for x in ret[0].value.args[2].elts]
    wanto = ["X[-1]", "hcat(X)", "hcat(poly_coeffs)", "quad", "hcat(Q)", "hcat(poly_coeffs_q)", "Zs[-1]", "hcat(Zs)",
             "hcat(poly_coeffs_z)"]
    if outs != wanto:
        raise Untranslatable("discrete_system: outputs %r" % outs)
    return ("Definition gen_ds_step (step : list F -> F -> F -> F -> step_result F) (x0 : list F)\n"
            "           (DT T : F) (s : ds_state F) : ds_state F :=\n"
            "  let r := step (last (ds_X s) x0) (ds_t s) DT T in\n"
            "  let quad' := %s in\n"
            "  {| ds_X := %s;\n     ds_t := %s;\n     ds_quad := quad';\n     ds_Q := %s;\n"
            "     ds_poly := %s;\n     ds_polyq := %s |}.\n\n"
            "Definition gen_discrete_system (step : list F -> F -> F -> F -> step_result F)\n"
            "           (M nq : nat) (x0 : list F) (T t0 : F) : ds_state F :=\n"
            "  Nat.iter M (gen_ds_step step x0 (T /! of_nat M) T)\n"
            "    {| ds_X := [x0]; ds_t := t0; ds_quad := vzero nq; ds_Q := []; ds_poly := []; ds_polyq := [] |}.\n"
            % (upd["quad"], upd["ds_X"], upd["ds_t"], upd["ds_Q"], upd["ds_poly"], upd["ds_polyq"]))


def translate_builtin(fn):
    """intg_builtin: the problem handed to a CasADi integrator: time argument of f and the scaling of ode/quad"""
    res = data = None
    for st in fn.body:
        if isinstance(st, ast.Assign) and ast.unparse(st.targets[0]) == "res" and _is_call(st.value, "f") and res is None:
            res = {k.arg: ast.unparse(k.value) for k in st.value.keywords}
        if isinstance(st, ast.Assign) and ast.unparse(st.targets[0]) == "data" and isinstance(st.value, ast.Dict):
            data = {k.value: ast.unparse(v) for k, v in zip(st.value.keys, st.value.values)}
    if res is None or data is None:
        raise Untranslatable("intg_builtin: system call or dae dictionary not found")
    cx = Ctx(scalars=["t0", "t", "DT"], vectors=[])
    tt, targ = cx.expr(ast.parse(res["t"], mode="eval").body)
    if res.get("x") != "X" or res.get("u") != "U" or res.get("p") != "P" or res.get("z") != "Z" or tt != "s":
        raise Untranslatable("intg_builtin: system call %r" % res)

    def scale_of(entry, key):
        e = ast.parse(entry, mode="eval").body
        if ast.unparse(e) == "res['%s']" % key:
            return "o1"
        if isinstance(e, ast.BinOp) and isinstance(e.op, ast.Mult) and ast.unparse(e.right) == "res['%s']" % key:
            t, s = cx.expr(e.left)
            if t == "s":
                return s
        raise Untranslatable("intg_builtin: entry %s = %s" % (key, entry))
    if data.get("x") != "X" or data.get("t") != "t" or data.get("z") != "Z":
        raise Untranslatable("intg_builtin: dae dictionary %r" % data)
    return ("Definition gen_builtin_time (t0 t DT : F) : F := %s.\n"
            "Definition gen_builtin_ode_scale (DT : F) : F := %s.\n"
            "Definition gen_builtin_quad_scale (DT : F) : F := %s.\n"
            "Definition gen_builtin_alg_scale (DT : F) : F := %s.\n"
            % (targ, scale_of(data["ode"], "ode"), scale_of(data["quad"], "quad"), scale_of(data["alg"], "alg")))


# ------------------------------------------------------------------ DirectCollocation.add_constraints
class DcCtx:
    """expressions of the collocation loop: indexed reads of the method's lists become the model's arguments"""
    ATOMS = {
        "self.Xc[k][i]": ("cols", "Xc"), "self.Zc[k][i]": ("cols", "Zc"),
        "self.Xc[k][i][:, j + 1]": ("v", "(nth (S j) Xc [])"), "self.Zc[k][i][:, j]": ("v", "(nth j Zc [])"),
        "self.Xc[k][i + 1][:, 0]": ("v", "(nth 0 Xc_next [])"), "self.X[k + 1]": ("v", "Xk1"), "self.U[k]": ("v", "Uk"),
        "self.C[:, j]": ("w", "(col C j)"), "self.D": ("w", "D"), "self.B[j]": ("s", "(nth j B o0)"),
        "self.tr[k][i][j]": ("s", "tr_kij"), "dt": ("s", "dt"), "self.q": ("v", "q"),
        "self.integrator_grid[k][i]": ("s", "ig_ki"), "self.tau[j]": ("s", "(nth j tau o0)"),
        "self.control_grid[k + 1]": ("s", "cg_k1"), "self.control_grid[k]": ("s", "cg_k"), "self.M": ("s", "(of_nat M)"),
        "res['ode']": ("v", "ode"), "res['quad']": ("v", "quad"), "res['alg']": ("v", "alg"),
        "Pidot_j": ("v", "Pidot_j"), "x_next": ("v", "x_next"),
    }

    def expr(self, e):
        src = ast.unparse(e)
        if src in self.ATOMS:
            return self.ATOMS[src]
        if isinstance(e, ast.Constant) and isinstance(e.value, int) and not isinstance(e.value, bool):
            return "s", "(of_Z %d)" % e.value
        if isinstance(e, ast.Call) and isinstance(e.func, ast.Name) and e.func.id == "mtimes" and len(e.args) == 2:
            ta, a = self.expr(e.args[0])
            tb, b = self.expr(e.args[1])
            if (ta, tb) == ("cols", "w"):
                return "v", "(wsum %s %s)" % (b, a)
            _fail(e, "mtimes")
        if isinstance(e, ast.BinOp):
            ta, a = self.expr(e.left)
            tb, b = self.expr(e.right)
            op = type(e.op)
            if ta == "s" and tb == "s":
                sym = {ast.Add: "+!", ast.Sub: "-!", ast.Mult: "*!", ast.Div: "/!"}.get(op)
                if sym:
                    return "s", "(%s %s %s)" % (a, sym, b)
            if ta == "v" and tb == "v" and op in (ast.Add, ast.Sub):
                return "v", "(%s %s %s)" % ("vadd" if op is ast.Add else "vsub", a, b)
            if ta == "v" and tb == "s" and op is ast.Mult:
                return "v", "(vscale %s %s)" % (b, a)
            if ta == "s" and tb == "v" and op is ast.Mult:
                return "v", "(vscale %s %s)" % (a, b)
            if ta == "v" and tb == "s" and op is ast.Div:
                return "v", "(vdivs %s %s)" % (a, b)
        _fail(e, "collocation expression")


def translate_dc(fn):
    cx = DcCtx()
    found = {}
    for st in ast.walk(fn):
        if isinstance(st, ast.Assign) and len(st.targets) == 1:
            tgt = ast.unparse(st.targets[0])
            if tgt == "dt" and ast.unparse(st.value) != "dts[k]":
                found.setdefault("dt", []).append(st.value)
            elif tgt == "Pidot_j":
                found.setdefault("Pidot", []).append(st.value)
            elif tgt == "self.q" and ast.unparse(st.value) != "0":
                found.setdefault("q", []).append(st.value)
            elif tgt == "x_next":
                found.setdefault("x_next", []).append(st.value)
            elif tgt == "res" and _is_call(st.value, "f"):
                found.setdefault("res", []).append(st.value)
        if isinstance(st, ast.Expr) and isinstance(st.value, ast.Call):
            c = st.value
            src = ast.unparse(c.func)
            if src == "tr.append" and isinstance(c.args[0], ast.ListComp):
                found.setdefault("tr", []).append(c.args[0])
            if src == "opti.subject_to" and c.args and isinstance(c.args[0], ast.Compare):
                cmp_ = c.args[0]
                kw = {k.arg: ast.unparse(k.value) for k in c.keywords}
                l, r = ast.unparse(cmp_.left), ast.unparse(cmp_.comparators[0])
                if l == "Pidot_j":
                    found.setdefault("colloc_row", []).append((cmp_, kw))
                elif r == "x_next":
                    found.setdefault("cont_row", []).append((cmp_, kw))
                elif r == "res['alg']":
                    found.setdefault("alg_row", []).append((cmp_, kw))
    need = {"dt": 2, "Pidot": 1, "q": 1, "x_next": 1, "res": 1, "tr": 1, "colloc_row": 1, "cont_row": 1, "alg_row": 1}
    for k, n in need.items():
        if len(found.get(k, [])) != n:
            raise Untranslatable("DirectCollocation.add_constraints: expected %d statement(s) of kind %s, found %d" % (n, k, len(found.get(k, []))))
    dts = [cx.expr(e) for e in found["dt"]]
    if dts[0] != dts[1] or dts[0][0] != "s":
        raise Untranslatable("DirectCollocation: the step length is computed in two different ways: %r" % (dts,))
    lc = found["tr"][0]
    if len(lc.generators) != 1 or ast.unparse(lc.generators[0].iter) != "range(self.degree)" or ast.unparse(lc.generators[0].target) != "j":
        _fail(lc, "root-time comprehension")
    ttr, tr = cx.expr(lc.elt)
    tp, pidot = cx.expr(found["Pidot"][0])
    tq, qn = cx.expr(found["q"][0])
    res = {k.arg: ast.unparse(k.value) for k in found["res"][0].keywords}
    want = {"x": "self.Xc[k][i][:, j + 1]", "u": "self.U[k]", "z": "self.Zc[k][i][:, j]", "p": "p_total", "t": "self.tr[k][i][j]"}
    if res != want:
        raise Untranslatable("DirectCollocation: system call %r, expected %r" % (res, want))
    xn = found["x_next"][0]
    if not (isinstance(xn, ast.IfExp) and ast.unparse(xn.test) == "i == self.M - 1"):
        _fail(xn, "x_next")
    tb1, b1 = cx.expr(xn.body)
    tb2, b2 = cx.expr(xn.orelse)
    crow, ckw = found["colloc_row"][0]
    if ast.unparse(crow.comparators[0]) != "res['ode']" or not isinstance(crow.ops[0], ast.Eq) or ckw != {"scale": "scale_der_x"}:
        _fail(crow, "collocation row")
    trow, tkw = found["cont_row"][0]
    tl, contl = cx.expr(trow.left)
    if not isinstance(trow.ops[0], ast.Eq) or tkw != {"scale": "scale_x"}:
        _fail(trow, "continuity row")
    arow, akw = found["alg_row"][0]
    if ast.unparse(arow.left) != "0" or not isinstance(arow.ops[0], ast.Eq):
        _fail(arow, "algebraic row")
    if (ttr, tp, tq, tb1, tb2, tl) != ("s", "v", "v", "v", "v", "v"):
        raise Untranslatable("DirectCollocation: unexpected types")
    return (
        "Definition gen_dc_dt (cg_k cg_k1 : F) (M : nat) : F := %s.\n"
        "Definition gen_dc_t_root (ig_ki dt : F) (tau : list F) (j : nat) : F := %s.\n"
        "Definition gen_dc_Pidot (Xc C : list (list F)) (j : nat) (dt : F) : list F := %s.\n"
        "(* arguments of the system function at root (k,i,j): x, u, z, t *)\n"
        "Definition gen_dc_sys_x (Xc : list (list F)) (j : nat) : list F := %s.\n"
        "Definition gen_dc_sys_z (Zc : list (list F)) (j : nat) : list F := %s.\n"
        "Definition gen_dc_quad (q quad : list F) (dt : F) (B : list F) (j : nat) : list F := %s.\n"
        "Definition gen_dc_x_next (Xk1 : list F) (Xc_next : list (list F)) (i M : nat) : list F :=\n"
        "  if Nat.eqb i (M - 1) then %s else %s.\n"
        "Definition gen_dc_cont_lhs (Xc : list (list F)) (D : list F) : list F := %s.\n"
        % (dts[0][1], tr, pidot, cx.ATOMS[want["x"]][1], cx.ATOMS[want["z"]][1], qn, b1, b2, contl))


# ------------------------------------------------------------------ sampling index logic (eval_at_control & co.)
class SmpCtx:
    """Python index expressions of SamplingMethod -> Gallina over the record mlists (Mech/Sampling.v).
    Types: 'z' Python int (Z), 'n' non-negative int (nat), 'b' bool, 'f' scalar, 'c' column (list F)"""
    COLS = {"self.X": "(L_X L)", "self.U": "(L_U L)", "self.Z": "(L_Z L)", "self.Q": "(L_Q L)"}
    GETTERS = {"get_p_control_at": "(L_PC L)", "get_v_control_at": "(L_VC L)",
               "get_p_control_plus_at": "(L_PP L)", "get_v_control_plus_at": "(L_VP L)"}
    LENS = {"len(self.U)": "(Z.of_nat (length (L_U L)))", "len(self.integrator_grid)": "(Z.of_nat (length (L_ig L)))"}

    def __init__(self, zvars=("k",), nvars=(), locals_=None, lists=None):
        self.zvars, self.nvars = set(zvars), set(nvars)
        self.locals = dict(locals_ or {})
        # names of the record fields as they appear in the standalone functions get_DT_*
        self.lists = lists or {"cg": "(L_cg L)", "ig": "(L_ig L)", "N": "(L_N L)", "M": "(L_M L)"}

    def z(self, e):
        src = ast.unparse(e)
        if src in self.LENS:
            return self.LENS[src]
        if isinstance(e, ast.Name) and e.id in self.zvars:
            return e.id
        if isinstance(e, ast.Name) and e.id in self.nvars:
            return "(Z.of_nat %s)" % e.id
        if isinstance(e, ast.Constant) and isinstance(e.value, int) and not isinstance(e.value, bool):
            return "%d" % e.value if e.value >= 0 else "(%d)" % e.value
        if isinstance(e, ast.UnaryOp) and isinstance(e.op, ast.USub):
            return "(- %s)" % self.z(e.operand)
        if src == "self.N":
            return "(Z.of_nat %s)" % self.lists["N"]
        if isinstance(e, ast.BinOp) and isinstance(e.op, (ast.Add, ast.Sub)):
            return "(%s %s %s)" % (self.z(e.left), "+" if isinstance(e.op, ast.Add) else "-", self.z(e.right))
        if isinstance(e, ast.IfExp):
            return "(if %s then %s else %s)" % (self.b(e.test), self.z(e.body), self.z(e.orelse))
        _fail(e, "integer (Z) expression")

    def n(self, e):
        src = ast.unparse(e)
        if isinstance(e, ast.Name) and e.id in self.nvars:
            return e.id
        if isinstance(e, ast.Constant) and isinstance(e.value, int) and e.value >= 0 and not isinstance(e.value, bool):
            return "%d" % e.value
        if src == "self.M":
            return self.lists["M"]
        if src.endswith(".numel()") and src[:-8] in self.locals and self.locals[src[:-8]][0] == "row":
            return "(length %s)" % self.locals[src[:-8]][1]
        if isinstance(e, ast.BinOp) and isinstance(e.op, (ast.Add, ast.Sub, ast.Mult)):
            return "(%s %s %s)" % (self.n(e.left), {ast.Add: "+", ast.Sub: "-", ast.Mult: "*"}[type(e.op)], self.n(e.right))
        if isinstance(e, ast.IfExp):
            return "(if %s then %s else %s)" % (self.b(e.test), self.n(e.body), self.n(e.orelse))
        _fail(e, "index (nat) expression")

    def b(self, e):
        if isinstance(e, ast.BoolOp):
            op = " || " if isinstance(e.op, ast.Or) else " && "
            return "(" + op.join(self.b(v) for v in e.values) + ")"
        if isinstance(e, ast.Compare) and len(e.ops) == 1 and isinstance(e.ops[0], ast.In) and isinstance(e.comparators[0], (ast.Tuple, ast.List)):
            # k in (a, b): membership in a literal tuple is the disjunction of the equalities, in order
            lz = self.z(e.left)
            return "(" + " || ".join("(%s =? %s)%%Z" % (lz, self.z(x)) for x in e.comparators[0].elts) + ")"
        if isinstance(e, ast.Compare) and len(e.ops) == 1:
            l, r, op = e.left, e.comparators[0], e.ops[0]
            # nat comparison when both sides are nat-typed (i < numel - 1), Z otherwise
            try:
                ln, rn = self.n(l), self.n(r)
                if isinstance(op, ast.Lt):
                    return "(Nat.ltb %s %s)" % (ln, rn)
            except Untranslatable:
                pass
            lz, rz = self.z(l), self.z(r)
            if isinstance(op, ast.Eq):
                return "(%s =? %s)%%Z" % (lz, rz)
            if isinstance(op, ast.NotEq):
                return "(negb (%s =? %s)%%Z)" % (lz, rz)
            if isinstance(op, ast.Lt):
                return "(%s <? %s)%%Z" % (lz, rz)
            if isinstance(op, ast.Gt):
                return "(%s <? %s)%%Z" % (rz, lz)
        _fail(e, "condition")

    def f(self, e):
        """scalar F"""
        src = ast.unparse(e)
        if src == "self.t0":
            return "(L_t0 L)"
        if src == "self.T":
            return "(L_T L)"
        if isinstance(e, ast.Name) and e.id in self.locals and self.locals[e.id][0] == "f":
            return self.locals[e.id][1]
        if isinstance(e, ast.BinOp) and isinstance(e.op, ast.Sub):
            return "(%s -! %s)" % (self.f(e.left), self.f(e.right))
        if isinstance(e, ast.Subscript):
            base = ast.unparse(e.value)
            if base == "self.control_grid":
                return "(pygetd o0 %s %s)" % (self.lists["cg"], self.z(e.slice))
            if base in self.locals and self.locals[base][0] == "row":          # an integrator-grid row, index >= 0
                return "(nth %s %s o0)" % (self._succ(self.n(e.slice)), self.locals[base][1])
            if isinstance(e.value, ast.Subscript) and ast.unparse(e.value.value) == "self.integrator_grid":
                return "(nth %s (pygetd [] %s %s) o0)" % (self._succ(self.n(e.slice)), self.lists["ig"], self.z(e.value.slice))
            if src == "self.tr[k][i][j]" and {"k", "i", "j"} <= self.nvars:
                return "(nth j (nth i (nth k (L_tr L) []) []) o0)"
        if isinstance(e, ast.Call) and ast.unparse(e.func) == "self.get_DT_control_at" and len(e.args) == 1:
            return "(gen_get_DT_control_at %s %s %s)" % (self.lists["cg"], self.lists["N"], self.z(e.args[0]))
        if isinstance(e, ast.Call) and ast.unparse(e.func) == "self.get_DT_at" and len(e.args) == 2:
            return "(gen_get_DT_at %s %s %s)" % (self.lists["ig"], self.z(e.args[0]), self.n(e.args[1]))
        if isinstance(e, ast.IfExp):
            return "(if %s then %s else %s)" % (self.b(e.test), self.f(e.body), self.f(e.orelse))
        _fail(e, "scalar expression")

    @staticmethod
    def _succ(t):
        # (i + 1) -> S i, to match the model's spelling
        if t.startswith("(") and t.endswith(" + 1)"):
            return "(S %s)" % t[1:-5]
        return t

    def c(self, e):
        """column (list F)"""
        src = ast.unparse(e)
        if src == "self.V":
            return "(L_V L)"
        if src == "veccat(*self.P)":
            return "(L_P L)"
        if isinstance(e, ast.Name) and e.id in self.locals and self.locals[e.id][0] == "c":
            return self.locals[e.id][1]
        if isinstance(e, ast.Subscript) and ast.unparse(e.value) in self.COLS:
            return "(colget %s %s)" % (self.COLS[ast.unparse(e.value)], self.z(e.slice))
        FLAT = {"self.xk": "(L_xk L)", "self.xqk": "(L_xqk L)", "self.zk": "(L_zk L)"}
        if isinstance(e, ast.Subscript) and ast.unparse(e.value) in FLAT:
            return "(nth %s %s [])" % (self.n(e.slice), FLAT[ast.unparse(e.value)])
        if src in ("self.xr[k][i][:, j]", "self.zr[k][i][:, j]") and {"k", "i", "j"} <= self.nvars:
            return "(nth j (nth i (nth k (L_%s L) []) []) [])" % src[5:7]
        if isinstance(e, ast.Call) and isinstance(e.func, ast.Attribute) and e.func.attr in self.GETTERS \
                and ast.unparse(e.func.value) == "self" and len(e.args) == 2 and ast.unparse(e.args[0]) == "stage":
            return "(colget %s %s)" % (self.GETTERS[e.func.attr], self.z(e.args[1]))
        if isinstance(e, ast.IfExp):
            # `A[k] if A else nan`: an empty list stands for "no such symbols"; colget of [] is the empty column
            if ast.unparse(e.test) in self.COLS and ast.unparse(e.orelse) == "nan" and isinstance(e.body, ast.Subscript) \
                    and ast.unparse(e.body.value) == ast.unparse(e.test):
                return self.c(e.body)
            # the algebraic lists zk / zr are filled together: `... if self.zk else nan`
            if ast.unparse(e.test) == "self.zk" and ast.unparse(e.orelse) == "nan":
                return self.c(e.body)
            return "(if %s then %s else %s)" % (self.b(e.test), self.c(e.body), self.c(e.orelse))
        _fail(e, "column expression")


KW_FIELDS = [("x", "e_x", "c"), ("u", "e_u", "c"), ("z", "e_z", "c"), ("xq", "e_q", "c"), ("p", "e_p", "c"),
             ("p_control", "e_pc", "c"), ("p_control_plus", "e_pp", "c"), ("v", "e_v", "c"), ("v_control", "e_vc", "c"),
             ("v_control_plus", "e_vp", "c"), ("t", "e_t", "f"), ("T", "e_T", "f"), ("t0", "e_t0", "f"), ("DT", "e_DT", "f"),
             ("DT_control", "e_DTc", "f")]
XQ_BLOCK = "if self.Q:\n    xq = self.Q[k]\nelif k == -1:\n    xq = self.q\nelse:\n    xq = nan"
GETTER_BODY = "return veccat(*[%s[k] for %s in self.%s])"


def _env_from_call(cx, call, extra_ok, no_xq=False):
    kw = {k.arg: k.value for k in call.keywords}
    fields = []
    for name, field, ty in KW_FIELDS:
        if name not in kw:
            if name == "xq" and no_xq:
                fields.append("e_q := []")
                continue
            raise Untranslatable("_expr_apply call lacks keyword " + name)
        fields.append("%s := %s" % (field, cx.c(kw[name]) if ty == "c" else cx.f(kw[name])))
    for name in kw:
        if name not in [n for n, _, _ in KW_FIELDS] and name not in extra_ok:
            raise Untranslatable("_expr_apply call has an unknown keyword " + name)
    return "{| " + ";\n     ".join(fields) + " |}"


def _assign_locals(cx, body, stop_at_return=True):
    """simple local assignments `name = expr` (typed by trying column, then scalar) and the xq block"""
    for st in body:
        if isinstance(st, ast.Return):
            return st
        src = ast.unparse(st)
        if src == XQ_BLOCK:
            cx.locals["xq"] = ("c", "(colget (L_Q L) k)")       # assumption recorded in DESIGN: the Q list is filled
            continue
        if isinstance(st, ast.If) and len(st.body) == 1 and len(st.orelse) == 1 and isinstance(st.body[0], ast.Assign) \
                and isinstance(st.orelse[0], ast.Assign) and ast.unparse(st.body[0].targets[0]) == ast.unparse(st.orelse[0].targets[0]):
            tgt = ast.unparse(st.body[0].targets[0])
            cx.locals[tgt] = ("f", "(if %s then %s else %s)" % (cx.b(st.test), cx.f(st.body[0].value), cx.f(st.orelse[0].value)))
            continue
        if isinstance(st, ast.Assign) and len(st.targets) == 1 and isinstance(st.targets[0], ast.Name):
            tgt = st.targets[0].id
            try:
                cx.locals[tgt] = ("c", cx.c(st.value))
            except Untranslatable:
                try:
                    cx.locals[tgt] = ("f", cx.f(st.value))
                except Untranslatable:
                    cx.locals[tgt] = ("?", None)     # not used by the environment (e.g. v_states): checked at use
            continue
        _fail(st, "statement")
    return None


def translate_sampling(tree):
    cls = "SamplingMethod"
    out = []
    # the per-interval getters must be the plain column reads the model takes them for
    for g, lst in (("get_p_control_at", "P_control"), ("get_v_control_at", "V_control"),
                   ("get_p_control_plus_at", "P_control_plus"), ("get_v_control_plus_at", "V_control_plus")):
        fn = _find_method(tree, cls, g)
        body = [ast.unparse(st) for st in fn.body if not (isinstance(st, ast.Expr) and isinstance(st.value, ast.Constant))]
        v = "p" if g.startswith("get_p") else "v"
        if body != [GETTER_BODY % (v, v, lst)]:
            raise Untranslatable("%s: body %r" % (g, body))
    # get_DT_control_at(k)
    fn = _find_method(tree, cls, "get_DT_control_at")
    cx = SmpCtx(lists={"cg": "cg", "ig": "ig", "N": "N", "M": "M"})
    st = fn.body
    if not (len(st) == 2 and isinstance(st[0], ast.If) and len(st[0].body) == 1 and isinstance(st[0].body[0], ast.Return)
            and not st[0].orelse and isinstance(st[1], ast.Return)):
        _fail(fn, "get_DT_control_at")
    out.append("Definition gen_get_DT_control_at (cg : list F) (N : nat) (k : Z) : F :=\n  if %s then %s else %s.\n"
               % (cx.b(st[0].test), cx.f(st[0].body[0].value), cx.f(st[1].value)))
    # get_DT_at(k, i)
    fn = _find_method(tree, cls, "get_DT_at")
    cx = SmpCtx(zvars=("k",), nvars=("i",), lists={"cg": "cg", "ig": "ig", "N": "N", "M": "M"})
    st = fn.body
    if not (len(st) == 2 and ast.unparse(st[0]) == "integrator_grid = self.integrator_grid[k]" and isinstance(st[1], ast.If)
            and len(st[1].body) == 1 and len(st[1].orelse) == 1):
        _fail(fn, "get_DT_at")
    cx.locals["integrator_grid"] = ("row", "igk")
    out.append("Definition gen_get_DT_at (ig : list (list F)) (k : Z) (i : nat) : F :=\n  let igk := pygetd [] ig k in\n"
               "  if %s then %s else %s.\n" % (cx.b(st[1].test), cx.f(st[1].body[0].value), cx.f(st[1].orelse[0].value)))
    # eval_at_control: the offset loop and the outer environment
    fn = _find_method(tree, cls, "eval_at_control")
    loops = [s_ for s_ in fn.body if isinstance(s_, ast.For) and ast.unparse(s_.iter) == "offsets.keys()"]
    if len(loops) != 1:
        _fail(fn, "offset loop")
    lp = loops[0]
    cx = SmpCtx(zvars=("k", "offset", "k_node"))
    conds, knode, target = [], None, None
    for s_ in lp.body:
        if isinstance(s_, ast.If) and len(s_.body) == 1 and ast.unparse(s_.body[0]) == "raise IndexError()" and not s_.orelse:
            conds.append(cx.b(s_.test) if knode is None else cx.b(s_.test).replace("k_node", "(%s)" % knode))
        elif isinstance(s_, ast.Assign) and ast.unparse(s_.targets[0]) == "k_node":
            knode = cx.z(s_.value)
        elif ast.unparse(s_).startswith("subst_from.append("):
            if ast.unparse(s_) != "subst_from.append(vvcat(symbols[offset]))":
                _fail(s_, "offset loop")
        elif ast.unparse(s_).startswith("subst_to.append("):
            c = s_.value.args[0]
            if not (_is_call(c, "self._eval_at_control") and ast.unparse(c.args[0]) == "stage"
                    and ast.unparse(c.args[1]) == "vvcat(offsets[offset])"):
                _fail(s_, "offset operand evaluation")
            target = cx.z(c.args[2]).replace("k_node", "(%s)" % knode)
        else:
            _fail(s_, "offset loop statement")
    if knode is None or target is None or len(conds) != 2:
        _fail(lp, "offset loop shape")
    out.append("(* eval_at_control: an offset operand is dropped (IndexError) when one of the guards holds, else it is\n"
               "   evaluated by _eval_at_control at the index gen_offset_target *)\n"
               "Definition gen_offset_dropped (L : mlists F) (k offset : Z) : bool := %s || %s.\n"
               "Definition gen_offset_target (L : mlists F) (k offset : Z) : Z := %s.\n" % (conds[0], conds[1], target))
    cx = SmpCtx()
    pre = [s_ for s_ in fn.body if not isinstance(s_, (ast.Try, ast.For)) and not ast.unparse(s_).startswith(("offsets =", "symbols =", "subst_from =", "subst_to ="))]
    # locals DT_control, DT, xq then `expr = stage._expr_apply(...)`
    call = None
    body = []
    for s_ in pre:
        if isinstance(s_, ast.Assign) and ast.unparse(s_.targets[0]) == "expr" and _is_call(s_.value, "stage._expr_apply"):
            call = s_.value
            break
        body.append(s_)
    if call is None:
        _fail(fn, "eval_at_control: _expr_apply call")
    # the nested `if self.Q: ... else: if k==-1 ...` is printed by ast.unparse as if/elif/else
    _assign_locals(cx, body)
    out.append("Definition gen_env_control (L : mlists F) (k : Z) : env F :=\n  %s.\n" % _env_from_call(cx, call, ("sub", "signals", "v_states")))
    # _eval_at_control
    fn = _find_method(tree, cls, "_eval_at_control")
    cx = SmpCtx()
    ret = _assign_locals(cx, fn.body)
    if ret is None or not _is_call(ret.value, "stage._expr_apply"):
        _fail(fn, "_eval_at_control: return")
    out.append("Definition gen_env_inner (L : mlists F) (k : Z) : env F :=\n  %s.\n" % _env_from_call(cx, ret.value, ("v_states",)))
    # eval_at_integrator(k, i), eval_at_integrator_root(k, i, j): indices of integrator steps / roots (never negative)
    for name, nv, coqn, noxq in (("eval_at_integrator", ("k", "i"), "gen_env_integrator (L : mlists F) (k i : nat)", False),
                                 ("eval_at_integrator_root", ("k", "i", "j"), "gen_env_root (L : mlists F) (k i j : nat)", True)):
        fn = _find_method(tree, cls, name)
        cx = SmpCtx(zvars=(), nvars=nv)
        ret = _assign_locals(cx, fn.body)
        if ret is None or not _is_call(ret.value, "stage.master._method.eval_top") or len(ret.value.args) != 2 \
                or not _is_call(ret.value.args[1], "stage._expr_apply"):
            _fail(fn, name + ": return")
        out.append("Definition %s : env F :=\n  %s.\n" % (coqn, _env_from_call(cx, ret.value.args[1], ("v_states",), no_xq=noxq)))
    return "\n".join(out)


HEADER_SMP = """(* GENERATED on every run by harness/translate.py from %s (sha256 %s).  Do not edit. *)
From Coq Require Import ZArith QArith List Bool.
From RV Require Import Base.Num Base.PyList Base.Vec Expr Mech.Grid Mech.Sampling.
Import ListNotations.

Section GenSmp.
Context {F : Type} {OF : Ops F}.

"""


def generate_smp(repo=None):
    repo = repo or REPO
    path = os.path.join(repo, "rockit", "sampling_method.py")
    src = open(path).read()
    body = translate_sampling(ast.parse(src))
    return HEADER_SMP % ("rockit/sampling_method.py", hashlib.sha256(src.encode()).hexdigest()[:16]) + body + "\nEnd GenSmp.\n"


# ------------------------------------------------------------------ first pass of the shooting transcriptions
def _cg(e):
    """self.control_grid[k] / [k + 1] and differences of them"""
    src = ast.unparse(e)
    if src == "self.control_grid[k]":
        return "(nth k cg o0)"
    if src == "self.control_grid[k + 1]":
        return "(nth (S k) cg o0)"
    if isinstance(e, ast.BinOp) and isinstance(e.op, ast.Sub):
        return "(%s -! %s)" % (_cg(e.left), _cg(e.right))
    _fail(e, "control-grid expression")


def translate_shoot(tree, cls, coqname):
    fn = _find_method(tree, cls, "add_constraints")
    loops = [s_ for s_ in fn.body if isinstance(s_, ast.For) and ast.unparse(s_.iter) == "range(self.N)"]
    if len(loops) != 2:
        _fail(fn, cls + ": two loops over the control intervals expected")
    first, second = loops
    single = False
    seen = {}
    order = []
    IGNORED = ("poly_coeff_temp = FF['poly_coeff']", "poly_coeff_q_temp = FF['poly_coeff_q']", "poly_coeff_z_temp = FF['poly_coeff_z']",
               "zk_temp = FF['Zi']", "self.zk.extend([zk_temp[:, i] for i in range(self.M)])", "self.Z.append(FF['zf'])")
    for st in first.body:
        src = ast.unparse(st)
        if isinstance(st, ast.Assign) and ast.unparse(st.targets[0]) == "FF" and _is_call(st.value, "F"):
            kw = {k.arg: k.value for k in st.value.keywords}
            if set(kw) != {"x0", "u", "t0", "T", "p", "z0"} or ast.unparse(kw["x0"]) != "self.X[k]" or ast.unparse(kw["u"]) != "self.U[k]" \
                    or ast.unparse(kw["p"]) != "self.get_p_sys(stage, k)":
                _fail(st, cls + ": call of the discretised system")
            seen["t0"], seen["T"] = _cg(kw["t0"]), _cg(kw["T"])
        elif src == "self.X[k + 1] = FF['xf']":
            single = True
        elif src == "xk_temp = FF['Xi']":
            seen["xk_temp"] = True
        elif src == "xqk_temp = self.q + FF['Qi']":
            seen["xqk_temp"] = True
        elif src == "self.xk.extend([xk_temp[:, i] for i in range(self.M)])":
            seen["xk"] = True
        elif src == "self.xqk.extend([xqk_temp[:, i] for i in range(self.M)])":
            seen["xqk"] = True
        elif src == "self.q = self.q + FF['qf']":
            seen["q"] = True
        elif src == "self.Q[k + 1] = self.q":
            if "q" not in seen:
                _fail(st, cls + ": Q[k+1] stored before the quadrature is advanced")
            seen["Q"] = True
        elif src == "FFs.append(FF)":
            seen["FFs"] = True
        elif src in IGNORED or src.startswith(("if k == 0:\n    self.Z.append(zk_temp[:, 0])", "if self.poly_coeff")):
            pass        # algebraic / dense-output bookkeeping: dense output is tied through discrete_system's outputs
        else:
            _fail(st, cls + ": statement of the first pass")
        order.append(src)
    for k_ in ("t0", "T", "xk_temp", "xqk_temp", "xk", "xqk", "q", "Q", "FFs"):
        if k_ not in seen:
            raise Untranslatable("%s.add_constraints: first pass lacks %s" % (cls, k_))
    if order.index("xqk_temp = self.q + FF['Qi']") > order.index("self.q = self.q + FF['qf']"):
        raise Untranslatable(cls + ": integrator-point quadratures computed after the quadrature was advanced")
    after = [ast.unparse(s_) for s_ in fn.body]
    if "self.xk.append(self.X[-1])" not in after:
        raise Untranslatable(cls + ": final integrator state not appended")
    gap = [ast.unparse(s_) for s_ in second.body if ast.unparse(s_).startswith("opti.subject_to(self.X[k + 1]")]
    if single:
        if gap:
            raise Untranslatable(cls + ": single shooting with gap-closing rows")
    elif gap != ["opti.subject_to(self.X[k + 1] == FF['xf'], scale=scale_x)"] or "FF = FFs[k]" not in [ast.unparse(s_) for s_ in second.body]:
        raise Untranslatable(cls + ": gap-closing row %r" % gap)
    x0 = "last (a_X a) []" if single else "nth k (p_X pt) []"
    return ("Definition %s (oc : ocp) (pt : point F) (cg : list F) (a : shoot_acc F) (k : nat) : shoot_acc F :=\n"
            "  let M := m_M (o_method oc) in\n"
            "  let xk := %s in\n"
            "  let ff := discrete_system (step_of oc pt k) M (length (o_quad oc)) xk %s %s in\n"
            "  let xqk_temp := map (vadd (a_q a)) (ds_Q ff) in\n"
            "  let q' := vadd (a_q a) (ds_quad ff) in\n"
            "  {| a_X := a_X a ++ [ds_xf xk ff]; a_q := q'; a_Q := a_Q a ++ [q'];\n"
            "     a_xk := a_xk a ++ firstn M (ds_X ff); a_xqk := a_xqk a ++ xqk_temp; a_FF := a_FF a ++ [ff] |}.\n"
            "Definition %s_has_gap_rows : bool := %s.\n" % (coqname, x0, seen["T"], seen["t0"], coqname, "false" if single else "true"))


HEADER_SH = """(* GENERATED on every run by harness/translate.py from %s.  Do not edit. *)
From Coq Require Import ZArith QArith List Bool.
From RV Require Import Base.Num Base.PyList Base.Vec Expr Ocp Rows Mech.Grid Mech.Intg Mech.Sampling Mech.Shooting.
Import ListNotations.

Section GenShoot.
Context {F : Type} {OF : Ops F}.

"""


def generate_shoot(repo=None):
    repo = repo or REPO
    parts, srcs = [], []
    for fname, cls, coqname in (("multiple_shooting.py", "MultipleShooting", "gen_ms_step"), ("single_shooting.py", "SingleShooting", "gen_ss_step")):
        src = open(os.path.join(repo, "rockit", fname)).read()
        srcs.append("rockit/%s (sha256 %s)" % (fname, hashlib.sha256(src.encode()).hexdigest()[:16]))
        parts.append(translate_shoot(ast.parse(src), cls, coqname))
    return HEADER_SH % " and ".join(srcs) + "\n".join(parts) + "\nEnd GenShoot.\n"


# ------------------------------------------------------------------ layout of the parameter input of the system function
KIND_TAG = {"": "LGlobal", "control": "LControl", "control+": "LControlPlus", "bspline": "LBspline"}


def translate_layout(stage_tree, smp_tree):
    """two cooperating sites: Stage.p / Stage.v define the ORDER OF SYMBOLS of the system function's parameter input
    vertcat(stage.p, stage.v); SamplingMethod.get_p_sys supplies the VALUES in an order of its own"""
    def kinds_of(prop, table):
        fn = _find_method(stage_tree, "Stage", prop)
        st = [s_ for s_ in fn.body if isinstance(s_, ast.Assign) and ast.unparse(s_.targets[0]) == "arg"]
        if len(st) != 1:
            _fail(fn, "Stage.%s" % prop)
        out = []

        def walk(e):
            if isinstance(e, ast.BinOp) and isinstance(e.op, ast.Add):
                walk(e.left); walk(e.right)
            elif isinstance(e, ast.Subscript) and ast.unparse(e.value) == "self." + table and isinstance(e.slice, ast.Constant) \
                    and e.slice.value in KIND_TAG:
                out.append(e.slice.value)
            else:
                _fail(e, "Stage.%s: term of the concatenation" % prop)
        walk(st[0].value)
        tail = "\n".join(ast.unparse(s_) for s_ in fn.body if not (isinstance(s_, ast.Assign) and ast.unparse(s_.targets[0]) == "arg")
                         and not (isinstance(s_, ast.Expr) and isinstance(s_.value, ast.Constant)))
        if tail not in ("return MX(0, 1) if len(arg) == 0 else vvcat(arg)",
                        "if len(arg) == 0:\n    return MX(0, 1)\nreturn vvcat(arg)",
                        "if len(arg) == 0:\n    return MX(0, 1)\nelse:\n    return vvcat(arg)"):
            _fail(fn, "Stage.%s: return" % prop)
        return out
    sym = [("P", k) for k in kinds_of("p", "parameters")] + [("V", k) for k in kinds_of("v", "variables")]
    ode = _find_method(stage_tree, "Stage", "_ode")
    fcall = [n for n in ast.walk(ode) if isinstance(n, ast.Call) and ast.unparse(n.func) == "Function"]
    if len(fcall) != 1 or [ast.unparse(x) for x in fcall[0].args[1].elts] != ["self.x", "self.u", "self.z", "vertcat(self.p, self.v)", "t"] \
            or [x.value for x in fcall[0].args[3].elts] != ["x", "u", "z", "p", "t"]:
        _fail(ode, "Stage._ode: inputs of the system function")
    # values
    fn = _find_method(smp_tree, "SamplingMethod", "get_p_sys")
    st = [s_ for s_ in fn.body if isinstance(s_, ast.Assign) and ast.unparse(s_.targets[0]) == "args"]
    if len(st) != 1:
        _fail(fn, "get_p_sys")
    ATOM = {"rep(vvcat(self.P))": ("P", ""), "rep(self.get_p_control_at(stage, k))": ("P", "control"),
            "rep(self.get_p_control_plus_at(stage, k))": ("P", "control+"), "signals_at(stage.parameters['bspline'])": ("P", "bspline"),
            "rep(self.V)": ("V", ""), "rep(self.get_v_control_at(stage, k))": ("V", "control"),
            "rep(self.get_v_control_plus_at(stage, k))": ("V", "control+"), "signals_at(stage.variables['bspline'])": ("V", "bspline")}
    val = []

    def walkv(e):
        if isinstance(e, ast.BinOp) and isinstance(e.op, ast.Add):
            walkv(e.left); walkv(e.right)
        elif isinstance(e, ast.List):
            for x in e.elts:
                walkv(x)
        elif ast.unparse(e) in ATOM:
            val.append(ATOM[ast.unparse(e)])
        else:
            _fail(e, "get_p_sys: entry of the value vector")
    walkv(st[0].value)
    ret = [s_ for s_ in fn.body if isinstance(s_, ast.Return)]
    if len(ret) != 1 or ast.unparse(ret[0].value) != "vcat(args)":
        _fail(fn, "get_p_sys: return")
    fmt = lambda l: "[" + "; ".join("(%s, %s)" % ("LParam" if a == "P" else "LVar", KIND_TAG[k]) for a, k in l) + "]"
    return ("Inductive ltable := LParam | LVar.\nInductive lkind := LGlobal | LControl | LControlPlus | LBspline.\n"
            "(* order of the SYMBOLS in the parameter input of the system function: vertcat(Stage.p, Stage.v) *)\n"
            "Definition gen_symbol_layout : list (ltable * lkind) := %s.\n"
            "(* order of the VALUES supplied for interval k by SamplingMethod.get_p_sys *)\n"
            "Definition gen_value_layout : list (ltable * lkind) := %s.\n" % (fmt(sym), fmt(val)))


def generate_layout(repo=None):
    repo = repo or REPO
    s1 = open(os.path.join(repo, "rockit", "stage.py")).read()
    s2 = open(os.path.join(repo, "rockit", "sampling_method.py")).read()
    body = translate_layout(ast.parse(s1), ast.parse(s2))
    return ("(* GENERATED on every run by harness/translate.py from rockit/stage.py (sha256 %s) and rockit/sampling_method.py (sha256 %s). *)\n"
            "From Coq Require Import List.\nImport ListNotations.\n\n" % (hashlib.sha256(s1.encode()).hexdigest()[:16], hashlib.sha256(s2.encode()).hexdigest()[:16])) + body


# ------------------------------------------------------------------ SplineMethod: coefficients of an integrator chain
def translate_spline(tree):
    """SplineMethod.add_variables: the head of a chain of length L gets N+d free coefficients of degree d = L-1; member i+1
    gets bspline_derivative(member i, xi, d-i)/T.  SplineMethod.sample_xu: member i is sampled with the basis of degree
    (width - N) on the same knots."""
    fn = _find_method(tree, "SplineMethod", "add_variables")
    outer = [s_ for s_ in fn.body if isinstance(s_, ast.For) and ast.unparse(s_.iter) == "self.groups.items()"]
    if len(outer) != 1 or ast.unparse(outer[0].target) != "(L, chains)":
        _fail(fn, "SplineMethod.add_variables: loop over the chain groups")
    body = outer[0].body
    srcs = [ast.unparse(s_) for s_ in body]
    if srcs[0] != "d = L - 1" or srcs[1] != "s = self.N + d" or srcs[2] != "e = opti.variable(len(chains), s)":
        raise Untranslatable("SplineMethod.add_variables: degree / number of coefficients / head variable: %r" % srcs[:3])
    inner = [s_ for s_ in body if isinstance(s_, ast.For)]
    if len(inner) != 1 or ast.unparse(inner[0].iter) != "range(L)" or ast.unparse(inner[0].target) != "i":
        _fail(outer[0], "SplineMethod.add_variables: loop over the chain members")
    ib = inner[0].body
    if ast.unparse(ib[0]) != "self.coeffs_and_der[L].append(e)":
        _fail(ib[0], "member i must be stored before it is differentiated")
    last = ib[-1]
    if not (isinstance(last, ast.If) and ast.unparse(last.test) == "d - i > 0" and len(last.body) == 1 and not last.orelse):
        _fail(last, "derivative step")
    st = last.body[0]
    if not (isinstance(st, ast.Assign) and ast.unparse(st.targets[0]) == "e"):
        _fail(st, "derivative step")
    v = st.value
    # bspline_derivative(e, self.xi, d - i) / self.T
    if not (isinstance(v, ast.BinOp) and isinstance(v.op, ast.Div) and ast.unparse(v.right) == "self.T" and _is_call(v.left, "bspline_derivative")
            and [ast.unparse(x) for x in v.left.args] == ["e", "self.xi", "d - i"]):
        _fail(st, "derivative step: expected bspline_derivative(e, self.xi, d - i) / self.T")
    widths = [s_ for s_ in ast.walk(inner[0]) if isinstance(s_, ast.Assign) and ast.unparse(s_.targets[0]) == "self.widths[v_index]"]
    if len(widths) != 1 or ast.unparse(widths[0].value) != "s - i":
        _fail(inner[0], "width of member i")
    # sample_xu
    fn2 = _find_method(tree, "SplineMethod", "sample_xu")
    txt = ast.unparse(fn2)
    need = ["[tau, B] = eval_on_knots(self.xi, dmax - i, subsamples=refine - 1)", "d = dmax - i", "self.B[refine][self.N + d] = B",
            "xu_sampled = self.coeffs_and_der[L][i] @ self.B[refine][s - i]",
            "self.time[refine] = vec(self.t0 + self.T * tau)"]
    for n_ in need:
        if n_ not in txt:
            raise Untranslatable("SplineMethod.sample_xu: statement not found: " + n_)
    return ("(* degree and number of coefficients of the head of a chain of length L on N intervals *)\n"
            "Definition gen_spline_degree (L : nat) : nat := L - 1.\n"
            "Definition gen_spline_ncoeff (N d : nat) : nat := N + d.\n"
            "(* member i+1 from member i (degree d - i) *)\n"
            "Definition gen_spline_next (e xi : list F) (d i : nat) (T : F) : list F := vdivs (bspline_derivative e xi (d - i)) T.\n"
            "Fixpoint gen_spline_member (c xi : list F) (d : nat) (T : F) (r : nat) : list F :=\n"
            "  match r with O => c | S r' => gen_spline_next (gen_spline_member c xi d T r') xi d r' T end.\n"
            "(* member i has N + d - i coefficients and is sampled with the basis stored under that width: degree width - N *)\n"
            "Definition gen_spline_width (N d i : nat) : nat := gen_spline_ncoeff N d - i.\n"
            "Definition gen_spline_basis_degree (N width : nat) : nat := width - N.\n"
            "(* sampling instants: physical time t0 + T * tau for the normalized instants tau of eval_on_knots *)\n"
            "Definition gen_spline_time (t0 T tau : F) : F := t0 +! T *! tau.\n")


def generate_spline(repo=None):
    repo = repo or REPO
    src = open(os.path.join(repo, "rockit", "spline_method.py")).read()
    body = translate_spline(ast.parse(src))
    return ("(* GENERATED on every run by harness/translate.py from rockit/spline_method.py (sha256 %s).  Do not edit. *)\n"
            "From Coq Require Import ZArith QArith List.\nFrom RV Require Import Base.Num Base.Vec Mech.Spline.\nImport ListNotations.\n\n"
            "Section GenSpline.\nContext {F : Type} {OF : Ops F}.\n\n" % hashlib.sha256(src.encode()).hexdigest()[:16]) + body + "\nEnd GenSpline.\n"


# ------------------------------------------------------------------ free horizon: what a FreeTime declaration turns into
def translate_freetime(tree):
    """DirectMethod.fill_placeholders_T / fill_placeholders_t0 (phase 1): a FreeTime horizon becomes a stage variable with the
    declared guess; T gets the row T >= 0, t0 gets no row; any other horizon is passed through unchanged"""
    out = {}
    for name, attr, setter in (("fill_placeholders_T", "_T", "set_T"), ("fill_placeholders_t0", "_t0", "set_t0")):
        fn = _find_method(tree, "DirectMethod", name)
        top = [s_ for s_ in fn.body if not (isinstance(s_, ast.Expr) and isinstance(s_.value, ast.Constant))]
        if not (len(top) == 2 and isinstance(top[0], ast.If) and ast.unparse(top[0].test) == "phase == 1"
                and ast.unparse(top[1]) == "return self.eval(stage, expr)"):
            _fail(fn, name)
        inner = top[0].body
        if not (len(inner) == 1 and isinstance(inner[0], ast.If) and ast.unparse(inner[0].test) == "isinstance(stage.%s, FreeTime)" % attr
                and [ast.unparse(x) for x in inner[0].orelse] == ["return stage.%s" % attr]):
            _fail(fn, name + ": FreeTime branch")
        body = [ast.unparse(x) for x in inner[0].body]
        want_head = ["init = stage.%s.T_init" % attr, "stage.%s(stage.variable())" % setter]
        want_tail = ["stage.set_initial(stage.%s, init, priority=True)" % attr, "return stage.%s" % attr]
        if body[:2] != want_head or body[-2:] != want_tail:
            raise Untranslatable("%s: FreeTime branch %r" % (name, body))
        rows = body[2:-2]
        out[name] = rows
    rowsT, rowst0 = out["fill_placeholders_T"], out["fill_placeholders_t0"]
    if rowsT != ["stage.subject_to(stage._T >= 0)"]:
        raise Untranslatable("fill_placeholders_T: rows added for a free horizon: %r (expected exactly T >= 0)" % rowsT)
    if rowst0 != []:
        raise Untranslatable("fill_placeholders_t0: rows added for a free start time: %r (expected none)" % rowst0)
    return ("(* rows a FreeTime declaration adds to the NLP: for T the single row 0 - T <= 0, for t0 none; the new variable starts at the\n"
            "   declared guess (set_initial with priority) *)\n"
            "Definition gen_freeT_row (T : F) : list (row F) := [mkRow KFreeT 0 0 SLe (o0 -! T)].\n"
            "Definition gen_freet0_row (t0 : F) : list (row F) := [].\n"
            "Definition gen_free_guess (declared : Q) : F := of_Q declared.\n")


def generate_freetime(repo=None):
    repo = repo or REPO
    src = open(os.path.join(repo, "rockit", "direct_method.py")).read()
    body = translate_freetime(ast.parse(src))
    return ("(* GENERATED on every run by harness/translate.py from rockit/direct_method.py (sha256 %s).  Do not edit. *)\n"
            "From Coq Require Import ZArith QArith List.\nFrom RV Require Import Base.Num Base.Vec Expr Ocp Rows.\nImport ListNotations.\n\n"
            "Section GenFree.\nContext {F : Type} {OF : Ops F}.\n\n" % hashlib.sha256(src.encode()).hexdigest()[:16]) + body + "\nEnd GenFree.\n"


HEADER = """(* GENERATED on every run by harness/translate.py from %s (sha256 %s).
   Do not edit: the file is rewritten from the working tree before Tie/IntgTie.v is checked. *)
From Coq Require Import ZArith QArith List.
From RV Require Import Base.Num Base.Vec Mech.Intg.
Import ListNotations.

Section Gen.
Context {F : Type} {OF : Ops F}.

"""


def generate(repo=None):
    repo = repo or REPO
    path = os.path.join(repo, "rockit", "sampling_method.py")
    src = open(path).read()
    tree = ast.parse(src)
    parts = []
    parts.append(translate_step(ssa(_find_method(tree, "SamplingMethod", "intg_rk")), "gen_intg_rk"))
    parts.append(translate_step(ssa(_find_method(tree, "SamplingMethod", "intg_expl_euler")), "gen_intg_expl_euler"))
    parts.append(translate_loop(_find_method(tree, "SamplingMethod", "discrete_system")))
    parts.append(translate_builtin(_find_method(tree, "SamplingMethod", "intg_builtin")))
    text = HEADER % ("rockit/sampling_method.py", hashlib.sha256(src.encode()).hexdigest()[:16]) + "\n".join(parts) + "\nEnd Gen.\n"
    return text


HEADER_DC = """(* GENERATED on every run by harness/translate.py from %s (sha256 %s).  Do not edit. *)
From Coq Require Import ZArith QArith List.
From RV Require Import Base.Num Base.Vec Mech.Colloc.
Import ListNotations.

Section GenDc.
Context {F : Type} {OF : Ops F}.

"""


def generate_dc(repo=None):
    repo = repo or REPO
    path = os.path.join(repo, "rockit", "direct_collocation.py")
    src = open(path).read()
    tree = ast.parse(src)
    body = translate_dc(_find_method(tree, "DirectCollocation", "add_constraints"))
    return HEADER_DC % ("rockit/direct_collocation.py", hashlib.sha256(src.encode()).hexdigest()[:16]) + body + "\nEnd GenDc.\n"


def workdir(repo=None, tag=""):
    repo = os.path.realpath(repo or REPO)
    from .common import VERIF
    d = os.path.join(VERIF, "work", "gen_" + hashlib.sha256(repo.encode()).hexdigest()[:10] + (("_" + tag) if tag else ""))
    os.makedirs(os.path.join(d, "Gen"), exist_ok=True)
    os.makedirs(os.path.join(d, "Tie"), exist_ok=True)
    return d


TIES = {
    # name: (generator, generated file, tie file)
    "Intg": (generate, "IntgGen.v", "IntgTie.v"),
    "Dc": (generate_dc, "DcGen.v", "DcTie.v"),
    "Smp": (generate_smp, "SmpGen.v", "SmpTie.v"),
    "Shoot": (generate_shoot, "ShootGen.v", "ShootTie.v"),
    "Layout": (generate_layout, "LayoutGen.v", "LayoutTie.v"),
    "Spline": (generate_spline, "SplineGen.v", "SplineTie.v"),
    "Free": (generate_freetime, "FreeGen.v", "FreeTie.v"),
}


def regenerate(repo=None, which="Intg", tag=""):
    """writes work/gen_<repo>/Gen/<X>Gen.v from the tree under test; returns (ok, message, dir)"""
    gen_f, gen_name, _ = TIES[which]
    d = workdir(repo, tag)
    out = os.path.join(d, "Gen", gen_name)
    try:
        text = gen_f(repo)
    except Untranslatable as e:
        if os.path.exists(out):
            os.remove(out)
        return False, "translator (fail-closed): " + str(e), d
    except SyntaxError as e:
        return False, "source does not parse: %s" % e, d
    with open(out, "w") as f:
        f.write(text)
    return True, "", d


def check_tie(repo=None, which="Intg", timeout=900, tag="", chk=False):
    """regenerate, compile the generated file and the tie lemmas against it.
    returns dict(ok, stage, log, lemmas, assumptions, generated_sha)"""
    import subprocess, re, shutil
    _, gen_name, tie_name = TIES[which]
    ok, msg, d = regenerate(repo, which, tag)
    res = {"ok": False, "stage": "translate", "log": msg, "lemmas": [], "assumptions": {}, "dir": d, "tie_file": "coq/Tie/" + tie_name}
    if not ok:
        return res
    gen = os.path.join(d, "Gen", gen_name)
    gtext = open(gen).read()
    res["generated_sha"] = hashlib.sha256(gtext.encode()).hexdigest()[:16]
    # the generated text is linted like the rest of the development (the translator emits definitions only)
    bad = re.findall(r"\b(Axiom|Axioms|Parameter|Parameters|Conjecture|Admitted|admit|Variable|Hypothesis)\b|Unset Guard|bypass_check", re.sub(r"\(\*.*?\*\)", "", gtext, flags=re.S))
    if bad:
        res.update(stage="forbidden construct in the generated file", log=str(bad[:5]))
        return res
    tie_src = os.path.join(COQ, "Tie", tie_name)
    tie = os.path.join(d, "Tie", tie_name)
    shutil.copyfile(tie_src, tie)
    base = ["coqc", "-Q", COQ, "RV", "-Q", os.path.join(d, "Gen"), "RV.Gen", "-Q", os.path.join(d, "Tie"), "RV.Tie"]
    r = subprocess.run(base + [gen], capture_output=True, text=True, timeout=timeout, cwd=d)
    if r.returncode:
        res.update(stage="generated file does not compile", log=(r.stdout + r.stderr)[-1500:])
        return res
    r = subprocess.run(base + [tie], capture_output=True, text=True, timeout=timeout, cwd=d)
    text = open(tie_src).read()
    res["lemmas"] = re.findall(r"^Lemma (tie_\w+)", text, re.M)
    if r.returncode:
        res.update(stage="tie lemma fails", log=(r.stdout + r.stderr)[-1500:])
        return res
    printed = re.findall(r"Print Assumptions (\w+)\.", text)
    blocks = [b.strip() for b in re.split(r"(?m)^(?=Closed under the global context|Axioms:)", r.stdout) if b.strip()]
    res["assumptions"] = {n: ("closed" if b.startswith("Closed") else re.sub(r"\s+", " ", b)[:300]) for n, b in zip(printed, blocks)}
    if chk:
        # thorough tier: the independent checker re-checks the compiled tie (and everything it depends on)
        rc = subprocess.run(["coqchk", "-silent", "-o", "-Q", COQ, "RV", "-Q", os.path.join(d, "Gen"), "RV.Gen", "-Q", os.path.join(d, "Tie"), "RV.Tie",
                             "RV.Tie." + tie_name[:-2]], capture_output=True, text=True, timeout=1800, cwd=d)
        res["coqchk"] = rc.returncode == 0
        if rc.returncode:
            res.update(stage="coqchk rejects the tie", log=(rc.stdout + rc.stderr)[-1500:])
            return res
    res.update(ok=True, stage="checked", log="")
    return res


if __name__ == "__main__":
    print(generate())
    print(generate_dc())
