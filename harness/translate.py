"""Fail-closed translator: Python source of rockit's pure integrator kernels -> Gallina.

On every run `regenerate()` parses the *current* working tree of the repository under test with
Python's `ast`, translates

  * SamplingMethod.intg_rk            (rockit/sampling_method.py)
  * SamplingMethod.intg_expl_euler
  * the accumulator loop of SamplingMethod.discrete_system
  * the time rescaling of SamplingMethod.intg_builtin (argument of f, 'ode'/'quad'/'alg' entries)
  * the collocation loop of DirectCollocation.add_constraints (rockit/direct_collocation.py): step length, root times,
    defect Pidot, arguments of the system function, quadrature update, continuity equation  -> Gen/DcGen.v, Tie/DcTie.v

into definitions over the model's vocabulary (Base/Vec.v, Mech/Intg.v) and writes them to
work/gen_<tree>/Gen/IntgGen.v (logical name RV.Gen.IntgGen).  coq/Tie/IntgTie.v then proves (for every field of characteristic 0, every system
function, state, time, step) that the generated definitions equal the hand-written model
Mech/Intg.v about which the property theorems are stated.  Both files are compiled on every run
(outside the main `make`, so that a broken tie does not stop the engines from searching a failing
input).

The translator is fail-closed: every statement and expression form it does not know raises
`Untranslatable`, which the driver reports as a broken obligation.  It is part of the trusted base
(it is ~250 lines, and what it emits is additionally exercised by the behavioural correspondence of
the same run, because the generated definitions are proved equal to the model that is compared with
the running code).
"""
import ast, os, hashlib

from .common import COQ, REPO


class Untranslatable(Exception):
    pass


def _fail(node, why):
    raise Untranslatable("%s at line %s: %s" % (why, getattr(node, "lineno", "?"), ast.unparse(node)[:120]))


# ------------------------------------------------------------------ typed expression translation
# types: 's' scalar, 'v' vector (list F), 'cols' list of vectors, 'sys' result of a system-function call
class Ctx:
    def __init__(self, scalars, vectors, sysf="f", quiet_u="U", quiet_p="P"):
        self.ty = {}
        for s in scalars:
            self.ty[s] = "s"
        for v in vectors:
            self.ty[v] = "v"
        self.lets = []           # (coq_name, coq_term)
        self.sys = {}            # python name -> (coq ode name, coq quad name)
        self.sysf, self.u, self.p = sysf, quiet_u, quiet_p
        self.empty = set()

    def num(self, node):
        v = node.value
        if isinstance(v, bool) or not isinstance(v, (int, float)):
            _fail(node, "constant")
        if isinstance(v, int):
            return "(of_Z %d)" % v if v >= 0 else "(of_Z (%d))" % v
        from fractions import Fraction
        fr = Fraction(v)
        if fr.denominator & (fr.denominator - 1):
            _fail(node, "non-dyadic float")
        return "(of_Q (%d # %d))" % (fr.numerator, fr.denominator)

    def expr(self, e):
        """returns (type, coq term)"""
        if isinstance(e, ast.Constant):
            return "s", self.num(e)
        if isinstance(e, ast.Name):
            if e.id in self.ty:
                return self.ty[e.id], e.id
            _fail(e, "unknown name")
        if isinstance(e, ast.Subscript):
            if isinstance(e.value, ast.Name) and e.value.id in self.sys and isinstance(e.slice, ast.Constant):
                key = e.slice.value
                ode, quad = self.sys[e.value.id]
                if key == "ode":
                    return "v", ode
                if key == "quad":
                    return "v", quad
            _fail(e, "subscript")
        if isinstance(e, ast.UnaryOp) and isinstance(e.op, ast.USub):
            t, a = self.expr(e.operand)
            if t == "s":
                return "s", "(oopp %s)" % a
            return "v", "(vscale (oopp o1) %s)" % a
        if isinstance(e, ast.BinOp):
            ta, a = self.expr(e.left)
            if isinstance(e.op, ast.Pow):
                if ta == "s" and isinstance(e.right, ast.Constant) and isinstance(e.right.value, int) and e.right.value >= 0:
                    return "s", "(opow %s %d)" % (a, e.right.value)
                _fail(e, "power")
            tb, b = self.expr(e.right)
            op = type(e.op)
            if ta == "s" and tb == "s":
                sym = {ast.Add: "+!", ast.Sub: "-!", ast.Mult: "*!", ast.Div: "/!"}.get(op)
                if sym:
                    return "s", "(%s %s %s)" % (a, sym, b)
            if ta == "v" and tb == "v":
                if op is ast.Add:
                    return "v", "(vadd %s %s)" % (a, b)
                if op is ast.Sub:
                    return "v", "(vsub %s %s)" % (a, b)
            if ta == "s" and tb == "v" and op is ast.Mult:
                return "v", "(vscale %s %s)" % (a, b)
            if ta == "v" and tb == "s" and op is ast.Mult:
                return "v", "(vscale %s %s)" % (b, a)
            if ta == "v" and tb == "s" and op is ast.Div:
                return "v", "(vdivs %s %s)" % (a, b)
            _fail(e, "operator %s on (%s,%s)" % (op.__name__, ta, tb))
        if isinstance(e, ast.Call):
            fn = e.func
            # hcat([...]) : columns
            if isinstance(fn, ast.Name) and fn.id == "hcat" and len(e.args) == 1 and isinstance(e.args[0], ast.List):
                cols = []
                for c in e.args[0].elts:
                    t, x = self.expr(c)
                    if t != "v":
                        _fail(c, "hcat entry is not a vector")
                    cols.append(x)
                return "cols", "[" + "; ".join(cols) + "]"
        _fail(e, "expression")

    def sys_call(self, target, call):
        """k = f(x=<vec>, u=U, p=P, t=<scalar>)"""
        if not (isinstance(call.func, ast.Name) and call.func.id == self.sysf and not call.args):
            _fail(call, "system call")
        kw = {k.arg: k.value for k in call.keywords}
        if set(kw) != {"x", "u", "p", "t"}:
            _fail(call, "system call keywords")
        if not (isinstance(kw["u"], ast.Name) and kw["u"].id == self.u and isinstance(kw["p"], ast.Name) and kw["p"].id == self.p):
            _fail(call, "system call must pass the interval's own u and p")
        tx, x = self.expr(kw["x"])
        tt, t = self.expr(kw["t"])
        if tx != "v" or tt != "s":
            _fail(call, "system call argument types")
        ode, quad = target + "_ode", target + "_quad"
        self.lets.append((ode, "s_ode %s %s %s" % (self.sysf, x, t)))
        self.lets.append((quad, "s_quad %s %s %s" % (self.sysf, x, t)))
        self.sys[target] = (ode, quad)


def _find_method(tree, cls, name):
    for n in tree.body:
        if isinstance(n, ast.ClassDef) and n.name == cls:
            for m in n.body:
                if isinstance(m, ast.FunctionDef) and m.name == name:
                    return m
    raise Untranslatable("method %s.%s not found" % (cls, name))


def _is_call(e, name):
    return isinstance(e, ast.Call) and ((isinstance(e.func, ast.Name) and e.func.id == name) or
                                        (isinstance(e.func, ast.Attribute) and ast.unparse(e.func) == name))


OUT_NAMES = ['xf', 'poly_coeff', 'qf', 'poly_coeff_q', 'zf', 'poly_coeff_z']
IN_NAMES = ['x0', 'u', 't0', 'DT', 'DT_control', 'p', 'z0']


def translate_step(fn, coqname):
    """intg_rk / intg_expl_euler -> Definition coqname (f) (X) (t0 DT DT_control)"""
    args = [a.arg for a in fn.args.args]
    if args != ["self", "f", "X", "U", "P", "Z"]:
        _fail(fn, "signature")
    cx = Ctx(scalars=[], vectors=["X"])
    syms = {}
    ret = None
    for st in fn.body:
        if isinstance(st, ast.Expr) and isinstance(st.value, ast.Constant) and isinstance(st.value.value, str):
            continue
        if isinstance(st, ast.Assert):
            continue             # the guard on algebraic parts is C20's subject (rejection rules)
        if isinstance(st, ast.Return):
            ret = st.value
            break
        if not (isinstance(st, ast.Assign) and len(st.targets) == 1 and isinstance(st.targets[0], ast.Name)):
            _fail(st, "statement")
        tgt, val = st.targets[0].id, st.value
        if _is_call(val, "MX.sym"):
            a0 = val.args[0]
            if not isinstance(a0, ast.Constant):
                _fail(st, "symbol")
            if len(val.args) == 1:
                syms[tgt] = "s"; cx.ty[tgt] = "s"
            elif len(val.args) == 3 and isinstance(val.args[1], ast.Constant) and val.args[1].value == 0:
                syms[tgt] = "empty"; cx.empty.add(tgt)
            else:
                _fail(st, "symbol shape")
            continue
        if _is_call(val, cx.sysf):
            cx.sys_call(tgt, val)
            continue
        t, term = cx.expr(val)
        if tgt in cx.ty:
            _fail(st, 're-assignment after ssa')
        cx.lets.append((tgt, term))
        cx.ty[tgt] = t
    if ret is None or not _is_call(ret, "Function"):
        _fail(fn, "return")
    a = ret.args
    if len(a) != 5:
        _fail(ret, "Function(...) arity")
    ins = [ast.unparse(x) for x in a[1].elts]
    if ins != ["X", "U", "t0", "DT", "DT_control", "P", "Z0"]:
        _fail(ret, "input order")
    if [x.value for x in a[3].elts] != IN_NAMES or [x.value for x in a[4].elts] != OUT_NAMES:
        _fail(ret, "input/output names")
    for s in ("t0", "DT", "DT_control"):
        if syms.get(s) != "s":
            _fail(ret, "scalar symbol " + s)
    if syms.get("Z0") != "empty":
        _fail(ret, "Z0 must be empty")
    outs = a[2].elts
    if len(outs) != 6:
        _fail(ret, "outputs")
    txf, xf = cx.expr(outs[0])
    tpc, pc = cx.expr(outs[1])
    tqf, qf = cx.expr(outs[2])
    tpq, pq = cx.expr(outs[3])
    if tpq == "v":
        pq = "[%s]" % pq
        tpq = "cols"
    if (txf, tpc, tqf, tpq) != ("v", "cols", "v", "cols"):
        _fail(ret, "output types")
    if ast.unparse(outs[4]) not in ("MX(0, 1)",) or ast.unparse(outs[5]) not in ("MX()",):
        _fail(ret, "algebraic outputs must be empty")
    body = "".join("  let %s := %s in\n" % (n, t) for n, t in cx.lets)
    return ("Definition %s (f : sysfun F) (X : list F) (t0 DT DT_control : F) : step_result F :=\n%s"
            "  {| r_xf := %s;\n     r_poly := %s;\n     r_qf := %s;\n     r_polyq := %s |}.\n" % (coqname, body, xf, pc, qf, pq))


class _Renamer(ast.NodeTransformer):
    def __init__(self, m):
        self.m = m

    def visit_Name(self, n):
        if n.id in self.m:
            return ast.copy_location(ast.Name(id=self.m[n.id], ctx=n.ctx), n)
        return n


def ssa(fn):
    """make re-assigned local names unique (f0 -> f0, f0__1 ...) so that lets are well-scoped"""
    count, cur = {}, {}
    out = []
    for st in fn.body:
        st = _Renamer(dict(cur)).visit(st) if not isinstance(st, ast.Assign) else st
        if isinstance(st, ast.Assign) and len(st.targets) == 1 and isinstance(st.targets[0], ast.Name):
            st.value = _Renamer(dict(cur)).visit(st.value)
            name = st.targets[0].id
            if name in count:
                count[name] += 1
                new = "%s__%d" % (name, count[name])
                cur[name] = new
                st.targets[0] = ast.Name(id=new, ctx=ast.Store())
            else:
                count[name] = 0
        out.append(st)
    fn.body = out
    return fn


def translate_loop(fn):
    """the `for j in range(self.M)` loop of discrete_system -> one step of the accumulator record"""
    loop = [s for s in fn.body if isinstance(s, ast.For)]
    if len(loop) != 1:
        _fail(fn, "exactly one loop expected")
    lp = loop[0]
    if ast.unparse(lp.iter) != "range(self.M)" or lp.orelse:
        _fail(lp, "loop header")
    # initialisation before the loop
    init = {}
    for st in fn.body:
        if st is lp:
            break
        if isinstance(st, ast.Assign) and len(st.targets) == 1 and isinstance(st.targets[0], ast.Name):
            init[st.targets[0].id] = ast.unparse(st.value)
    want = {"X": "[X0]", "t0_local": "t0", "quad": "DM.zeros(stage.nxq)", "Q": "[]", "poly_coeffs": "[]",
            "poly_coeffs_q": "[]", "DT": "T / self.M"}
    for k, v in want.items():
        if init.get(k) != v:
            raise Untranslatable("discrete_system: initial value of %s is %r, expected %r" % (k, init.get(k), v))
    upd = {}
    call = None
    for st in lp.body:
        src = ast.unparse(st)
        if isinstance(st, ast.Assign) and _is_call(st.value, "intg") and ast.unparse(st.targets[0]) == "intg_res":
            kw = {k.arg: ast.unparse(k.value) for k in st.value.keywords}
            call = kw
        elif src == "X.append(intg_res['xf'])":
            upd["ds_X"] = "ds_X s ++ [r_xf r]"
        elif src == "poly_coeffs.append(intg_res['poly_coeff'])":
            upd["ds_poly"] = "ds_poly s ++ [r_poly r]"
        elif src == "poly_coeffs_q.append(intg_res['poly_coeff_q'])":
            upd["ds_polyq"] = "ds_polyq s ++ [r_polyq r]"
        elif src == "quad = quad + intg_res['qf']":
            upd["quad"] = "vadd (ds_quad s) (r_qf r)"
            if "ds_Q" in upd:
                raise Untranslatable("discrete_system: Q.append before the quadrature update")
        elif src == "Q.append(quad)":
            if "quad" not in upd:
                raise Untranslatable("discrete_system: Q.append(quad) before quad is updated")
            upd["ds_Q"] = "ds_Q s ++ [quad']"
        elif src == "t0_local += DT":
            upd["ds_t"] = "ds_t s +! DT"
        elif src in ("Zs.append(intg_res['zf'])", "poly_coeffs_z.append(intg_res['poly_coeff_z'])",
                     "Z0_current = intg_res['zf']"):
            pass    # algebraic bookkeeping: empty for the explicit schemes modelled here
        else:
            _fail(st, "loop statement")
    if call is None:
        raise Untranslatable("discrete_system: integrator call not found")
    wantc = {"x0": "X[-1]", "u": "U", "t0": "t0_local", "DT": "DT", "DT_control": "T", "p": "P", "z0": "Z0_current"}
    if call != wantc:
        raise Untranslatable("discrete_system: integrator call %r, expected %r" % (call, wantc))
    for k in ("ds_X", "ds_poly", "ds_polyq", "quad", "ds_Q", "ds_t"):
        if k not in upd:
            raise Untranslatable("discrete_system: missing update of " + k)
    # the time argument must be read before it is advanced: position of the call vs t0_local += DT
    order = [ast.unparse(s) for s in lp.body]
    if order.index("t0_local += DT") < [i for i, s in enumerate(order) if s.startswith("intg_res = intg(")][0]:
        raise Untranslatable("discrete_system: local time advanced before the step is taken")
    # returned outputs
    ret = [s for s in fn.body if isinstance(s, ast.Assign) and ast.unparse(s.targets[0]) == "ret"]
    if len(ret) != 1:
        _fail(fn, "ret")
    outs = [ast.unparse(x) for x in ret[0].value.args[2].elts]
    wanto = ["X[-1]", "hcat(X)", "hcat(poly_coeffs)", "quad", "hcat(Q)", "hcat(poly_coeffs_q)", "Zs[-1]", "hcat(Zs)",
             "hcat(poly_coeffs_z)"]
    if outs != wanto:
        raise Untranslatable("discrete_system: outputs %r" % outs)
    return ("Definition gen_ds_step (step : list F -> F -> F -> F -> step_result F) (x0 : list F)\n"
            "           (DT T : F) (s : ds_state F) : ds_state F :=\n"
            "  let r := step (last (ds_X s) x0) (ds_t s) DT T in\n"
            "  let quad' := %s in\n"
            "  {| ds_X := %s;\n     ds_t := %s;\n     ds_quad := quad';\n     ds_Q := %s;\n"
            "     ds_poly := %s;\n     ds_polyq := %s |}.\n\n"
            "Definition gen_discrete_system (step : list F -> F -> F -> F -> step_result F)\n"
            "           (M nq : nat) (x0 : list F) (T t0 : F) : ds_state F :=\n"
            "  Nat.iter M (gen_ds_step step x0 (T /! of_nat M) T)\n"
            "    {| ds_X := [x0]; ds_t := t0; ds_quad := vzero nq; ds_Q := []; ds_poly := []; ds_polyq := [] |}.\n"
            % (upd["quad"], upd["ds_X"], upd["ds_t"], upd["ds_Q"], upd["ds_poly"], upd["ds_polyq"]))


def translate_builtin(fn):
    """intg_builtin: the problem handed to a CasADi integrator: time argument of f and the scaling of ode/quad"""
    res = data = None
    for st in fn.body:
        if isinstance(st, ast.Assign) and ast.unparse(st.targets[0]) == "res" and _is_call(st.value, "f") and res is None:
            res = {k.arg: ast.unparse(k.value) for k in st.value.keywords}
        if isinstance(st, ast.Assign) and ast.unparse(st.targets[0]) == "data" and isinstance(st.value, ast.Dict):
            data = {k.value: ast.unparse(v) for k, v in zip(st.value.keys, st.value.values)}
    if res is None or data is None:
        raise Untranslatable("intg_builtin: system call or dae dictionary not found")
    cx = Ctx(scalars=["t0", "t", "DT"], vectors=[])
    tt, targ = cx.expr(ast.parse(res["t"], mode="eval").body)
    if res.get("x") != "X" or res.get("u") != "U" or res.get("p") != "P" or res.get("z") != "Z" or tt != "s":
        raise Untranslatable("intg_builtin: system call %r" % res)

    def scale_of(entry, key):
        e = ast.parse(entry, mode="eval").body
        if ast.unparse(e) == "res['%s']" % key:
            return "o1"
        if isinstance(e, ast.BinOp) and isinstance(e.op, ast.Mult) and ast.unparse(e.right) == "res['%s']" % key:
            t, s = cx.expr(e.left)
            if t == "s":
                return s
        raise Untranslatable("intg_builtin: entry %s = %s" % (key, entry))
    if data.get("x") != "X" or data.get("t") != "t" or data.get("z") != "Z":
        raise Untranslatable("intg_builtin: dae dictionary %r" % data)
    return ("Definition gen_builtin_time (t0 t DT : F) : F := %s.\n"
            "Definition gen_builtin_ode_scale (DT : F) : F := %s.\n"
            "Definition gen_builtin_quad_scale (DT : F) : F := %s.\n"
            "Definition gen_builtin_alg_scale (DT : F) : F := %s.\n"
            % (targ, scale_of(data["ode"], "ode"), scale_of(data["quad"], "quad"), scale_of(data["alg"], "alg")))


# ------------------------------------------------------------------ DirectCollocation.add_constraints
class DcCtx:
    """expressions of the collocation loop: indexed reads of the method's lists become the model's arguments"""
    ATOMS = {
        "self.Xc[k][i]": ("cols", "Xc"), "self.Zc[k][i]": ("cols", "Zc"),
        "self.Xc[k][i][:, j + 1]": ("v", "(nth (S j) Xc [])"), "self.Zc[k][i][:, j]": ("v", "(nth j Zc [])"),
        "self.Xc[k][i + 1][:, 0]": ("v", "(nth 0 Xc_next [])"), "self.X[k + 1]": ("v", "Xk1"), "self.U[k]": ("v", "Uk"),
        "self.C[:, j]": ("w", "(col C j)"), "self.D": ("w", "D"), "self.B[j]": ("s", "(nth j B o0)"),
        "self.tr[k][i][j]": ("s", "tr_kij"), "dt": ("s", "dt"), "self.q": ("v", "q"),
        "self.integrator_grid[k][i]": ("s", "ig_ki"), "self.tau[j]": ("s", "(nth j tau o0)"),
        "self.control_grid[k + 1]": ("s", "cg_k1"), "self.control_grid[k]": ("s", "cg_k"), "self.M": ("s", "(of_nat M)"),
        "res['ode']": ("v", "ode"), "res['quad']": ("v", "quad"), "res['alg']": ("v", "alg"),
        "Pidot_j": ("v", "Pidot_j"), "x_next": ("v", "x_next"),
    }

    def expr(self, e):
        src = ast.unparse(e)
        if src in self.ATOMS:
            return self.ATOMS[src]
        if isinstance(e, ast.Constant) and isinstance(e.value, int) and not isinstance(e.value, bool):
            return "s", "(of_Z %d)" % e.value
        if isinstance(e, ast.Call) and isinstance(e.func, ast.Name) and e.func.id == "mtimes" and len(e.args) == 2:
            ta, a = self.expr(e.args[0])
            tb, b = self.expr(e.args[1])
            if (ta, tb) == ("cols", "w"):
                return "v", "(wsum %s %s)" % (b, a)
            _fail(e, "mtimes")
        if isinstance(e, ast.BinOp):
            ta, a = self.expr(e.left)
            tb, b = self.expr(e.right)
            op = type(e.op)
            if ta == "s" and tb == "s":
                sym = {ast.Add: "+!", ast.Sub: "-!", ast.Mult: "*!", ast.Div: "/!"}.get(op)
                if sym:
                    return "s", "(%s %s %s)" % (a, sym, b)
            if ta == "v" and tb == "v" and op in (ast.Add, ast.Sub):
                return "v", "(%s %s %s)" % ("vadd" if op is ast.Add else "vsub", a, b)
            if ta == "v" and tb == "s" and op is ast.Mult:
                return "v", "(vscale %s %s)" % (b, a)
            if ta == "s" and tb == "v" and op is ast.Mult:
                return "v", "(vscale %s %s)" % (a, b)
            if ta == "v" and tb == "s" and op is ast.Div:
                return "v", "(vdivs %s %s)" % (a, b)
        _fail(e, "collocation expression")


def translate_dc(fn):
    cx = DcCtx()
    found = {}
    for st in ast.walk(fn):
        if isinstance(st, ast.Assign) and len(st.targets) == 1:
            tgt = ast.unparse(st.targets[0])
            if tgt == "dt" and ast.unparse(st.value) != "dts[k]":
                found.setdefault("dt", []).append(st.value)
            elif tgt == "Pidot_j":
                found.setdefault("Pidot", []).append(st.value)
            elif tgt == "self.q" and ast.unparse(st.value) != "0":
                found.setdefault("q", []).append(st.value)
            elif tgt == "x_next":
                found.setdefault("x_next", []).append(st.value)
            elif tgt == "res" and _is_call(st.value, "f"):
                found.setdefault("res", []).append(st.value)
        if isinstance(st, ast.Expr) and isinstance(st.value, ast.Call):
            c = st.value
            src = ast.unparse(c.func)
            if src == "tr.append" and isinstance(c.args[0], ast.ListComp):
                found.setdefault("tr", []).append(c.args[0])
            if src == "opti.subject_to" and c.args and isinstance(c.args[0], ast.Compare):
                cmp_ = c.args[0]
                kw = {k.arg: ast.unparse(k.value) for k in c.keywords}
                l, r = ast.unparse(cmp_.left), ast.unparse(cmp_.comparators[0])
                if l == "Pidot_j":
                    found.setdefault("colloc_row", []).append((cmp_, kw))
                elif r == "x_next":
                    found.setdefault("cont_row", []).append((cmp_, kw))
                elif r == "res['alg']":
                    found.setdefault("alg_row", []).append((cmp_, kw))
    need = {"dt": 2, "Pidot": 1, "q": 1, "x_next": 1, "res": 1, "tr": 1, "colloc_row": 1, "cont_row": 1, "alg_row": 1}
    for k, n in need.items():
        if len(found.get(k, [])) != n:
            raise Untranslatable("DirectCollocation.add_constraints: expected %d statement(s) of kind %s, found %d" % (n, k, len(found.get(k, []))))
    dts = [cx.expr(e) for e in found["dt"]]
    if dts[0] != dts[1] or dts[0][0] != "s":
        raise Untranslatable("DirectCollocation: the step length is computed in two different ways: %r" % (dts,))
    lc = found["tr"][0]
    if len(lc.generators) != 1 or ast.unparse(lc.generators[0].iter) != "range(self.degree)" or ast.unparse(lc.generators[0].target) != "j":
        _fail(lc, "root-time comprehension")
    ttr, tr = cx.expr(lc.elt)
    tp, pidot = cx.expr(found["Pidot"][0])
    tq, qn = cx.expr(found["q"][0])
    res = {k.arg: ast.unparse(k.value) for k in found["res"][0].keywords}
    want = {"x": "self.Xc[k][i][:, j + 1]", "u": "self.U[k]", "z": "self.Zc[k][i][:, j]", "p": "p_total", "t": "self.tr[k][i][j]"}
    if res != want:
        raise Untranslatable("DirectCollocation: system call %r, expected %r" % (res, want))
    xn = found["x_next"][0]
    if not (isinstance(xn, ast.IfExp) and ast.unparse(xn.test) == "i == self.M - 1"):
        _fail(xn, "x_next")
    tb1, b1 = cx.expr(xn.body)
    tb2, b2 = cx.expr(xn.orelse)
    crow, ckw = found["colloc_row"][0]
    if ast.unparse(crow.comparators[0]) != "res['ode']" or not isinstance(crow.ops[0], ast.Eq) or ckw != {"scale": "scale_der_x"}:
        _fail(crow, "collocation row")
    trow, tkw = found["cont_row"][0]
    tl, contl = cx.expr(trow.left)
    if not isinstance(trow.ops[0], ast.Eq) or tkw != {"scale": "scale_x"}:
        _fail(trow, "continuity row")
    arow, akw = found["alg_row"][0]
    if ast.unparse(arow.left) != "0" or not isinstance(arow.ops[0], ast.Eq):
        _fail(arow, "algebraic row")
    if (ttr, tp, tq, tb1, tb2, tl) != ("s", "v", "v", "v", "v", "v"):
        raise Untranslatable("DirectCollocation: unexpected types")
    return (
        "Definition gen_dc_dt (cg_k cg_k1 : F) (M : nat) : F := %s.\n"
        "Definition gen_dc_t_root (ig_ki dt : F) (tau : list F) (j : nat) : F := %s.\n"
        "Definition gen_dc_Pidot (Xc C : list (list F)) (j : nat) (dt : F) : list F := %s.\n"
        "(* arguments of the system function at root (k,i,j): x, u, z, t *)\n"
        "Definition gen_dc_sys_x (Xc : list (list F)) (j : nat) : list F := %s.\n"
        "Definition gen_dc_sys_z (Zc : list (list F)) (j : nat) : list F := %s.\n"
        "Definition gen_dc_quad (q quad : list F) (dt : F) (B : list F) (j : nat) : list F := %s.\n"
        "Definition gen_dc_x_next (Xk1 : list F) (Xc_next : list (list F)) (i M : nat) : list F :=\n"
        "  if Nat.eqb i (M - 1) then %s else %s.\n"
        "Definition gen_dc_cont_lhs (Xc : list (list F)) (D : list F) : list F := %s.\n"
        % (dts[0][1], tr, pidot, cx.ATOMS[want["x"]][1], cx.ATOMS[want["z"]][1], qn, b1, b2, contl))


HEADER = """(* GENERATED on every run by harness/translate.py from %s (sha256 %s).
   Do not edit: the file is rewritten from the working tree before Tie/IntgTie.v is checked. *)
From Coq Require Import ZArith QArith List.
From RV Require Import Base.Num Base.Vec Mech.Intg.
Import ListNotations.

Section Gen.
Context {F : Type} {OF : Ops F}.

"""


def generate(repo=None):
    repo = repo or REPO
    path = os.path.join(repo, "rockit", "sampling_method.py")
    src = open(path).read()
    tree = ast.parse(src)
    parts = []
    parts.append(translate_step(ssa(_find_method(tree, "SamplingMethod", "intg_rk")), "gen_intg_rk"))
    parts.append(translate_step(ssa(_find_method(tree, "SamplingMethod", "intg_expl_euler")), "gen_intg_expl_euler"))
    parts.append(translate_loop(_find_method(tree, "SamplingMethod", "discrete_system")))
    parts.append(translate_builtin(_find_method(tree, "SamplingMethod", "intg_builtin")))
    text = HEADER % ("rockit/sampling_method.py", hashlib.sha256(src.encode()).hexdigest()[:16]) + "\n".join(parts) + "\nEnd Gen.\n"
    return text


HEADER_DC = """(* GENERATED on every run by harness/translate.py from %s (sha256 %s).  Do not edit. *)
From Coq Require Import ZArith QArith List.
From RV Require Import Base.Num Base.Vec Mech.Colloc.
Import ListNotations.

Section GenDc.
Context {F : Type} {OF : Ops F}.

"""


def generate_dc(repo=None):
    repo = repo or REPO
    path = os.path.join(repo, "rockit", "direct_collocation.py")
    src = open(path).read()
    tree = ast.parse(src)
    body = translate_dc(_find_method(tree, "DirectCollocation", "add_constraints"))
    return HEADER_DC % ("rockit/direct_collocation.py", hashlib.sha256(src.encode()).hexdigest()[:16]) + body + "\nEnd GenDc.\n"


def workdir(repo=None):
    repo = os.path.realpath(repo or REPO)
    from .common import VERIF
    d = os.path.join(VERIF, "work", "gen_" + hashlib.sha256(repo.encode()).hexdigest()[:10])
    os.makedirs(os.path.join(d, "Gen"), exist_ok=True)
    os.makedirs(os.path.join(d, "Tie"), exist_ok=True)
    return d


TIES = {
    # name: (generator, generated file, tie file)
    "Intg": (generate, "IntgGen.v", "IntgTie.v"),
    "Dc": (generate_dc, "DcGen.v", "DcTie.v"),
}


def regenerate(repo=None, which="Intg"):
    """writes work/gen_<repo>/Gen/<X>Gen.v from the tree under test; returns (ok, message, dir)"""
    gen_f, gen_name, _ = TIES[which]
    d = workdir(repo)
    out = os.path.join(d, "Gen", gen_name)
    try:
        text = gen_f(repo)
    except Untranslatable as e:
        if os.path.exists(out):
            os.remove(out)
        return False, "translator (fail-closed): " + str(e), d
    except SyntaxError as e:
        return False, "source does not parse: %s" % e, d
    with open(out, "w") as f:
        f.write(text)
    return True, "", d


def check_tie(repo=None, which="Intg", timeout=600):
    """regenerate, compile the generated file and the tie lemmas against it.
    returns dict(ok, stage, log, lemmas, assumptions, generated_sha)"""
    import subprocess, re, shutil
    _, gen_name, tie_name = TIES[which]
    ok, msg, d = regenerate(repo, which)
    res = {"ok": False, "stage": "translate", "log": msg, "lemmas": [], "assumptions": {}, "dir": d, "tie_file": "coq/Tie/" + tie_name}
    if not ok:
        return res
    gen = os.path.join(d, "Gen", gen_name)
    res["generated_sha"] = hashlib.sha256(open(gen).read().encode()).hexdigest()[:16]
    tie_src = os.path.join(COQ, "Tie", tie_name)
    tie = os.path.join(d, "Tie", tie_name)
    shutil.copyfile(tie_src, tie)
    base = ["coqc", "-Q", COQ, "RV", "-Q", os.path.join(d, "Gen"), "RV.Gen", "-Q", os.path.join(d, "Tie"), "RV.Tie"]
    r = subprocess.run(base + [gen], capture_output=True, text=True, timeout=timeout, cwd=d)
    if r.returncode:
        res.update(stage="generated file does not compile", log=(r.stdout + r.stderr)[-1500:])
        return res
    r = subprocess.run(base + [tie], capture_output=True, text=True, timeout=timeout, cwd=d)
    text = open(tie_src).read()
    res["lemmas"] = re.findall(r"^Lemma (tie_\w+)", text, re.M)
    if r.returncode:
        res.update(stage="tie lemma fails", log=(r.stdout + r.stderr)[-1500:])
        return res
    printed = re.findall(r"Print Assumptions (\w+)\.", text)
    blocks = [b.strip() for b in re.split(r"(?m)^(?=Closed under the global context|Axioms:)", r.stdout) if b.strip()]
    res["assumptions"] = {n: ("closed" if b.startswith("Closed") else re.sub(r"\s+", " ", b)[:300]) for n, b in zip(printed, blocks)}
    res.update(ok=True, stage="checked", log="")
    return res


if __name__ == "__main__":
    print(generate())
    print(generate_dc())
