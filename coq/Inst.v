(* Concrete carriers for running the model: binary64 (PrimFloat) and exact
   rationals (Qc).  Only Qc is a field; FloatOps is the running instance of
   the correspondence check (its results are compared to rockit's float64
   numbers under a tolerance), QcOps is used for cross-checks and witnesses. *)
From Coq Require Import ZArith QArith Qcanon List.
From Coq Require PrimFloat.
From RV Require Import Base.Num.

Definition FloatOps : Ops PrimFloat.float :=
  mkOps PrimFloat.float PrimFloat.zero PrimFloat.one PrimFloat.add PrimFloat.mul PrimFloat.sub
        PrimFloat.opp PrimFloat.div (fun x => PrimFloat.div PrimFloat.one x).

Definition QcOps : Ops Qc :=
  mkOps Qc (Q2Qc 0) (Q2Qc 1) Qcplus Qcmult Qcminus Qcopp Qcdiv Qcinv.

Lemma QcLaws : FieldLaws QcOps.
Proof. exact Qcft. Qed.
