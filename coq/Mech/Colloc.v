(* Mechanism of DirectCollocation (direct_collocation.py:55-248): coefficients C, D, B from the
   collocation points, variable layout, time of the roots, collocation / algebraic / continuity
   rows, quadrature, node and integrator values of the algebraic states. *)
From Coq Require Import ZArith QArith List Bool.
From RV Require Import Base.Num Base.PyList Base.Vec Base.Poly Expr Ocp Rows
     Mech.Grid Mech.Intg Mech.Sampling Mech.Shooting.
Import ListNotations.

Section Colloc.
Context {F : Type} {OF : Ops F}.

(* collocation_coeff(tau): nodes [0]+tau; C[r][j] = l_r'(tau_j), D[r] = l_r(1).
   B[j] = int_0^1 of the j-th Lagrange polynomial on the collocation points alone (the interpolatory
   quadrature rule on tau; direct_collocation.py:59-63) *)
Definition tau_root (tau : list F) : list F := o0 :: tau.
Definition coeff_C (tau : list F) : list (list F) :=      (* rows r = 0..d, columns j = 0..d-1 *)
  map (fun r => map (fun tj => polyval (pderiv (lagrange (tau_root tau) r)) tj) tau)
      (seq 0 (S (length tau))).
Definition coeff_D (tau : list F) : list F :=
  map (fun r => polyval (lagrange (tau_root tau) r) o1) (seq 0 (S (length tau))).
Definition coeff_B (tau : list F) : list F :=
  map (fun j => pint01 (lagrange tau j)) (seq 0 (length tau)).
(* the polynomial through the algebraic values lives on the collocation points only *)
Definition wz_at0 (tau : list F) : list F := map (fun j => nth 0 (lagrange tau j) o0) (seq 0 (length tau)).
Definition wz_at1 (tau : list F) : list F := map (fun j => polyval (lagrange tau j) o1) (seq 0 (length tau)).

(* sum_r w_r * v_r for vectors v_r *)
Definition wsum (w : list F) (vs : list (list F)) : list F := vlincomb w vs.

Section WithCase.
Variable oc : ocp.
Variable pt : point F.
Let me := o_method oc.
Let N := m_N me.
Let M := m_M me.
Let tau : list F := map of_Q (m_tau me).
Let d := length tau.
Let cg := grid_of oc pt.
Let ig := integrator_grid cg N M.

Definition dt_k (k : nat) : F := (nth (S k) cg o0 -! nth k cg o0) /! of_nat M.

(* start state of integration interval (k, i) *)
Definition x_start (k i : nat) : list F :=
  match i with
  | O => nth k (p_X pt) []
  | S i' => nth i' (nth k (p_Xi pt) []) []
  end.
Definition helpers (k i : nat) : list (list F) := nth i (nth k (p_Xc pt) []) [].
Definition zvals (k i : nat) : list (list F) := nth i (nth k (p_Zc pt) []) [].
Definition Xc_full (k i : nat) : list (list F) := x_start k i :: helpers k i.

Definition t_root (k i j : nat) : F := nth i (nth k ig []) o0 +! dt_k k *! nth j tau o0.

(* environment of the system function at root (k, i, j) *)
Definition root_env (k i j : nat) : env F :=
  {| e_x := nth j (helpers k i) []; e_u := nth k (p_U pt) [];
     e_z := nth j (zvals k i) []; e_q := [];
     e_p := p_P pt; e_pc := nth k (p_PC pt) []; e_pp := nth k (p_PP pt) [];
     e_v := p_V pt; e_vc := nth k (p_VC pt) []; e_vp := nth k (p_VP pt) [];
     e_t := t_root k i j; e_T := o0; e_t0 := o0; e_DT := o0; e_DTc := o0 |}.

Definition col (C : list (list F)) (j : nat) : list F := map (fun row => nth j row o0) C.

(* Pidot_j = Xc * C[:,j] / dt *)
Definition Pidot (k i j : nat) : list F :=
  vdivs (wsum (col (coeff_C tau) j) (Xc_full k i)) (dt_k k).

Definition x_next (k i : nat) : list F :=
  if Nat.eqb (S i) M then nth (S k) (p_X pt) [] else x_start k (S i).

Definition scaled_rows (kd : kind) (ptz : Z) (lhs rhs : list F) (scales : list Q) (n : nat)
  : list (row F) :=
  map (fun s => mkRow kd s ptz SEq
                  ((nth s lhs o0 -! nth s rhs o0) /! of_Q (nth s scales 1%Q))) (seq 0 n).

Definition colloc_rows (k i j : nat) : list (row F) :=
  let en := root_env k i j in
  let ptz := Z.of_nat ((k * M + i) * d + j) in
  scaled_rows KColl ptz (Pidot k i j) (map (eval0 en) (o_ode oc)) (o_scale_der oc) (o_nx oc)
  ++ scaled_rows KAlg ptz [] (map (eval0 en) (o_alg oc)) (o_scale_z oc) (length (o_alg oc)).

Definition cont_rows (k i : nat) : list (row F) :=
  scaled_rows KCont (Z.of_nat (k * M + i)) (wsum (coeff_D tau) (Xc_full k i)) (x_next k i)
              (o_scale_x oc) (o_nx oc).

(* q = q + quad * dt * B[j], in the loop order k, i, j *)
Definition quad_term (k i j : nat) : list F :=
  vscale (nth j (coeff_B tau) o0) (vscale (dt_k k) (map (eval0 (root_env k i j)) (o_quad oc))).

Definition quad_step (k i : nat) (q : list F) : list F :=
  fold_left (fun acc j => vadd acc (quad_term k i j)) (seq 0 d) q.

(* list of (k, i) in loop order *)
Definition steps : list (nat * nat) :=
  flat_map (fun k => map (fun i => (k, i)) (seq 0 M)) (seq 0 N).

(* xqk: quadrature before every step, then after the last *)
Fixpoint xqk_from (q : list F) (l : list (nat * nat)) : list (list F) :=
  match l with
  | [] => [q]
  | (k, i) :: l' => q :: xqk_from (quad_step k i q) l'
  end.

Definition dc_xqk : list (list F) := xqk_from (vzero (length (o_quad oc))) steps.
Definition dc_Q : list (list F) := map (fun k => nth (k * M) dc_xqk []) (seq 0 (S N)).

Definition dc_lists : mlists F :=
  let zk := map (fun ki => wsum (wz_at0 tau) (zvals (fst ki) (snd ki))) steps in
  {| L_N := N; L_M := M;
     L_X := p_X pt; L_U := p_U pt;
     L_Z := map (fun k => wsum (wz_at0 tau) (zvals k 0)) (seq 0 N)
            ++ [wsum (wz_at1 tau) (zvals (N - 1) (M - 1))];
     L_Q := dc_Q;
     L_P := p_P pt; L_PC := p_PC pt; L_PP := p_PP pt;
     L_V := p_V pt; L_VC := p_VC pt; L_VP := p_VP pt;
     L_T := T_of oc pt; L_t0 := t0_of oc pt;
     L_cg := cg; L_ig := ig;
     L_xk := map (fun ki => x_start (fst ki) (snd ki)) steps;
     L_xqk := dc_xqk;
     L_zk := zk;
     L_xr := map (fun k => map (fun i => helpers k i) (seq 0 M)) (seq 0 N);
     L_zr := map (fun k => map (fun i => zvals k i) (seq 0 M)) (seq 0 N);
     L_tr := map (fun k => map (fun i => map (fun j => t_root k i j) (seq 0 d)) (seq 0 M)) (seq 0 N);
     (* poly_coeff = Xc * (poly*S): power p of the Lagrange basis over [0]+tau, rescaled by dt^p *)
     L_poly := map (fun ki => map (fun p => wsum (map (fun j => nth p (lagrange (tau_root tau) j) o0
                                                               /! opow (dt_k (fst ki)) p) (seq 0 (S d)))
                                                 (Xc_full (fst ki) (snd ki))) (seq 0 (S d))) steps;
     L_polyq := [];
     L_polyz := map (fun ki => map (fun p => wsum (map (fun j => nth p (lagrange tau j) o0
                                                                /! opow (dt_k (fst ki)) p) (seq 0 d))
                                                  (zvals (fst ki) (snd ki))) (seq 0 d)) steps |}.

Definition roots_rows_at (L : mlists F) (k i j : nat) : list (row F) :=
  map (fun c => row_at_root L c k i j d) (o_c_roots oc).

Definition rows_dc : list (row F) :=
  let L := dc_lists in
  let Tl := T_local (m_grid me) N (T_of oc pt) (p_Tloc pt) in
  let t0l := t0_of oc pt :: p_t0loc pt in
  bounds_finalize (m_grid me) cg (t0_of oc pt) (T_of oc pt)
  ++ flat_map (fun k =>
       bounds_T (m_grid me) N (horizon_is_var (o_T oc)) (T_of oc pt) Tl t0l k
       ++ flat_map (fun i =>
            flat_map (fun j => colloc_rows k i j ++ roots_rows_at L k i j) (seq 0 d)
            ++ cont_rows k i
            ++ integrator_rows_at L (o_c_integrator oc) k i) (seq 0 M)
       ++ control_rows_at L (o_c_control oc) k) (seq 0 N)
  ++ last_rows L (o_c_control oc)
  ++ last_rows L (o_c_integrator oc)
  ++ map (prow L) (o_c_point oc)
  ++ freeT_rows oc pt.

End WithCase.
End Colloc.
