(* Multi-stage problems (rockit/stage.py:189-214,1342-1443, ocp.py:104-122,
   direct_method.py:121-133).  A master Ocp without dynamics owns a list of stages; every stage
   is transcribed by its own method on its own decision quantities; the master adds its coupling
   constraints, variables and objective terms.  A clone of a template is a stage with the
   template's content and (optionally) an overridden t0 / T. *)
From Coq Require Import ZArith QArith List Bool.
From RV Require Import Base.Num Base.PyList Base.Vec Expr Rows Ocp Mech.Grid Mech.Sampling Mech.Shooting Mech.Colloc.
Import ListNotations.
Local Open Scope nat_scope.

(* coupling expressions of the master: point expressions of one stage, master variables *)
Inductive cexpr :=
| CC (q : Q)
| CSt (i : nat) (e : pexpr)      (* stage_i.at_t0/at_tf/integral/T/t0/... *)
| CV (j : nat)                   (* variable declared on the master *)
| CAdd (a b : cexpr) | CSub (a b : cexpr) | CMul (a b : cexpr) | CDiv (a b : cexpr)
| CNeg (a : cexpr) | CPow (a : cexpr) (n : nat).

Record cconstr := mkCConstr { cc_id : nat; cc_rel : rel; cc_lhs : cexpr; cc_rhs : cexpr }.

Record multi := mkMulti {
  mu_stages : list ocp;
  mu_cons : list cconstr;
  mu_obj : list cexpr }.

(* stage.clone(parent, t0=.., T=..): same content, horizon overridden where given *)
Definition clone (tpl : ocp) (t0 T : option horizon) : ocp :=
  mkOcp (o_nx tpl) (o_nu tpl) (o_nz tpl) (o_ode tpl) (o_quad tpl) (o_alg tpl)
        (o_scale_x tpl) (o_scale_u tpl) (o_scale_z tpl) (o_scale_der tpl)
        (o_c_control tpl) (o_c_integrator tpl) (o_c_roots tpl) (o_c_point tpl) (o_objective tpl)
        (match t0 with Some h => h | None => o_t0 tpl end)
        (match T with Some h => h | None => o_T tpl end)
        (o_method tpl).

Section Stages.
Context {F : Type} {OF : Ops F}.

Definition stage_lists (oc : ocp) (pt : point F) : mlists F :=
  match m_kind (o_method oc) with
  | DC => dc_lists oc pt
  | SS => lists_of oc pt true
  | MS => lists_of oc pt false
  end.

Definition stage_accepts (oc : ocp) : bool :=
  match m_kind (o_method oc) with DC => true | _ => shooting_accepts oc end.

Definition stage_rows (oc : ocp) (pt : point F) : list (row F) :=
  match m_kind (o_method oc) with
  | DC => rows_dc oc pt
  | SS => match transcribe_shooting oc pt true with Some r => r | None => [] end
  | MS => match transcribe_shooting oc pt false with Some r => r | None => [] end
  end.

Definition stage_objective (oc : ocp) (pt : point F) : F :=
  objective (stage_lists oc pt) (o_objective oc).

(* rows of the stages, each tagged with the index of the stage it belongs to *)
Fixpoint stages_rows (i : nat) (l : list (ocp * point F)) : list (nat * row F) :=
  match l with
  | [] => []
  | (oc, pt) :: rest => map (pair i) (stage_rows oc pt) ++ stages_rows (S i) rest
  end.

Fixpoint ceval (Ls : list (mlists F)) (V : list F) (e : cexpr) : F :=
  match e with
  | CC q => of_Q q
  | CSt i pe => match nth_error Ls i with Some L => peval L pe | None => o0 end
  | CV j => nth j V o0
  | CAdd a b => ceval Ls V a +! ceval Ls V b
  | CSub a b => ceval Ls V a -! ceval Ls V b
  | CMul a b => ceval Ls V a *! ceval Ls V b
  | CDiv a b => ceval Ls V a /! ceval Ls V b
  | CNeg a => oopp (ceval Ls V a)
  | CPow a n => opow (ceval Ls V a) n
  end.

Definition coupling_row (Ls : list (mlists F)) (V : list F) (c : cconstr) : row F :=
  mkRow KPoint (cc_id c) 0 (match cc_rel c with REq => SEq | RLe => SLe end)
        (ceval Ls V (cc_lhs c) -! ceval Ls V (cc_rhs c)).

Definition sum_list (l : list F) : F := fold_left oadd l o0.

Definition multi_lists (mu : multi) (pts : list (point F)) : list (mlists F) :=
  map (fun sp => stage_lists (fst sp) (snd sp)) (combine (mu_stages mu) pts).

(* the master's tag is the number of stages *)
Definition multi_rows (mu : multi) (pts : list (point F)) (V : list F) : list (nat * row F) :=
  stages_rows 0 (combine (mu_stages mu) pts)
  ++ map (fun c => (length (mu_stages mu), coupling_row (multi_lists mu pts) V c)) (mu_cons mu).

Definition multi_objective (mu : multi) (pts : list (point F)) (V : list F) : F :=
  sum_list (map (fun sp => stage_objective (fst sp) (snd sp)) (combine (mu_stages mu) pts))
  +! sum_list (map (ceval (multi_lists mu pts) V) (mu_obj mu)).

Definition multi_accepts (mu : multi) : bool := forallb stage_accepts (mu_stages mu).

End Stages.
