(* Mechanism of Stage.set_value (stage.py:510-542) and of the (re-)transcription that reads the
   declared values: a parameter value lives in the declared table (_param_vals) and, while the
   OCP is transcribed, in the live Opti parameter. *)
From Coq Require Import List Arith Bool.
Import ListNotations.

Section Params.
Variable V : Type.

Definition assoc := list (nat * V).
Fixpoint lookup (a : assoc) (i : nat) : option V :=
  match a with
  | [] => None
  | (j, v) :: a' => if Nat.eqb j i then Some v else lookup a' i
  end.
Definition upd (i : nat) (v : V) (a : assoc) : assoc := (i, v) :: a.

Record pstate := mkP { ps_declared : assoc; ps_transcribed : bool; ps_live : assoc }.

Inductive pop :=
| SetValue (i : nat) (v : V)
| Transcribe          (* any query that needs the NLP: sample, value, solve (lazy) *)
| Edit.               (* any declaration that invalidates the transcription *)

Definition pstep (s : pstate) (o : pop) : pstate :=
  match o with
  | SetValue i v =>
      if ps_transcribed s
      then mkP (upd i v (ps_declared s)) true (upd i v (ps_live s))
      else mkP (upd i v (ps_declared s)) false (ps_live s)
  | Transcribe =>
      if ps_transcribed s then s else mkP (ps_declared s) true (ps_declared s)
  | Edit => mkP (ps_declared s) false (ps_live s)
  end.

Definition prun (s : pstate) (ops : list pop) : pstate := fold_left pstep ops s.

(* the value of parameter i the next solve works with *)
Definition seen (s : pstate) (i : nat) : option V := lookup (ps_live (pstep s Transcribe)) i.

(* specification: the last value set for i in the history, else the initial one *)
Fixpoint last_set (ops : list pop) (i : nat) (init : option V) : option V :=
  match ops with
  | [] => init
  | SetValue j v :: ops' => last_set ops' i (if Nat.eqb j i then Some v else init)
  | _ :: ops' => last_set ops' i init
  end.

Definition pinit (a : assoc) : pstate := mkP a false [].

End Params.
Arguments lookup {V}. Arguments upd {V}. Arguments mkP {V}.
Arguments ps_declared {V}. Arguments ps_transcribed {V}. Arguments ps_live {V}.
Arguments SetValue {V}. Arguments Transcribe {V}. Arguments Edit {V}.
Arguments pstep {V}. Arguments prun {V}. Arguments seen {V}. Arguments last_set {V}. Arguments pinit {V}.
