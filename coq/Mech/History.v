(* Mechanism of lazy (re-)transcription (ocp.py:80-122, stage.py:1320-1340): the user's OCP holds the
   declared specification and a flag; a query transcribes a deep copy when the flag is off and
   caches the result; every declaration switches the flag off; set_value / set_initial on a
   transcribed OCP write through to the cached NLP and to the declaration. *)
From Coq Require Import List Bool.
Import ListNotations.

Section History.
Variables (Spec Edit Upd NLP : Type).
Variable apply_edit : Spec -> Edit -> Spec.         (* subject_to, add_objective, method, solver, set_T, ... *)
Variable apply_upd : Spec -> Upd -> Spec.            (* set_value / set_initial on the declaration *)
Variable transcribe : Spec -> NLP.                   (* fresh transcription of a specification *)
Variable live_upd : NLP -> Upd -> NLP.               (* the same update applied to a transcribed NLP *)

Record hstate := mkH { h_spec : Spec; h_flag : bool; h_cache : option NLP }.

Inductive hop :=
| HEdit (e : Edit)       (* invalidating declaration *)
| HUpd (u : Upd)         (* set_value / set_initial *)
| HQuery.                (* sample / value / jacobian / solve *)

Definition hstep (s : hstate) (o : hop) : hstate :=
  match o with
  | HEdit e => mkH (apply_edit (h_spec s) e) false (h_cache s)
  | HUpd u =>
      if h_flag s
      then mkH (apply_upd (h_spec s) u) true (option_map (fun n => live_upd n u) (h_cache s))
      else mkH (apply_upd (h_spec s) u) false (h_cache s)
  | HQuery =>
      if h_flag s then s else mkH (h_spec s) true (Some (transcribe (h_spec s)))
  end.

Definition hrun (s : hstate) (ops : list hop) : hstate := fold_left hstep ops s.
Definition hinit (sp : Spec) : hstate := mkH sp false None.

(* the NLP the next solve works on *)
Definition next_nlp (s : hstate) : option NLP := h_cache (hstep s HQuery).

(* the specification a history leaves behind, ignoring queries *)
Fixpoint final_spec (sp : Spec) (ops : list hop) : Spec :=
  match ops with
  | [] => sp
  | HEdit e :: ops' => final_spec (apply_edit sp e) ops'
  | HUpd u :: ops' => final_spec (apply_upd sp u) ops'
  | HQuery :: ops' => final_spec sp ops'
  end.

End History.
