(* Mechanism of MultipleShooting.add_constraints (multiple_shooting.py:59-141)
   and SingleShooting.add_constraints (single_shooting.py:60-132). *)
From Coq Require Import ZArith QArith List Bool.
From RV Require Import Base.Num Base.PyList Base.Vec Expr Ocp Rows
     Mech.Grid Mech.Intg Mech.Sampling.
Import ListNotations.

Section Shooting.
Context {F : Type} {OF : Ops F}.

(* a semantic decision point: the values of the quantities the method decides on
   (MS: all node states; SS: only X[0]) and of parameters *)
Record point : Type := mkPoint {
  p_X : list (list F);     (* MS: N+1 node states;  SS: [X0];  DC: N+1 node states *)
  p_U : list (list F);     (* N controls *)
  p_V : list F; p_VC : list (list F); p_VP : list (list F);
  p_P : list F; p_PC : list (list F); p_PP : list (list F);
  p_T : F; p_t0 : F;
  p_t0loc : list F;        (* t0_local[1..N] when localize_t0 *)
  p_Tloc : list F;         (* T_local[1..N-1] (all N for FreeGrid) when localize_T *)
  (* DirectCollocation only *)
  p_Xi : list (list (list F));            (* [k][i] integrator start states for i>=1 *)
  p_Xc : list (list (list (list F)));     (* [k][i][j] helper states *)
  p_Zc : list (list (list (list F))) }.   (* [k][i][j] algebraic values at roots *)

(* the horizon values: a fixed number, a parameter slot, a variable slot, or (FreeTime) the
   promoted decision variable whose value the point carries *)
Definition horizon_value (h : horizon) (pt : point) (free : F) : F :=
  match h with
  | HFixed q => of_Q q
  | HFree _ => free
  | HParam i => nth i (p_P pt) o0
  | HVar i => nth i (p_V pt) o0
  end.
Definition T_of (oc : ocp) (pt : point) : F := horizon_value (o_T oc) pt (p_T pt).
Definition t0_of (oc : ocp) (pt : point) : F := horizon_value (o_t0 oc) pt (p_t0 pt).

(* environment of the system function on interval k (get_p_sys(k)); x and t
   are filled in by the integrator *)
Definition sys_env (pt : point) (k : nat) (x : list F) (t DT DTc : F) : env F :=
  {| e_x := x; e_u := nth k (p_U pt) []; e_z := []; e_q := [];
     e_p := p_P pt; e_pc := nth k (p_PC pt) []; e_pp := nth k (p_PP pt) [];
     e_v := p_V pt; e_vc := nth k (p_VC pt) []; e_vp := nth k (p_VP pt) [];
     e_t := t; e_T := o0; e_t0 := o0; e_DT := DT; e_DTc := DTc |}.

Definition sys_of (oc : ocp) (pt : point) (k : nat) : sysfun F :=
  {| s_ode := fun x t => map (eval0 (sys_env pt k x t o0 o0)) (o_ode oc);
     s_quad := fun x t => map (eval0 (sys_env pt k x t o0 o0)) (o_quad oc) |}.

Definition next_of (oc : ocp) (pt : point) (k : nat) : nextfun F :=
  {| n_next := fun x t DT DTc => map (eval0 (sys_env pt k x t DT DTc)) (o_ode oc);
     n_quad := fun x t DT DTc => map (eval0 (sys_env pt k x t DT DTc)) (o_quad oc) |}.

Definition step_of (oc : ocp) (pt : point) (k : nat)
  : list F -> F -> F -> F -> step_result F :=
  match m_intg (o_method oc) with
  | IRK => intg_rk (sys_of oc pt k)
  | IEuler => intg_expl_euler (sys_of oc pt k)
  | INext => intg_next (next_of oc pt k)
  end.

(* F(x0=X[k], u=U[k], t0=control_grid[k], T=control_grid[k+1]-control_grid[k], p=get_p_sys(k)) *)
Definition FF (oc : ocp) (pt : point) (cg : list F) (k : nat) (xk : list F) : ds_state F :=
  discrete_system (step_of oc pt k) (m_M (o_method oc)) (length (o_quad oc)) xk
                  (nth (S k) cg o0 -! nth k cg o0) (nth k cg o0).

(* loop state of the first pass over k *)
Record shoot_acc : Type := mkAcc {
  a_X : list (list F);      (* SS: states computed so far (X[0..k]) *)
  a_q : list F;             (* self.q *)
  a_Q : list (list F);      (* self.Q *)
  a_xk : list (list F);
  a_xqk : list (list F);
  a_FF : list (ds_state F) }.

Definition shoot_step (oc : ocp) (pt : point) (cg : list F) (single : bool)
           (a : shoot_acc) (k : nat) : shoot_acc :=
  let M := m_M (o_method oc) in
  let xk := if single then last (a_X a) [] else nth k (p_X pt) [] in
  let ff := FF oc pt cg k xk in
  let q' := vadd (a_q a) (ds_quad ff) in
  {| a_X := a_X a ++ [ds_xf xk ff];
     a_q := q';
     a_Q := a_Q a ++ [q'];
     a_xk := a_xk a ++ firstn M (ds_X ff);
     a_xqk := a_xqk a ++ map (vadd (a_q a)) (ds_Q ff);
     a_FF := a_FF a ++ [ff] |}.

Definition shoot (oc : ocp) (pt : point) (cg : list F) (single : bool) : shoot_acc :=
  let nq := length (o_quad oc) in
  fold_left (shoot_step oc pt cg single) (seq 0 (m_N (o_method oc)))
            {| a_X := [nth 0 (p_X pt) []]; a_q := vzero nq; a_Q := [vzero nq];
               a_xk := []; a_xqk := [vzero nq]; a_FF := [] |}.

Definition grid_of (oc : ocp) (pt : point) : list F :=
  control_grid (m_grid (o_method oc)) (m_N (o_method oc)) (t0_of oc pt) (T_of oc pt)
               (p_t0loc pt) (p_Tloc pt).

Definition lists_of (oc : ocp) (pt : point) (single : bool) : mlists F :=
  let N := m_N (o_method oc) in
  let M := m_M (o_method oc) in
  let cg := grid_of oc pt in
  let a := shoot oc pt cg single in
  let X := if single then a_X a else p_X pt in
  {| L_N := N; L_M := M;
     L_X := X; L_U := p_U pt;
     L_Z := repeat [] (S N);
     L_Q := a_Q a;
     L_P := p_P pt; L_PC := p_PC pt; L_PP := p_PP pt;
     L_V := p_V pt; L_VC := p_VC pt; L_VP := p_VP pt;
     L_T := T_of oc pt; L_t0 := t0_of oc pt;
     L_cg := cg; L_ig := integrator_grid cg N M;
     L_xk := a_xk a ++ [last X []];
     L_xqk := a_xqk a;
     L_zk := repeat [] (S (N * M));
     L_xr := []; L_zr := []; L_tr := [];
     L_poly := flat_map (@ds_poly F) (a_FF a);
     L_polyq := flat_map (@ds_polyq F) (a_FF a);
     L_polyz := [] |}.

Definition horizon_is_var (h : horizon) : bool :=
  match h with HFree _ | HVar _ => true | _ => false end.

(* gap-closing rows X[k+1] == FF["xf"], scaled by scale_x *)
Definition dyn_rows (oc : ocp) (pt : point) (a : shoot_acc) (k : nat) : list (row F) :=
  let xf := ds_xf (nth k (p_X pt) []) (nth k (a_FF a) (ds_init [] o0 0)) in
  map (fun i => mkRow KDyn i (Z.of_nat k) SEq
                 ((nth i (nth (S k) (p_X pt) []) o0 -! nth i xf o0)
                    /! of_Q (nth i (o_scale_x oc) 1%Q)))
      (seq 0 (o_nx oc)).

Definition freeT_rows (oc : ocp) (pt : point) : list (row F) :=
  match o_T oc with
  | HFree _ => [mkRow KFreeT 0 0 SLe (o0 -! T_of oc pt)]
  | _ => []
  end.

Definition path_rows_k (oc : ocp) (L : mlists F) (k : nat) : list (row F) :=
  flat_map (integrator_rows_at L (o_c_integrator oc) k) (seq 0 (L_M L))
  ++ control_rows_at L (o_c_control oc) k.

Definition rows_ms (oc : ocp) (pt : point) : list (row F) :=
  let me := o_method oc in
  let N := m_N me in
  let cg := grid_of oc pt in
  let a := shoot oc pt cg false in
  let L := lists_of oc pt false in
  let Tl := T_local (m_grid me) N (T_of oc pt) (p_Tloc pt) in
  let t0l := t0_of oc pt :: p_t0loc pt in
  bounds_finalize (m_grid me) cg (t0_of oc pt) (T_of oc pt)
  ++ flat_map (fun k =>
       dyn_rows oc pt a k
       ++ bounds_T (m_grid me) N (horizon_is_var (o_T oc)) (T_of oc pt) Tl t0l k
       ++ path_rows_k oc L k) (seq 0 N)
  ++ last_rows L (o_c_control oc ++ o_c_integrator oc)
  ++ map (prow L) (o_c_point oc)
  ++ freeT_rows oc pt.

Definition rows_ss (oc : ocp) (pt : point) : list (row F) :=
  let me := o_method oc in
  let N := m_N me in
  let cg := grid_of oc pt in
  let L := lists_of oc pt true in
  let Tl := T_local (m_grid me) N (T_of oc pt) (p_Tloc pt) in
  let t0l := t0_of oc pt :: p_t0loc pt in
  bounds_finalize (m_grid me) cg (t0_of oc pt) (T_of oc pt)
  ++ flat_map (fun k =>
       bounds_T (m_grid me) N (horizon_is_var (o_T oc)) (T_of oc pt) Tl t0l k
       ++ path_rows_k oc L k) (seq 0 N)
  ++ last_rows L (o_c_control oc ++ o_c_integrator oc)
  ++ map (prow L) (o_c_point oc)
  ++ freeT_rows oc pt.

(* shooting methods have no integrator roots: such a constraint is rejected
   (multiple_shooting.py / single_shooting.py add_constraints) *)
Definition shooting_accepts (oc : ocp) : bool :=
  match o_c_roots oc with [] => true | _ => false end.

Definition transcribe_shooting (oc : ocp) (pt : point) (single : bool) : option (list (row F)) :=
  if shooting_accepts oc then Some (if single then rows_ss oc pt else rows_ms oc pt) else None.

End Shooting.
Arguments point F : clear implicits.
Arguments shoot_acc F : clear implicits.
