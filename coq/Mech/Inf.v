(* Mechanism of SamplingMethod.add_inf_constraints (sampling_method.py:611-656) for constraints that
   are affine in the states: the degree-4 step polynomial is rescaled to [0,1] with the step length,
   converted to Bernstein coefficients with the literal 5x5 matrix, and the comparison is relayed to
   the coefficients. *)
From Coq Require Import ZArith QArith List Bool.
From RV Require Import Base.Num Base.PyList Base.Vec Expr Ocp Rows Mech.Grid Mech.Sampling.
Import ListNotations.

Section Inf.
Local Open Scope nat_scope.
Context {F : Type} {OF : Ops F}.

(* Poly_to_Bernstein_matrix_4 *)
Definition p2b4 : list (list Q) :=
  [[1; 0; 0; 0; 0]; [1; 1#4; 0; 0; 0]; [1; 1#2; 1#6; 0; 0]; [1; 3#4; 1#2; 1#4; 0]; [1; 1; 1; 1; 1]]%Q.

(* Bernstein coefficients (degree 4) of a0 + a1 s + a2 s^2 + a3 s^3 + a4 s^4 *)
Definition bernstein4 (a : list F) : list F :=
  map (fun row => osum (map (fun p => of_Q (fst p) *! snd p) (combine row a))) p2b4.

(* rescale physical-time coefficients c_i (of tau^i) to normalised time s = tau / h *)
Fixpoint rescale_from (c : list F) (h acc : F) : list F :=
  match c with [] => [] | ci :: c' => (ci *! acc) :: rescale_from c' h (acc *! h) end.
Definition rescale (c : list F) (h : F) : list F := rescale_from c h o1.

(* an affine constraint  sum_s a_s x_s + c0 <= bound  on grid='inf' *)
Record iconstr := mkIC { ic_id : nat; ic_terms : list (Q * nat); ic_const : Q; ic_bound : expr }.

(* coefficient column i (of tau^i) of state slot s on step (k,l) *)
Definition state_coeffs (L : mlists F) (step s : nat) : list F :=
  map (fun col => nth s col o0) (nth step (L_poly L) []).

Definition inf_rows_step (L : mlists F) (c : iconstr) (k l : nat) : list (row F) :=
  let step := k * L_M L + l in
  let h := (nth (S k) (L_cg L) o0 -! nth k (L_cg L) o0) /! of_nat (L_M L) in
  let bern := map (fun t => vscale (of_Q (fst t)) (bernstein4 (rescale (state_coeffs L step (snd t)) h)))
                  (ic_terms c) in
  let total := fold_left vadd bern (repeat (of_Q (ic_const c)) 5) in
  let b := eval_control L (Z.of_nat k) (ic_bound c) in
  map (fun v => mkRow KInf (ic_id c) (Z.of_nat step) SLe (v -! b)) total.

Definition inf_rows (L : mlists F) (cs : list iconstr) : list (row F) :=
  flat_map (fun k => flat_map (fun l => flat_map (fun c => inf_rows_step L c k l) cs) (seq 0 (L_M L)))
           (seq 0 (L_N L)).

(* Bernstein basis of degree 4 *)
Definition bern4 (i : nat) (s : F) : F :=
  of_nat (match i with 0 => 1 | 1 => 4 | 2 => 6 | 3 => 4 | _ => 1 end) *! opow s i *! opow (o1 -! s) (4 - i).
Definition bern4_poly (b : list F) (s : F) : F :=
  osum (map (fun i => nth i b o0 *! bern4 i s) (seq 0 5)).

End Inf.
