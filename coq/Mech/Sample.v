(* Mechanism of Stage._sample / _grid_control / _grid_integrator / _grid_integrator_roots and
   Stage.value (stage.py:1480-1589, 1670-1680), and of DM2numpy (casadi_helpers.py:151-161). *)
From Coq Require Import ZArith QArith List Bool.
From RV Require Import Base.Num Base.PyList Base.Vec Expr Ocp Rows Mech.Grid Mech.Sampling.
Import ListNotations.

Section Sample.
Context {F : Type} {OF : Ops F}.

(* node indices visited by _grid_control: [0] + [1..N-1] + [-1] *)
Definition control_ks (N : nat) (include_last : bool) : list Z :=
  (0%Z :: map Z.of_nat (seq 1 (N - 1))) ++ (if include_last then [(-1)%Z] else []).

(* one (matrix valued) expression = its scalar entries in column-major order;
   None stands for the NaN rockit returns when an offset reaches outside the horizon *)
(* the whole (matrix) expression is evaluated at once: an IndexError of any entry's offset
   operand turns the whole time point into NaN *)
Definition eval_all_at_control (L : mlists F) (k : Z) (es : list expr) : list (option F) :=
  if placeable_offs L k (flat_map offsets es)
  then map (fun e => Some (eval_control L k e)) es
  else map (fun _ => None) es.

Definition sample_control (L : mlists F) (es : list expr) (include_last : bool)
  : list F * list (list (option F)) :=
  ((if include_last then L_cg L else removelast (L_cg L)),
   map (fun k => eval_all_at_control L k es) (control_ks (L_N L) include_last)).

Definition sample_integrator (L : mlists F) (es : list expr) : list F * list (list (option F)) :=
  (concat (L_ig L),
   flat_map (fun k => map (fun l => map (fun e => Some (eval0 (env_integrator L k l) e)) es)
                          (seq 0 (L_M L))) (seq 0 (L_N L))
   ++ [eval_all_at_control L (-1) es]).

Definition sample_roots (L : mlists F) (d : nat) (es : list expr) : list F * list (list (option F)) :=
  (concat (concat (L_tr L)),
   flat_map (fun k => flat_map (fun l => map (fun j => map (fun e => Some (eval0 (env_root L k l j) e)) es)
                                             (seq 0 d)) (seq 0 (L_M L))) (seq 0 (L_N L))).

(* Stage.value of a non-signal expression *)
Definition value_of (L : mlists F) (e : pexpr) : F := peval L e.

End Sample.

(* DM2numpy(dm, (r, c), tdim): dm is r x (tdim*c), one r x c block per time point.  Row-major flat
   views: reshape (r, tdim, c) -> transpose (1,0,2) -> reshape to (tdim, r, c) minus singletons *)
Section DM2numpy.
Local Open Scope nat_scope.
Context {A : Type}.
Variable d : A.

(* row-major flat view of the r x (tdim*c) matrix given as a list of rows *)
Definition flat_rows (rows : list (list A)) : list A := concat rows.

Definition dm2numpy (flat : list A) (r tdim c : nat) : list A :=
  map (fun idx =>
         let i := idx / (r * c) in
         let a := (idx mod (r * c)) / c in
         let b := idx mod c in
         nth (a * (tdim * c) + i * c + b) flat d)
      (seq 0 (tdim * r * c)).

(* target shape: (tdim,) + the non-singleton entries of (r, c) *)
Definition dm2numpy_shape (r tdim c : nat) : list nat :=
  tdim :: filter (fun e => negb (Nat.eqb e 1)) [r; c].

End DM2numpy.
