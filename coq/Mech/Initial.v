(* Starting point of the NLP from the user's set_initial calls (stage.py:545-594,
   sampling_method.py:577-596, 936-1000, direct_collocation.py:250-322): the last call for a
   symbol wins; constants apply everywhere, column arrays per interval / node, expressions of
   time at the times implied by the guessed t0 and T; anything never given starts at zero. *)
From Coq Require Import ZArith QArith List Bool.
From RV Require Import Base.Num Base.PyList Base.Vec Expr Ocp Rows Mech.Grid.
Import ListNotations.

Inductive gkind := GX | GU | GZ | GV | GVC | GVP | GbigT | Gt0.
Definition gkind_eqb (a b : gkind) : bool :=
  match a, b with
  | GX, GX | GU, GU | GZ, GZ | GV, GV | GVC, GVC | GVP, GVP | GbigT, GbigT | Gt0, Gt0 => true
  | _, _ => false
  end.

Inductive gform :=
| GFconst (vals : list Q)          (* one value per slot of the symbol *)
| GFcols (cols : list (list Q))    (* columns; each holds one value per slot *)
| GFtime (es : list expr).         (* one expression of time per slot *)

(* one set_initial call: the symbol occupies slots [gc_slot, gc_slot + gc_len) of its kind *)
Record gcall := mkCall { gc_kind : gkind; gc_slot : nat; gc_len : nat; gc_form : gform }.

Section Initial.
Local Open Scope nat_scope.
Context {F : Type} {OF : Ops F}.

Definition covers (c : gcall) (kd : gkind) (s : nat) : bool :=
  gkind_eqb (gc_kind c) kd && Nat.leb (gc_slot c) s && Nat.ltb s (gc_slot c + gc_len c).

(* the last call (in call order) that covers slot s of kind kd *)
Fixpoint last_call (calls : list gcall) (kd : gkind) (s : nat) (acc : option gcall) : option gcall :=
  match calls with
  | [] => acc
  | c :: calls' => last_call calls' kd s (if covers c kd s then Some c else acc)
  end.

Definition time_env (t : F) : env F :=
  {| e_x := []; e_u := []; e_z := []; e_q := []; e_p := []; e_pc := []; e_pp := [];
     e_v := []; e_vc := []; e_vp := []; e_t := t; e_T := o0; e_t0 := o0; e_DT := o0; e_DTc := o0 |}.

(* value of a guess for slot offset j at column k and time t *)
Definition guess_value (c : gcall) (j k : nat) (t : F) : F :=
  match gc_form c with
  | GFconst vals => of_Q (nth j vals 0%Q)
  | GFcols cols => of_Q (nth j (nth (Nat.min k (length cols - 1)) cols []) 0%Q)
  | GFtime es => eval0 (time_env t) (nth j es (EC 0))
  end.

Definition start_of (calls : list gcall) (kd : gkind) (s k : nat) (t : F) : F :=
  match last_call calls kd s None with
  | Some c => guess_value c (s - gc_slot c) k t
  | None => o0
  end.

(* guessed horizon: an explicit guess for T / t0 wins over the FreeTime guess *)
Definition horizon_guess (h : horizon) (calls : list gcall) (kd : gkind) (pvals : list Q) : F :=
  match h with
  | HFixed q => of_Q q
  | HFree g => match last_call calls kd 0 None with
               | Some c => guess_value c 0 0 o0
               | None => of_Q g
               end
  | HParam i => of_Q (nth i pvals 0%Q)
  | HVar i => start_of calls GV i 0 o0
  end.

Record start_point : Type := mkStart {
  s_X : list (list F); s_U : list (list F); s_V : list F; s_VC : list (list F); s_VP : list (list F);
  s_T : F; s_t0 : F;
  s_Xi : list (list (list F)); s_Xc : list (list (list (list F))); s_Zc : list (list (list (list F)));
  s_t0loc : list F; s_Tloc : list F }.     (* local time variables of localized / free grids *)

Definition slots (n : nat) (f : nat -> F) : list F := map f (seq 0 n).

Definition start_values (oc : ocp) (nv nvc nvp : nat) (calls : list gcall) (pvals : list Q) : start_point :=
  let me := o_method oc in
  let N := m_N me in let M := m_M me in
  let tau := map of_Q (m_tau me) in
  let d := length tau in
  let Tg := horizon_guess (o_T oc) calls GbigT pvals in
  let t0g := horizon_guess (o_t0 oc) calls Gt0 pvals in
  let cg := time_grid (go_spec (m_grid me)) t0g Tg N in
  let ig := integrator_grid cg N M in
  let tn := fun k => nth k cg o0 in
  let dt := fun k => (nth (S k) cg o0 -! nth k cg o0) /! of_nat M in
  let tki := fun k i => nth i (nth k ig []) o0 in
  {| s_X := map (fun k => slots (o_nx oc) (fun s => start_of calls GX s k (tn k)))
                (seq 0 (match m_kind me with SS => 1 | _ => S N end));
     s_U := map (fun k => slots (o_nu oc) (fun s => start_of calls GU s k (tn k))) (seq 0 N);
     s_V := slots nv (fun s => start_of calls GV s 0 o0);
     s_VC := map (fun k => slots nvc (fun s => start_of calls GVC s k (tn k))) (seq 0 N);
     s_VP := map (fun k => slots nvp (fun s => start_of calls GVP s k (tn k))) (seq 0 (S N));
     s_T := Tg; s_t0 := t0g;
     s_Xi := map (fun k => map (fun i => slots (o_nx oc) (fun s => start_of calls GX s k (tki k i)))
                               (seq 1 (M - 1))) (seq 0 N);
     s_Xc := map (fun k => map (fun i => map (fun j =>
                    slots (o_nx oc) (fun s => start_of calls GX s k (tki k i +! dt k *! nth j tau o0)))
                    (seq 0 d)) (seq 0 M)) (seq 0 N);
     s_Zc := map (fun k => map (fun i => map (fun j =>
                    slots (o_nz oc) (fun s => start_of calls GZ s k (tki k i +! dt k *! nth j tau o0)))
                    (seq 0 d)) (seq 0 M)) (seq 0 N);
     (* sampling_method.py:596-608: t0_local[k] = grid[k] (k = 1..N), T_local[k] = grid[k+1] - grid[k]
        (k from 0 for a FreeGrid, from 1 otherwise) on the grid of the guessed horizon *)
     s_t0loc := tl cg;
     s_Tloc := let k0 := if is_free (m_grid me) then 0 else 1 in
               map (fun k => nth (S k) cg o0 -! nth k cg o0) (seq k0 (N - k0)) |}.

End Initial.
Arguments start_point F : clear implicits.
