(* Mechanism of the Grid classes of rockit/sampling_method.py:37-362 and of the
   control/integrator grid construction (731-747, 569-572, 846-856). *)
From Coq Require Import ZArith QArith List Bool.
From RV Require Import Base.Num Base.PyList Base.Vec Expr Ocp Rows.
Import ListNotations.

Section Grid.
Context {F : Type} {OF : Ops F}.

(* casadi.linspace(a, b, n+1): a + k*(b-a)/n, last entry b *)
Definition linspace (a b : F) (n : nat) : list F :=
  match n with
  | O => [a]
  | S n' => map (fun k => a +! of_nat k *! ((b -! a) /! of_nat n)) (seq 0 n) ++ [b]
  end.

(* GeometricGrid.normalized: vec=[0]; base=1; repeat: vec.append(vec[-1]+base); base*=g *)
Fixpoint geo_vec_aux (g base lastv : F) (n : nat) : list F :=
  match n with
  | O => []
  | S n' => (lastv +! base) :: geo_vec_aux g (base *! g) (lastv +! base) n'
  end.
Definition geo_vec (g : F) (N : nat) : list F := o0 :: geo_vec_aux g o1 o0 N.

Definition normalized (gs : grid_spec) (N : nat) : list F :=
  match gs with
  | GUniform | GFree => map (fun k => of_nat k /! of_nat N) (seq 0 (S N))
  | GGeometric gq _ => let vec := geo_vec (of_Q gq) N in
                       map (fun v => v /! last vec o0) vec
  | GNodes n => map of_Q n
  end.

(* time_grid(t0, T, N) *)
Definition time_grid (gs : grid_spec) (t0 T : F) (N : nat) : list F :=
  match gs with
  | GUniform | GFree => linspace t0 (t0 +! T) N
  | _ => map (fun n => t0 +! n *! T) (normalized gs N)
  end.

Definition scale_first (gs : grid_spec) (N : nat) : F :=
  match gs with
  | GUniform => o1 /! of_nat N
  | _ => nth 1 (normalized gs N) o0
  end.

Fixpoint cumsum_from (a : F) (l : list F) : list F :=
  match l with
  | [] => [a]
  | x :: l' => a :: cumsum_from (a +! x) l'
  end.

(* T_local as a list of N entries: entry 0 is T*scale_first for non-free grids *)
Definition T_local (go : grid_opts) (N : nat) (T : F) (Tloc : list F) : list F :=
  match go_spec go with
  | GFree => Tloc
  | gs => (T *! scale_first gs N) :: Tloc
  end.

Definition is_free (go : grid_opts) : bool :=
  match go_spec go with GFree => true | _ => false end.
Definition loc_T (go : grid_opts) : bool := go_localize_T go || is_free go.

(* sampling_method.py:731-745 *)
Definition control_grid (go : grid_opts) (N : nat) (t0 T : F)
           (t0loc Tloc : list F) : list F :=
  if go_localize_t0 go then t0 :: t0loc
  else if loc_T go then cumsum_from t0 (T_local go N T Tloc)
  else time_grid (go_spec go) t0 T N.

(* sampling_method.py:569-572 *)
Definition integrator_grid (cg : list F) (N M : nat) : list (list F) :=
  map (fun k => let tl := linspace (nth k cg o0) (nth (S k) cg o0) M in
                if Nat.ltb (S k) N then removelast tl else tl) (seq 0 N).

(* sampling_method.py:846-856 *)
Definition get_DT_control_at (cg : list F) (N : nat) (k : Z) : F :=
  if ((k =? -1) || (k =? Z.of_nat N))%Z
  then pygetd o0 cg (-1) -! pygetd o0 cg (-2)
  else pygetd o0 cg (k + 1) -! pygetd o0 cg k.

Definition get_DT_at (ig : list (list F)) (k : Z) (i : nat) : F :=
  let igk := pygetd [] ig k in
  if Nat.ltb i (length igk - 1)
  then nth (S i) igk o0 -! nth i igk o0
  else nth 0 (pygetd [] ig (k + 1)) o0 -! nth i igk o0.

(* ---- coupling constraints: bounds_T of each class, with the is_parametric filter
   of add_coupling_constraints (rows that mention no decision variable are skipped) *)

Definition qbound (q : option Q) (d : F) : F := match q with Some v => of_Q v | None => d end.

(* min <= (e <= max) *)
Definition minmax_rows (go : grid_opts) (k : Z) (e : F) : list (row F) :=
  mkRow KGrid 1 k SLe (qbound (go_min go) o0 -! e)
  :: match go_max go with
     | Some mx => [mkRow KGrid 2 k SLe (e -! of_Q mx)]
     | None => []
     end.

Definition fixed_bounds_T (go : grid_opts) (N : nat) (T : F) (Tl t0l : list F) (k : nat)
  : list (row F) :=
  let gs := go_spec go in
  let nrm := normalized gs N in
  let lT := loc_T go in
  let c1 :=
    if lT && Nat.ltb (S k) N then
      match gs with
      | GUniform => [mkRow KGrid 0 (Z.of_nat k) SEq (nth (S k) Tl o0 -! nth k Tl o0)]
      | GGeometric gq _ =>
          [mkRow KGrid 0 (Z.of_nat k) SEq (nth k Tl o0 *! of_Q gq -! nth (S k) Tl o0)]
      | _ => []
      end
    else [] in
  let Tk := if lT then nth k Tl o0 else T *! (nth (S k) nrm o0 -! nth k nrm o0) in
  let c2 := if go_localize_t0 go
            then [mkRow KGrid 3 (Z.of_nat k) SEq (nth k t0l o0 +! Tk -! nth (S k) t0l o0)]
            else [] in
  c1 ++ c2.

(* rows of add_coupling_constraints(k); [Tvar] says whether T is a decision variable *)
Definition bounds_T (go : grid_opts) (N : nat) (Tvar : bool) (T : F) (Tl t0l : list F) (k : nat)
  : list (row F) :=
  let gs := go_spec go in
  let fixedr := fixed_bounds_T go N T Tl t0l k in
  let lT := loc_T go in
  match gs with
  | GUniform =>
      (if Nat.eqb k 0 then
         if lT then (if Tvar then minmax_rows go 0 (nth 0 Tl o0) else [])
         else match go_min go, go_max go with
              | None, None => []
              | _, _ => if Tvar then minmax_rows go 0 (T /! of_nat N) else []
              end
       else []) ++ fixedr
  | GGeometric _ _ =>
      let nrm := normalized gs N in
      (if lT then
         (if Nat.eqb k 0 || Nat.eqb k (N - 1)
          then (if Tvar || negb (Nat.eqb k 0) then minmax_rows go (Z.of_nat k) (nth k Tl o0) else [])
          else [])
       else
         (if Nat.eqb k 0 then (if Tvar then minmax_rows go 0 (T *! nth 1 nrm o0) else []) else [])
         ++ (if Nat.eqb k (N - 1) && Nat.ltb 1 N
             then (if Tvar then minmax_rows go (Z.of_nat k)
                                   (T *! (pygetd o0 nrm (-1) -! pygetd o0 nrm (-2))) else [])
             else []))
      ++ fixedr
  | GFree => minmax_rows go (Z.of_nat k) (nth k Tl o0) ++ fixedr
  | GNodes _ =>
      (* FunctionGrid / DensityGrid: every interval is bounded (the nodes are not ordered by length) *)
      let nrm := normalized gs N in
      (if lT then []
       else match go_min go, go_max go with
            | None, None => []
            | _, _ => if Tvar then minmax_rows go (Z.of_nat k) (T *! (nth (S k) nrm o0 -! nth k nrm o0)) else []
            end) ++ fixedr
  end.

(* FreeGrid.bounds_finalize *)
Definition bounds_finalize (go : grid_opts) (cg : list F) (t0 T : F) : list (row F) :=
  if is_free go then [mkRow KGrid 4 (-1) SEq (pygetd o0 cg (-1) -! (t0 +! T))] else [].

End Grid.
