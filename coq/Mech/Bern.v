(* Bernstein-form polynomial algebra behind grid='inf' constraints that are polynomial (not only
   affine) in the states: SamplingMethod.add_inf_constraints (sampling_method.py) replaces every state
   by a BSpline object on the knot vector [0]*(d+1)+[1]*(d+1) (a polynomial in Bernstein form on the
   integrator step) and re-interprets the constraint expression with the operators of
   rockit/splines/spline.py: + and - (after raising both operands to the common degree), * (degree
   m+n), scalar multiples, derivative(); the comparison is relayed to the coefficients.

   The model represents a Bernstein polynomial of degree n by its n+1 coefficients and computes
   through the scaled form  b~_i = C(n,i) b_i, in which the product is a plain convolution and degree
   elevation is the multiplication by (s + t), t = 1 - s. *)
From Coq Require Import ZArith QArith List Bool.
From RV Require Import Base.Num Base.PyList Base.Vec Base.Poly Expr Ocp Rows Mech.Grid Mech.Sampling Mech.Inf.
Import ListNotations.

Fixpoint zw {A B C : Type} (f : A -> B -> C) (a : list A) (b : list B) : list C :=
  match a, b with
  | x :: a', y :: b' => f x y :: zw f a' b'
  | _, _ => []
  end.

(* row n of Pascal's triangle *)
Fixpoint browN (n : nat) : list nat :=
  match n with
  | O => [1%nat]
  | S n' => let r := browN n' in zw Nat.add (0%nat :: r) (r ++ [0%nat])
  end.

(* polynomial constraint expressions over the states (slots), their time derivatives and numbers *)
Inductive bexpr :=
| BC (q : Q) | BX (j : nat) | BDer (j : nat)
| BAdd (a b : bexpr) | BSub (a b : bexpr) | BMul (a b : bexpr) | BNeg (a : bexpr).

(* bc_lower = false:  expr <= bound;  bc_lower = true:  expr >= bound *)
Record bconstr := mkBC { bc_id : nat; bc_expr : bexpr; bc_lower : bool; bc_bound : expr }.

Section Bern.
Local Open Scope nat_scope.
Context {F : Type} {OF : Ops F}.

(* homogeneous form  sum_i a_i s^i t^(n-i),  n = length a - 1 *)
Fixpoint hom (a : list F) (s t : F) : F :=
  match a with
  | [] => o0
  | c :: a' => c *! opow t (length a') +! s *! hom a' s t
  end.

Definition brow (n : nat) : list F := map of_nat (browN n).

Definition bscale (b : list F) : list F := zw omul (brow (length b - 1)) b.
Definition bunscale (c : list F) : list F := zw odiv c (brow (length c - 1)).

(* value of the Bernstein polynomial with coefficients b at normalised time s *)
Definition bpoly (b : list F) (s : F) : F := hom (bscale b) s (o1 -! s).

(* degree elevation by one, by k, up to m coefficients *)
Definition belev1 (b : list F) : list F := bunscale (pmul (bscale b) [o1; o1]).
Fixpoint belev (k : nat) (b : list F) : list F :=
  match k with O => b | S k' => belev k' (belev1 b) end.
Definition bto (m : nat) (b : list F) : list F := belev (m - length b) b.

Definition badd (a b : list F) : list F :=
  let m := Nat.max (length a) (length b) in vadd (bto m a) (bto m b).
Definition bsub (a b : list F) : list F :=
  let m := Nat.max (length a) (length b) in vsub (bto m a) (bto m b).
Definition bneg (a : list F) : list F := vscale (oopp o1) a.
Definition bmul (a b : list F) : list F := bunscale (pmul (bscale a) (bscale b)).

(* BSpline.derivative() on the Bernstein knot vector: n (b_{i+1} - b_i) *)
Definition bderiv (b : list F) : list F :=
  let n := length b - 1 in
  map (fun i => of_nat n *! (nth (S i) b o0 -! nth i b o0)) (seq 0 n).

(* re-interpretation of a constraint expression: X j are the Bernstein coefficients of state slot j
   on the step, h the step length *)
Fixpoint bern_of (X : nat -> list F) (h : F) (e : bexpr) : list F :=
  match e with
  | BC q => [of_Q q]
  | BX j => X j
  | BDer j => vscale (o1 /! h) (bderiv (X j))
  | BAdd a b => badd (bern_of X h a) (bern_of X h b)
  | BSub a b => bsub (bern_of X h a) (bern_of X h b)
  | BMul a b => bmul (bern_of X h a) (bern_of X h b)
  | BNeg a => bneg (bern_of X h a)
  end.

(* the expression itself, evaluated on values of the states and of their derivatives *)
Fixpoint beval (xv dxv : nat -> F) (e : bexpr) : F :=
  match e with
  | BC q => of_Q q
  | BX j => xv j
  | BDer j => dxv j
  | BAdd a b => beval xv dxv a +! beval xv dxv b
  | BSub a b => beval xv dxv a -! beval xv dxv b
  | BMul a b => beval xv dxv a *! beval xv dxv b
  | BNeg a => oopp (beval xv dxv a)
  end.

(* rows  coefficient - bound <= 0  of one constraint on integrator step (k,l) *)
Definition step_bern (L : mlists F) (k l : nat) (h : F) (j : nat) : list F :=
  bernstein4 (rescale (state_coeffs L (k * L_M L + l) j) h).

Definition infp_rows_step (L : mlists F) (c : bconstr) (k l : nat) : list (row F) :=
  let step := k * L_M L + l in
  let h := (nth (S k) (L_cg L) o0 -! nth k (L_cg L) o0) /! of_nat (L_M L) in
  let total := bern_of (step_bern L k l h) h (bc_expr c) in
  let b := eval_control L (Z.of_nat k) (bc_bound c) in
  map (fun v => mkRow KInf (bc_id c) (Z.of_nat step) SLe (if bc_lower c then b -! v else v -! b)) total.

Definition infp_rows (L : mlists F) (cs : list bconstr) : list (row F) :=
  flat_map (fun k => flat_map (fun l => flat_map (fun c => infp_rows_step L c k l) cs) (seq 0 (L_M L)))
           (seq 0 (L_N L)).

End Bern.
