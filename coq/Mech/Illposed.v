(* The checks rockit performs before an NLP is handed to the solver, at the places it performs
   them (stage.py:183-187, 532-542, 577-592, 819-827, 899-903, 1171-1217, 1531-1534;
   direct_method.py:108-124, 259-263; sampling_method.py:470-497; spline_method.py:53-113;
   multiple_shooting.py / single_shooting.py add_constraints).  A specification is abstracted to
   the facts those checks look at. *)
From Coq Require Import List Bool Arith.
Import ListNotations.

Inductive mkind := KMS | KSS | KDC | KSpline.

Record ispec := mkI {
  i_has_rule : list bool;        (* per state: set_der / set_next given *)
  i_has_value : list bool;       (* per parameter: set_value given *)
  i_has_dynamics : bool;         (* the stage declares states or controls *)
  i_method : option mkind;
  i_solver : bool;
  i_obj_nonsignal : list bool;   (* per objective term: not a signal *)
  i_obj_scalar : list bool;      (* per objective term: scalar *)
  i_setvalue_on_param : list bool;      (* per set_value call: target is a parameter *)
  i_setinitial_on_var : list bool;      (* per set_initial call: target is a known non-parameter symbol *)
  i_grid_known : list bool;      (* per subject_to / sample call: grid name is one of the known ones *)
  i_symbols_owned : list bool;   (* per declared expression: all symbols belong to the OCP *)
  i_constr_not_false : list bool;(* per constraint: not a constant-false relation *)
  i_nalg : nat;                  (* number of algebraic equations *)
  i_explicit_scheme : bool;      (* rk / expl_euler shooting *)
  i_horizon_free_ode : bool;     (* T, t0, DT do not occur in the right-hand sides *)
  i_nroots_constraints : nat;    (* constraints on grid integrator_roots *)
  i_chain_linear : bool }.       (* time-invariant linear integrator chains (SplineMethod) *)

Definition all_true (l : list bool) : bool := forallb (fun b => b) l.

Definition method_ok (s : ispec) : bool :=
  match i_method s with
  | None => negb (i_has_dynamics s)
  | Some KMS | Some KSS =>
      (negb (i_explicit_scheme s) || Nat.eqb (i_nalg s) 0) && Nat.eqb (i_nroots_constraints s) 0
  | Some KDC => true
  | Some KSpline => i_chain_linear s && Nat.eqb (i_nalg s) 0 && Nat.eqb (i_nroots_constraints s) 0
  end.

(* true = nothing is rejected: the NLP is built and handed to the solver *)
Definition accepts (s : ispec) : bool :=
  all_true (i_has_rule s) && all_true (i_has_value s) && method_ok s && i_solver s
  && all_true (i_obj_nonsignal s) && all_true (i_obj_scalar s)
  && all_true (i_setvalue_on_param s) && all_true (i_setinitial_on_var s)
  && all_true (i_grid_known s) && all_true (i_symbols_owned s) && all_true (i_constr_not_false s)
  && i_horizon_free_ode s.

(* list update: flag at position k switched off *)
Fixpoint clear_at (l : list bool) (k : nat) : list bool :=
  match l, k with
  | [], _ => []
  | _ :: l', O => false :: l'
  | b :: l', S k' => b :: clear_at l' k'
  end.
