(* Mechanism of SamplingMethod: the per-method lists (X, U, Z, Q, xk, xqk, ...),
   the four substitution sets eval_at_control / _eval_at_control /
   eval_at_integrator / eval_at_integrator_root (sampling_method.py:791-934),
   placeholder filling (657-693) and constraint placement helpers. *)
From Coq Require Import ZArith QArith List Bool.
From RV Require Import Base.Num Base.PyList Base.Vec Expr Ocp Rows Mech.Grid.
Import ListNotations.

Section Sampling.
Context {F : Type} {OF : Ops F}.

(* state of the method object after add_variables/add_constraints *)
Record mlists : Type := mkLists {
  L_N : nat; L_M : nat;
  L_X : list (list F);        (* N+1 node states *)
  L_U : list (list F);        (* N controls *)
  L_Z : list (list F);        (* N+1 algebraic values at nodes (may be empty) *)
  L_Q : list (list F);        (* N+1 quadrature values at nodes *)
  L_P : list F;               (* global parameters *)
  L_PC : list (list F);       (* column k: per-interval parameter slots (N columns) *)
  L_PP : list (list F);       (* N+1 columns *)
  L_V : list F;
  L_VC : list (list F);       (* N columns *)
  L_VP : list (list F);       (* N+1 columns *)
  L_T : F; L_t0 : F;
  L_cg : list F;              (* control_grid, N+1 *)
  L_ig : list (list F);       (* integrator_grid *)
  L_xk : list (list F);       (* N*M+1 integrator states *)
  L_xqk : list (list F);      (* N*M+1 *)
  L_zk : list (list F);
  L_xr : list (list (list (list F)));  (* [k][i][j] helper state at root j *)
  L_zr : list (list (list (list F)));
  L_tr : list (list (list F));
  (* dense output: per integrator step, column i = coefficient vector of (local time)^i *)
  L_poly : list (list (list F));
  L_polyq : list (list (list F));
  L_polyz : list (list (list F)) }.

Definition colget (cols : list (list F)) (k : Z) : list F := pygetd [] cols k.

(* eval_at_control: outer environment, k in {0..N-1} or -1 *)
Definition env_control (L : mlists) (k : Z) : env F :=
  {| e_x := colget (L_X L) k;
     e_u := colget (L_U L) k;
     e_z := colget (L_Z L) k;
     e_q := colget (L_Q L) k;
     e_p := L_P L; e_pc := colget (L_PC L) k; e_pp := colget (L_PP L) k;
     e_v := L_V L; e_vc := colget (L_VC L) k; e_vp := colget (L_VP L) k;
     e_t := pygetd o0 (L_cg L) k;
     e_T := L_T L; e_t0 := L_t0 L;
     e_DT := get_DT_at (L_ig L) k (if (k =? -1)%Z then L_M L - 1 else 0);
     e_DTc := get_DT_control_at (L_cg L) (L_N L) k |}.

(* _eval_at_control: environment of an offset operand at index k' *)
Definition env_inner (L : mlists) (k : Z) : env F :=
  let nU := Z.of_nat (length (L_U L)) in
  let atU := (k =? nU)%Z in
  {| e_x := colget (L_X L) k;
     e_u := if atU then colget (L_U L) (-1) else colget (L_U L) k;
     e_z := colget (L_Z L) k;
     e_q := colget (L_Q L) k;
     e_p := L_P L;
     e_pc := if atU then colget (L_PC L) (k - 1) else colget (L_PC L) k;
     e_pp := colget (L_PP L) k;
     e_v := L_V L;
     e_vc := if atU then colget (L_VC L) (k - 1) else colget (L_VC L) k;
     e_vp := colget (L_VP L) k;
     e_t := pygetd o0 (L_cg L) k;
     e_T := L_T L; e_t0 := L_t0 L;
     e_DT := if ((k =? -1) || (k =? Z.of_nat (length (L_ig L))))%Z
             then get_DT_at (L_ig L) (Z.of_nat (length (L_ig L)) - 1) (L_M L - 1)
             else get_DT_at (L_ig L) k 0;
     e_DTc := get_DT_control_at (L_cg L) (L_N L) k |}.

(* IndexError conditions of eval_at_control for one offset n at index k:
   explicit raises (k==-1 and n>0, k+n<0) and overflow of X[k+n] *)
(* the final node (k = -1) is node N when offset operands are located *)
Definition knode (L : mlists) (k n : Z) : Z :=
  if (k =? -1)%Z then Z.of_nat (L_N L) else k.

Definition offset_ok (L : mlists) (k n : Z) : bool :=
  negb ((k =? -1) && (0 <? n))%Z && (0 <=? knode L k n + n)%Z
  && (knode L k n + n <? Z.of_nat (length (L_X L)))%Z.

Definition placeable_offs (L : mlists) (k : Z) (offs : list Z) : bool :=
  forallb (offset_ok L k) offs.

Definition placeable (L : mlists) (k : Z) (e : expr) : bool :=
  placeable_offs L k (offsets e).

Definition eval_control (L : mlists) (k : Z) (e : expr) : F :=
  eval (env_control L k) (fun n => env_inner L (knode L k n + n)) e.

Definition eval_at_control (L : mlists) (k : Z) (e : expr) : option F :=
  if placeable L k e then Some (eval_control L k e) else None.

Definition env_integrator (L : mlists) (k i : nat) : env F :=
  let kz := Z.of_nat k in
  {| e_x := nth (k * L_M L + i) (L_xk L) [];
     e_u := colget (L_U L) kz;
     e_z := nth (k * L_M L + i) (L_zk L) [];
     e_q := nth (k * L_M L + i) (L_xqk L) [];
     e_p := L_P L; e_pc := colget (L_PC L) kz; e_pp := colget (L_PP L) kz;
     e_v := L_V L; e_vc := colget (L_VC L) kz; e_vp := colget (L_VP L) kz;
     e_t := nth i (nth k (L_ig L) []) o0;
     e_T := L_T L; e_t0 := L_t0 L;
     e_DT := get_DT_at (L_ig L) kz i;
     e_DTc := get_DT_control_at (L_cg L) (L_N L) kz |}.

Definition env_root (L : mlists) (k i j : nat) : env F :=
  let kz := Z.of_nat k in
  {| e_x := nth j (nth i (nth k (L_xr L) []) []) [];
     e_u := colget (L_U L) kz;
     e_z := nth j (nth i (nth k (L_zr L) []) []) [];
     e_q := [];
     e_p := L_P L; e_pc := colget (L_PC L) kz; e_pp := colget (L_PP L) kz;
     e_v := L_V L; e_vc := colget (L_VC L) kz; e_vp := colget (L_VP L) kz;
     e_t := nth j (nth i (nth k (L_tr L) []) []) o0;
     e_T := L_T L; e_t0 := L_t0 L;
     e_DT := get_DT_at (L_ig L) kz i;
     e_DTc := get_DT_control_at (L_cg L) (L_N L) kz |}.

(* a declared scalar relation at an environment value pair *)
Definition crow (kd : kind) (c : constr) (pt : Z) (lhs rhs : F) : row F :=
  mkRow kd (c_id c) pt (match c_rel c with REq => SEq | RLe => SLe end)
        ((lhs -! rhs) /! of_Q (c_scale c)).

Definition row_at_control (L : mlists) (c : constr) (k : Z) : list (row F) :=
  if placeable_offs L k (c_goffs c)
  then [crow KPath c k (eval_control L k (c_lhs c)) (eval_control L k (c_rhs c))]
  else [].              (* IndexError: the whole instance is dropped *)

Definition row_at_integrator (L : mlists) (c : constr) (k i : nat) : row F :=
  let en := env_integrator L k i in
  crow KPath c (Z.of_nat (k * L_M L + i)) (eval0 en (c_lhs c)) (eval0 en (c_rhs c)).

Definition row_at_root (L : mlists) (c : constr) (k i j : nat) (d : nat) : row F :=
  let en := env_root L k i j in
  crow KPath c (Z.of_nat ((k * L_M L + i) * d + j)) (eval0 en (c_lhs c)) (eval0 en (c_rhs c)).

(* placement on interval k shared by all sampling methods:
   control-grid constraints at node k *)
Definition control_rows_at (L : mlists) (cs : list constr) (k : nat) : list (row F) :=
  flat_map (fun c => if Nat.eqb k 0 && negb (c_first c) then []
                     else row_at_control L c (Z.of_nat k)) cs.

Definition integrator_rows_at (L : mlists) (cs : list constr) (k l : nat) : list (row F) :=
  flat_map (fun c => if Nat.eqb k 0 && Nat.eqb l 0 && negb (c_first c) then []
                     else [row_at_integrator L c k l]) cs.

(* the include_last pass at k = -1 *)
Definition last_rows (L : mlists) (cs : list constr) : list (row F) :=
  flat_map (fun c => if c_last c then row_at_control L c (-1) else []) cs.

(* ---- placeholders (phase 2) *)
Definition getopt (o : option F) : F := match o with Some v => v | None => o0 end.

Definition global_env (L : mlists) : env F :=
  {| e_x := []; e_u := []; e_z := []; e_q := []; e_p := L_P L; e_pc := []; e_pp := [];
     e_v := L_V L; e_vc := []; e_vp := []; e_t := o0; e_T := L_T L; e_t0 := L_t0 L;
     e_DT := o0; e_DTc := o0 |}.

Fixpoint peval (L : mlists) (e : pexpr) : F :=
  match e with
  | PC q => of_Q q
  | PAt0 a => getopt (eval_at_control L 0 a)
  | PAtf a => getopt (eval_at_control L (-1) a)
  | PInt i => nth i (colget (L_Q L) (-1)) o0
  | PSum a => fold_left (fun r k => r +! getopt (eval_at_control L (Z.of_nat k) a))
                        (seq 0 (L_N L)) o0
  | PSumP a => fold_left (fun r k => r +! getopt (eval_at_control L k a))
                         (map Z.of_nat (seq 0 (L_N L)) ++ [(-1)%Z]) o0
  | PIntC a => fold_left (fun r k => r +! (nth (S k) (L_cg L) o0 -! nth k (L_cg L) o0)
                                          *! getopt (eval_at_control L (Z.of_nat k) a))
                         (seq 0 (L_N L)) o0
  | PSym s => lookup (global_env L) s
  | PAdd a b => peval L a +! peval L b
  | PSub a b => peval L a -! peval L b
  | PMul a b => peval L a *! peval L b
  | PDiv a b => peval L a /! peval L b
  | PNeg a => oopp (peval L a)
  | PPow a n => opow (peval L a) n
  end.

Definition prow (L : mlists) (c : pconstr) : row F :=
  mkRow KPoint (pc_id c) 0 (match pc_rel c with REq => SEq | RLe => SLe end)
        ((peval L (pc_lhs c) -! peval L (pc_rhs c)) /! of_Q (pc_scale c)).

Definition objective (L : mlists) (terms : list pexpr) : F :=
  fold_left (fun r t => r +! peval L t) terms o0.

End Sampling.
Arguments mlists F : clear implicits.
