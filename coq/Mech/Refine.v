(* Mechanism of Stage._grid_intg_fine (stage.py:1591-1668) and Stage.sampler (1698-1806):
   evaluation of the per-step dense-output polynomials in local physical time. *)
From Coq Require Import ZArith QArith List Bool.
From RV Require Import Base.Num Base.PyList Base.Vec Base.Poly Expr Ocp Rows Mech.Grid Mech.Sampling.
Import ListNotations.

Section Refine.
Local Open Scope nat_scope.
Context {F : Type} {OF : Ops F}.

(* coeff * [tau^0; tau^1; ...] *)
Fixpoint powers_from (tau acc : F) (n : nat) : list F :=
  match n with O => [] | S n' => acc :: powers_from tau (acc *! tau) n' end.
Definition tpower (tau : F) (n : nat) : list F := powers_from tau o1 n.
Definition dense_eval (cols : list (list F)) (tau : F) : list F := vlincomb (tpower tau (length cols)) cols.

(* environment of a refined point inside integrator step (k, l) at local time tau, absolute time t *)
Definition env_fine (L : mlists F) (k l : nat) (pk : Z) (tau t : F) (dstep : nat) : env F :=
  let s := dstep in
  let kz := Z.of_nat k in
  {| e_x := dense_eval (nth s (L_poly L) []) tau;
     e_u := colget (L_U L) pk;
     e_z := dense_eval (nth s (L_polyz L) []) tau;
     e_q := match L_polyq L with
            | [] => []
            | _ => dense_eval (nth (if (pk =? -1)%Z then s else s) (L_xqk L) [] :: nth s (L_polyq L) []) tau
            end;
     e_p := L_P L; e_pc := colget (L_PC L) pk; e_pp := colget (L_PP L) pk;
     e_v := L_V L; e_vc := colget (L_VC L) pk; e_vp := colget (L_VP L) pk;
     e_t := t; e_T := L_T L; e_t0 := L_t0 L;
     e_DT := get_DT_at (L_ig L) kz l;
     e_DTc := get_DT_control_at (L_cg L) (L_N L) kz |}.

(* linspace(0, dt, refine+1)[m] *)
Definition tlocal (dt : F) (refine m : nat) : F := o0 +! of_nat m *! ((dt -! o0) /! of_nat refine).

Definition sample_fine (L : mlists F) (es : list expr) (refine : nat) : list F * list (list F) :=
  let N := L_N L in let M := L_M L in
  let dtk := fun k => (nth (S k) (L_cg L) o0 -! nth k (L_cg L) o0) /! of_nat M in
  let pts := flat_map (fun k => flat_map (fun l => map (fun m => (k, l, m)) (seq 0 refine)) (seq 0 M)) (seq 0 N) in
  (* t0 = time[k]; t0 += dt after every l *)
  let tstart := fun k l => fold_left (fun acc _ => acc +! dtk k) (seq 0 l) (nth k (L_cg L) o0) in
  let one := fun klm : nat * nat * nat =>
               let '(k, l, m) := klm in
               let tau := tlocal (dtk k) refine m in
               let t := tstart k l +! tau in
               (t, map (eval0 (env_fine L k l (Z.of_nat k) tau t (k * M + l))) es) in
  let body := map one pts in
  let kl := N - 1 in
  let taul := tlocal (dtk kl) refine refine in
  let tl := nth N (L_cg L) o0 in
  let lastv := map (eval0 (env_fine L kl (M - 1) (-1) taul tl (N * M - 1))) es in
  (map fst body ++ [tl], map snd body ++ [lastv]).

(* casadi.low(v, t): index i of the interval [v_i, v_{i+1}] containing t (clipped to the range) *)
Section Low.
Variable leb : F -> F -> bool.
Fixpoint low_from (v : list F) (t : F) (i : nat) : nat :=
  match v with
  | a :: ((b :: _) as v') => if leb b t then low_from v' t (S i) else i
  | _ => i
  end.
Definition low (v : list F) (t : F) : nat :=
  Nat.min (low_from v t 0) (length v - 2).

(* sampler(expr)(gist, t) for an expression of t, x, z, u *)
Definition sampler_at (L : mlists F) (es : list expr) (t : F) : list F :=
  let time := concat (L_ig L) in
  let k := low (L_cg L) t in
  let i := low time t in
  let tau := t -! nth i time o0 in
  let en := {| e_x := dense_eval (nth i (L_poly L) []) tau;
               e_u := nth k (L_U L) [];
               e_z := dense_eval (nth i (L_polyz L) []) tau;
               e_q := []; e_p := []; e_pc := []; e_pp := []; e_v := []; e_vc := []; e_vp := [];
               e_t := t; e_T := o0; e_t0 := o0; e_DT := o0; e_DTc := o0 |} in
  map (eval0 en) es.
End Low.

End Refine.
