(* Mechanism of rockit/sampling_method.py:416-506 — the one-step maps intg_rk,
   intg_expl_euler, the discrete-time wrapper of Stage._diffeq and the M-fold
   composition loop of discrete_system with its accumulators. *)
From Coq Require Import ZArith QArith List.
From RV Require Import Base.Num Base.Vec Expr.
Import ListNotations.

Section Intg.
Context {F : Type} {OF : Ops F}.

(* the system function of Stage._ode with u and the parameter vector fixed:
   ode and quad right-hand sides as functions of (x, t) *)
Record sysfun : Type := mkSys {
  s_ode : list F -> F -> list F;
  s_quad : list F -> F -> list F }.

(* the system function of Stage._diffeq: (x, t0, DT, DT_control) -> next, quad *)
Record nextfun : Type := mkNext {
  n_next : list F -> F -> F -> F -> list F;
  n_quad : list F -> F -> F -> F -> list F }.

Record step_result : Type := mkStep {
  r_xf : list F;
  r_poly : list (list F);      (* columns of poly_coeff *)
  r_qf : list F;
  r_polyq : list (list F) }.   (* columns of poly_coeff_q *)

Definition o3 : F := of_Z 3.  Definition o4 : F := of_Z 4.
Definition o6 : F := of_Z 6.  Definition o24 : F := of_Z 24.

(* sampling_method.py:470-494 *)
Definition intg_rk (f : sysfun) (X : list F) (t0 DT DTc : F) : step_result :=
  let half := DT /! o2 in
  let k1 := s_ode f X t0 in
  let q1 := s_quad f X t0 in
  let x2 := vadd X (vscale half k1) in
  let k2 := s_ode f x2 (t0 +! half) in
  let q2 := s_quad f x2 (t0 +! half) in
  let x3 := vadd X (vscale half k2) in
  let k3 := s_ode f x3 (t0 +! half) in
  let q3 := s_quad f x3 (t0 +! half) in
  let x4 := vadd X (vscale DT k3) in
  let k4 := s_ode f x4 (t0 +! DT) in
  let q4 := s_quad f x4 (t0 +! DT) in
  let dense (a1 a2 a3 a4 : list F) : list (list F) :=
    [ a1;
      vdivs (vscale (o2 /! DT) (vsub a2 a1)) o2;
      vdivs (vscale (o4 /! opow DT 2) (vsub a3 a2)) o6;
      vdivs (vdivs (vscale o4 (vadd (vsub a4 (vscale o2 a3)) a1)) (opow DT 3)) o24 ] in
  let comb (a1 a2 a3 a4 : list F) : list F :=
    vscale (DT /! o6) (vadd (vadd (vadd a1 (vscale o2 a2)) (vscale o2 a3)) a4) in
  {| r_xf := vadd X (comb k1 k2 k3 k4);
     r_poly := X :: dense k1 k2 k3 k4;
     r_qf := comb q1 q2 q3 q4;
     r_polyq := dense q1 q2 q3 q4 |}.

(* sampling_method.py:496-506 *)
Definition intg_expl_euler (f : sysfun) (X : list F) (t0 DT DTc : F) : step_result :=
  let k := s_ode f X t0 in
  let q := s_quad f X t0 in
  {| r_xf := vadd X (vscale DT k);
     r_poly := [X; k];
     r_qf := vscale DT q;
     r_polyq := [q] |}.

(* stage.py:1198-1217: the update rule itself is the step map *)
Definition intg_next (g : nextfun) (X : list F) (t0 DT DTc : F) : step_result :=
  {| r_xf := n_next g X t0 DT DTc; r_poly := [];
     r_qf := n_quad g X t0 DT DTc; r_polyq := [] |}.

(* sampling_method.py:416-468: the loop state *)
Record ds_state : Type := mkDs {
  ds_X : list (list F);          (* X, in order; X[-1] is the current state *)
  ds_t : F;                      (* t0_local *)
  ds_quad : list F;              (* quad *)
  ds_Q : list (list F);          (* Q *)
  ds_poly : list (list (list F));
  ds_polyq : list (list (list F)) }.

Definition ds_step (step : list F -> F -> F -> F -> step_result) (x0 : list F)
           (DT DTc : F) (s : ds_state) : ds_state :=
  let r := step (last (ds_X s) x0) (ds_t s) DT DTc in
  let quad' := vadd (ds_quad s) (r_qf r) in
  {| ds_X := ds_X s ++ [r_xf r];
     ds_t := ds_t s +! DT;
     ds_quad := quad';
     ds_Q := ds_Q s ++ [quad'];
     ds_poly := ds_poly s ++ [r_poly r];
     ds_polyq := ds_polyq s ++ [r_polyq r] |}.

Definition ds_init (x0 : list F) (t0 : F) (nq : nat) : ds_state :=
  {| ds_X := [x0]; ds_t := t0; ds_quad := vzero nq; ds_Q := [];
     ds_poly := []; ds_polyq := [] |}.

(* F(x0, u, T, t0, p): T is the control-interval length, DT = T/M *)
Definition discrete_system (step : list F -> F -> F -> F -> step_result)
           (M nq : nat) (x0 : list F) (T t0 : F) : ds_state :=
  Nat.iter M (ds_step step x0 (T /! of_nat M) T) (ds_init x0 t0 nq).

Definition ds_xf (x0 : list F) (s : ds_state) : list F := last (ds_X s) x0.

End Intg.
Arguments sysfun F : clear implicits.
Arguments nextfun F : clear implicits.
Arguments step_result F : clear implicits.
Arguments ds_state F : clear implicits.
