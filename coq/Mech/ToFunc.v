(* Mechanism of to_function (direct_method.py:201-202, direct_collocation.py:324-371): the returned
   function hands its argument values to the solver as parameter values / initial values of the
   listed quantities; every other quantity keeps its current starting value.  Under
   DirectCollocation, when node states are an argument but the helper states are not, the helper
   states of interval k are initialised with the node-k column (Xc_vars0 = repmat(x_k)). *)
From Coq Require Import ZArith QArith List Bool.
From RV Require Import Base.Num Base.PyList Base.Vec Expr Ocp Rows Mech.Grid Mech.Initial.
Import ListNotations.
Local Open Scope nat_scope.

(* an initial-value argument: a symbol (kind, slots) with one column of values per node / interval *)
Record tfarg := mkTfArg { ta_kind : gkind; ta_slot : nat; ta_len : nat; ta_cols : list (list Q) }.

Definition call_of (a : tfarg) : gcall :=
  mkCall (ta_kind a) (ta_slot a) (ta_len a) (GFcols (ta_cols a)).

Section ToFunc.
Context {F : Type} {OF : Ops F}.

(* value an argument list assigns to slot s of kind kd at column k; dflt when not listed *)
Definition arg_value (args : list tfarg) (kd : gkind) (s k : nat) (dflt : F) : F :=
  match last_call (map call_of args) kd s None with
  | Some c => guess_value c (s - gc_slot c) k o0
  | None => dflt
  end.

(* the imperative pipeline: the same values assigned with set_initial after the current calls *)
Definition pipeline_start (oc : ocp) (nv nvc nvp : nat) (calls : list gcall) (pvals : list Q)
           (args : list tfarg) : start_point F :=
  start_values oc nv nvc nvp (calls ++ map call_of args) pvals.

(* to_function: listed quantities take the argument columns, the others their current start;
   helper states and integrator-point states of interval k take what is listed for node k *)
Definition tf_start (oc : ocp) (nv nvc nvp : nat) (calls : list gcall) (pvals : list Q)
           (args : list tfarg) : start_point F :=
  let base := @start_values F OF oc nv nvc nvp calls pvals in
  let me := o_method oc in
  let N := m_N me in let M := m_M me in
  let d := length (m_tau me) in
  let getc (l : list (list F)) k s := nth s (nth k l []) o0 in
  {| s_X := map (fun k => slots (o_nx oc) (fun s => arg_value args GX s k (getc (s_X base) k s)))
                (seq 0 (match m_kind me with SS => 1 | _ => S N end));
     s_U := map (fun k => slots (o_nu oc) (fun s => arg_value args GU s k (getc (s_U base) k s))) (seq 0 N);
     s_V := slots nv (fun s => arg_value args GV s 0 (nth s (s_V base) o0));
     s_VC := map (fun k => slots nvc (fun s => arg_value args GVC s k (getc (s_VC base) k s))) (seq 0 N);
     s_VP := map (fun k => slots nvp (fun s => arg_value args GVP s k (getc (s_VP base) k s))) (seq 0 (S N));
     s_T := s_T base; s_t0 := s_t0 base;
     s_Xi := map (fun k => map (fun i => slots (o_nx oc) (fun s =>
                    arg_value args GX s k (nth s (nth (i - 1) (nth k (s_Xi base) []) []) o0)))
                    (seq 1 (M - 1))) (seq 0 N);
     s_Xc := map (fun k => map (fun i => map (fun j => slots (o_nx oc) (fun s =>
                    arg_value args GX s k (nth s (nth j (nth i (nth k (s_Xc base) []) []) []) o0)))
                    (seq 0 d)) (seq 0 M)) (seq 0 N);
     s_Zc := map (fun k => map (fun i => map (fun j => slots (o_nz oc) (fun s =>
                    arg_value args GZ s k (nth s (nth j (nth i (nth k (s_Zc base) []) []) []) o0)))
                    (seq 0 d)) (seq 0 M)) (seq 0 N);
     s_t0loc := s_t0loc base; s_Tloc := s_Tloc base |}.

(* parameter-value arguments: table of (slot, value), last wins, others keep their value *)
Fixpoint pvals_after (pvals : list Q) (pargs : list (nat * Q)) : list Q :=
  match pargs with
  | [] => pvals
  | (i, v) :: rest => pvals_after (map (fun jk => if Nat.eqb (fst jk) i then v else snd jk)
                                        (combine (seq 0 (length pvals)) pvals)) rest
  end.

(* the solver is an oracle: both paths hand it an NLP, a starting point and parameter values *)
Definition to_function_result {NLP SOL} (solve : NLP -> start_point F -> list Q -> SOL) (results : SOL -> list F)
           (nlp : NLP) (oc : ocp) nv nvc nvp calls pvals (args : list tfarg) (pargs : list (nat * Q)) : list F :=
  results (solve nlp (tf_start oc nv nvc nvp calls (pvals_after pvals pargs) args) (pvals_after pvals pargs)).

Definition pipeline_result {NLP SOL} (solve : NLP -> start_point F -> list Q -> SOL) (results : SOL -> list F)
           (nlp : NLP) (oc : ocp) nv nvc nvp calls pvals (args : list tfarg) (pargs : list (nat * Q)) : list F :=
  results (solve nlp (pipeline_start oc nv nvc nvp calls (pvals_after pvals pargs) args) (pvals_after pvals pargs)).

End ToFunc.
