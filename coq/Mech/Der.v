(* Mechanism of Stage.der (stage.py:657-670): a forward-mode directional derivative (CasADi jtimes)
   of the expression with seed [ode; 1] on [x; t]; every other symbol is inert. *)
From Coq Require Import ZArith QArith List.
From RV Require Import Base.Num Expr.
Import ListNotations.

Fixpoint tder (ode : list expr) (e : expr) : expr :=
  match e with
  | EC _ => EC 0
  | ES (SX i) => nth i ode (EC 0)
  | ES St => EC 1
  | ES _ => EC 0
  | EAdd a b => EAdd (tder ode a) (tder ode b)
  | ESub a b => ESub (tder ode a) (tder ode b)
  | EMul a b => EAdd (EMul (tder ode a) b) (EMul a (tder ode b))
  | EDiv a b => EDiv (ESub (EMul (tder ode a) b) (EMul a (tder ode b))) (EMul b b)
  | ENeg a => ENeg (tder ode a)
  | EPow a n => match n with
                | O => EC 0
                | S m => EMul (EMul (EC (inject_Z (Z.of_nat n))) (EPow a m)) (tder ode a)
                end
  | EOff n a => EC 0
  end.

(* partial derivative with respect to one symbol *)
Fixpoint pder (s : sym) (e : expr) : expr :=
  match e with
  | EC _ => EC 0
  | ES s' => if sym_eqb s s' then EC 1 else EC 0
  | EAdd a b => EAdd (pder s a) (pder s b)
  | ESub a b => ESub (pder s a) (pder s b)
  | EMul a b => EAdd (EMul (pder s a) b) (EMul a (pder s b))
  | EDiv a b => EDiv (ESub (EMul (pder s a) b) (EMul a (pder s b))) (EMul b b)
  | ENeg a => ENeg (pder s a)
  | EPow a n => match n with
                | O => EC 0
                | S m => EMul (EMul (EC (inject_Z (Z.of_nat n))) (EPow a m)) (pder s a)
                end
  | EOff n a => EC 0
  end.

(* the gradient form: d/dt e = partial_t e + sum_i partial_{x_i} e * f_i *)
Definition grad_form (ode : list expr) (e : expr) : expr :=
  fold_left (fun acc i => EAdd acc (EMul (pder (SX i) e) (nth i ode (EC 0))))
            (seq 0 (length ode)) (pder St e).

(* control(order = k): a chain of k states whose derivatives walk down to the raw control;
   der of member j (0 = the returned symbol) is member j+1, the last one is the control *)
Definition chain_der (k j : nat) : option nat := if Nat.ltb j k then Some (S j) else None.
