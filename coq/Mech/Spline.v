(* B-spline kernels of rockit/splines/micro_spline.py, as the Cox-de Boor recursion on clamped
   knots, and the coefficient formulas of bspline_derivative / get_greville_points. *)
From Coq Require Import ZArith QArith List Bool.
From RV Require Import Base.Num Base.Vec.
Import ListNotations.

Section Spline.
Local Open Scope nat_scope.
Context {F : Type} {OF : Ops F}.

(* knots = [first]*d + xi + [last]*d *)
Definition clamped (xi : list F) (d : nat) : list F :=
  repeat (nth 0 xi o0) d ++ xi ++ repeat (last xi o0) d.

(* B_{i,e}(x) for x in the knot interval j (k_j <= x < k_{j+1}, or its right end point):
   Cox-de Boor; a basis function vanishes outside its support [j-e, j], where no 0/0 can occur *)
Fixpoint cdb (k : nat -> F) (j : nat) (x : F) (e i : nat) : F :=
  match e with
  | O => if Nat.eqb i j then o1 else o0
  | S e' =>
      let t1 := if Nat.leb (j - e') i && Nat.leb i j
                then (x -! k i) /! (k (i + e) -! k i) *! cdb k j x e' i else o0 in
      let t2 := if Nat.leb (j - e') (S i) && Nat.leb (S i) j
                then (k (S (i + e)) -! x) /! (k (S (i + e)) -! k (S i)) *! cdb k j x e' (S i) else o0 in
      t1 +! t2
  end.

(* derivative in x of B_{i,e} on the knot interval j: the product rule applied to the recursion above *)
Fixpoint dcdb (k : nat -> F) (j : nat) (x : F) (e i : nat) : F :=
  match e with
  | O => o0
  | S e' =>
      let t1 := if Nat.leb (j - e') i && Nat.leb i j
                then o1 /! (k (i + e) -! k i) *! cdb k j x e' i
                     +! (x -! k i) /! (k (i + e) -! k i) *! dcdb k j x e' i else o0 in
      let t2 := if Nat.leb (j - e') (S i) && Nat.leb (S i) j
                then oopp o1 /! (k (S (i + e)) -! k (S i)) *! cdb k j x e' (S i)
                     +! (k (S (i + e)) -! x) /! (k (S (i + e)) -! k (S i)) *! dcdb k j x e' (S i) else o0 in
      t1 +! t2
  end.

Definition knot_fun (knots : list F) : nat -> F := fun i => nth i knots o0.

(* values of all basis functions of degree d at x in interval j *)
Definition basis_values (knots : list F) (d j : nat) (x : F) : list F :=
  map (fun i => cdb (knot_fun knots) j x d i) (seq 0 (length knots - d - 1)).

(* eval_on_knots(xi, d, subgrid=taus): for each knot span i the basis at xi_i (when include_edges) and
   at the sub-grid points xi_i*(1-tau) + tau*xi_{i+1}; the last knot uses the last span *)
Definition eval_on_knots (xi : list F) (d : nat) (taus : list F) (include_edges : bool)
  : list F * list (list F) :=
  let knots := clamped xi d in
  let N := length xi - 1 in
  let pts := flat_map (fun i =>
               (if include_edges then [(nth i xi o0, Nat.min (i + d) (length knots - d - 2))] else [])
               ++ (if Nat.ltb i N
                   then map (fun tau => (nth i xi o0 *! (o1 -! tau) +! tau *! nth (S i) xi o0, i + d)) taus
                   else [])) (seq 0 (S N)) in
  (map fst pts, map (fun p => basis_values knots d (snd p) (fst p)) pts).

(* value of the spline sum_i c_i B_i *)
Definition spline_value (c : list F) (b : list F) : F := vdot c b.

(* bspline_derivative(c, xi, d): coefficients of the derivative (degree d-1, same xi) *)
Definition bspline_derivative (c : list F) (xi : list F) (d : nat) : list F :=
  let K := clamped xi d in
  map (fun i => of_nat d *! (nth (S i) c o0 -! nth i c o0) /! (nth (S (i + d)) K o0 -! nth (S i) K o0))
      (seq 0 (length c - 1)).

(* get_greville_points(xi, d): averages of d consecutive clamped knots; midpoints for d = 0 *)
Definition greville (xi : list F) (d : nat) : list F :=
  match d with
  | O => map (fun i => (nth (S i) xi o0 +! nth i xi o0) /! o2) (seq 0 (length xi - 1))
  | _ => let K := clamped xi d in
         map (fun i => osum (map (fun r => nth (S (i + r)) K o0) (seq 0 d)) /! of_nat d)
             (seq 0 (length xi - 1 + d))
  end.

End Spline.
