(* Mechanism of Ocp.save / Ocp.load (ocp.py:285-295): save untranscribes (drops cache and flag) and
   writes the declaration through pickle + CasADi's serializer; load reads a declaration back into
   a fresh, untranscribed OCP.  The byte-level codec is an oracle (section variables ser/deser). *)
From Coq Require Import List Bool.
From RV Require Import Mech.History.
Import ListNotations.

Section Persist.
Variables (Spec NLP Bytes : Type).
Variable ser : Spec -> Bytes.
Variable deser : Bytes -> option Spec.

Definition save (s : hstate Spec NLP) : hstate Spec NLP * Bytes :=
  (mkH Spec NLP (h_spec Spec NLP s) false None, ser (h_spec Spec NLP s)).

Definition load (b : Bytes) : option (hstate Spec NLP) := option_map (hinit Spec NLP) (deser b).

End Persist.
