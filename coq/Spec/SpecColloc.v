(* Reference semantics of collocation: the polynomial through the interval start state and
   the helper states, on normalised local time s in [0,1]. *)
From Coq Require Import ZArith List.
From RV Require Import Base.Num Base.Vec Base.Poly.
Import ListNotations.

Section SpecColloc.
Context {F : Type} {OF : Ops F}.

(* nodes 0, tau_1..tau_d; values v_0 (start state), v_1..v_d (helper states) *)
Definition basis_at (tau : list F) (s : F) : list F :=
  map (fun r => polyval (lagrange (o0 :: tau) r) s) (seq 0 (S (length tau))).
Definition dbasis_at (tau : list F) (s : F) : list F :=
  map (fun r => polyval (pderiv (lagrange (o0 :: tau) r)) s) (seq 0 (S (length tau))).

(* Pi(s) = sum_r l_r(s) v_r   and its derivative in s *)
Definition interp (tau : list F) (vs : list (list F)) (s : F) : list F := vlincomb (basis_at tau s) vs.
Definition dinterp (tau : list F) (vs : list (list F)) (s : F) : list F := vlincomb (dbasis_at tau s) vs.

End SpecColloc.
