(* Reference semantics of explicit one-step schemes: explicit Runge-Kutta
   methods given by a Butcher tableau, and M-fold composition with the j-th
   step taken at the absolute time t0 + j*h. *)
From Coq Require Import ZArith List.
From RV Require Import Base.Num Base.Vec.
Import ListNotations.

Section SpecDyn.
Context {F : Type} {OF : Ops F}.

Record tableau : Type := mkTableau {
  tb_c : list F;
  tb_A : list (list F);      (* row i: coefficients a_{i,0..i-1} *)
  tb_b : list F }.

(* stage points (X_i, t_i) of an explicit RK step of size h from (t, x) *)
Fixpoint erk_points (f : list F -> F -> list F) (h t : F) (x : list F)
         (cs : list F) (As : list (list F))
         (ks : list (list F)) (pts : list (list F * F)) : list (list F * F) :=
  match cs, As with
  | c :: cs', a :: As' =>
      let xi := vadd x (vscale h (vlincomb a ks)) in
      let ti := t +! c *! h in
      erk_points f h t x cs' As' (ks ++ [f xi ti]) (pts ++ [(xi, ti)])
  | _, _ => pts
  end.

Definition erk_stage_points (tb : tableau) f h t x :=
  erk_points f h t x (tb_c tb) (tb_A tb) [] [].

(* x + h * sum_i b_i f(X_i, t_i) *)
Definition erk_step (tb : tableau) (f : list F -> F -> list F) (h t : F) (x : list F) : list F :=
  vadd x (vscale h (vlincomb (tb_b tb)
                     (map (fun p => f (fst p) (snd p)) (erk_stage_points tb f h t x)))).

(* the quadrature component of the same scheme applied to the augmented system
   (x, q)' = (f(x,t), g(x,t)): h * sum_i b_i g(X_i, t_i) *)
Definition erk_quad (tb : tableau) (f g : list F -> F -> list F) (h t : F) (x : list F) : list F :=
  vscale h (vlincomb (tb_b tb)
              (map (fun p => g (fst p) (snd p)) (erk_stage_points tb f h t x))).

Definition half : F := o1 /! o2.
Definition third : F := o1 /! of_Z 3.
Definition sixth : F := o1 /! of_Z 6.

(* the classical Runge-Kutta method *)
Definition rk4_tableau : tableau :=
  {| tb_c := [o0; half; half; o1];
     tb_A := [[]; [half]; [o0; half]; [o0; o0; o1]];
     tb_b := [sixth; third; third; sixth] |}.

Definition euler_tableau : tableau :=
  {| tb_c := [o0]; tb_A := [[]]; tb_b := [o1] |}.

(* state after j steps of the one-step map Phi(t, x), step j (from 0) at t0 + j*h *)
Fixpoint iter_steps (Phi : F -> list F -> list F) (t0 h : F) (j : nat) (x0 : list F) : list F :=
  match j with
  | O => x0
  | S j' => Phi (t0 +! of_nat j' *! h) (iter_steps Phi t0 h j' x0)
  end.

(* accumulated quadrature after j steps *)
Fixpoint iter_quad (Phi : F -> list F -> list F) (Psi : F -> list F -> list F)
         (t0 h : F) (j : nat) (x0 : list F) (q0 : list F) : list F :=
  match j with
  | O => q0
  | S j' => vadd (iter_quad Phi Psi t0 h j' x0 q0)
                 (Psi (t0 +! of_nat j' *! h) (iter_steps Phi t0 h j' x0))
  end.

End SpecDyn.
Arguments tableau F : clear implicits.
