(* Reference semantics of constraint placement on the control grid: which nodes
   carry an instance of a declared constraint, and in which environment it is
   evaluated.  Only natural-number node indices 0..N appear here; rockit's
   Python indices (-1 for the final node, list overflow) live in Mech/Sampling.v. *)
From Coq Require Import ZArith QArith List Bool.
From RV Require Import Base.Num Base.PyList Base.Vec Expr Ocp Rows Mech.Grid Mech.Sampling.
Import ListNotations.
Local Open Scope nat_scope.

Section SpecPlace.
Context {F : Type} {OF : Ops F}.

(* the control interval whose control and per-interval values apply at node k:
   the final node takes the last interval's *)
Definition node_iv (N k : nat) : nat := Nat.min k (N - 1).

Definition spec_env_node (L : mlists F) (k : nat) : env F :=
  let j := node_iv (L_N L) k in
  let len := nth (S j) (L_cg L) o0 -! nth j (L_cg L) o0 in
  {| e_x := nth k (L_X L) [];
     e_u := nth j (L_U L) [];
     e_z := nth k (L_Z L) [];
     e_q := nth k (L_Q L) [];
     e_p := L_P L; e_pc := nth j (L_PC L) []; e_pp := nth k (L_PP L) [];
     e_v := L_V L; e_vc := nth j (L_VC L) []; e_vp := nth k (L_VP L) [];
     e_t := nth k (L_cg L) o0;
     e_T := L_T L; e_t0 := L_t0 L;
     e_DT := len /! of_nat (L_M L);      (* integrator step of that interval *)
     e_DTc := len |}.                    (* its length *)

(* an operand shifted by n whole intervals at node k lives at node k+n, which must
   lie inside the horizon 0..N *)
Definition shift_ok (N k : nat) (n : Z) : bool :=
  (0 <=? Z.of_nat k + n)%Z && (Z.of_nat k + n <=? Z.of_nat N)%Z.

Definition spec_eval_node (L : mlists F) (k : nat) (e : expr) : F :=
  eval (spec_env_node L k) (fun n => spec_env_node L (Z.to_nat (Z.of_nat k + n))) e.

Definition node_included (N : nat) (c : constr) (k : nat) : bool :=
  negb (Nat.eqb k 0 && negb (c_first c)) && negb (Nat.eqb k N && negb (c_last c)).

(* the instance of c at node k, if it exists *)
Definition spec_rows_node (L : mlists F) (c : constr) (k : nat) : list (row F) :=
  if node_included (L_N L) c k && forallb (shift_ok (L_N L) k) (c_goffs c)
  then [crow KPath c (if Nat.eqb k (L_N L) then (-1)%Z else Z.of_nat k)
             (spec_eval_node L k (c_lhs c)) (spec_eval_node L k (c_rhs c))]
  else [].

(* all instances of a control-grid constraint: one per node 0..N *)
Definition spec_control_rows (L : mlists F) (c : constr) : list (row F) :=
  flat_map (spec_rows_node L c) (seq 0 (S (L_N L))).

(* well-formedness of the method lists *)
Record wf_lists (L : mlists F) : Prop := mkWf {
  wf_N : 0 < L_N L; wf_M : 0 < L_M L;
  wf_X : length (L_X L) = S (L_N L);
  wf_U : length (L_U L) = L_N L;
  wf_Z : length (L_Z L) = S (L_N L);
  wf_Q : length (L_Q L) = S (L_N L);
  wf_PC : length (L_PC L) = L_N L;
  wf_PP : length (L_PP L) = S (L_N L);
  wf_VC : length (L_VC L) = L_N L;
  wf_VP : length (L_VP L) = S (L_N L);
  wf_cg : length (L_cg L) = S (L_N L);
  wf_ig : L_ig L = integrator_grid (L_cg L) (L_N L) (L_M L) }.

End SpecPlace.
