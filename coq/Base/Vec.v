(* Vectors as lists over the abstract carrier; binary operations pad the
   shorter operand with zeros so that [nth] distributes unconditionally. *)
From Coq Require Import ZArith List.
From RV Require Import Base.Num.
Import ListNotations.

Section Vec.
Context {F : Type} {OF : Ops F}.

Definition vnth (a : list F) (i : nat) : F := nth i a o0.

Fixpoint vadd (a b : list F) : list F :=
  match a, b with
  | [], _ => b
  | _, [] => a
  | x :: a', y :: b' => (x +! y) :: vadd a' b'
  end.

Fixpoint vsub (a b : list F) : list F :=
  match a, b with
  | [], _ => map oopp b
  | _, [] => a
  | x :: a', y :: b' => (x -! y) :: vsub a' b'
  end.

Definition vscale (c : F) (a : list F) : list F := map (fun x => c *! x) a.
Definition vdivs (a : list F) (c : F) : list F := map (fun x => x /! c) a.
Definition vzero (n : nat) : list F := repeat o0 n.

(* sum_i c_i * v_i  (left fold, starting from the zero vector of no length) *)
Fixpoint vlincomb (cs : list F) (vs : list (list F)) : list F :=
  match cs, vs with
  | c :: cs', v :: vs' => vadd (vscale c v) (vlincomb cs' vs')
  | _, _ => []
  end.

Definition vdot (a b : list F) : F := osum (map (fun p => fst p *! snd p) (combine a b)).

End Vec.
