(* Python list indexing as rockit uses it: negative indices count from the
   end, out-of-range raises IndexError (= None). *)
From Coq Require Import ZArith List Lia.
Import ListNotations.

Section PyList.
Context {A : Type}.

Definition pyget (l : list A) (k : Z) : option A :=
  let n := Z.of_nat (length l) in
  if (0 <=? k)%Z then (if (k <? n)%Z then nth_error l (Z.to_nat k) else None)
  else (if (- n <=? k)%Z then nth_error l (Z.to_nat (n + k)) else None).

(* total variant with a default, used where the index has been validated *)
Definition pygetd (d : A) (l : list A) (k : Z) : A :=
  match pyget l k with Some a => a | None => d end.

(* l[a:b] for 0 <= a <= b *)
Definition pyslice (l : list A) (a b : nat) : list A := firstn (b - a) (skipn a l).

Definition droplast (l : list A) : list A := removelast l.

End PyList.

(* range(n) *)
Definition pyrange (n : nat) : list nat := seq 0 n.
Definition zrange (n : nat) : list Z := map Z.of_nat (seq 0 n).
