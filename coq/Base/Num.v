(* Abstract number structure used by the whole model.

   The model (Mech/ *.v) is written once, polymorphically in a carrier [F]
   with operations [Ops F].  Theorems are proved for every [F] whose
   operations satisfy [field_theory] (plus characteristic 0 where numerals
   are divided by); the correspondence check runs the very same definitions
   at the instance [FloatOps] (binary64, Run/..) and, for cross-checking,
   at [QcOps] (exact rationals). *)
From Coq Require Import ZArith QArith List Field.
Import ListNotations.

Class Ops (F : Type) := mkOps {
  o0 : F; o1 : F;
  oadd : F -> F -> F; omul : F -> F -> F; osub : F -> F -> F;
  oopp : F -> F; odiv : F -> F -> F; oinv : F -> F }.

Infix "+!" := oadd (at level 50, left associativity).
Infix "-!" := osub (at level 50, left associativity).
Infix "*!" := omul (at level 40, left associativity).
Infix "/!" := odiv (at level 40, left associativity).

Definition FieldLaws {F} (O : Ops F) : Prop :=
  field_theory o0 o1 oadd omul osub oopp odiv oinv (@eq F).

Section Num.
Context {F : Type} {OF : Ops F}.

Definition o2 : F := o1 +! o1.

Fixpoint of_pos (p : positive) : F :=
  match p with
  | xH => o1
  | xO p' => o2 *! of_pos p'
  | xI p' => o1 +! o2 *! of_pos p'
  end.

Definition of_Z (z : Z) : F :=
  match z with
  | Z0 => o0
  | Zpos p => of_pos p
  | Zneg p => oopp (of_pos p)
  end.

Definition of_nat (n : nat) : F := of_Z (Z.of_nat n).

Definition of_Q (q : Q) : F := of_Z (Qnum q) /! of_pos (Qden q).

Fixpoint opow (x : F) (n : nat) : F :=
  match n with
  | O => o1
  | S n' => x *! opow x n'
  end.

Definition osum (l : list F) : F := fold_left oadd l o0.

(* characteristic 0: needed wherever a numeral is a denominator *)
Definition Char0 : Prop := forall p : positive, of_pos p <> o0.

End Num.
