(* Polynomials as coefficient lists (constant term first), as numpy.poly1d is used by
   direct_collocation.py and CasADi's collocation_coeff. *)
From Coq Require Import ZArith List.
From RV Require Import Base.Num Base.Vec.
Import ListNotations.

Section Poly.
Context {F : Type} {OF : Ops F}.

Fixpoint polyval (p : list F) (x : F) : F :=
  match p with
  | [] => o0
  | c :: p' => c +! x *! polyval p' x
  end.

Definition padd (p q : list F) : list F := vadd p q.
Definition pscale (c : F) (p : list F) : list F := vscale c p.

Fixpoint pmul (p q : list F) : list F :=
  match p with
  | [] => []
  | c :: p' => padd (pscale c q) (o0 :: pmul p' q)
  end.

Fixpoint pderiv_from (i : nat) (p : list F) : list F :=
  match p with
  | [] => []
  | c :: p' => (of_nat i *! c) :: pderiv_from (S i) p'
  end.
Definition pderiv (p : list F) : list F :=
  match p with [] => [] | _ :: p' => pderiv_from 1 p' end.

(* integral over [0,1] *)
Fixpoint pint01_from (i : nat) (p : list F) : F :=
  match p with
  | [] => o0
  | c :: p' => c /! of_nat i +! pint01_from (S i) p'
  end.
Definition pint01 (p : list F) : F := pint01_from 1 p.

(* Lagrange basis polynomial j over the given nodes *)
Definition lagrange (nodes : list F) (j : nat) : list F :=
  let tj := nth j nodes o0 in
  fold_left (fun acc r =>
               if Nat.eqb r j then acc
               else let tr := nth r nodes o0 in
                    pmul acc [oopp tr /! (tj -! tr); o1 /! (tj -! tr)])
            (seq 0 (length nodes)) [o1].

End Poly.
