(* Tie between the Gallina text GENERATED on this run from DirectMethod.fill_placeholders_T / fill_placeholders_t0
   (rockit/direct_method.py: what a FreeTime declaration turns into) and the model: Mech/Shooting.v freeT_rows (the
   single row T >= 0 for a free horizon, nothing for any other horizon and nothing for a free t0) and Mech/Initial.v
   horizon_guess (the variable starts at the declared guess unless an explicit guess was given). *)
From Coq Require Import ZArith QArith List Bool.
From RV Require Import Base.Num Base.PyList Base.Vec Expr Ocp Rows Mech.Grid Mech.Intg Mech.Sampling Mech.Shooting Mech.Initial
     Gen.FreeGen.
Import ListNotations.

Section Tie.
Context {F : Type} {OF : Ops F}.

Lemma tie_freeT_rows (oc : ocp) (pt : point F) :
  freeT_rows oc pt = match o_T oc with HFree _ => gen_freeT_row (T_of oc pt) | _ => [] end.
Proof. unfold freeT_rows, gen_freeT_row. destruct (o_T oc); reflexivity. Qed.

(* a free start time adds no row: the model has no counterpart of freeT_rows for t0 *)
Lemma tie_freet0_rows (t0 : F) : gen_freet0_row t0 = [].
Proof. reflexivity. Qed.

(* without an explicit guess the free horizon starts at the declared guess *)
Lemma tie_free_guess (g : Q) (kd : gkind) (pvals : list Q) :
  @horizon_guess F OF (HFree g) [] kd pvals = gen_free_guess g.
Proof. reflexivity. Qed.

End Tie.

Print Assumptions tie_freeT_rows.
Print Assumptions tie_freet0_rows.
Print Assumptions tie_free_guess.
