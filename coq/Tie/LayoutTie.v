(* Two cooperating sites of rockit: Stage.p / Stage.v fix the order of the SYMBOLS in the parameter input of the system
   function (vertcat(stage.p, stage.v): global, per-interval, per-interval+last, bspline — parameters, then variables),
   SamplingMethod.get_p_sys supplies the VALUES for interval k.  The model binds every symbol to its value by kind
   (Mech/Shooting.v sys_env, Mech/Colloc.v root_env), which is right exactly when the two orders agree. *)
From Coq Require Import List.
From RV Require Import Gen.LayoutGen.
Import ListNotations.

Lemma tie_layout_sites_agree : gen_symbol_layout = gen_value_layout.
Proof. reflexivity. Qed.

(* the order itself, as the model's documentation of get_p_sys states it *)
Lemma tie_layout_order :
  gen_value_layout = [(LParam, LGlobal); (LParam, LControl); (LParam, LControlPlus); (LParam, LBspline);
                      (LVar, LGlobal); (LVar, LControl); (LVar, LControlPlus); (LVar, LBspline)].
Proof. reflexivity. Qed.

Print Assumptions tie_layout_sites_agree.
Print Assumptions tie_layout_order.
