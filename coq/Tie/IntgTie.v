(* Tie between the Gallina text GENERATED from rockit/sampling_method.py on this run (Gen/IntgGen.v) and the
   hand-written model Mech/Intg.v about which the theorems of C01, C03, C05, C08 are stated: for every
   field, system function, state, time and step the generated step maps, the generated accumulator loop
   and the generated rescaling of intg_builtin ARE the model's.  Compiled on every run after the
   regeneration; a change of the source that alters these kernels breaks one of the lemmas below. *)
From Coq Require Import ZArith QArith List Field.
From RV Require Import Base.Num Base.Vec Mech.Intg Proofs.NumLemmas Proofs.VecLemmas Gen.IntgGen.
Import ListNotations.

Section Tie.
Context {F : Type} {OF : Ops F}.
Hypothesis Fth : field_theory o0 o1 oadd omul osub oopp odiv oinv (@eq F).
Hypothesis Ch0 : @Char0 F OF.
Add Field TieField : Fth.

(* scalar leaves: numerals written differently in source and model *)
(* numerals are non-zero in characteristic 0, in the normal form field asks for *)
Lemma nz2 : o1 +! o1 <> (o0 : F).
Proof. intro H. apply (Ch0 2%positive). cbn [of_pos]. unfold o2. rewrite H. ring. Qed.
Lemma nz3 : o1 +! (o1 +! o1) <> (o0 : F).
Proof. intro H. apply (Ch0 3%positive). cbn [of_pos]. unfold o2. rewrite <- H. ring. Qed.

Ltac nz := repeat (apply (mul_nz Fth)); first [ assumption | exact nz2 | exact nz3 ].

Ltac leaf :=
  try reflexivity;
  unfold o3, o4, o6, o24, of_Q, of_Z; cbn [Qnum Qden of_pos]; unfold o2;
  try ring;
  try (field; repeat split; nz).

(* descend through identical vector / list / record structure; a goal between scalars is a field identity *)
Ltac same :=
  repeat match goal with
  | |- ?a = ?a => reflexivity
  | |- @eq F _ _ => first [ solve [leaf] | progress f_equal ]   (* e.g. a / DT = b / DT without DT <> 0: compare a and b *)
  | |- @eq (list F) _ _ => progress f_equal
  | |- @eq (list (list F)) _ _ => progress f_equal
  | |- @eq (step_result F) _ _ => progress f_equal
  | |- @eq (ds_state F) _ _ => progress f_equal
  | |- @eq (list (list (list F))) _ _ => progress f_equal
  end.

Lemma tie_intg_rk (f : sysfun F) (X : list F) (t0 DT DTc : F) :
  gen_intg_rk f X t0 DT DTc = intg_rk f X t0 DT DTc.
Proof. unfold gen_intg_rk, intg_rk. cbv zeta. same. Qed.

Lemma tie_intg_expl_euler (f : sysfun F) (X : list F) (t0 DT DTc : F) :
  gen_intg_expl_euler f X t0 DT DTc = intg_expl_euler f X t0 DT DTc.
Proof. unfold gen_intg_expl_euler, intg_expl_euler. cbv zeta. same. Qed.

Lemma tie_ds_step step (x0 : list F) (DT T : F) (s : ds_state F) :
  gen_ds_step step x0 DT T s = ds_step step x0 DT T s.
Proof. unfold gen_ds_step, ds_step. cbv zeta. same. Qed.

Lemma tie_discrete_system step (M nq : nat) (x0 : list F) (T t0 : F) :
  gen_discrete_system step M nq x0 T t0 = discrete_system step M nq x0 T t0.
Proof.
  unfold gen_discrete_system, discrete_system, ds_init.
  generalize (T /! of_nat M). intro DT.
  induction M as [|k IHk]; [reflexivity|].
  change (Nat.iter (S k)) with (fun (f : ds_state F -> ds_state F) x => f (Nat.iter k f x)). cbv beta. rewrite IHk. apply tie_ds_step.
Qed.

(* intg_builtin: the integrator is given  y' = DT * f(y, t0 + s*DT),  q' = DT * quad,  0 = alg
   — the problem about which C03_builtin_rescaling / C03_builtin_quadrature_rescaling are stated *)
Lemma tie_builtin (t0 s DT : F) :
  gen_builtin_time t0 s DT = t0 +! s *! DT /\
  gen_builtin_ode_scale DT = DT /\ gen_builtin_quad_scale DT = DT /\ gen_builtin_alg_scale DT = o1.
Proof. unfold gen_builtin_time, gen_builtin_ode_scale, gen_builtin_quad_scale, gen_builtin_alg_scale.
  repeat split; leaf. Qed.

End Tie.

Print Assumptions tie_intg_rk.
Print Assumptions tie_intg_expl_euler.
Print Assumptions tie_discrete_system.
Print Assumptions tie_builtin.
